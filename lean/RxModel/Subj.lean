import RxModel.Core
/-!
# L6 Subjects — Subject, BehaviorSubject, AsyncSubject as one small-step machine

Mirrors `reactivex/subject/subject.py`, `behaviorsubject.py`, `asyncsubject.py`,
`innersubscription.py`, the `Observer` base class (`is_stopped` of the subject itself) and, per
subscribed observer, the `AutoDetachObserver` + `SingleAssignmentDisposable` that
`Observable.subscribe` wraps around the user's callbacks (`set_disposable`, `fail`).

A *history* is a list of top-level calls `sub i | unsub i | next v | error e | completed | dispose`.
Every observer `i` has a reaction script `react i k` (what its user callback does at its k-th
invocation: unsubscribe itself/another observer, subscribe a new observer, dispose the subject) and a
flag `hasErr i` (whether it passed an `on_error` handler; without one `default_error` raises).
Because callbacks re-enter the subject in the middle of a delivery loop, execution is a small-step
machine over an explicit *agenda* (stack of pending tasks): a delivery loop over the snapshot copy
pushes one `deliver` task per snapshot entry; a callback pushes its reaction actions in front.

Conventions about the *user* (same in the Python adapter): one subscription per observer id; `unsub j`
is a no-op while the user holds no handle for `j`; a reaction action's exception is caught by the
callback and recorded (`xlog`); callbacks never emit.

`tr` is a ghost trace (newest event first) used only to state theorems.
-/

namespace Subj

abbrev Id := Nat

inductive Kind where
  | subject | behavior | async
deriving DecidableEq, Repr

/-- What a user callback may do (besides recording the notification). -/
inductive Action where
  | unsub (j : Id)
  | sub (j : Id)
  | dispose
deriving DecidableEq, Repr

/-- What `_subscribe_core` returned: an `InnerSubscription` or a plain `Disposable()`. -/
inductive Held where
  | inner | noop
deriving DecidableEq, Repr

structure Cfg where
  kind : Kind
  hasErr : Id → Bool
  react : Id → Nat → List Action

/-- Ghost events. -/
inductive Ev (α : Type) where
  | sub (i : Id)                    -- observer appended to `subject.observers`
  | unsub (i : Id)                  -- the user disposed i's subscription handle
  | emit (n : Notif α)              -- the subject accepted a top-level notification
  | recv (i : Id) (n : Notif α)     -- i's AutoDetachObserver invoked its `_on_next/_on_error/_on_completed`
  | disp                            -- subject.dispose()
deriving Repr, DecidableEq

inductive Task (α : Type) where
  | emit (n : Notif α)                        -- top level: subject.on_next / on_error / on_completed
  | act (who : Option Id) (a : Action)        -- top level (`none`) or reaction of observer `who`
  | deliver (i : Id) (n : Notif α)            -- the subject calls ado_i.on_next / on_error / on_completed
  | finish (j : Id) (h : Option Held)         -- `subscribe` of j: assign `_subscribe_core`'s result, hand the handle to the user
  | sadDispose (i : Id)                       -- the `finally: self.dispose()` of a terminal callback
deriving Repr

/-- Subject state, plus per observer id (= per subscription; each id has one pristine
AutoDetachObserver used by its single `subscribe`): the AutoDetachObserver's `is_stopped`
(`adoStopped`), its SingleAssignmentDisposable (`sadDisposed`, `cur`), and the user's side
(`seen` = subscribe attempted, `handle` = holds the returned Disposable, `cbs` = callback
invocations so far, `log` = notifications received). -/
structure St (α : Type) where
  stopped : Bool := false                     -- Observer.is_stopped of the subject
  disposed : Bool := false                    -- Subject.is_disposed
  observers : List Id := []
  exception : Option Err := none
  value : Option α := none                    -- BehaviorSubject.value / AsyncSubject.value
  hasValue : Bool := false                    -- AsyncSubject.has_value
  seen : Id → Bool := fun _ => false
  adoStopped : Id → Bool := fun _ => false
  sadDisposed : Id → Bool := fun _ => false
  cur : Id → Option Held := fun _ => none
  handle : Id → Bool := fun _ => false
  cbs : Id → Nat := fun _ => 0
  log : Id → List (Notif α) := fun _ => []
  raisedNow : Option Err := none              -- exception propagating to the caller of the current top-level call
  xlog : List (Id × Err) := []                -- exceptions caught by reacting callbacks (who, what)
  tr : List (Ev α) := []
  oof : Bool := false                         -- fuel ran out (never in the correspondence runs)

variable {α : Type}

def disposedExn : Err := "DisposedException"

/-- Point update. -/
def upd {β : Type} (f : Id → β) (i : Id) (v : β) : Id → β := fun j => if j = i then v else f j

def raiseTo (who : Option Id) (e : Err) (st : St α) : St α :=
  match who with
  | none => { st with raisedNow := some e }
  | some i => { st with xlog := st.xlog ++ [(i, e)] }

/-- The user callback of observer `i` runs with `n`: record it (its reaction actions are
`reactions`, below). -/
def callback (st : St α) (i : Id) (n : Notif α) : St α :=
  { st with tr := .recv i n :: st.tr, log := upd st.log i (st.log i ++ [n]), cbs := upd st.cbs i (st.cbs i + 1) }

/-- The reaction actions of the callback invocation that is about to happen in state `st`. -/
def reactions (cfg : Cfg) (st : St α) (i : Id) : List (Task α) :=
  (cfg.react i (st.cbs i)).map (Task.act (some i))

/-- `InnerSubscription.dispose` (it is reached at most once per subscription, through the
one-shot SingleAssignmentDisposable, so its `self.observer` is never `None` there). -/
def innerDispose (st : St α) (i : Id) : St α :=
  if st.disposed then st else { st with observers := st.observers.erase i }

/-- `SingleAssignmentDisposable.dispose` of observer i's subscription holder. -/
def sadDispose (st : St α) (i : Id) : St α :=
  if st.sadDisposed i then st
  else
    let st' := { st with sadDisposed := upd st.sadDisposed i true, cur := upd st.cur i none }
    match st.cur i with
    | some .inner => innerDispose st' i
    | _ => st'

/-- `AutoDetachObserver.dispose`. -/
def adoDispose (st : St α) (i : Id) : St α :=
  sadDispose { st with adoStopped := upd st.adoStopped i true } i

/-- `Subject.dispose` (+ the `value = None` of the two subclasses). -/
def subjDispose (st : St α) : St α :=
  { st with disposed := true, observers := [], exception := none, stopped := true, value := none,
            tr := .disp :: st.tr }

/-- `subject.subscribe(callbacks of j)` called by `who`. -/
def doSub (cfg : Cfg) (st : St α) (who : Option Id) (j : Id) : St α × List (Task α) :=
  if st.seen j then (st, [])
  else
    let st := { st with seen := upd st.seen j true }
    if st.disposed then
      -- check_disposed raises inside _subscribe_core; set_disposable: `if not ado.fail(ex): raise`
      let st := { st with adoStopped := upd st.adoStopped j true }
      if cfg.hasErr j then
        (callback st j (.error disposedExn), reactions cfg st j ++ [.finish j none])
      else
        (raiseTo who disposedExn { st with tr := .recv j (.error disposedExn) :: st.tr }, [])
    else if !st.stopped then
      let st := { st with observers := st.observers ++ [j], tr := .sub j :: st.tr }
      match cfg.kind, st.value with
      | .behavior, some v => (st, [.deliver j (.next v), .finish j (some .inner)])
      | _, _ => (st, [.finish j (some .inner)])
    else
      match st.exception with
      | some e =>
        if cfg.hasErr j then (st, [.deliver j (.error e), .finish j (some .noop)])
        else
          -- ado.on_error: is_stopped := True, default_error raises, finally dispose; fail() = False, re-raised
          let st := { st with adoStopped := upd st.adoStopped j true, sadDisposed := upd st.sadDisposed j true,
                              tr := .recv j (.error e) :: st.tr }
          (raiseTo who e st, [])
      | none =>
        match cfg.kind, st.hasValue, st.value with
        | .async, true, some v => (st, [.deliver j (.next v), .deliver j .completed, .finish j (some .noop)])
        | _, _, _ => (st, [.deliver j .completed, .finish j (some .noop)])

/-- `ado_i.on_next / on_error / on_completed` called by the subject. Third component: the exception
of a missing `on_error` handler propagates to the emitter (the rest of the delivery loop is skipped). -/
def deliver (cfg : Cfg) (st : St α) (i : Id) (n : Notif α) : St α × List (Task α) × Bool :=
  if st.adoStopped i then (st, [], false)
  else
    match n with
    | .next _ => (callback st i n, reactions cfg st i, false)
    | .completed =>
      (callback { st with adoStopped := upd st.adoStopped i true } i n, reactions cfg st i ++ [.sadDispose i], false)
    | .error e =>
      let st := { st with adoStopped := upd st.adoStopped i true }
      if cfg.hasErr i then
        (callback st i n, reactions cfg st i ++ [.sadDispose i], false)
      else
        let st := sadDispose { st with tr := .recv i n :: st.tr } i
        ({ st with raisedNow := some e }, [], true)

/-- `subject.on_next / on_error / on_completed` called at top level. -/
def emit (cfg : Cfg) (st : St α) (n : Notif α) : St α × List (Task α) :=
  if st.disposed then ({ st with raisedNow := some disposedExn }, [])     -- check_disposed
  else if st.stopped then (st, [])                                        -- Observer: `if not self.is_stopped`
  else
    let st := { st with tr := .emit n :: st.tr }
    match n with
    | .next v =>
      match cfg.kind with
      | .subject => (st, st.observers.map (Task.deliver · n))
      | .behavior => ({ st with value := some v }, st.observers.map (Task.deliver · n))
      | .async => ({ st with value := some v, hasValue := true }, [])
    | .error e =>
      ({ st with stopped := true, observers := [], exception := some e }, st.observers.map (Task.deliver · n))
    | .completed =>
      let st' := { st with stopped := true, observers := [] }
      match cfg.kind, st.hasValue, st.value with
      | .async, true, some v =>
        (st', st.observers.flatMap fun i => [Task.deliver i (.next v), Task.deliver i .completed])
      | _, _, _ => (st', st.observers.map (Task.deliver · n))

/-- The user disposes the handle of j's subscription (`Disposable(ado.dispose)`). -/
def doUnsub (st : St α) (j : Id) : St α :=
  if st.handle j then adoDispose { st with tr := .unsub j :: st.tr } j else st

/-- End of `subscribe`: `auto_detach_observer.subscription = …` (SingleAssignmentDisposable.set_disposable),
then the handle is returned to the user. -/
def finish (st : St α) (j : Id) (h : Option Held) : St α :=
  let st1 :=
    match h with
    | none => st
    | some h =>
      if st.sadDisposed j then (match h with | .inner => innerDispose st j | .noop => st)
      else { st with cur := upd st.cur j (some h) }
  { st1 with handle := upd st1.handle j true }

def step1 (cfg : Cfg) (st : St α) : Task α → St α × List (Task α) × Bool
  | .emit n => let r := emit cfg st n; (r.1, r.2, false)
  | .act who (.sub j) => let r := doSub cfg st who j; (r.1, r.2, false)
  | .act _ (.unsub j) => (doUnsub st j, [], false)
  | .act _ .dispose => (subjDispose st, [], false)
  | .deliver i n => deliver cfg st i n
  | .finish j h => (finish st j h, [], false)
  | .sadDispose i => (sadDispose st i, [], false)

/-- Next agenda. -/
def nextAgenda (r : St α × List (Task α) × Bool) (ts : List (Task α)) : List (Task α) :=
  if r.2.2 then [] else r.2.1 ++ ts

def exec (cfg : Cfg) : Nat → St α → List (Task α) → St α
  | _, st, [] => st
  | 0, st, _ :: _ => { st with oof := true }
  | f + 1, st, t :: ts => exec cfg f (step1 cfg st t).1 (nextAgenda (step1 cfg st t) ts)

inductive Call (α : Type) where
  | sub (i : Id) | unsub (i : Id) | next (v : α) | error (e : Err) | completed | dispose
deriving Repr

def Call.toTask : Call α → Task α
  | .sub i => .act none (.sub i)
  | .unsub i => .act none (.unsub i)
  | .next v => .emit (.next v)
  | .error e => .emit (.error e)
  | .completed => .emit .completed
  | .dispose => .act none .dispose

/-- One top-level call, run to completion. -/
def call (cfg : Cfg) (fuel : Nat) (st : St α) (c : Call α) : St α :=
  exec cfg fuel { st with raisedNow := none } [c.toTask]

/-- A whole history; also returns what each call raised to its caller. -/
def run (cfg : Cfg) (fuel : Nat) : St α → List (Call α) → St α × List (Option Err)
  | st, [] => (st, [])
  | st, c :: cs =>
    let st' := call cfg fuel st c
    let r := run cfg fuel st' cs
    (r.1, st'.raisedNow :: r.2)

/-- `len(subject.observers)` after each call of the history (compared with the real code). -/
def runObsCounts (cfg : Cfg) (fuel : Nat) : St α → List (Call α) → List Nat
  | _, [] => []
  | st, c :: cs =>
    let st' := call cfg fuel st c
    st'.observers.length :: runObsCounts cfg fuel st' cs

def init (cfg : Cfg) (initial : Option α) : St α :=
  match cfg.kind with
  | .behavior => { value := initial }
  | _ => {}

end Subj

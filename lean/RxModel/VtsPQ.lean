/-!
# L4 `PQ` — the stable priority queue of `reactivex/internal/priorityqueue.py`

`PriorityQueue` keeps a `heapq` of tuples `(item, count)`; `count` is a counter that is incremented on
every `enqueue` and reset to `MIN_COUNT` when a `dequeue` empties the queue (and on `clear`).  Python
compares the tuples lexicographically: `(a, ca) < (b, cb)` is `ca < cb` when `a == b` and `a < b`
otherwise, and `ScheduledItem.__eq__/__lt__` compare `duetime` only.  So the heap order is
`(due, count)`.

What is abstracted (trusted, DESIGN §3): the array layout of `heapq`.  The model keeps the entries as a
plain list in *insertion order*; `heappop` is "remove the least entry w.r.t. the tuple order".  That the
least entry is unique (all counts in the queue are distinct) is the invariant `PQ.WF`, proved in
`RxProofs/Lemmas/VtsPQ.lean`, and is what makes the array layout unobservable.
-/

namespace Vts

/-- Remove the first `lt`-least element of a list, keeping the others in their order. -/
def popMinBy {β : Type} (lt : β → β → Bool) : List β → Option (β × List β)
  | [] => none
  | x :: xs =>
    match popMinBy lt xs with
    | none => some (x, [])
    | some (m, r) => if lt m x then some (m, x :: r) else some (x, xs)

structure PQ (α : Type) where
  /-- heap contents `(item, count)`, kept in insertion order -/
  items : List (α × Int) := []
  /-- `self.count` -/
  count : Int := -9223372036854775808

namespace PQ

/-- `MIN_COUNT = ~sys.maxsize` -/
def MIN_COUNT : Int := -9223372036854775808

variable {α : Type}

/-- Python's `(a, ca) < (b, cb)` for items compared by `due` (`__eq__`/`__lt__` of `ScheduledItem`). -/
def entryLt (due : α → Int) (a b : α × Int) : Bool :=
  if due a.1 = due b.1 then decide (a.2 < b.2) else decide (due a.1 < due b.1)

def length (q : PQ α) : Nat := q.items.length

def isEmpty (q : PQ α) : Bool := q.items.isEmpty

/-- `enqueue`: `heappush(items, (item, count)); count += 1` -/
def enqueue (q : PQ α) (x : α) : PQ α :=
  { items := q.items ++ [(x, q.count)], count := q.count + 1 }

/-- `peek`: `items[0][0]` — the least entry. -/
def peek? (due : α → Int) (q : PQ α) : Option α :=
  (popMinBy (entryLt due) q.items).map (·.1.1)

/-- `dequeue`: `heappop(items)[0]`; `if not items: count = MIN_COUNT`. -/
def dequeue? (due : α → Int) (q : PQ α) : Option (α × PQ α) :=
  match popMinBy (entryLt due) q.items with
  | none => none
  | some (m, r) => some (m.1, { items := r, count := if r.isEmpty then MIN_COUNT else q.count })

/-- remove the first element satisfying `p` -/
def eraseFirst (p : α × Int → Bool) : List (α × Int) → Option (List (α × Int))
  | [] => none
  | e :: es => if p e then some es else (eraseFirst p es).map (e :: ·)

/-- `remove(item)`: drop one entry whose item `==` the argument (the first in heap-array order in the
code; the model drops the first in insertion order — the two agree whenever at most one entry matches,
which is what the correspondence generates), then `heapify`.  `count` is *not* reset. -/
def remove (eq : α → Bool) (q : PQ α) : Bool × PQ α :=
  match eraseFirst (fun e => eq e.1) q.items with
  | none => (false, q)
  | some r => (true, { q with items := r })

/-- `clear` -/
def clear (_q : PQ α) : PQ α := { items := [], count := MIN_COUNT }

end PQ
end Vts

import RxModel.Core
/-!
# WinGrp — `group_by_until` / `group_by` / `partition` as trace machines (L2)

Mirrors, handler by handler,
* `reactivex/operators/_groupbyuntil.py` (`writers` ordered map, `expire()`, the three mapper
  `try` blocks, `group_disposable` + `RefCountDisposable`),
* `reactivex/operators/_groupby.py` (= `group_by_until` with `never()` durations: no `dur` events),
* `reactivex/observable/groupedobservable.py` (a group subscription takes one reference of the
  `RefCountDisposable` and subscribes to the writer `Subject`),
* what they rely on: `Subject` (`is_stopped`, replay of the terminal to late subscribers),
  `RefCountDisposable` (`is_primary_disposed`, `count`, `is_disposed`, `.disposable` getter),
  `CompositeDisposable.add/remove/dispose`, `ops.take(1)` on the duration, the
  `AutoDetachObserver` of every `subscribe` (events addressed to a stopped one are ignored),
* `reactivex/operators/_partition.py`: `publish()` + `ref_count()` + two `filter`s
  (`ConnectableObservable.connect`, `_refcount.py`, `_filter.py`).

One run = one finite list of tagged input events; the machine decides itself which sources are
subscribed.  Output = ordered log of observable effects (`St.out`) plus ghost logs per group.
-/

namespace WinGrp

/-- state of the single subscriber the environment attaches to a group / partition output -/
inductive SubSt where
  | none | active | ended
deriving Repr, DecidableEq, Inhabited

/-- the subscription to a group's duration observable (`sad` + the `take(1)` observer) -/
inductive DurSt where
  | unsub | live | closed
deriving Repr, DecidableEq, Inhabited

/-- One created group: the writer `Subject`, its duration subscription, its (single) subscriber. -/
structure Grp (κ β : Type) where
  key : κ
  stopped : Bool := false          -- writer.is_stopped
  exc : Option Err := none         -- writer.exception (replayed to late subscribers)
  wlog : List (Notif β) := []      -- ghost: notifications accepted by the writer, in order
  expired : Bool := false          -- ghost: `expire()` deleted this group's entry of `writers`
  announced : Bool := false        -- ghost: `observer.on_next(group)` reached the outer subscriber
  dur : DurSt := .unsub
  sub : SubSt := .none
  holdsRef : Bool := false         -- the subscriber holds an `InnerDisposable` of the RefCountDisposable
  seen : List (Notif β) := []      -- what the subscriber was delivered
  dcnt : Nat := 0                  -- group-derived duration `g.pipe(skip n)`: elements still to be skipped
  subLate : Bool := false          -- the subscriber subscribed after the duration observer (late subscription)
deriving Repr

/-- Observable effects, in the order they happen. -/
inductive Eff (κ β : Type) where
  | outer (n : Notif (Nat × κ))        -- delivered to the outer subscriber (`next (g, key)` = group #g)
  | tap (g : Nat) (n : Notif β)        -- accepted by writer #g (what an observer attached at creation sees)
  | grp (g : Nat) (n : Notif β)        -- delivered to the subscriber of group #g
  | subDur (g : Nat)
  | unsubDur (g : Nat)
  | unsubSrc
  | escaped (e : Err)                  -- exception escaping to the emitter (`writers[key]` KeyError in expire)
deriving Repr

/-- Tagged input events. -/
inductive Ev (α : Type) where
  | src (n : Notif α)                  -- the source emits n
  | dur (g : Nat) (n : Notif Unit)     -- the duration observable of group #g emits n (its value is ignored)
  | disposeOuter                       -- the outer subscription is disposed
  | subGroup (g : Nat)                 -- a fresh observer subscribes to group #g (late subscription)
  | disposeGroup (g : Nat)             -- the subscriber of group #g disposes its subscription
deriving Repr

structure St (κ β : Type) where
  groups : List (Grp κ β) := []
  writers : List (κ × Nat) := []       -- the OrderedDict key -> writer (writer = group index)
  srcStopped : Bool := false           -- AutoDetachObserver of the source subscription
  srcOpen : Bool := true               -- the source subscription has not been disposed yet
  outStopped : Bool := false           -- AutoDetachObserver of the outer subscriber
  primary : Bool := false              -- RefCountDisposable.is_primary_disposed
  count : Nat := 0                     -- RefCountDisposable.count
  rcdDisposed : Bool := false          -- RefCountDisposable.is_disposed (= group_disposable disposed)
  out : List (Eff κ β) := []
  srcDone : Bool := false              -- ghost: the source's terminal reached the operator (while it was subscribed)
  failed : Bool := false               -- ghost: an error-all ran (raising mapper, failing duration, source error)
deriving Repr

/-- User callbacks and the environment's fixed choices. -/
structure Cfg (α κ β : Type) where
  keyEq : κ → κ → Bool                 -- Python `==`/hash of dict keys
  keyMapper : α → Except Err κ
  elemMapper : α → Except Err β
  subjMapper : Nat → Except Err Unit   -- subject_mapper() for would-be group #g
  durMapper : Nat → Except Err Unit    -- duration_mapper(group #g); the observable it returns is source `dur g`
  dsync : Nat → Option (Notif Unit)    -- what duration #g emits synchronously inside its own subscribe (none: nothing)
  imm : Nat → Bool                     -- the outer subscriber subscribes to group #g inside its on_next
  /-- `some n`: duration #g is derived from the group itself, `g.pipe(skip n)` / `g.pipe(take 1)` (n = 0): its
  observer sits in the writer's observer list (after the subscriber attached inside the outer on_next, before
  later subscribers) and fires on the (n+1)-th element the writer delivers -/
  dgrp : Nat → Option Nat := fun _ => none
  /-- re-entrancy: the elements the outer subscriber pushes into the source (a Subject) synchronously from inside its
  `on_next(group #g)`, after subscribing to the group; groups created by those nested elements trigger no further feedback -/
  nest : Nat → List α := fun _ => []

variable {α κ β : Type}

def emit (s : St κ β) (e : Eff κ β) : St κ β := { s with out := s.out ++ [e] }

def modGrp (s : St κ β) (g : Nat) (f : Grp κ β → Grp κ β) : St κ β :=
  { s with groups := s.groups.modify g f }

/-- dispose the `sad` of group g (if its duration subscription is live the hot duration is unsubscribed) -/
def closeDur (s : St κ β) (g : Nat) : St κ β :=
  match s.groups[g]? with
  | some r => if r.dur = .live then emit (modGrp s g fun r => { r with dur := .closed }) (.unsubDur g) else s
  | none => s

/-- indices (from `i`) of the groups whose duration subscription is live -/
def liveDurs : List (Grp κ β) → Nat → List Nat
  | [], _ => []
  | r :: rs, i => if r.dur = .live then i :: liveDurs rs (i + 1) else liveDurs rs (i + 1)

def closeSrc (s : St κ β) : St κ β :=
  if s.srcOpen then emit { s with srcOpen := false } .unsubSrc else s

/-- `group_disposable.dispose()`: the source subscription (added first), then every `sad` still held. -/
def gdDispose (s : St κ β) : St κ β :=
  let s := closeSrc { s with srcStopped := true }
  (liveDurs s.groups 0).foldl closeDur s

/-- `RefCountDisposable.dispose()` -/
def rcdDispose (s : St κ β) : St κ β :=
  if s.rcdDisposed then s
  else if !s.primary then
    let s := { s with primary := true }
    if s.count == 0 then gdDispose { s with rcdDisposed := true } else s
  else s

/-- `RefCountDisposable.release()` (from an `InnerDisposable`) -/
def rcdRelease (s : St κ β) : St κ β :=
  if s.rcdDisposed then s
  else
    let s := { s with count := s.count - 1 }
    if s.count == 0 && s.primary then gdDispose { s with rcdDisposed := true } else s

/-- the subscription of group g's subscriber is disposed (by its AutoDetachObserver after a terminal,
or by the user): `CompositeDisposable(inner_ref, writer_subscription).dispose()` -/
def subEnd (s : St κ β) (g : Nat) : St κ β :=
  match s.groups[g]? with
  | some r =>
    let s := modGrp s g fun r => { r with sub := .ended, holdsRef := false }
    if r.holdsRef then rcdRelease s else s
  | none => s

/-- `writer.on_next(v)` (Subject) -/
def writerNext (s : St κ β) (g : Nat) (v : β) : St κ β :=
  match s.groups[g]? with
  | some r =>
    if r.stopped then s
    else
      let s := emit (modGrp s g fun r => { r with wlog := r.wlog ++ [.next v] }) (.tap g (.next v))
      if r.sub = .active then
        emit (modGrp s g fun r => { r with seen := r.seen ++ [.next v] }) (.grp g (.next v))
      else s
  | none => s

def excOf : Notif β → Option Err
  | .error e => some e
  | _ => none

/-- `writer.on_error(e)` / `writer.on_completed()` (Subject): n is the terminal -/
def writerTerm (s : St κ β) (g : Nat) (n : Notif β) : St κ β :=
  match s.groups[g]? with
  | some r =>
    if r.stopped then s
    else
      let s := emit (modGrp s g fun r => { r with stopped := true, exc := excOf n, wlog := r.wlog ++ [n] }) (.tap g n)
      if r.sub = .active then
        subEnd (emit (modGrp s g fun r => { r with seen := r.seen ++ [n] }) (.grp g n)) g
      else s
  | none => s

/-- `for wrt in writers.values(): wrt.on_error(e)` / `.on_completed()` -/
def termAll (s : St κ β) (n : Notif β) : St κ β :=
  (s.writers.map (·.2)).foldl (fun s g => writerTerm s g n) s

/-- `observer.on_error(e)` / `observer.on_completed()` on the outer AutoDetachObserver -/
def outerTerm (s : St κ β) (n : Notif (Nat × κ)) : St κ β :=
  if s.outStopped then s
  else rcdDispose (emit { s with outStopped := true } (.outer n))

def errorAll (s : St κ β) (e : Err) : St κ β :=
  outerTerm (termAll { s with failed := true } (.error e)) (.error e)

/-- `group.subscribe(observer)` for an announced group that has no subscriber yet:
`CompositeDisposable(merged_disposable.disposable, writer.subscribe(observer))`. -/
def subscribeGroup (s : St κ β) (g : Nat) : St κ β :=
  match s.groups[g]? with
  | some r =>
    if r.sub ≠ .none ∨ r.announced = false then s
    else
      -- `.disposable` getter: `Disposable()` when the RefCountDisposable is disposed, else count += 1
      let held := !s.rcdDisposed
      let s := { s with count := if held then s.count + 1 else s.count }
      if !r.stopped then modGrp s g fun r => { r with sub := .active, holdsRef := held }
      else
        -- Subject._subscribe_core on a stopped subject: replay the terminal; the observer's
        -- AutoDetachObserver then disposes the subscription as soon as it is assigned
        let n : Notif β := match r.exc with | some e => .error e | none => .completed
        subEnd (emit (modGrp s g fun r => { r with sub := .active, holdsRef := held, seen := r.seen ++ [n] }) (.grp g n)) g
  | none => s

/-- a late subscription (event `subGroup g`): the observer joins the writer's observers after the duration observer -/
def subscribeLate (s : St κ β) (g : Nat) : St κ β :=
  match s.groups[g]? with
  | some r =>
    if r.sub = .none ∧ r.announced = true then modGrp (subscribeGroup s g) g fun r => { r with subLate := true }
    else s
  | none => s

/-- `expire()` of group g -/
def expire (cfg : Cfg α κ β) (s : St κ β) (g : Nat) : St κ β :=
  match s.groups[g]? with
  | some r =>
    match s.writers.find? (fun p => cfg.keyEq p.1 r.key) with
    | none => emit s (.escaped "KeyError")          -- `writers[key]` raises (shown unreachable in C19)
    | some _ =>
      -- `if writers[key]:` is a truthiness test on a Subject object: always true
      let s := modGrp { s with writers := s.writers.eraseP (fun p => cfg.keyEq p.1 r.key) } g
                 fun r => { r with expired := true }            -- del writers[key]
      let s := writerTerm s g .completed                        -- writer.on_completed()  (the closure's writer)
      if s.rcdDisposed then s else closeDur s g                 -- group_disposable.remove(sad)
  | none => s

/-- the `take(1)` observer of duration #g receives n -/
def durFire (cfg : Cfg α κ β) (s : St κ β) (g : Nat) : Notif Unit → St κ β
  | .error e => closeDur (errorAll s e) g          -- on_error: all writers + outer; finally dispose
  | _ => closeDur (expire cfg s g) g               -- on_next → take(1) completes → expire(); on_completed → expire()

def durEvent (cfg : Cfg α κ β) (s : St κ β) (g : Nat) (n : Notif Unit) : St κ β :=
  match s.groups[g]? with
  | some r => if r.dur = .live then durFire cfg s g n else s
  | none => s

/-- `element = element_mapper(x)` … `writer.on_next(element)` -/
def pushElem (cfg : Cfg α κ β) (s : St κ β) (g : Nat) (x : α) : St κ β :=
  match cfg.elemMapper x with
  | .error e => errorAll s e
  | .ok v => writerNext s g v

/-- the part of `on_next` after `duration_mapper` succeeded for the new group g -/
def announce (cfg : Cfg α κ β) (s : St κ β) (g : Nat) (k : κ) : St κ β :=
  -- observer.on_next(group)
  let s := if s.outStopped then s
           else
             let s := emit (modGrp s g fun r => { r with announced := true }) (.outer (.next (g, k)))
             if cfg.imm g then subscribeGroup s g else s
  -- sad = SingleAssignmentDisposable(); group_disposable.add(sad); sad.disposable = duration.pipe(take(1)).subscribe(..)
  match cfg.dsync g with
  | some n => durFire cfg s g n
  | none =>
    let s := emit (modGrp s g fun r => { r with dur := .live }) (.subDur g)
    if s.rcdDisposed then closeDur s g else s

/-- the source's `on_next(x)` handler -/
def srcNext (cfg : Cfg α κ β) (s : St κ β) (x : α) : St κ β :=
  match cfg.keyMapper x with
  | .error e => errorAll s e
  | .ok k =>
    match s.writers.find? (fun p => cfg.keyEq p.1 k) with
    | some p => pushElem cfg s p.2 x        -- `if not writer:` — a Subject is always truthy, so only a missing key creates
    | none =>
      let g := s.groups.length
      match cfg.subjMapper g with
      | .error e => errorAll s e
      | .ok _ =>
        let s := { s with groups := s.groups ++ [{ key := k }], writers := s.writers ++ [(k, g)] }
        match cfg.durMapper g with
        | .error e => errorAll s e
        | .ok _ => pushElem cfg (announce cfg s g k) g x

def step (cfg : Cfg α κ β) (s : St κ β) : Ev α → St κ β
  | .src (.next x) => if s.srcStopped then s else srcNext cfg s x
  | .src (.error e) => if s.srcStopped then s else closeSrc (errorAll { s with srcStopped := true, srcDone := true } e)
  | .src .completed =>
    if s.srcStopped then s
    else closeSrc (outerTerm (termAll { s with srcStopped := true, srcDone := true } .completed) .completed)
  | .dur g n => durEvent cfg s g n
  | .disposeOuter => rcdDispose { s with outStopped := true }
  | .subGroup g => subscribeLate s g
  | .disposeGroup g =>
    match s.groups[g]? with
    | some r => if r.sub = .active then subEnd s g else s
    | none => s

def run (cfg : Cfg α κ β) (s : St κ β) : List (Ev α) → St κ β
  | [] => s
  | e :: es => run cfg (step cfg s e) es

/-- state right after `subscribe` -/
def init : St κ β := {}

/-! ## durations derived from the group itself (`duration_mapper = lambda g: g.pipe(ops.skip(n))`)

The duration observer is one of the writer Subject's observers.  `Subject.on_next/on_error/on_completed` iterate the
observers in subscription order: (tap,) the subscriber attached inside the outer `on_next(group)`, the duration
observer, subscribers attached later.  So the duration fires *inside* `writer.on_next(element)` (re-entrant
`expire()`), and the writer's own terminal reaches the duration observer too (re-entrant `expire()` on completion —
with the loops over `list(writers.values())`, fix `C19_completion_mutates_writers` — and a nested error-all on error).
`step` above is the machine without such durations; `stepD` is the general one and equals `step` when
`cfg.dgrp = fun _ => none` (`C19.stepD_eq_step`). -/

/-- `writer.on_next(v)` when the duration of group g may be derived from the group -/
def writerNextD (cfg : Cfg α κ β) (s : St κ β) (g : Nat) (v : β) : St κ β :=
  match s.groups[g]? with
  | some r =>
    if r.stopped then s
    else if r.dur = .live ∧ (cfg.dgrp g).isSome = true then
      if r.dcnt = 0 then
        -- tap and the early subscriber get v, then the duration observer: skip exhausted → take(1) → on_completed →
        -- expire() completes the writer inside its own on_next; a late subscriber is stopped before its turn comes
        let s := emit (modGrp s g fun r => { r with wlog := r.wlog ++ [.next v] }) (.tap g (.next v))
        let s := if r.sub = .active ∧ r.subLate = false then
                   emit (modGrp s g fun r => { r with seen := r.seen ++ [.next v] }) (.grp g (.next v))
                 else s
        durFire cfg s g (.next ())
      else writerNext (modGrp s g fun r => { r with dcnt := r.dcnt - 1 }) g v
    else writerNext s g v
  | none => s

/-- `writer.on_error(e)` / `writer.on_completed()` when the duration of group g may be derived from the group;
`errAll` is the (nested) `for wrt in writers…: wrt.on_error(e); observer.on_error(e)` of the duration's on_error -/
def writerTermWith (cfg : Cfg α κ β) (errAll : St κ β → Err → St κ β) (s : St κ β) (g : Nat) (n : Notif β) : St κ β :=
  match s.groups[g]? with
  | some r =>
    if r.stopped then s
    else if r.dur = .live ∧ (cfg.dgrp g).isSome = true then
      let s := emit (modGrp s g fun r => { r with stopped := true, exc := excOf n, wlog := r.wlog ++ [n] }) (.tap g n)
      -- the early subscriber
      let s := if r.sub = .active ∧ r.subLate = false then
                 subEnd (emit (modGrp s g fun r => { r with seen := r.seen ++ [n] }) (.grp g n)) g
               else s
      -- the duration observer: completion → take(1) completes → expire(); error → its on_error handler
      let s := match n with
               | .error e => closeDur (errAll s e) g
               | _ => durFire cfg s g .completed
      -- a late subscriber
      if r.sub = .active ∧ r.subLate = true then
        subEnd (emit (modGrp s g fun r => { r with seen := r.seen ++ [n] }) (.grp g n)) g
      else s
    else writerTerm s g n
  | none => s

/-- error-all with nested error-alls of group-derived durations; `fuel` bounds the nesting (each level stops a writer) -/
def errorAllD (cfg : Cfg α κ β) : Nat → St κ β → Err → St κ β
  | 0, s, e => errorAll s e
  | fuel + 1, s, e =>
    outerTerm ((s.writers.map (·.2)).foldl (fun s g => writerTermWith cfg (errorAllD cfg fuel) s g (.error e)) s) (.error e)

def errAllD (cfg : Cfg α κ β) (s : St κ β) (e : Err) : St κ β :=
  errorAllD cfg (s.writers.length + 1) { s with failed := true } e

/-- `for wrt in list(writers.values()): wrt.on_completed()` -/
def completeAllD (cfg : Cfg α κ β) (s : St κ β) : St κ β :=
  (s.writers.map (·.2)).foldl (fun s g => writerTermWith cfg (fun s _ => s) s g .completed) s

def durFireD (cfg : Cfg α κ β) (s : St κ β) (g : Nat) : Notif Unit → St κ β
  | .error e => closeDur (errAllD cfg s e) g
  | _ => closeDur (expire cfg s g) g

def durEventD (cfg : Cfg α κ β) (s : St κ β) (g : Nat) (n : Notif Unit) : St κ β :=
  match s.groups[g]? with
  | some r => if r.dur = .live ∧ (cfg.dgrp g).isSome = false then durFireD cfg s g n else s
  | none => s

def pushElemD (cfg : Cfg α κ β) (s : St κ β) (g : Nat) (x : α) : St κ β :=
  match cfg.elemMapper x with
  | .error e => errAllD cfg s e
  | .ok v => writerNextD cfg s g v

def announceD (cfg : Cfg α κ β) (s : St κ β) (g : Nat) (k : κ) : St κ β :=
  let s := if s.outStopped then s
           else
             let s := emit (modGrp s g fun r => { r with announced := true }) (.outer (.next (g, k)))
             if cfg.imm g then subscribeGroup s g else s
  match cfg.dgrp g with
  | some n =>
    -- duration = group.pipe(skip n): its observer joins the writer's observers now
    let s := emit (modGrp s g fun r => { r with dur := .live, dcnt := n }) (.subDur g)
    if s.rcdDisposed then closeDur s g else s
  | none =>
    match cfg.dsync g with
    | some n => durFireD cfg s g n
    | none =>
      let s := emit (modGrp s g fun r => { r with dur := .live }) (.subDur g)
      if s.rcdDisposed then closeDur s g else s

def srcNextD (cfg : Cfg α κ β) (s : St κ β) (x : α) : St κ β :=
  match cfg.keyMapper x with
  | .error e => errAllD cfg s e
  | .ok k =>
    match s.writers.find? (fun p => cfg.keyEq p.1 k) with
    | some p => pushElemD cfg s p.2 x
    | none =>
      let g := s.groups.length
      match cfg.subjMapper g with
      | .error e => errAllD cfg s e
      | .ok _ =>
        let s := { s with groups := s.groups ++ [{ key := k }], writers := s.writers ++ [(k, g)] }
        match cfg.durMapper g with
        | .error e => errAllD cfg s e
        | .ok _ => pushElemD cfg (announceD cfg s g k) g x

def stepD (cfg : Cfg α κ β) (s : St κ β) : Ev α → St κ β
  | .src (.next x) => if s.srcStopped then s else srcNextD cfg s x
  | .src (.error e) => if s.srcStopped then s else closeSrc (errAllD cfg { s with srcStopped := true, srcDone := true } e)
  | .src .completed =>
    if s.srcStopped then s
    else closeSrc (outerTerm (completeAllD cfg { s with srcStopped := true, srcDone := true }) .completed)
  | .dur g n => durEventD cfg s g n
  | .disposeOuter => rcdDispose { s with outStopped := true }
  | .subGroup g => subscribeLate s g
  | .disposeGroup g =>
    match s.groups[g]? with
    | some r => if r.sub = .active then subEnd s g else s
    | none => s

def runD (cfg : Cfg α κ β) (s : St κ β) : List (Ev α) → St κ β
  | [] => s
  | e :: es => runD cfg (stepD cfg s e) es


/-! ### re-entrant elements: the outer subscriber feeds the source from inside `on_next(group)`

`writers[key] = writer` is executed BEFORE `observer.on_next(group)`: a nested element of the same key finds the writer and is
delivered to the (already subscribed) group before the element that created it; the duration is subscribed only after the
outer `on_next` returned.  `stepN` = `stepD` with this feedback; equal to `stepD` when `cfg.nest = fun _ => []`. -/

def announceN (cfg : Cfg α κ β) (s : St κ β) (g : Nat) (k : κ) : St κ β :=
  let s := if s.outStopped then s
           else
             let s := emit (modGrp s g fun r => { r with announced := true }) (.outer (.next (g, k)))
             let s := if cfg.imm g then subscribeGroup s g else s
             -- the feedback: nested `source.on_next(y)` calls, each through the source's AutoDetachObserver
             (cfg.nest g).foldl (fun s y => if s.srcStopped then s else srcNextD cfg s y) s
  match cfg.dgrp g with
  | some n =>
    let s := emit (modGrp s g fun r => { r with dur := .live, dcnt := n }) (.subDur g)
    if s.rcdDisposed then closeDur s g else s
  | none =>
    match cfg.dsync g with
    | some n => durFireD cfg s g n
    | none =>
      let s := emit (modGrp s g fun r => { r with dur := .live }) (.subDur g)
      if s.rcdDisposed then closeDur s g else s

def srcNextN (cfg : Cfg α κ β) (s : St κ β) (x : α) : St κ β :=
  match cfg.keyMapper x with
  | .error e => errAllD cfg s e
  | .ok k =>
    match s.writers.find? (fun p => cfg.keyEq p.1 k) with
    | some p => pushElemD cfg s p.2 x
    | none =>
      let g := s.groups.length
      match cfg.subjMapper g with
      | .error e => errAllD cfg s e
      | .ok _ =>
        let s := { s with groups := s.groups ++ [{ key := k }], writers := s.writers ++ [(k, g)] }
        match cfg.durMapper g with
        | .error e => errAllD cfg s e
        | .ok _ => pushElemD cfg (announceN cfg s g k) g x

def stepN (cfg : Cfg α κ β) (s : St κ β) : Ev α → St κ β
  | .src (.next x) => if s.srcStopped then s else srcNextN cfg s x
  | e => stepD cfg s e

def runN (cfg : Cfg α κ β) (s : St κ β) : List (Ev α) → St κ β
  | [] => s
  | e :: es => runN cfg (stepN cfg s e) es

/-! ## partition: `publish()` + `ref_count()` + two `filter`s -/
namespace Part

/-- one subscription ("slot") to one of the two outputs -/
structure Slot (α : Type) where
  second : Bool                   -- false: first output `filter(predicate)`, true: `filter(not_predicate)`
  st : SubSt := .none
  idx : Nat := 0                  -- `count` of filter_indexed
  seen : List (Notif α) := []
deriving Repr

inductive Eff (α : Type) where
  | got (j : Nat) (n : Notif α)
  | subSrc
  | unsubSrc
deriving Repr

inductive Ev (α : Type) where
  | src (n : Notif α)
  | sub (j : Nat)
  | disp (j : Nat)
deriving Repr

structure St (α : Type) where
  slots : List (Slot α)
  observers : List Nat := []      -- publish's Subject.observers (slot ids, subscription order)
  subjStopped : Bool := false
  subjExc : Option Err := none
  count : Nat := 0                -- ref_count's `count`
  hasSub : Bool := false          -- ConnectableObservable.has_subscription
  connSome : Bool := false        -- `connectable_subscription is not None`
  connDisposed : Bool := false    -- that CompositeDisposable is disposed (then it is empty, hence falsy)
  connLive : Bool := false        -- AutoDetachObserver between the source and the Subject not stopped
  connOpen : Bool := false        -- source subscription of the current connection not yet disposed
  out : List (Eff α) := []
deriving Repr

variable {α : Type}

def emit (s : St α) (e : Eff α) : St α := { s with out := s.out ++ [e] }
def modSlot (s : St α) (j : Nat) (f : Slot α → Slot α) : St α := { s with slots := s.slots.modify j f }

/-- `connectable_subscription.dispose()`: CompositeDisposable(source subscription, Disposable(has_subscription=False)) -/
def connDispose (s : St α) : St α :=
  if s.connDisposed then s
  else
    let s := { s with connDisposed := true, connLive := false, hasSub := false }
    if s.connOpen then emit { s with connOpen := false } .unsubSrc else s

/-- the `dispose` closure of `ref_count`'s subscribe, for slot j -/
def refDispose (s : St α) (j : Nat) : St α :=
  let s := { s with observers := s.observers.filter (· != j) }   -- subscription.dispose(): InnerSubscription
  let s := { s with count := s.count - 1 }
  -- `if not count and connectable_subscription:` — truthiness of a CompositeDisposable is `len(...) > 0`:
  -- false exactly when it has been disposed (then dispose() would be a no-op anyway)
  if s.count == 0 && s.connSome && !s.connDisposed then connDispose s else s

/-- slot j's chain of AutoDetachObservers ends (terminal delivered, or user dispose) -/
def slotEnd (s : St α) (j : Nat) : St α :=
  refDispose (modSlot s j fun r => { r with st := .ended }) j

def deliverTerm (s : St α) (j : Nat) (n : Notif α) : St α :=
  match s.slots[j]? with
  | some r =>
    if r.st = .active then slotEnd (emit (modSlot s j fun r => { r with seen := r.seen ++ [n] }) (.got j n)) j
    else s
  | none => s

/-- `filter(predicate)` / `filter_indexed` on_next of slot j -/
def filterNext (indexed : Bool) (pred : α → Nat → Except Err Bool) (s : St α) (j : Nat) (v : α) : St α :=
  match s.slots[j]? with
  | some r =>
    if r.st ≠ .active then s
    else
      match pred v r.idx with
      | .error e => deliverTerm s j (.error e)
      | .ok b =>
        let s := if indexed then modSlot s j fun r => { r with idx := r.idx + 1 } else s
        -- second output: `not predicate(x)`
        if (if r.second then !b else b) then
          emit (modSlot s j fun r => { r with seen := r.seen ++ [.next v] }) (.got j (.next v))
        else s
  | none => s

/-- `published.subscribe` for slot j (through the filter) -/
def subscribe (s : St α) (j : Nat) : St α :=
  match s.slots[j]? with
  | some r =>
    if r.st ≠ .none then s
    else
      let s := { s with count := s.count + 1 }
      let shouldConnect := s.count == 1
      -- subscription = source.subscribe(observer)  (the Subject)
      let replay := s.subjStopped
      let s := if !replay then { modSlot s j (fun r => { r with st := .active }) with observers := s.observers ++ [j] }
               else
                 let n : Notif α := match s.subjExc with | some e => .error e | none => .completed
                 emit (modSlot s j fun r => { r with st := .ended, seen := r.seen ++ [n] }) (.got j n)
      -- if should_connect: connectable_subscription = source.connect(scheduler)
      let s := if shouldConnect then
                 if !s.hasSub then
                   emit { s with hasSub := true, connSome := true, connDisposed := false, connLive := true, connOpen := true } .subSrc
                 else { s with connSome := true }
               else s
      -- a replayed terminal already disposed the observer: the returned Disposable is disposed at assignment
      if replay then refDispose s j else s
  | none => s

def step (indexed : Bool) (pred : α → Nat → Except Err Bool) (s : St α) : Ev α → St α
  | .src (.next v) =>
    if !s.connLive then s
    else if s.subjStopped then s
    else s.observers.foldl (fun s j => filterNext indexed pred s j v) s
  | .src n =>    -- terminal
    if !s.connLive then s
    else
      let s := { s with connLive := false }
      let s := if s.subjStopped then s
               else
                 let obs := s.observers
                 let s := { s with subjStopped := true, subjExc := excOf n, observers := [] }
                 obs.foldl (fun s j => deliverTerm s j n) s
      -- finally: the connection's AutoDetachObserver disposes the source subscription
      if s.connOpen then emit { s with connOpen := false } .unsubSrc else s
  | .sub j => subscribe s j
  | .disp j =>
    match s.slots[j]? with
    | some r => if r.st = .active then slotEnd s j else s
    | none => s

def run (indexed : Bool) (pred : α → Nat → Except Err Bool) (s : St α) : List (Ev α) → St α
  | [] => s
  | e :: es => run indexed pred (step indexed pred s e) es

end Part

end WinGrp

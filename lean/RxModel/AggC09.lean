import RxModel.AggOps
/-!
# Agg.C09 — minimal re-statements of element-wise handlers with user callbacks (for C09)

`take_while`, `distinct`, `find` belong to the element-wise family (C05, other builder); they are restated
here, handler by handler, only so that `C09.no_escape_*` can be proved for them in this family's framework.

`distinct` is modelled **as repaired** (`fixes/C09_distinct_comparer.patch`: `hashset.push(key)` inside
`try/except → observer.on_error`); `distinctUnfixedO` is the handler of the pinned tree, whose comparer
exception escapes to the emitter (`C09.distinct_unfixed_escapes`).
-/

namespace Agg

/-! ### `_takewhile.py: take_while_(predicate, inclusive)` — state `running` -/
def takeWhileO {α} (p : α → Except Err Bool) (inclusive : Bool) : Op α α where
  σ := Bool
  init := true
  onNext running x :=
    if !running then emit running []                     -- if not running: return
    else match p x with                                  -- try: running = predicate(value)
      | .error e => emit running [.error e]              -- except: observer.on_error(exn); return
      | .ok r =>
        if r then emit r [.next x]
        else emit r ((if inclusive then [.next x] else []) ++ [.completed])
  onError s e := emit s [.error e]
  onCompleted s := emit s [.completed]

/-! ### `_distinct.py` — `HashSet.push` = `array_index_of_comparer(set, value, comparer) == -1` then append -/

/-- `array_index_of_comparer(array, item, comparer) != -1`; the comparer may raise at any member -/
def memCmp {κ} (cmp : κ → κ → Except Err Bool) : List κ → κ → Except Err Bool
  | [], _ => .ok false
  | a :: as, item =>
    match cmp a item with
    | .error e => .error e
    | .ok b => if b then .ok true else memCmp cmp as item

/-- repaired handler: `try: is_new = hashset.push(key) except Exception as ex: observer.on_error(ex); return` -/
def distinctO {α κ} (key : α → Except Err κ) (cmp : κ → κ → Except Err Bool) : Op α α where
  σ := List κ
  init := []
  onNext s x :=
    match key x with
    | .error e => emit s [.error e]
    | .ok k =>
      match memCmp cmp s k with
      | .error e => emit s [.error e]
      | .ok found => if found then emit s [] else emit (s ++ [k]) [.next x]
  onError s e := emit s [.error e]
  onCompleted s := emit s [.completed]

/-- the handler of the pinned tree: `if hashset.push(key): observer.on_next(x)` outside any `try` -/
def distinctUnfixedO {α κ} (key : α → Except Err κ) (cmp : κ → κ → Except Err Bool) : Op α α where
  σ := List κ
  init := []
  onNext s x :=
    match key x with
    | .error e => emit s [.error e]
    | .ok k =>
      match memCmp cmp s k with
      | .error e => ⟨s, [], some e⟩                      -- propagates out of on_next into the emitter
      | .ok found => if found then emit s [] else emit (s ++ [k]) [.next x]
  onError s e := emit s [.error e]
  onCompleted s := emit s [.completed]

/-! ### `_find.py: find_value_(predicate, yield_index)` — state `index` -/
def findO {α} (p : α → Int → Except Err Bool) (yieldIndex : Bool) : Op α (Option α ⊕ Int) where
  σ := Int
  init := 0
  onNext index x :=
    match p x index with
    | .error e => emit index [.error e]
    | .ok b =>
      if b then emit index [.next (if yieldIndex then .inr index else .inl (some x)), .completed]
      else emit (index + 1) []
  onError s e := emit s [.error e]
  onCompleted s := emit s [.next (if yieldIndex then .inr (-1) else .inl none), .completed]

end Agg

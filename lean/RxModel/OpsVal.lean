import RxModel.Val
import RxModel.OpsElem
/-!
# The value-level argument adapters of `starmap` and `pluck` (C05)

`ops.starmap(mapper)` is `map(lambda values: mapper(*values))` and `ops.pluck(key)` is
`map(lambda x: x[key])` (`operators/__init__.py`, `_pluck.py`).  What `*values` and `x[key]` do
depends on the Python value; this file models them on the closed value grammar `Val`
(`TypeError` for a non-iterable / non-subscriptable value or a wrong index type, `KeyError` for a
missing dict key, `IndexError` for an index out of range), so that both operators are `mapOp`
instances with a modelled callback instead of a driver-only adapter.
-/

namespace Ops

/-- `*values`: the positional arguments an iterable unpacks to (a dict iterates over its keys, a
string over its characters); `TypeError` if the value is not iterable. -/
def starArgs : Val → Except Err (List Val)
  | .tup xs => .ok xs
  | .lst xs => .ok xs
  | .str s => .ok (s.toList.map (fun c => .str (String.singleton c)))
  | .dct kvs => .ok (kvs.map (·.1))
  | _ => .error "TypeError"

/-- `mapper(*values)`; `mapper = none` is `starmap()` (the tuple is passed through unchanged). -/
def starred (mapper : Option (List Val → Except Err Val)) (values : Val) : Except Err Val :=
  match mapper with
  | none => .ok values
  | some f =>
    match starArgs values with
    | .error e => .error e
    | .ok args => f args

/-- `operators/__init__.py: starmap` -/
def starmapOp (mapper : Option (List Val → Except Err Val)) : Op Val Val := mapOp (starred mapper)

/-- a Python integer index (`bool` is an `int`) -/
def asIndex : Val → Option Int
  | .int i => some i
  | .bool b => some (if b then 1 else 0)
  | _ => none

/-- `seq[i]` for a list / tuple / string of length `n`: negative indices count from the end -/
def seqIndex (n : Nat) (i : Int) : Option Nat :=
  if 0 ≤ i ∧ i < n then some i.toNat
  else if i < 0 ∧ -(n : Int) ≤ i then some (i + n).toNat
  else none

def seqGet (xs : List Val) (key : Val) : Except Err Val :=
  match asIndex key with
  | none => .error "TypeError"          -- indices must be integers
  | some i =>
    match seqIndex xs.length i with
    | none => .error "IndexError"
    | some k => match xs[k]? with | some v => .ok v | none => .error "IndexError"

/-- `x[key]` -/
def pluckGet (key : Val) : Val → Except Err Val
  | .dct kvs =>
    if !key.hashable then .error "TypeError"          -- unhashable key
    else match kvs.find? (fun kv => Val.pyEq kv.1 key) with
      | some kv => .ok kv.2
      | none => .error "KeyError"
  | .lst xs => seqGet xs key
  | .tup xs => seqGet xs key
  | .str s => seqGet (s.toList.map (fun c => .str (String.singleton c))) key
  | _ => .error "TypeError"                            -- None, numbers: not subscriptable

/-- `_pluck.py: pluck_` -/
def pluckOp (key : Val) : Op Val Val := mapOp (pluckGet key)

end Ops

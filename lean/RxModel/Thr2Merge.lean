import RxModel.Thr2Lock
/-!
# Thr2Merge — `merge_all` / `flat_map` and n-ary `amb` as programs of the interleaving model (C43)

## merge_all (`reactivex/operators/_merge.py: merge_all_`, after the lock fix; `flat_map` = `map ∘ merge_all`)

State: `live` = the inner subscriptions held by `group` (besides the outer's), `added` = inners already
subscribed, `errd` = inners whose own observer has stopped after an error, `oc` = `is_stopped[0]` (the outer
completed), `oe` = the outer's own observer stopped after an error; `iterm` / `preC` / `preE` = the inner
sources' own state (hot Subjects: terminated; terminated before being subscribed).

* outer `on_next(inner k)`: `group.add(inner_subscription)` — ONE ATOMIC STEP OUTSIDE THE LOCK (`free`): the
  CompositeDisposable is self-synchronised; then the inner is subscribed (its thread may emit from now on;
  elements emitted earlier found no observer; an earlier terminal is replayed at subscription).
* outer `on_error` / `on_completed`, inner `on_next` / `on_error` / `on_completed`: locked blocks
  (`synchronized(source.lock)`), one step each, as written:
  `group.remove(inner_subscription); if is_stopped[0] and len(group) == 1: observer.on_completed()`.

Thread 0 is the outer source, thread `k+1` drives inner `k` (any number of inners).
-/

namespace Thr2

structure MS where
  live : List Nat := []
  added : List Nat := []
  errd : List Nat := []
  oc : Bool := false
  oe : Bool := false
  iterm : List Nat := []          -- inners that have emitted their terminal (the source's own `is_stopped`)
  preC : List Nat := []           -- inners that completed before they were subscribed
  preE : List (Nat × Err) := []   -- inners that failed before they were subscribed

inductive OEv where
  | inner (k : Nat)
  | err (e : Err)
  | comp

def MS.closed (s : MS) : Bool := s.oc || s.oe
def MS.active (s : MS) (k : Nat) : Bool := s.live.contains k && !s.errd.contains k

/-- `group.add(inner_subscription)` + subscription of inner `k` (ignored once the outer's observer stopped) -/
def mAdd (k : Nat) (s : MS) : MS :=
  if s.closed || s.added.contains k then s else { s with live := k :: s.live, added := k :: s.added }

def innerHandler {α} (k : Nat) : Notif α → Prog MS α
  | .next v => .step id (fun s => if s.active k then some (.next v) else none) (fun _ => .done)
  | .error e =>
    .step (fun s => if s.active k then { s with errd := k :: s.errd } else s)
      (fun s => if s.active k then some (.error e) else none) (fun _ => .done)
  | .completed =>
    .step (fun s => if s.active k then { s with live := s.live.erase k } else s)
      (fun s => if s.active k && s.oc && (s.live.erase k).isEmpty then some .completed else none) (fun _ => .done)

/-- what subscribing inner `k` finds: a source that already terminated replays its terminal to the new
observer at once (hot `Subject._subscribe_core`), i.e. the inner handler runs inside the outer's `on_next` -/
def replayOf {α} (s : MS) (k : Nat) : Option (Notif α) :=
  if s.preC.contains k then some .completed
  else match s.preE.find? (fun p => p.1 == k) with
    | some p => some (.error p.2)
    | none => none

def outerProg {α} : List OEv → TProg MS α
  | [] => .halt
  | .inner k :: r =>
    .free (mAdd k) (fun s =>
      if s.closed || s.added.contains k then outerProg r
      else match replayOf s k with
        | some n => .crit (innerHandler k n) (outerProg r)
        | none => outerProg r)
  | .err e :: r =>
    .crit (.step (fun s => { s with oe := true }) (fun s => if s.closed then none else some (.error e)) (fun _ => .done))
      (outerProg r)
  | .comp :: r =>
    .crit (.step (fun s => if s.closed then s else { s with oc := true })
            (fun s => if s.closed then none else if s.live.isEmpty then some .completed else none) (fun _ => .done))
      (outerProg r)

/-- the inner source's own bookkeeping when it emits `n`: one atomic step (snapshot of its observers) -/
def snap {α} (k : Nat) (n : Notif α) (s : MS) : MS :=
  if s.iterm.contains k then s
  else match n with
    | .next _ => s
    | .error e => if s.added.contains k then { s with iterm := k :: s.iterm }
                  else { s with iterm := k :: s.iterm, preE := (k, e) :: s.preE }
    | .completed => if s.added.contains k then { s with iterm := k :: s.iterm }
                    else { s with iterm := k :: s.iterm, preC := k :: s.preC }

/-- inner `k` emits: nothing after its terminal; no observer yet → nothing reaches the operator; otherwise the
operator's handler runs, under the lock -/
def innerProg {α} (k : Nat) : List (Notif α) → TProg MS α
  | [] => .halt
  | n :: ns =>
    .free (snap k n) (fun s =>
      if s.iterm.contains k then innerProg k ns
      else if s.added.contains k then .crit (innerHandler k n) (innerProg k ns)
      else innerProg k ns)

def mergeProgs {α} (outer : List OEv) (inners : Nat → List (Notif α)) : Nat → TProg MS α
  | 0 => outerProg outer
  | k + 1 => innerProg k (inners k)

/-! ## n-ary amb (`reactivex/observable/amb.py`: `acc = never(); for s in sources: acc = amb(acc)(s)`)

Stage `j` (one binary `amb_`, `reactivex/operators/_amb.py`) has source `j` as its LEFT input and the output
of stage `j-1` as its RIGHT input, its own lock (`left_source.lock`) and its own `choice` cell.  A
notification of source `i` enters at stage `i` on the left and, as long as it is the choice, travels through
stages `i+1 … n-1` on the right, each time `with lock: choice_side()` — ONE ATOMIC test-and-set of that stage's
cell (the per-stage lock protects exactly this) — then, outside any lock, `if choice == side: forward`.
State: the choice cells (`false` = left). -/

abbrev AS := Nat → Option Bool

def tas (j : Nat) (d : Bool) (s : AS) : AS := if s j = none then upd s j (some d) else s

/-- pass stages `j, j+1, …, j+m` (the first on side `d`, the later ones on the right), then call downstream -/
def ambPass {α} (d : Bool) (j : Nat) : Nat → Notif α → TProg AS α → TProg AS α
  | 0, c, k => .free (tas j d) (fun s => if tas j d s j = some d then .ucall (fun _ => some c) k else k)
  | m + 1, c, k => .free (tas j d) (fun s => if tas j d s j = some d then ambPass true (j + 1) m c k else k)

/-- source `i` of `n` (`i < n`) -/
def ambSrc {α} (n i : Nat) : List (Notif α) → TProg AS α
  | [] => .halt
  | c :: cs => ambPass false i (n - 1 - i) c (ambSrc n i cs)

def ambNProgs {α} (n : Nat) (srcs : Nat → List (Notif α)) : Nat → TProg AS α :=
  fun i => if i < n then ambSrc n i (srcs i) else .halt

end Thr2

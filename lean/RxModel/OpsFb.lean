import RxModel.OpsElem
/-!
# Re-entrant runs of the L1 operators (feedback sources)

The consumer of an operator may, from inside its own `on_next`, push the next element into the
(hot, `Subject`) source: the operator's `on_next` handler is then **re-entered while it is still
inside its downstream call**.  The atomic handlers of `RxModel/Ops.lean` cannot express that, so a
handler invocation is split here, as the code has it, into

* `st`    — the state as committed *before* the first downstream call,
* `calls` — the downstream calls, in order (a delivered `next` is a re-entry point),
* `post`  — the calls made afterwards that depend on a state *read after* those calls returned
            (`take`: `if not remaining: observer.on_completed()`).

`ROp.runFb` is the feedback discipline of the harness (`harness/props/C05.py: run_feedback`): the
input notifications are pushed in order, each exactly once; when the consumer receives an element it
pushes the next pending notification, if that is an *element* and the nesting depth allows it, from
inside its own `on_next`; everything else (terminals included) is pushed from the top level.
-/

namespace Ops
variable {α β γ κ : Type}

/-- one handler invocation, split at its downstream calls -/
structure HOutR (σ β : Type) where
  st : σ
  calls : List (Notif β) := []
  post : σ → List (Notif β) := fun _ => []

structure ROp (α β : Type) where
  σ : Type
  init : σ
  pre : List (Notif β) := []
  sub : Bool := true
  onNext : σ → α → HOutR σ β
  onError : σ → Err → HOutR σ β
  onCompleted : σ → HOutR σ β

def ROp.handle (r : ROp α β) (s : r.σ) : Notif α → HOutR r.σ β
  | .next v => r.onNext s v
  | .error e => r.onError s e
  | .completed => r.onCompleted s

/-- the atomic view of a split handler: what it does when nothing re-enters it -/
def HOutR.atomic {σ β} (h : HOutR σ β) : HOut σ β := ⟨h.st, h.calls ++ h.post h.st, none, false⟩

/-- the atomic operator (`RxModel/Ops.lean`) a split operator denotes -/
def ROp.toOp (r : ROp α β) : Op α β where
  σ := r.σ
  init := r.init
  pre := r.pre
  sub := r.sub
  onNext := fun s x => (r.onNext s x).atomic
  onError := fun s e => (r.onError s e).atomic
  onCompleted := fun s => (r.onCompleted s).atomic

/-- run state: upstream observer, operator state, downstream observer, notifications not yet pushed -/
structure FS (σ α : Type) where
  up : Ado
  st : σ
  down : Ado
  pending : List (Notif α)

/-- One downstream call into the subscriber's `AutoDetachObserver`.  A delivered terminal disposes the
source subscription.  A delivered `next` runs the consumer, which pushes the next pending notification
back into the source (`reenter`) if that is an element and nesting is still allowed. -/
def feedCall {σ} (reenter : FS σ α → α → FS σ α × List (Notif β)) (canNest : Bool)
    (s : FS σ α) (c : Notif β) : FS σ α × List (Notif β) :=
  let r := Ado.step noRaise s.down (toCall c)
  match r.2.delivered with
  | none => ({ s with down := r.1 }, [])
  | some m =>
    let s1 : FS σ α := { s with down := r.1, up := if r.2.disposes != 0 then disposeAdo s.up else s.up }
    match c, s1.pending with
    | .next _, .next x :: rest =>
      if canNest then ((reenter { s1 with pending := rest } x).1, m :: (reenter { s1 with pending := rest } x).2)
      else (s1, [m])
    | _, _ => (s1, [m])

def feedCalls {σ} (reenter : FS σ α → α → FS σ α × List (Notif β)) (canNest : Bool) :
    FS σ α → List (Notif β) → FS σ α × List (Notif β)
  | s, [] => (s, [])
  | s, c :: cs =>
    ((feedCalls reenter canNest (feedCall reenter canNest s c).1 cs).1,
     (feedCall reenter canNest s c).2 ++ (feedCalls reenter canNest (feedCall reenter canNest s c).1 cs).2)

/-- push one notification into the source; returns what the subscriber saw meanwhile -/
def ROp.deliver (r : ROp α β) (bound : Nat) : Nat → Nat → FS r.σ α → Notif α → FS r.σ α × List (Notif β)
  | 0, _, s, _ => (s, [])
  | fuel + 1, depth, s, n =>
    let u := Ado.step noRaise s.up (toCall n)
    match u.2.delivered with
    | none => ({ s with up := u.1 }, [])
    | some m =>
      let h := r.handle s.st m
      let s1 : FS r.σ α := { s with up := u.1, st := h.st }
      let reenter := fun (t : FS r.σ α) (x : α) => r.deliver bound fuel (depth + 1) t (.next x)
      let a := feedCalls reenter (decide (depth < bound)) s1 h.calls
      let b := feedCalls reenter (decide (depth < bound)) a.1 (h.post a.1.st)
      (b.1, a.2 ++ b.2)

/-- the top level pushes whatever the consumer did not trigger itself -/
def ROp.loop (r : ROp α β) (bound fuel : Nat) : Nat → FS r.σ α → List (Notif β)
  | 0, _ => []
  | k + 1, s =>
    match s.pending with
    | [] => []
    | n :: rest =>
      (r.deliver bound fuel 1 { s with pending := rest } n).2 ++
        ROp.loop r bound fuel k (r.deliver bound fuel 1 { s with pending := rest } n).1

/-- **what the subscriber of `source.pipe(op)` sees when the source is a feedback queue** fed with `raw`
(nesting allowed below depth `bound`) -/
def ROp.runFb (r : ROp α β) (bound : Nat) (raw : List (Notif α)) : List (Notif β) :=
  let f := feed {} r.pre
  let up : Ado := if !r.sub || f.2.2 then disposeAdo {} else {}
  f.2.1 ++ r.loop bound (raw.length + 1) (raw.length + 1) ⟨up, r.init, f.1, raw⟩

/-! ## The catalogue, split as the code is -/

def rpassErr {σ β} (s : σ) (e : Err) : HOutR σ β := ⟨s, [.error e], fun _ => []⟩
def rpassDone {σ β} (s : σ) : HOutR σ β := ⟨s, [.completed], fun _ => []⟩
def remit {σ β} (s : σ) (out : List (Notif β)) : HOutR σ β := ⟨s, out, fun _ => []⟩

def emptyR : ROp α β where
  σ := Unit
  init := ()
  pre := [.completed]
  sub := false
  onNext := fun s _ => remit s []
  onError := fun s _ => remit s []
  onCompleted := fun s => remit s []

def mapR (f : α → Except Err β) : ROp α β where
  σ := Unit
  init := ()
  onNext := fun s v =>
    match f v with
    | .error e => remit s [.error e]
    | .ok y => remit s [.next y]
  onError := rpassErr
  onCompleted := rpassDone

def filterR (p : α → Except Err Bool) : ROp α α where
  σ := Unit
  init := ()
  onNext := fun s v =>
    match p v with
    | .error e => remit s [.error e]
    | .ok b => if b then remit s [.next v] else remit s []
  onError := rpassErr
  onCompleted := rpassDone

def filterIndexedR (p : Option (α → Nat → Except Err Bool)) : ROp α α where
  σ := Nat
  init := 0
  onNext := fun count v =>
    match p with
    | none => remit count [.next v]
    | some p =>
      match p v count with
      | .error e => remit count [.error e]
      | .ok b => if b then remit (count + 1) [.next v] else remit (count + 1) []
  onError := rpassErr
  onCompleted := rpassDone

/-- `_take.py`: `remaining -= 1` **before** `observer.on_next(value)`; `if not remaining:` is read after it returned -/
def takePosR (count : Nat) : ROp α α where
  σ := Nat
  init := count
  onNext := fun remaining v =>
    if remaining > 0 then
      ⟨remaining - 1, [.next v], fun rem => if rem = 0 then [.completed] else []⟩
    else remit remaining []
  onError := rpassErr
  onCompleted := rpassDone

def takeR (count : Nat) : ROp α α := if count = 0 then emptyR else takePosR count

def skipR (count : Nat) : ROp α α where
  σ := Nat
  init := count
  onNext := fun remaining v =>
    if remaining ≤ 0 then remit remaining [.next v] else remit (remaining - 1) []
  onError := rpassErr
  onCompleted := rpassDone

def takeWhileR (p : α → Except Err Bool) (inclusive : Bool) : ROp α α where
  σ := Bool
  init := true
  onNext := fun running v =>
    if !running then remit running []
    else
      match p v with
      | .error e => remit running [.error e]
      | .ok r =>
        if r then remit r [.next v]
        else remit r ((if inclusive then [.next v] else []) ++ [.completed])
  onError := rpassErr
  onCompleted := rpassDone

def takeWhileIndexedR (p : α → Nat → Except Err Bool) (inclusive : Bool) : ROp α α where
  σ := Bool × Nat
  init := (true, 0)
  onNext := fun s v =>
    if !s.1 then remit s []
    else
      match p v s.2 with
      | .error e => remit s [.error e]
      | .ok r =>
        if r then remit (r, s.2 + 1) [.next v]
        else remit (r, s.2 + 1) ((if inclusive then [.next v] else []) ++ [.completed])
  onError := rpassErr
  onCompleted := rpassDone

def skipWhileR (p : α → Except Err Bool) : ROp α α where
  σ := Bool
  init := false
  onNext := fun running v =>
    if !running then
      match p v with
      | .error e => remit running [.error e]
      | .ok r => if !r then remit true [.next v] else remit false []
    else remit running [.next v]
  onError := rpassErr
  onCompleted := rpassDone

def distinctR (key : α → Except Err κ) (cmp : κ → κ → Except Err Bool) : ROp α α where
  σ := List κ
  init := []
  onNext := fun set x =>
    match key x with
    | .error e => remit set [.error e]
    | .ok k =>
      match findMatch cmp k set with
      | .error e => remit set [.error e]
      | .ok true => remit set []
      | .ok false => remit (set ++ [k]) [.next x]
  onError := rpassErr
  onCompleted := rpassDone

def distinctUntilChangedR (key : α → Except Err κ) (cmp : κ → κ → Except Err Bool) : ROp α α where
  σ := Option κ
  init := none
  onNext := fun cur v =>
    match key v with
    | .error e => remit cur [.error e]
    | .ok k =>
      match cur with
      | none => remit (some k) [.next v]
      | some c =>
        match cmp c k with
        | .error e => remit cur [.error e]
        | .ok eq => if !eq then remit (some k) [.next v] else remit cur []
  onError := rpassErr
  onCompleted := rpassDone

def pairwiseR : ROp α (α × α) where
  σ := Option α
  init := none
  onNext := fun prev x =>
    match prev with
    | none => remit (some x) []
    | some p => remit (some x) [.next (p, x)]
  onError := rpassErr
  onCompleted := rpassDone

def startWithR (args : List α) : ROp α α where
  σ := Unit
  init := ()
  pre := args.map .next
  onNext := fun s v => remit s [.next v]
  onError := rpassErr
  onCompleted := rpassDone

def defaultIfEmptyR (dflt : α) : ROp α α where
  σ := Bool
  init := false
  onNext := fun _ x => remit true [.next x]
  onError := rpassErr
  onCompleted := fun found => if !found then remit found [.next dflt, .completed] else remit found [.completed]

def ignoreElementsR : ROp α α where
  σ := Unit
  init := ()
  onNext := fun s _ => remit s []
  onError := rpassErr
  onCompleted := rpassDone

def takeLastR (count : Int) : ROp α α where
  σ := List α
  init := []
  onNext := fun q x => remit (pushBounded q x count) []
  onError := rpassErr
  onCompleted := fun q => remit [] (q.map .next ++ [.completed])

def skipLastR (count : Int) : ROp α α where
  σ := List α
  init := []
  onNext := fun q value =>
    if ((q ++ [value]).length : Int) > count then
      match q ++ [value] with
      | front :: rest => remit rest [.next front]
      | [] => remit [] []
    else remit (q ++ [value]) []
  onError := rpassErr
  onCompleted := rpassDone

def takeLastBufferR (count : Int) : ROp α (List α) where
  σ := List α
  init := []
  onNext := fun q x => remit (pushBounded q x count) []
  onError := rpassErr
  onCompleted := fun q => remit q [.next q, .completed]

/-- `_elementatordefault.py` (after c373a15): `index_ = -1` is committed before `on_next(x); on_completed()` -/
def elementAtOrDefaultR (index : Nat) (dflt : Option α) : ROp α α where
  σ := Int
  init := (index : Int)
  onNext := fun index_ x =>
    if index_ > 0 then remit (index_ - 1) []
    else if index_ = 0 then remit (-1) [.next x, .completed]
    else remit index_ []
  onError := rpassErr
  onCompleted := fun index_ =>
    match dflt with
    | none => remit index_ [.error aoor]
    | some d => remit index_ [.next d, .completed]

/-- `_find.py` (after 8cbe136): `found = True` is committed before `on_next(...); on_completed()` -/
def findValueR (p : α → Nat → Except Err Bool) (yes : α → Nat → β) (no : β) : ROp α β where
  σ := Nat × Bool
  init := (0, false)
  onNext := fun s x =>
    if s.2 then remit s []
    else
      match p x s.1 with
      | .error e => remit s [.error e]
      | .ok r => if r then remit (s.1, true) [.next (yes x s.1), .completed] else remit (s.1 + 1, false) []
  onError := rpassErr
  onCompleted := fun s => remit s [.next no, .completed]

def materializeR : ROp α (Notif α) where
  σ := Unit
  init := ()
  onNext := fun s v => remit s [.next (.next v)]
  onError := fun s e => remit s [.next (.error e), .completed]
  onCompleted := fun s => remit s [.next .completed, .completed]

def dematerializeR : ROp (Notif α) α where
  σ := Unit
  init := ()
  onNext := fun s n => remit s [n]
  onError := rpassErr
  onCompleted := rpassDone

def scanSeedR (f : β → α → Except Err β) (seed : β) : ROp α β where
  σ := Option β
  init := none
  onNext := fun acc x =>
    match f (acc.getD seed) x with
    | .error e => remit acc [.error e]
    | .ok a => remit (some a) [.next a]
  onError := rpassErr
  onCompleted := rpassDone

end Ops

import RxModel.Core
/-!
# Thr2Lock — atomic-step interleaving model of source threads emitting into a combinator (C43)

Any number of threads (`Nat → TS`), one shared operator state `σ`, one operator lock `L`, one downstream
`AutoDetachObserver` (the `observer` every combinator calls; `reactivex/observer/autodetachobserver.py`).

A thread's program (`TProg`) is what its source makes it run inside the combinator, handler after
handler.  It is *resumable* (every continuation may depend on the shared state read at that step), so
any control flow of a handler is expressible:

* `crit body next`   — `with lock: body` / `@synchronized(lock)` (`reactivex/internal/concurrency.py`):
                        acquire `L` (enabled only when free), run `body` step by step, release;
* `free upd next`     — one atomic step outside the lock that updates the state and calls nothing
                        (a single operation on a self-synchronised container such as `group.add(..)`,
                        or — in the *unfixed* combinators — an unlocked write);
* `ucall out next`    — a downstream call made *without* the lock (as `amb` does by design, and as the
                        unfixed `zip`/`combine_latest`/`with_latest_from`/`merge` terminal paths do).

A body (`Prog`) is a chain of atomic steps, each updating the state and possibly calling the
downstream observer.  A downstream call is three atomic steps, as in `AutoDetachObserver`:
(1) the call is made and `is_stopped` is read; (2) the flag is set (for terminals) and the user
callback is entered; (3) the callback returns.  Other threads may run between these steps.
-/

namespace Thr2

inductive Prog (σ α : Type) where
  | done : Prog σ α
  | step (upd : σ → σ) (out : σ → Option (Notif α)) (next : σ → Prog σ α) : Prog σ α

inductive TProg (σ α : Type) where
  | halt : TProg σ α
  | free (upd : σ → σ) (next : σ → TProg σ α) : TProg σ α
  | crit (body : Prog σ α) (next : TProg σ α) : TProg σ α
  | ucall (out : σ → Option (Notif α)) (next : TProg σ α) : TProg σ α

/-- Local state of a thread. -/
inductive TS (σ α : Type) where
  | run (p : TProg σ α)                                   -- outside the lock
  | crit (b : Prog σ α) (k : TProg σ α)                   -- holds `L`, about to run the head of `b`
  | critChk (n : Notif α) (b : Prog σ α) (k : TProg σ α)  -- holds `L`; inside the observer, read `is_stopped = False`
  | critIn (b : Prog σ α) (k : TProg σ α)                 -- holds `L`; inside the user callback
  | uChk (n : Notif α) (k : TProg σ α)                    -- no lock; inside the observer, read `is_stopped = False`
  | uIn (k : TProg σ α)                                   -- no lock; inside the user callback

namespace TS
def holds {σ α} : TS σ α → Bool
  | .crit .. | .critChk .. | .critIn .. => true
  | _ => false
/-- inside the downstream observer (between the `is_stopped` test and the return of the callback) -/
def inObs {σ α} : TS σ α → Bool
  | .critChk .. | .critIn .. | .uChk .. | .uIn .. => true
  | _ => false
def isChk {σ α} : TS σ α → Bool
  | .critChk .. | .uChk .. => true
  | _ => false
/-- inside the user callback -/
def isIn {σ α} : TS σ α → Bool
  | .critIn .. | .uIn .. => true
  | _ => false
end TS

structure Sys (σ α : Type) where
  st : σ
  lock : Option Nat             -- owner of `L`
  thr : Nat → TS σ α
  stopped : Bool                -- the downstream observer's `is_stopped`
  active : Nat                  -- threads currently inside a user callback
  maxActive : Nat               -- maximum of `active` so far
  calls : List (Notif α)        -- calls made on the downstream observer, in order
  delivered : List (Notif α)    -- user callbacks entered, in order
  acq : List Nat                -- threads in the order in which they acquired `L`

def upd {β} (f : Nat → β) (i : Nat) (v : β) : Nat → β := fun j => if j = i then v else f j

@[simp] theorem upd_same {β} (f : Nat → β) (i : Nat) (v : β) : upd f i v i = v := by simp [upd]
theorem upd_other {β} (f : Nat → β) (i j : Nat) (v : β) (h : j ≠ i) : upd f i v j = f j := by simp [upd, h]

def init {σ α} (s0 : σ) (progs : Nat → TProg σ α) : Sys σ α :=
  { st := s0, lock := none, thr := fun i => .run (progs i), stopped := false, active := 0, maxActive := 0,
    calls := [], delivered := [], acq := [] }

/-- The call is made: it is recorded; a stopped observer returns at once, otherwise the thread is
now inside the observer having read `is_stopped = False`. -/
def Sys.callStep {σ α} (S : Sys σ α) (i : Nat) (c : Notif α) (stoppedT notT : TS σ α) : Sys σ α :=
  if S.stopped then { S with calls := S.calls ++ [c], thr := upd S.thr i stoppedT }
  else { S with calls := S.calls ++ [c], thr := upd S.thr i notT }

/-- Step (2) of a downstream call: set the flag for a terminal, enter the user callback. -/
def Sys.commit {σ α} (S : Sys σ α) (i : Nat) (c : Notif α) (t : TS σ α) : Sys σ α :=
  { S with stopped := S.stopped || c.isTerminal, delivered := S.delivered ++ [c],
           active := S.active + 1, maxActive := max S.maxActive (S.active + 1), thr := upd S.thr i t }

/-- One atomic step of thread `i`; `none` when the thread is finished or blocked on the lock. -/
def step {σ α} (S : Sys σ α) (i : Nat) : Option (Sys σ α) :=
  match S.thr i with
  | .run .halt => none
  | .run (.free u n) => some { S with st := u S.st, thr := upd S.thr i (.run (n S.st)) }
  | .run (.crit b k) =>
    match S.lock with
    | none => some { S with lock := some i, thr := upd S.thr i (.crit b k), acq := S.acq ++ [i] }
    | some _ => none
  | .run (.ucall o k) =>
    match o S.st with
    | none => some { S with thr := upd S.thr i (.run k) }
    | some c => some (S.callStep i c (.run k) (.uChk c k))
  | .uChk c k => some (S.commit i c (.uIn k))
  | .uIn k => some { S with active := S.active - 1, thr := upd S.thr i (.run k) }
  | .crit .done k => some { S with lock := none, thr := upd S.thr i (.run k) }
  | .crit (.step u o n) k =>
    match o S.st with
    | none => some { S with st := u S.st, thr := upd S.thr i (.crit (n S.st) k) }
    | some c => some ({ S with st := u S.st }.callStep i c (.crit (n S.st) k) (.critChk c (n S.st) k))
  | .critChk c b k => some (S.commit i c (.critIn b k))
  | .critIn b k => some { S with active := S.active - 1, thr := upd S.thr i (.crit b k) }

/-- Run a schedule (a list of thread indices); a choice that is not enabled is skipped, so every list
is a schedule and every reachable state is reached by some list. -/
def runSched {σ α} (S : Sys σ α) : List Nat → Sys σ α
  | [] => S
  | i :: is => runSched ((step S i).getD S) is

/-! ### The sequential reference: handlers as atomic blocks -/

/-- Run a whole body at once: final state and the calls it makes, in order. -/
def Prog.exec {σ α} : Prog σ α → σ → σ × List (Notif α)
  | .done, s => (s, [])
  | .step u o n, s =>
    let r := (n s).exec (u s)
    (r.1, (o s).toList ++ r.2)

structure Seq (σ α : Type) where
  st : σ
  calls : List (Notif α)
  thr : Nat → TProg σ α

/-- Thread `i` runs its next locked block atomically (no-op if it is not at a locked block). -/
def Seq.step {σ α} (q : Seq σ α) (i : Nat) : Seq σ α :=
  match q.thr i with
  | .crit b k => { st := (b.exec q.st).1, calls := q.calls ++ (b.exec q.st).2, thr := upd q.thr i k }
  | _ => q

def Seq.run {σ α} (q : Seq σ α) (lin : List Nat) : Seq σ α := lin.foldl Seq.step q

/-! ### Program shapes -/

/-- no downstream call outside the lock, anywhere in the program -/
inductive NoUCall {σ α} : TProg σ α → Prop
  | halt : NoUCall .halt
  | free {u n} : (∀ s, NoUCall (n s)) → NoUCall (.free u n)
  | crit {b k} : NoUCall k → NoUCall (.crit b k)

/-- only locked blocks: no call and no state step outside the lock -/
inductive AllLocked {σ α} : TProg σ α → Prop
  | halt : AllLocked .halt
  | crit {b k} : AllLocked k → AllLocked (.crit b k)

/-! ### `amb` (`reactivex/operators/_amb.py`)

State: `choice` (`none` / `some side`).  The handler of side `d` for a notification `n`:
`with left_source.lock: choice_d()` — i.e. `if not choice: choice = d` (the losing subscription's
disposal is not modelled: the loser may keep emitting, the adversarial case) — and then, **outside the
lock**, `if choice == d: observer.on_xxx(n)`. -/
def ambChoose (d : Bool) : Option Bool → Option Bool
  | none => some d
  | some x => some x

def ambGuard {α} (d : Bool) (n : Notif α) : Option Bool → Option (Notif α) :=
  fun c => if c = some d then some n else none

def ambHandler {α} (d : Bool) (n : Notif α) (k : TProg (Option Bool) α) : TProg (Option Bool) α :=
  .crit (.step (ambChoose d) (fun _ => none) (fun _ => .done)) (.ucall (ambGuard d n) k)

def ambProg {α} (d : Bool) : List (Notif α) → TProg (Option Bool) α
  | [] => .halt
  | n :: ns => ambHandler d n (ambProg d ns)

/-- thread 0 is the left source, thread 1 the right one, nobody else -/
def ambProgs {α} (ls rs : List (Notif α)) : Nat → TProg (Option Bool) α
  | 0 => ambProg false ls
  | 1 => ambProg true rs
  | _ => .halt

/-! ### Straight-line programs (used by the driver to replay an observed run) -/

inductive Op (α : Type) where
  | acq | rel
  | call (n : Notif α)
  | free

/-- steps of a locked block up to the matching `rel`; returns the body and the remaining ops -/
def bodyOf {α} : List (Op α) → Prog Unit α × List (Op α)
  | [] => (.done, [])
  | .rel :: rest => (.done, rest)
  | .call n :: rest =>
    let r := bodyOf rest
    (.step id (fun _ => some n) (fun _ => r.1), r.2)
  | _ :: rest => bodyOf rest

theorem bodyOf_len {α} (l : List (Op α)) : (bodyOf l).2.length ≤ l.length := by
  induction l with
  | nil => simp [bodyOf]
  | cons o rest ih => cases o <;> simp [bodyOf] <;> omega

def progOf {α} : List (Op α) → TProg Unit α
  | [] => .halt
  | .acq :: rest =>
    have := bodyOf_len rest
    .crit (bodyOf rest).1 (progOf (bodyOf rest).2)
  | .call n :: rest => .ucall (fun _ => some n) (progOf rest)
  | .free :: rest => .free id (fun _ => progOf rest)
  | .rel :: rest => progOf rest
termination_by l => l.length
decreasing_by all_goals simp_wf <;> omega

/-- label of the step thread `i` would take (for the trace comparison with the real run) -/
def label {σ α} (S : Sys σ α) (i : Nat) : String :=
  match S.thr i with
  | .run .halt => "halt"
  | .run (.free ..) => "free"
  | .run (.crit ..) => if S.lock.isNone then "acq" else "blocked"
  | .run (.ucall o _) => if (o S.st).isSome then "call" else "skip"
  | .uChk .. => "enter"
  | .uIn .. => "exit"
  | .crit .done _ => "rel"
  | .crit (.step _ o _) _ => if (o S.st).isSome then "call" else "step"
  | .critChk .. => "enter"
  | .critIn .. => "exit"

def runLabels {σ α} (S : Sys σ α) : List Nat → List String × Sys σ α
  | [] => ([], S)
  | i :: is =>
    let r := runLabels ((step S i).getD S) is
    (label S i :: r.1, r.2)

end Thr2

import RxModel.Core
/-!
# Win — windows (C18): shared bookkeeping + `window_with_count_`

Mirrors `reactivex/operators/_windowwithcount.py` handler by handler, on top of a small model of the
objects every window operator uses:

* a **window** is a `Subject` (`reactivex/subject/subject.py`): `pushed` = the elements the operator
  pushed into it while it was not stopped, `ended` = how it was stopped; the recording observer the
  harness attaches *inside the outer `on_next`* is `attached` (it holds one reference of the
  `RefCountDisposable` through `add_ref`);
* the **outer observer** is the `AutoDetachObserver` created by `Observable.subscribe`
  (`outerStopped`), whose terminal callbacks / `dispose` dispose the returned `RefCountDisposable`;
* `RefCountDisposable` (`primary`, `count`, `rcDisposed`) as written in
  `reactivex/disposable/refcountdisposable.py`: the underlying disposable (the source subscriptions
  and timers of the operator) is disposed when the primary is disposed **and** every attached window
  observer has gone;
* `live` = the sources currently subscribed (a source's own `AutoDetachObserver` removes it after
  its terminal; events of sources that are not live are ignored).

Everything observable is appended to `log` with the current virtual time `now`.
-/

namespace Win

/-- What the harness can observe. -/
inductive Out (α : Type) where
  | outer (n : Notif Nat)          -- outer observer: on_next(window #id) / on_error / on_completed
  | win (id : Nat) (n : Notif α)   -- the observer attached to window #id
  | sub (src : Nat)                -- operator subscribed to source `src`
  | unsub (src : Nat)              -- that subscription was disposed
  | escaped (e : Err)              -- exception escaping to the emitter / scheduler
deriving Repr, BEq, DecidableEq

/-- A window subject. `ended = some none` completed, `some (some e)` errored. -/
structure W (α : Type) where
  pushed : List α := []
  ended : Option (Option Err) := none
  attached : Bool := false
deriving Repr, BEq, DecidableEq

def endNotif {α} : Option Err → Notif α
  | none => .completed
  | some e => .error e

structure Base (α : Type) where
  now : Nat := 0
  wins : List (W α) := []
  outerStopped : Bool := false
  primary : Bool := false
  count : Nat := 0
  rcDisposed : Bool := false
  live : List Nat := []
  log : List (Nat × Out α) := []
deriving Repr

namespace Base
variable {α : Type}

def emit (s : Base α) (o : Out α) : Base α := { s with log := s.log ++ [(s.now, o)] }

def subscribe (s : Base α) (k : Nat) : Base α := emit { s with live := s.live ++ [k] } (.sub k)

def unsub (s : Base α) (k : Nat) : Base α :=
  if s.live.contains k then emit { s with live := s.live.erase k } (.unsub k) else s

/-- dispose the underlying (group) disposable: every subscription it holds, in container order. -/
def disposeUnderlying (s : Base α) : Base α := s.live.foldl unsub s

/-- `RefCountDisposable.dispose`. -/
def rcDispose (s : Base α) : Base α :=
  if s.rcDisposed then s
  else if s.primary then s
  else
    let s := { s with primary := true }
    if s.count == 0 then disposeUnderlying { s with rcDisposed := true } else s

/-- `RefCountDisposable.release` (an `InnerDisposable` was disposed). -/
def rcRelease (s : Base α) : Base α :=
  if s.rcDisposed then s
  else
    let s := { s with count := s.count - 1 }
    if s.count == 0 && s.primary then disposeUnderlying { s with rcDisposed := true } else s

/-- the elements pushed into window `id` so far / how it ended (`none`: still open or never created). -/
def pushedOf (s : Base α) (id : Nat) : List α := match s.wins[id]? with | some w => w.pushed | none => []
def endedOf (s : Base α) (id : Nat) : Option (Option Err) := match s.wins[id]? with | some w => w.ended | none => none

/-- a fresh `Subject()`; returns its id. -/
def newWin (s : Base α) : Base α × Nat := ({ s with wins := s.wins ++ [{}] }, s.wins.length)

/-- `observer.on_next(add_ref(window, r))` on the outer `AutoDetachObserver`, and the harness
subscribing its recorder to the window inside that callback (`r.disposable` takes a reference unless
`r` is already disposed; the subject is fresh, so the recorder is simply appended). -/
def outerNext (s : Base α) (id : Nat) : Base α :=
  if s.outerStopped then s
  else
    let s := emit s (.outer (.next id))
    let s := if s.rcDisposed then s else { s with count := s.count + 1 }
    { s with wins := s.wins.modify id (fun w => { w with attached := true }) }

/-- `observer.on_error / on_completed` on the outer `AutoDetachObserver`: flag, callback, `finally: dispose()`. -/
def outerEnd (s : Base α) (e : Option Err) : Base α :=
  if s.outerStopped then s
  else rcDispose (emit { s with outerStopped := true } (.outer (endNotif e)))

/-- the subscriber disposes the outer subscription. -/
def outerDispose (s : Base α) : Base α := rcDispose { s with outerStopped := true }

/-- `window.on_next(x)`. -/
def winNext (s : Base α) (id : Nat) (x : α) : Base α :=
  match s.wins[id]? with
  | none => s
  | some w =>
    if w.ended.isSome then s
    else
      let s := { s with wins := s.wins.set id { w with pushed := w.pushed ++ [x] } }
      if w.attached then emit s (.win id (.next x)) else s

/-- `window.on_completed()` / `window.on_error(e)`: the attached recorder gets the terminal and its
`AutoDetachObserver` disposes `CompositeDisposable(r.disposable, subscription)` → `release`. -/
def winEnd (s : Base α) (id : Nat) (e : Option Err) : Base α :=
  match s.wins[id]? with
  | none => s
  | some w =>
    if w.ended.isSome then s
    else
      let s := { s with wins := s.wins.set id { w with ended := some e, attached := false } }
      if w.attached then rcRelease (emit s (.win id (endNotif e))) else s

/-- the harness disposes the recorder of window `id`. -/
def winDetach (s : Base α) (id : Nat) : Base α :=
  match s.wins[id]? with
  | none => s
  | some w =>
    if w.attached then rcRelease { s with wins := s.wins.set id { w with attached := false } } else s

/-- the `dispose` input event: the outer subscription, then (optionally) every window recorder in creation order. -/
def disposeEv (s : Base α) (windows : Bool) : Base α :=
  let s := outerDispose s
  if windows then (List.range s.wins.length).foldl winDetach s else s

end Base

/-- Input events of the untimed window machines. -/
inductive Ev (α : Type) where
  | src (k : Nat) (n : Notif α)     -- source k delivers n  (0 = the windowed source)
  | dispose (windows : Bool)
  | tick                            -- the operator's own armed timer fires (timed operators only)
deriving Repr, BEq, DecidableEq

/-! ## window_with_count_ -/

structure Cnt (α : Type) where
  b : Base α := {}
  n : Nat := 0
  q : List Nat := []
deriving Repr

namespace Cnt
variable {α : Type}

/-- `create_window()`. -/
def createWindow (s : Cnt α) : Cnt α :=
  let (b, id) := s.b.newWin
  { s with b := b.outerNext id, q := s.q ++ [id] }

/-- `subscribe`: `create_window()` then `m.disposable = source.subscribe(...)`. -/
def init (t0 : Nat) : Cnt α :=
  let s := createWindow { b := { now := t0 } }
  { s with b := s.b.subscribe 0 }

/-- `on_next(x)`.  `c = n - count + 1; if c >= 0 and c % skip == 0` is written on naturals:
`n + 1 ≥ count ∧ (n + 1 - count) % skip = 0`.  `q.pop(0)` on an empty list raises IndexError. -/
def onNext (count skip : Nat) (s : Cnt α) (x : α) : Cnt α :=
  let b := s.q.foldl (fun b id => b.winNext id x) s.b
  if s.n + 1 ≥ count ∧ (s.n + 1 - count) % skip = 0 then
    match s.q with
    | [] => { s with b := b.emit (.escaped "IndexError") }
    | id :: q' =>
      let s := { s with b := b.winEnd id none, q := q', n := s.n + 1 }
      if s.n % skip = 0 then createWindow s else s
  else
    let s := { s with b := b, n := s.n + 1 }
    if s.n % skip = 0 then createWindow s else s

/-- `on_error` / `on_completed`: `while q: q.pop(0).on_xxx()`, then the outer observer. -/
def onEnd (s : Cnt α) (e : Option Err) : Cnt α :=
  let b := s.q.foldl (fun b id => b.winEnd id e) s.b
  { s with b := b.outerEnd e, q := [] }

def step (count skip : Nat) (s : Cnt α) : Ev α → Cnt α
  | .src 0 n =>
    if s.b.live.contains 0 then
      match n with
      | .next x => onNext count skip s x
      | .error e => let s := onEnd s (some e); { s with b := s.b.unsub 0 }   -- the source's own AutoDetachObserver
      | .completed => let s := onEnd s none; { s with b := s.b.unsub 0 }
    else s
  | .src _ _ => s
  | .dispose w => { s with b := s.b.disposeEv w }
  | .tick => s

def run (count skip : Nat) : Cnt α → List (Nat × Ev α) → Cnt α
  | s, [] => s
  | s, (t, e) :: es => run count skip (step count skip { s with b := { s.b with now := t } } e) es

/-- Untimed element-only view used by the index theorem: feed elements `xs`. -/
def feed (count skip : Nat) : Cnt α → List α → Cnt α
  | s, [] => s
  | s, x :: xs => feed count skip (onNext count skip s x) xs

end Cnt

end Win

namespace Win
/-- number of window subscribers currently attached (each holds one reference of the `RefCountDisposable`). -/
def Base.attachedCount {α : Type} (b : Base α) : Nat := b.wins.countP (·.attached)
end Win

import RxModel.Comb
/-!
# L2 higher-order combinators: merge_all, merge(max_concurrent), switch_latest (C11, C12)

Source 0 is the outer sequence; its elements are inner observables: `HV.obs j` is the inner whose
subscription appears in the trace under the id `j + 1` (so an inner can never be confused with the
outer source); inner sources deliver plain values (`HV.val v`).  flat_map = map ∘ merge_all, concat_map = map ∘ merge(1), switch_map = map ∘ switch_latest:
the mapper's result *is* the `obs k` carried by the outer event (a raising mapper is an outer error).
-/

namespace Comb

inductive HV (α : Type) where
  | obs (k : Nat)
  | val (v : α)
deriving Repr, BEq, DecidableEq

/-! ## merge_all (`_merge.py: merge_all_`) — `group` = CompositeDisposable [m, inner holders…] -/
structure MaSt where
  group : List Nat := []      -- the inner holders in `group` (besides `m`, which never leaves it)
  stopped : Bool := false

def maHandler {α} (s : MaSt) (k : Nat) : Notif (HV α) → MaSt × List (Act α)
  | .next (.obs j) =>
    if k = 0 then ({ s with group := s.group ++ [j + 1] }, [Act.sub (j + 1)]) else (s, [])
  | .next (.val v) => if k = 0 then (s, []) else (s, [Act.emit (.next v)])
  | .error e => (s, [Act.emit (.error e)])
  | .completed =>
    if k = 0 then
      ({ s with stopped := true }, if s.group.isEmpty then [Act.emit .completed] else [])
    else
      let g := s.group.erase k
      ({ s with group := g }, Act.unsub k :: (if s.stopped && g.isEmpty then [Act.emit .completed] else []))

def maM {α} : Machine MaSt (HV α) α := { handler := maHandler }
def hoInit {σ} (s : σ) : St σ := ⟨s, { done := false, live := [0] }⟩

/-! ## merge(max_concurrent) (`_merge.py: merge_`) -/
structure McSt where
  active : Nat := 0
  queue : List Nat := []
  stopped : Bool := false

def mcHandler {α} (maxc : Nat) (s : McSt) (k : Nat) : Notif (HV α) → McSt × List (Act α)
  | .next (.obs j) =>
    if k = 0 then
      if s.active < maxc then ({ s with active := s.active + 1 }, [Act.sub (j + 1)])
      else ({ s with queue := s.queue ++ [j + 1] }, [])
    else (s, [])
  | .next (.val v) => if k = 0 then (s, []) else (s, [Act.emit (.next v)])
  | .error e => (s, [Act.emit (.error e)])
  | .completed =>
    if k = 0 then
      ({ s with stopped := true }, if s.active = 0 then [Act.emit .completed] else [])
    else
      match s.queue with
      | j :: rest => ({ s with queue := rest }, [Act.unsub k, Act.sub j])
      | [] =>
        let a := s.active - 1
        ({ s with active := a }, Act.unsub k :: (if s.stopped && a = 0 then [Act.emit .completed] else []))

def mcM {α} (maxc : Nat) : Machine McSt (HV α) α := { handler := mcHandler maxc }

/-! ## switch_latest (`_switchlatest.py`) — returned disposable = Composite(outer subscription, Serial inner) -/
structure SwSt where
  cur : Option Nat := none     -- the inner whose `_id` equals `latest[0]`
  hasLatest : Bool := false
  stopped : Bool := false

def swHandler {α} (s : SwSt) (k : Nat) : Notif (HV α) → SwSt × List (Act α)
  | .next (.obs j) =>
    if k = 0 then
      -- `inner_subscription.disposable = d` disposes the previous holder, then the new inner is subscribed
      ({ s with cur := some (j + 1), hasLatest := true },
        (match s.cur with | some o => [Act.unsub o] | none => []) ++ [Act.sub (j + 1)])
    else (s, [])
  | .next (.val v) =>
    if k = 0 then (s, []) else if s.cur = some k then (s, [Act.emit (.next v)]) else (s, [])
  | .error e =>
    if k = 0 then (s, [Act.emit (.error e)])
    else if s.cur = some k then (s, [Act.emit (.error e)]) else (s, [])
  | .completed =>
    if k = 0 then
      ({ s with stopped := true }, if !s.hasLatest then [Act.emit .completed] else [])
    else if s.cur = some k then
      ({ s with hasLatest := false }, if s.stopped then [Act.emit .completed] else [])
    else (s, [])

def swM {α} : Machine SwSt (HV α) α := { handler := swHandler }

end Comb

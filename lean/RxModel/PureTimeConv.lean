/-!
# L7 Pure — time conversions (`reactivex/scheduler/scheduler.py`: to_seconds / to_datetime / to_timedelta)

Exact integer-microsecond model of `timedelta` (µs) and of aware `datetime` (µs since the UTC epoch,
`UTC_ZERO = datetime.fromtimestamp(0, tz=utc)` is 0), and floats as the exact rational value of the
double.  The float legs go through exactly two primitive double operations, as CPython performs them:

* `timedelta.total_seconds()` = `us / 10**6` — true division of ints, correctly rounded: `rn (us / 10^6)`;
* `timedelta(seconds=x)` and `datetime.fromtimestamp(x, tz=utc)`: `modf` (exact), the fractional part
  times `1e6` as a double product (`rn (frac * 10^6)`), rounded half-even to an integer.

`rn` is a parameter of the conversions (any rounding function); `rd` below is the executable IEEE-754
binary64 round-to-nearest-even used by the driver (normal range only; overflow and subnormals are far
outside the range of time values).  Out-of-range values (year < 1 or > 9999, |timedelta| > 999999999
days) raise in Python and are not modelled.
-/

namespace Pure.TimeConv

/-- a time value in one of the Python representations -/
inductive TV where
  | flt (x : Rat)      -- float seconds: the exact value of the double
  | int (k : Int)      -- int seconds
  | td (us : Int)      -- timedelta, in microseconds
  | dt (us : Int)      -- aware datetime, microseconds since the UTC epoch
deriving Repr, DecidableEq

/-- seconds as Python returns them: a float (exact rational of the double) or an unchanged int -/
inductive Secs where
  | flt (x : Rat)
  | int (k : Int)
deriving Repr, DecidableEq

def Secs.val : Secs → Rat
  | .flt x => x
  | .int k => k

def e6 : Rat := 1000000

/-- round half to even -/
def rhe (x : Rat) : Int :=
  let f := x.floor
  let r := x - f
  if r < 1 / 2 then f
  else if 1 / 2 < r then f + 1
  else if f % 2 = 0 then f else f + 1

/-- C `modf`: integral part truncated toward zero -/
def trunc (x : Rat) : Int := if 0 ≤ x then x.floor else -((-x).floor)

/-- `timedelta(seconds=x)` for a float `x`: whole seconds exactly, the fraction times 1e6 as a double
product, rounded half-even (to an even TOTAL — the whole-second part is even in µs). -/
def usOfFloat (rn : Rat → Rat) (x : Rat) : Int :=
  let ip := trunc x
  let fr := x - ip
  ip * 1000000 + rhe (rn (fr * e6))

/-- `datetime.fromtimestamp(x, tz=utc)` (`_PyTime_ObjectToTimeval`, ROUND_HALF_EVEN, then the
normalisation of the microsecond field into `[0, 10^6)`): (seconds, microseconds). -/
def fromTimestamp (rn : Rat → Rat) (x : Rat) : Int × Int :=
  let ip := trunc x
  let fr := x - ip
  let us := rhe (rn (fr * e6))
  if us ≥ 1000000 then (ip + 1, us - 1000000)
  else if us < 0 then (ip - 1, us + 1000000)
  else (ip, us)

/-- `Scheduler.to_seconds` -/
def toSeconds (rn : Rat → Rat) : TV → Secs
  | .flt x => .flt x
  | .int k => .int k
  | .td us => .flt (rn ((us : Rat) / e6))
  | .dt us => .flt (rn (((us - 0 : Int) : Rat) / e6))      -- (value - UTC_ZERO).total_seconds()

/-- `Scheduler.to_timedelta`, in microseconds -/
def toTimedelta (rn : Rat → Rat) : TV → Int
  | .td us => us
  | .dt us => us - 0                                         -- value - UTC_ZERO
  | .int k => k * 1000000                                    -- timedelta(seconds=int) is exact
  | .flt x => usOfFloat rn x

/-- `Scheduler.to_datetime`, in microseconds since the epoch -/
def toDatetime (rn : Rat → Rat) : TV → Int
  | .dt us => us
  | .td us => 0 + us                                         -- UTC_ZERO + value
  | .int k => k * 1000000
  | .flt x => let (s, us) := fromTimestamp rn x; s * 1000000 + us

/-! ## executable IEEE-754 binary64 rounding (normal range) -/

def pow2 (e : Int) : Rat :=
  if 0 ≤ e then ((2 ^ e.toNat : Nat) : Rat) else 1 / ((2 ^ (-e).toNat : Nat) : Rat)

/-- `⌊log₂ x⌋` for `x > 0` -/
def ilog2 (x : Rat) : Int :=
  let k : Int := (Nat.log2 x.num.natAbs : Int) - (Nat.log2 x.den : Int)
  if pow2 k ≤ x then (if pow2 (k + 1) ≤ x then k + 1 else k) else k - 1

/-- round to nearest double, ties to even (53-bit significand) -/
def rd (x : Rat) : Rat :=
  if x = 0 then 0
  else
    let a := if x < 0 then -x else x
    let e := ilog2 a - 52
    let m := rhe (a / pow2 e)
    let r := (m : Rat) * pow2 e
    if x < 0 then -r else r

end Pure.TimeConv

import RxModel.Conn
/-!
# L6 Connectable, re-entrant: synchronously emitting sources and calls made from inside callbacks (C24)

`RxModel/Conn.lean` covers histories on a virtual-time scheduler, where nothing happens *inside* a
call.  This file covers the opposite regime: a source that pushes notifications synchronously from
inside its `subscribe` (a `reactivex.create` source, a replaying subject used as source) and
subscribers that call `connect()`, `subscribe(...)` (directly or through another `ref_count` view of
the same connectable) or dispose another subscription *from inside `on_next`*.

The call stack is an explicit task stack (`exec`): the tasks a call expands to are pushed in front,
which is exactly depth-first, synchronous execution.  Mirrored as written:
* `ConnectableObservable.connect`: `has_subscription = True` **before** `source.subscribe(subject)`
  (task `connect` sets the flag, then the source's synchronous emissions run, then `connectP3` stores
  the new composite in `self.subscription`); a `connect()` reached in between sees the flag and
  returns the old `self.subscription`;
* `ref_count_.subscribe`: `count += 1`, `source.subscribe(observer)` **then** `connect()` if the count
  became 1, then `Disposable(dispose)` is returned (task `returned`: a subscriber that is already
  stopped is disposed at once);
* `Subject._on_next_core` delivers to a *snapshot* of the observers; an observer whose
  `AutoDetachObserver` was disposed in the meantime ignores the value.
-/

namespace Conn.Sync
open Conn

/-- what a callback or the history can do -/
inductive SOp where
  | sub (i : Nat) (view : Option Nat) (react : Option (Nat × Nat))
      -- subscriber `i` subscribes to the raw connectable (`none`) or to `ref_count` view `k`;
      -- `react = (r, a)`: on its r-th `on_next` it performs action number `a` of the case's action table
  | unsub (i : Nat)
  | connect
  | disconnect (k : Nat)          -- dispose what the k-th recorded `connect()` returned
  | push (n : Notif Nat)          -- the source emits to its open subscriptions
deriving Repr

structure SubSt where
  view : Option Nat
  react : Option (Nat × Nat)
  live : Bool := true        -- its subscription disposable has not run
  stopped : Bool := false    -- its AutoDetachObserver is stopped
  returned : Bool := false   -- its subscription disposable has been assigned to its AutoDetachObserver
  held : Bool := false       -- its `subscribe` call has returned: the caller holds the disposable
  got : Nat := 0
  -- ReplaySubject only: the subscriber's `ScheduledObserver`
  q : List (Notif Nat) := []   -- queued notifications
  acquired : Bool := false     -- `is_acquired`: a `run` is scheduled / running
  soStopped : Bool := false    -- the ScheduledObserver (an `Observer`) is stopped: it queues nothing more
deriving Repr

structure View where
  count : Int := 0
  connSub : Option Nat := none
deriving Repr

inductive Task where
  | call (op : SOp)
  | connect
  | emit (sid : Nat) (n : Notif Nat)
  | connectP3 (sid : Nat)
  | storeConn (v : Nat)
  | recordHandle
  | subjSub (i : Nat)
  | deliver (i : Nat) (n : Notif Nat)
  | returned (i : Nat)
  | held (i : Nat)
  | disposeSub (i : Nat)
  | disposeHandle (h : Nat)
  | closeSrc (sid : Nat)
  | ensureActive (i : Nat)     -- ScheduledObserver.ensure_active
  | schedule (i : Nat)         -- CurrentThreadScheduler.schedule(so_i.run): trampoline
  | soRun (i : Nat)            -- ScheduledObserver.run
  | trampDrain                 -- the trampoline takes its next item, or goes idle
deriving Repr

structure SW where
  subj : Subj Nat
  syncMsgs : List (Notif Nat)              -- what the source emits inside every `subscribe`
  actions : List SOp := []                 -- the reactions' action table
  hasSub : Bool := false
  curHandle : Option Nat := none           -- `self.subscription`, while that composite is not disposed
  /-- the one composite that is not disposed: (its number, the source subscription it owns) -/
  liveHandle : Option (Nat × Nat) := none
  nHandles : Nat := 0
  /-- a `connect()` is between `has_subscription = True` and storing its composite: the source
  subscription it is making -/
  pending : Option Nat := none
  retHandles : List (Option Nat) := []     -- what the history's `connect()` calls returned
  srcOpen : List Nat := []
  nSrc : Nat := 0
  maxOpen : Nat := 0                       -- most source subscriptions open at one time
  views : List View := []
  subs : List (Nat × SubSt) := []
  out : List (Nat × Notif Nat) := []
  /-- the thread's trampoline (`CurrentThreadScheduler.singleton()`): `none` = idle, `some q` = running, with
  the `ScheduledObserver.run`s queued behind the running one -/
  tramp : Option (List Nat) := none
deriving Repr

def getSub (w : SW) (i : Nat) : Option SubSt := w.subs.lookup i
def setSub (w : SW) (i : Nat) (s : SubSt) : SW :=
  { w with subs := if w.subs.any (fun p => p.1 = i) then w.subs.map (fun p => if p.1 = i then (i, s) else p)
                   else w.subs ++ [(i, s)] }
def View.fresh : View := { count := 0, connSub := none }
def getView (w : SW) (k : Nat) : View := (w.views[k]?).getD View.fresh
def setView (w : SW) (k : Nat) (v : View) : SW :=
  { w with views := (w.views ++ List.replicate (k + 1 - w.views.length) View.fresh).set k v }

/-- the k-th source subscription tags its synchronous values, so that two subscriptions can be told apart -/
def tag (sid : Nat) : Notif Nat → Notif Nat
  | .next v => .next (v + 100 * (sid + 1))
  | n => n

/-- `so.on_next / on_error / on_completed` on the ScheduledObserver of subscriber `i`: queued unless
that observer is stopped; a terminal stops it -/
def enqueue (w : SW) (n : Notif Nat) (i : Nat) : SW :=
  match getSub w i with
  | some s => if s.soStopped then w else setSub w i { s with q := s.q ++ [n], soStopped := n.isTerminal }
  | none => w

/-- one task: the new state and the tasks it expands to (executed before the rest of the stack) -/
def step (w : SW) : Task → SW × List Task
  | .call (.sub i view react) =>
    -- `Observable.subscribe` runs the subscription inside the thread's trampoline when that is idle
    -- (`schedule_required()`), and returns after the trampoline has drained
    let wrap := w.tramp.isNone
    let w0 := if wrap then { w with tramp := some [] } else w
    let w1 := setSub w0 i { view := view, react := react }
    let tail := [Task.returned i] ++ (if wrap then [Task.trampDrain] else []) ++ [Task.held i]
    match view with
    | none => (w1, [.subjSub i] ++ tail)
    | some k =>
      -- count += 1; should_connect = count == 1; source.subscribe(observer); if should_connect: connect()
      let v := getView w1 k
      let c := v.count + 1
      (setView w1 k { v with count := c },
       [.subjSub i] ++ (if c == 1 then [.connect, .storeConn k] else []) ++ tail)
  | .call (.unsub j) =>
    match getSub w j with
    | some s => if s.held && s.live then (w, [.disposeSub j]) else (w, [])
    | none => (w, [])
  | .call .connect => (w, [.connect, .recordHandle])
  | .call (.disconnect k) =>
    match w.retHandles[k]? with
    | some (some h) => (w, [.disposeHandle h])
    | _ => (w, [])
  | .call (.push n) => (w, w.srcOpen.map (fun sid => Task.emit sid n))
  | .connect =>
    if w.hasSub then (w, [])
    else
      let sid := w.nSrc
      -- `source.subscribe(subject)` is an `Observable.subscribe` too: trampolined when idle
      let wrap := w.tramp.isNone
      ({ w with hasSub := true, nSrc := sid + 1, srcOpen := w.srcOpen ++ [sid], pending := some sid,
                maxOpen := max w.maxOpen (w.srcOpen.length + 1), tramp := if wrap then some [] else w.tramp },
       w.syncMsgs.map (fun n => Task.emit sid (tag sid n)) ++ (if wrap then [Task.trampDrain] else []) ++ [.connectP3 sid])
  | .emit sid n =>
    if w.srcOpen.contains sid then
      let r := w.subj.onNotif n
      if w.subj.isReplay then
        -- ReplaySubject: `for o in observers: o.on_next(v)` (queued), then `for o in observers: o.ensure_active()`
        let obs := r.2.map (fun d => d.1)
        (obs.foldl (fun acc i => enqueue acc n i) { w with subj := r.1 },
         obs.map Task.ensureActive ++ (if n.isTerminal then [.closeSrc sid] else []))
      else
        ({ w with subj := r.1 }, r.2.map (fun d => Task.deliver d.1 d.2) ++ (if n.isTerminal then [.closeSrc sid] else []))
    else (w, [])
  | .connectP3 sid =>
    -- self.subscription = CompositeDisposable(subscription, Disposable(dispose))
    if w.pending = some sid then
      ({ w with liveHandle := some (w.nHandles, sid), curHandle := some w.nHandles, nHandles := w.nHandles + 1,
                pending := none }, [])
    else (w, [])
  | .storeConn k => (setView w k { (getView w k) with connSub := w.curHandle }, [])
  | .recordHandle => ({ w with retHandles := w.retHandles ++ [w.curHandle] }, [])
  | .subjSub i =>
    let r := w.subj.subscribe i
    if w.subj.isReplay then
      -- the buffer (and the terminal of a stopped subject) is queued on the new ScheduledObserver, then `ensure_active`
      ((r.2.map (fun d => d.2)).foldl (fun acc n => enqueue acc n i) { w with subj := r.1 }, [.ensureActive i])
    else ({ w with subj := r.1 }, r.2.map (fun d => Task.deliver d.1 d.2))
  | .deliver i n =>
    match getSub w i with
    | none => (w, [])
    | some s =>
      if s.stopped then (w, [])
      else
        let w1 := { w with out := w.out ++ [(i, n)] }
        if n.isTerminal then
          (setSub w1 i { s with stopped := true }, if s.returned then [.disposeSub i] else [])
        else
          let g := s.got + 1
          (setSub w1 i { s with got := g },
           match s.react with
           | some (r, a) =>
             if g = r then
               (match w.actions[a]? with
                | some .connect => [.connect]        -- a `connect()` made in a callback: its result is not kept by the history
                | some op => [.call op]
                | none => [])
             else []
           | none => [])
  | .returned i =>
    match getSub w i with
    | none => (w, [])
    | some s => (setSub w i { s with returned := true }, if s.stopped && s.live then [.disposeSub i] else [])
  | .held i =>
    match getSub w i with
    | none => (w, [])
    | some s => (setSub w i { s with held := true }, [])
  | .disposeSub i =>
    match getSub w i with
    | none => (w, [])
    | some s =>
      if s.live then
        let w1 := setSub { w with subj := w.subj.unsubscribe i } i { s with live := false, stopped := true, soStopped := true }
        match s.view with
        | none => (w1, [])
        | some k =>
          -- count -= 1; if not count and connectable_subscription: connectable_subscription.dispose()
          let v := getView w1 k
          let c := v.count - 1
          (setView w1 k { v with count := c },
           if c == 0 then (match v.connSub with | some h => [.disposeHandle h] | none => []) else [])
      else (w, [])
  | .disposeHandle h =>
    -- the composite disposes the source subscription and resets `has_subscription`; an already
    -- disposed composite does nothing
    match w.liveHandle with
    | some (h', sid) =>
      if h' = h then
        ({ w with liveHandle := none, hasSub := false, curHandle := none, srcOpen := w.srcOpen.erase sid }, [])
      else (w, [])
    | none => (w, [])
  | .closeSrc sid => ({ w with srcOpen := w.srcOpen.erase sid }, [])
  | .ensureActive i =>
    match getSub w i with
    | some s => if !s.q.isEmpty && !s.acquired then (setSub w i { s with acquired := true }, [.schedule i]) else (w, [])
    | none => (w, [])
  | .schedule i =>
    -- Trampoline.run: run now if idle (then drain), else queue behind the running item
    match w.tramp with
    | none => ({ w with tramp := some [] }, [.soRun i, .trampDrain])
    | some q => ({ w with tramp := some (q ++ [i]) }, [])
  | .trampDrain =>
    match w.tramp with
    | some (j :: q) => ({ w with tramp := some q }, [.soRun j, .trampDrain])
    | _ => ({ w with tramp := none }, [])
  | .soRun i =>
    -- run(): pop one queued action, perform it (the subscriber's callback runs here), schedule itself again
    match getSub w i with
    | some s =>
      match s.q with
      | [] => (setSub w i { s with acquired := false }, [])
      | n :: rest => (setSub w i { s with q := rest }, [.deliver i n, .schedule i])
    | none => (w, [])

/-- run the task stack depth-first -/
def exec : Nat → SW → List Task → SW
  | 0, w, _ => w
  | _, w, [] => w
  | fuel + 1, w, t :: ts => exec fuel (step w t).1 ((step w t).2 ++ ts)

/-- a whole history of top-level calls -/
def run (w : SW) (ops : List SOp) (fuel : Nat) : SW :=
  ops.foldl (fun acc op => exec fuel acc [.call op]) w

def outputsOf (w : SW) (i : Nat) : List (Notif Nat) :=
  w.out.filterMap (fun e => if e.1 = i then some e.2 else none)

end Conn.Sync

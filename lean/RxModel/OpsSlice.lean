import RxModel.OpsElem
import RxModel.OpsRef
/-!
# C07 — `ops.slice(start, stop, step)` / `source[start:stop:step]` / `source[i]`

`pipeline` is exactly the stage list `_slice.py: slice_` builds (`fixed = true`: with the proposed
`fix:` for a negative start combined with a positive stop; `fixed = false`: the pinned tree).
A stage is evaluated two ways: as the real handler models composed with `Op.comp` (`pipeOp`), and
with the C05 list semantics (`evalStages`).  `pySlice` is Python's definition of `list[a:b:c]`
for `c ≥ 1`: clamp the indices (`slice.indices(len)`), take the contiguous segment, keep every
`c`-th element.
-/

namespace Ops.Slice

variable {α : Type}

inductive Stage where
  | take (n : Nat)
  | skip (n : Nat)
  | takeLast (n : Nat)
  | skipLast (n : Nat)
  /-- `filter_indexed(lambda x, i: i % step == 0)` -/
  | everyNth (step : Nat)
  /-- the proposed fix's `scan(tag, (-1, None)) | take_last(k) | filter(t[0] < stop) | map(t[1])` -/
  | taggedTail (k stop : Nat)
deriving Repr, DecidableEq

def Stage.name : Stage → String
  | .take n => s!"take({n})"
  | .skip n => s!"skip({n})"
  | .takeLast n => s!"take_last({n})"
  | .skipLast n => s!"skip_last({n})"
  | .everyNth n => s!"filter_indexed(i%{n}==0)"
  | .taggedTail k s => s!"scan(tag)|take_last({k})|filter(i<{s})|map(untag)"

/-- `sys.maxsize` -/
def maxsize : Int := 9223372036854775807

/-- the stages decided by the signs of `_start` / `_stop` (everything before `if _stop < 0`) -/
def headStages (fixed : Bool) (start stop : Option Int) : List Stage :=
  let _start : Int := start.getD 0
  let _stop : Int := stop.getD maxsize
  if fixed && decide (_start < 0) && decide (0 < _stop) && stop.isSome then
    [.taggedTail (-_start).toNat _stop.toNat]
  else
    (if _stop ≥ 0 then [.take _stop.toNat] else []) ++
    (if _start > 0 then [.skip _start.toNat] else if _start < 0 then [.takeLast (-_start).toNat] else [])

/-- `if _stop < 0: pipeline.append(ops.skip_last(-_stop))` -/
def tailStages (stop : Option Int) : List Stage :=
  let _stop : Int := stop.getD maxsize
  if _stop < 0 then [.skipLast (-_stop).toNat] else []

/-- `_slice.py: slice_`, statement by statement. -/
def pipeline (fixed : Bool) (start stop step : Option Int) : Except Err (List Stage) :=
  let _step : Int := step.getD 1
  if _step > 1 then .ok (headStages fixed start stop ++ tailStages stop ++ [.everyNth _step.toNat])
  else if _step < 0 then .error "TypeError"      -- "Negative step not supported."
  else .ok (headStages fixed start stop ++ tailStages stop)

/-- `Observable.__getitem__`: a slice object is taken apart, an int `i` means `(i, i+1, 1)`. -/
def getitemInt (i : Int) : Option Int × Option Int × Option Int := (some i, some (i + 1), some 1)

/-- the accumulator of the fix's `scan`: `(acc[0] + 1, x)` from the seed `(-1, None)` -/
def tag (acc : Int × Option α) (x : α) : Except Err (Int × Option α) := .ok (acc.1 + 1, some x)
def untag (t : Int × Option α) : Except Err α :=
  match t.2 with
  | some x => .ok x
  | none => .error "TypeError"

/-- the real operator behind a stage -/
def stageOp : Stage → Op α α
  | .take n => takeOp n
  | .skip n => skipOp n
  | .takeLast n => takeLastOp (n : Int)
  | .skipLast n => skipLastOp (n : Int)
  | .everyNth step => filterIndexedOp (some (fun _ i => .ok (i % step == 0)))
  | .taggedTail k stop =>
    (((scanSeedOp (tag (α := α)) (-1, none)).comp (takeLastOp (k : Int))).comp
      (filterOp (fun t => .ok (decide (t.1 < (stop : Int)))))).comp (mapOp untag)

/-- `source.pipe(*pipeline)`: no observer is interposed after the last stage, and `pipe()` of nothing is
the source itself -/
def pipeOp : List Stage → Op α α
  | [] => idOp
  | [s] => stageOp s
  | s :: s2 :: rest => (stageOp s).comp (pipeOp (s2 :: rest))

/-- keep every `step`-th element, starting with the first -/
def stride (step : Nat) (xs : List α) : List α :=
  ((xs.zipIdx 0).filter (fun t => t.2 % step == 0)).map (·.1)

/-- C05 list semantics of a stage on a sequence with its end (`take` completes early; `take_last`
and the tagged tail wait for completion). -/
def Stage.evalSeq : Stage → List α × End → List α × End
  | .take n, (xs, e) => (xs.take n, if n ≤ xs.length then .completed else e)
  | .skip n, (xs, e) => (xs.drop n, e)
  | .takeLast n, (xs, e) => (if e = .completed then lastN n xs else [], e)
  | .skipLast n, (xs, e) => (butLastN n xs, e)
  | .everyNth step, (xs, e) => (stride step xs, e)
  | .taggedTail k stop, (xs, e) =>
    (if e = .completed then ((lastN k (xs.zipIdx 0)).filter (fun t => t.2 < stop)).map (·.1) else [], e)

def evalSeqStages (stages : List Stage) (s : List α × End) : List α × End :=
  stages.foldl (fun acc st => st.evalSeq acc) s

/-- list semantics on a completed sequence -/
def evalStages (stages : List Stage) (xs : List α) : List α := (evalSeqStages stages (xs, .completed)).1

/-- `slice.indices(len)` for a positive step: one clamped bound -/
def clampIdx (len : Nat) (i : Option Int) (dflt : Nat) : Nat :=
  match i with
  | none => dflt
  | some i => if i < 0 then (i + len).toNat else min i.toNat len

/-- Python's `xs[start:stop:step]` for `step ≥ 1`. -/
def pySlice (xs : List α) (start stop : Option Int) (step : Int) : List α :=
  let s := clampIdx xs.length start 0
  let e := clampIdx xs.length stop xs.length
  stride step.toNat ((xs.take e).drop s)

/-- the same as an index comprehension: `[xs[i] for i in range(s, e) if (i - s) % step == 0]`, i.e. the
elements at the indices `range(s, e, step)` of the clamped bounds -/
def pySliceIdx (xs : List α) (start stop : Option Int) (step : Int) : List α :=
  let s := clampIdx xs.length start 0
  let e := clampIdx xs.length stop xs.length
  (List.range' s (e - s)).filterMap (fun i => if (i - s) % step.toNat == 0 then xs[i]? else none)

end Ops.Slice

import RxModel.CombN
/-!
# The subscription phase of the static n-ary combinators, and timelines

`zip`, `combine_latest`, `with_latest_from`, `fork_join` and (nested) `amb` subscribe their sources one after the other
inside `subscribe`.  The machines of `CombN.lean` start AFTER that loop (all sources subscribed), which is all there is to
say when no source notifies inside its own `subscribe` call.  `phased m` puts the loop into the trace: `tick` =
"the loop subscribes the next source of `pending`"; notifications of already subscribed sources may arrive between two
ticks (emit-on-subscribe sources: `of(…)`, `return_value`, `throw`, a BehaviorSubject …).  A terminal that goes out during the
loop does not stop it: the remaining sources are still subscribed — and closed on the spot (`Plumb.act (.sub k)` on stopped
plumbing; in the code they are closed when the loop's composite reaches the stopped observer, in the same instant).
The live list of the phased machine is in SUBSCRIPTION order, which is the container order for all of them except
with_latest_from (children are subscribed first but the parent is disposed first).

`tlEvents` turns the timelines of cold sources subscribed in that loop into THE event list: notifications in virtual-time
order, simultaneous ones in subscription order (others-before-primary for with_latest_from), a source's own in timeline
order — the order in which a virtual-time scheduler (stable priority queue on `(due, sequence number)`) delivers them.
-/

namespace Comb

structure PhSt (σ : Type) where
  s : σ
  pending : List Nat

def phased {σ ι β} (m : Machine σ ι β) : Machine (PhSt σ) ι β :=
  { handler := fun ps k n => ((⟨(m.handler ps.s k n).1, ps.pending⟩ : PhSt σ), (m.handler ps.s k n).2),
    tick := fun ps _ =>
      match ps.pending with
      | [] => (ps, [])
      | k :: r => (⟨ps.s, r⟩, [Act.sub k]) }

def phasedInit {σ} (s : σ) (order : List Nat) : St (PhSt σ) := ⟨⟨s, order⟩, {}⟩

/-- amb's loop: a source subscribed AFTER the choice was made (an earlier — higher-index — source notified inside its own
subscribe) is a loser from the start: in the nested code its side's holder is already disposed, so it is subscribed and
closed at once. -/
def phasedAmb {α} (n : Nat) : Machine (PhSt AmbSt) α α :=
  { handler := (phased (ambM (α := α) n)).handler,
    tick := fun ps _ =>
      match ps.pending with
      | [] => (ps, [])
      | k :: r =>
        (⟨ps.s, r⟩, match ps.s.choice with
          | some w => if w = k then [Act.sub k] else [Act.sub k, Act.unsub k]
          | none => [Act.sub k]) }

/-- subscription order of the loop -/
def subOrder (op : String) (n : Nat) : List Nat :=
  if op == "with_latest_from" then wlfInitSubs (n - 1)
  else if op == "amb" then (List.range n).reverse
  else List.range n

/-! ## timelines of cold sources → the event list -/

/-- insert by `(time, rank)`, after everything that is not later (stable) -/
def tlInsert {ι} (x : Nat × Nat × Ev ι) : List (Nat × Nat × Ev ι) → List (Nat × Nat × Ev ι)
  | [] => [x]
  | y :: r => if x.1 < y.1 ∨ (x.1 = y.1 ∧ x.2.1 < y.2.1) then x :: y :: r else y :: tlInsert x r

/-- `tls` : per source (in SUBSCRIPTION order) its id and its timeline `(time, notification)`.
Result: `(time, event)` in delivery order. -/
def tlEvents {ι} (tls : List (Nat × List (Nat × Notif ι))) : List (Nat × Ev ι) :=
  let tagged : List (Nat × Nat × Ev ι) :=
    (tls.zipIdx).flatMap (fun (p : (Nat × List (Nat × Notif ι)) × Nat) =>
      p.1.2.map (fun tn => (tn.1, p.2, Ev.src p.1.1 tn.2)))
  (tagged.foldl (fun acc x => tlInsert x acc) []).map (fun x => (x.1, x.2.2))

/-- which events of a list find their source subscribed (delivered), for the driver -/
def acceptedMask {σ ι β} (m : Machine σ ι β) : St σ → List (Ev ι) → List Bool
  | _, [] => []
  | st, e :: es =>
    (match e with
     | .src k _ => decide (k ∈ st.p.live)
     | _ => false) :: acceptedMask m (step m st e).1 es

end Comb

import RxModel.WinBuf
/-!
# WinBnd — `window_(boundaries)`, `window_when_`, `window_toggle_` (= `group_join_`)

L2 trace machines over tagged events `(source id, notification)`; mirrors
`reactivex/operators/_window.py` and `reactivex/operators/_groupjoin.py` handler by handler.
Source ids: `0` = the windowed source; `window_`: `1` = boundaries; `window_when_`: `k+1` = the
observable returned by the k-th call of `closing_mapper`; `window_toggle_`: `1` = openings,
`j+2` = the observable returned by `closing_mapper` for the j-th opening.
The closing observables are consumed through `take(1)`: their first notification of any kind ends
the subscription.
-/

namespace Win

/-! ## window_(boundaries) -/

structure Bnd (α : Type) where
  b : Base α := {}
  cur : Nat := 0          -- `window_subject`
deriving Repr

namespace Bnd
variable {α : Type}

/-- `on_error` / `on_completed` (shared by both sources): the current window, then the outer observer. -/
def onEnd (s : Bnd α) (e : Option Err) : Bnd α := { s with b := (s.b.winEnd s.cur e).outerEnd e }

/-- `on_next_observer`: complete the current window, open a new one. -/
def onBoundary (s : Bnd α) : Bnd α :=
  let b := s.b.winEnd s.cur none
  let (b, id) := b.newWin
  { b := b.outerNext id, cur := id }

/-- `subscribe`: first window, `d.add(source.subscribe)`, `d.add(boundaries.subscribe)`.  `bsync = some n`: the
boundaries observable is not a hot timeline but one that delivers `n` inside its own subscribe and then stays silent
(`BehaviorSubject(v)`: one boundary; `empty()`: completion; `throw(e)`: error). -/
def init (t0 : Nat) (bsync : Option (Notif Unit) := none) : Bnd α :=
  let (b, id) := ({ now := t0 } : Base α).newWin
  match bsync with
  | none => { b := ((b.outerNext id).subscribe 0).subscribe 1, cur := id }
  | some (.next _) => onBoundary { b := (b.outerNext id).subscribe 0, cur := id }
  | some .completed => onEnd { b := (b.outerNext id).subscribe 0, cur := id } none
  | some (.error e) => onEnd { b := (b.outerNext id).subscribe 0, cur := id } (some e)

def step (s : Bnd α) : Ev α → Bnd α
  | .src k n =>
    if (k == 0 || k == 1) && s.b.live.contains k then
      match n with
      | .next x => if k == 0 then { s with b := s.b.winNext s.cur x } else onBoundary s
      | .error e => let s := onEnd s (some e); { s with b := s.b.unsub k }
      | .completed => let s := onEnd s none; { s with b := s.b.unsub k }
    else s
  | .dispose w => { s with b := s.b.disposeEv w }
  | .tick => s

def run : Bnd α → List (Nat × Ev α) → Bnd α
  | s, [] => s
  | s, (t, e) :: es => run (step { s with b := { s.b with now := t } } e) es

def mach : Mach (Bnd α) α where
  step s t e := step { s with b := { s.b with now := t } } e
  log s := s.b.log

end Bnd

/-! ## window_when_ -/

structure Whn (α : Type) where
  b : Base α := {}
  cur : Nat := 0          -- `window`
  calls : Nat := 0        -- number of `closing_mapper()` calls so far
  /-- closing observables that fire synchronously inside their own `subscribe` (`empty()`, a BehaviorSubject,
  `throw(e)`): entry `k` for the k-th mapper call — `some none`: fires (next/completed), `some (some e)`: errors,
  `none` / out of range: a hot observable from the pool (or `never()`). -/
  sync : List (Option (Option Err)) := []
deriving Repr

namespace Whn
variable {α : Type}

/-- `on_error` / `on_completed` (shared by the source and the closing observables): the window, then the outer observer. -/
def onEnd (s : Whn α) (e : Option Err) : Whn α := { s with b := (s.b.winEnd s.cur e).outerEnd e }

/-- `create_window_on_completed()`: call the mapper (`raiseAt = some k`: its k-th call raises; at most `pool`
closing observables exist, later calls return `never()`), then `m1 = SingleAssignmentDisposable(); m.disposable = m1`
(the previous closing subscription is disposed) and `m1.disposable = window_close.pipe(take(1)).subscribe(...)`.
A raising mapper goes to the shared `on_error(exception)` (repo fix c2c9edd).  A closing observable that fires
INSIDE its own subscribe runs `on_completed` re-entrantly: the window is rotated and `create_window_on_completed()`
recurses — its `m.disposable = m1'` disposes the outer frame's (still empty) `m1`, so the outer frame's late
assignment `m1.disposable = <finished subscription>` cannot touch the new live closing subscription.  `fuel` bounds
the recursion (at most `sync.length` closings can fire synchronously). -/
def createClosingF (raiseAt : Option Nat) (pool : Nat) : Nat → Whn α → Whn α
  | 0, s => s
  | fuel + 1, s =>
    let k := s.calls
    let s := { s with calls := k + 1 }
    if raiseAt == some k then onEnd s (some s!"cm{k}")
    else
      -- SerialDisposable: assigning disposes the old one (or the new one if the serial is already disposed)
      let b := if k ≥ 1 then s.b.unsub k else s.b
      match (s.sync[k]?).join with
      | some none =>
        let b := b.winEnd s.cur none
        let (b, id) := b.newWin
        createClosingF raiseAt pool fuel { s with b := b.outerNext id, cur := id }
      | some (some e) => onEnd { s with b := b } (some e)
      | none =>
        -- subscribing while the group is already disposed: the subscription is disposed as soon as it is assigned
        let b := if k < pool then (if b.rcDisposed then (b.subscribe (k + 1)).unsub (k + 1) else b.subscribe (k + 1)) else b
        { s with b := b }

def createClosing (raiseAt : Option Nat) (pool : Nat) (s : Whn α) : Whn α :=
  createClosingF raiseAt pool (s.sync.length + 2) s

/-! ### AsIs (before repo fix c2c9edd): the raising mapper reached only `observer.on_error(exception)`; the open
window was never terminated and kept the source subscribed.  Used only by the witness `C18.when_mapper_raise_asis`. -/
def createClosingAsIs (raiseAt : Option Nat) (s : Whn α) : Whn α :=
  let k := s.calls
  let s := { s with calls := k + 1 }
  if raiseAt == some k then { s with b := s.b.outerEnd (some s!"cm{k}") } else s

def init (raiseAt : Option Nat) (pool : Nat) (t0 : Nat) (sync : List (Option (Option Err)) := []) : Whn α :=
  let (b, id) := ({ now := t0 } : Base α).newWin
  createClosing raiseAt pool { b := (b.outerNext id).subscribe 0, cur := id, sync := sync }

/-- the closing observable fired (`take(1)`: first `next`, or `completed`). -/
def onClose (raiseAt : Option Nat) (pool : Nat) (s : Whn α) : Whn α :=
  let b := s.b.winEnd s.cur none
  let (b, id) := b.newWin
  createClosing raiseAt pool { s with b := b.outerNext id, cur := id }

def step (raiseAt : Option Nat) (pool : Nat) (s : Whn α) : Ev α → Whn α
  | .src k n =>
    if s.b.live.contains k then
      if k == 0 then
        match n with
        | .next x => { s with b := s.b.winNext s.cur x }
        | .error e => let s := onEnd s (some e); { s with b := s.b.unsub 0 }
        | .completed => let s := onEnd s none; { s with b := s.b.unsub 0 }
      else
        match n with
        | .error e => let s := onEnd s (some e); { s with b := s.b.unsub k }
        | _ => let s := onClose raiseAt pool s; { s with b := s.b.unsub k }
    else s
  | .dispose w => { s with b := s.b.disposeEv w }
  | .tick => s

def run (raiseAt : Option Nat) (pool : Nat) : Whn α → List (Nat × Ev α) → Whn α
  | s, [] => s
  | s, (t, e) :: es => run raiseAt pool (step raiseAt pool { s with b := { s.b with now := t } } e) es

def mach (raiseAt : Option Nat) (pool : Nat) : Mach (Whn α) α where
  step s t e := step raiseAt pool { s with b := { s.b with now := t } } e
  log s := s.b.log

end Whn

/-! ## window_toggle_ = openings.pipe(group_join(source, closing_mapper, λ_: empty()), map(snd))

`left` = openings, `right` = the windowed source.  The right duration `empty()` completes inside
`send_right` (no scheduler is passed at subscription), so `right_map` is empty whenever a left value
arrives.  **As written, the right side has no `on_completed` handler.** -/

structure Tgl (α : Type) where
  b : Base α := {}
  leftMap : List (Nat × Nat) := []    -- left id ↦ window id (OrderedDict)
  leftId : Nat := 0
  /-- closing observables that fire synchronously inside their own `subscribe` (entry `j` for the j-th opening):
  `some none` fires, `some (some e)` errors, `none` / out of range: a hot observable from the pool (or `never()`). -/
  sync : List (Option (Option Err)) := []
deriving Repr

namespace Tgl
variable {α : Type}

/-- `subscribe`: `group.add(left.subscribe(...))`, then `group.add(right.subscribe(...))`. -/
def init (t0 : Nat) (sync : List (Option (Option Err)) := []) : Tgl α :=
  { b := (({ now := t0 } : Base α).subscribe 1).subscribe 0, sync := sync }

/-- `for left_value in left_map.values(): left_value.on_error(e)`; `observer.on_error(e)`. -/
def errAll (s : Tgl α) (e : Err) : Tgl α :=
  { s with b := (s.leftMap.foldl (fun b p => b.winEnd p.2 (some e)) s.b).outerEnd (some e) }

/-- `expire()` of left `id`. -/
def expire (s : Tgl α) (id : Nat) : Tgl α :=
  match s.leftMap.find? (·.1 == id) with
  | some (_, w) => { s with leftMap := s.leftMap.filter (·.1 != id), b := s.b.winEnd w none }
  | none => s

/-- `on_next_left(value)`. -/
def onOpen (raiseAt : Option Nat) (pool : Nat) (s : Tgl α) : Tgl α :=
  let (b, w) := s.b.newWin
  let id := s.leftId
  let s := { s with b := b.outerNext w, leftId := id + 1, leftMap := s.leftMap ++ [(id, w)] }
  -- md = SingleAssignmentDisposable(); group.add(md); duration = left_duration_mapper(value)
  if raiseAt == some id then errAll s s!"cm{id}"
  else match (s.sync[id]?).join with
  | some none => expire s id          -- the duration fires inside its own subscribe: `expire()` runs at once
  | some (some e) => errAll s e       -- … or fails at once
  | none =>
  if id < pool then
    -- group already disposed: md is disposed on add, the subscription is disposed as soon as it is assigned
    if s.b.rcDisposed then { s with b := (s.b.subscribe (id + 2)).unsub (id + 2) } else { s with b := s.b.subscribe (id + 2) }
  else s

def step (raiseAt : Option Nat) (pool : Nat) (s : Tgl α) : Ev α → Tgl α
  | .src k n =>
    if s.b.live.contains k then
      if k == 0 then          -- right = the windowed source
        match n with
        | .next x => { s with b := s.leftMap.foldl (fun b p => b.winNext p.2 x) s.b }
        | .error e => let s := errAll s e; { s with b := s.b.unsub 0 }
        | .completed => { s with b := s.b.unsub 0 }        -- no handler: nothing happens
      else if k == 1 then     -- left = openings
        match n with
        | .next _ => onOpen raiseAt pool s
        | .error e => let s := errAll s e; { s with b := s.b.unsub 1 }
        | .completed => { s with b := (s.b.outerEnd none).unsub 1 }
      else                    -- closing of left (k-2), through take(1)
        match n with
        | .error e => let s := errAll s e; { s with b := s.b.unsub k }
        | _ => let s := expire s (k - 2); { s with b := s.b.unsub k }
    else s
  | .dispose w => { s with b := s.b.disposeEv w }
  | .tick => s

def run (raiseAt : Option Nat) (pool : Nat) : Tgl α → List (Nat × Ev α) → Tgl α
  | s, [] => s
  | s, (t, e) :: es => run raiseAt pool (step raiseAt pool { s with b := { s.b with now := t } } e) es

def mach (raiseAt : Option Nat) (pool : Nat) : Mach (Tgl α) α where
  step s t e := step raiseAt pool { s with b := { s.b with now := t } } e
  log s := s.b.log

end Tgl

end Win

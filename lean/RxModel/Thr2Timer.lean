/-!
# Thr2Timer — one action on a real-time scheduler (C34)

Atomic-step models, for ONE scheduled action, of

* `TimeoutScheduler` (`reactivex/scheduler/timeoutscheduler.py`): a `threading.Timer` thread that waits until
  the interval has elapsed on the clock or `finished` is set, then reads `finished` and runs the action if it
  is not set; `dispose()` is `timer.cancel()`, i.e. `finished.set()`.  (`threading.Timer` is modelled, not
  verified.)
* the event-loop thread behind `NewThreadScheduler` / `ThreadPoolScheduler` (a one-shot `EventLoopScheduler`
  with `exit_if_empty`) and `EventLoopScheduler` (`reactivex/scheduler/eventloopscheduler.py: run`): at the top
  of its loop it reads the clock under the condition and moves the item to `ready` if due; outside the lock it
  reads `item.is_cancelled()` and invokes the item if not cancelled; otherwise it reads the clock again and
  waits on the condition for the remaining time.  `dispose()` is `ScheduledItem.cancel`.
* `ImmediateScheduler` (`immediatescheduler.py`): a function of the delay.

The clock is abstracted to "the due time has been reached" (`due`), which any schedule may make true at any
point (action 2) and which never becomes false again.  "Starts" = the read of `finished` / `is_cancelled()`.
-/

namespace Thr2Timer

inductive SKind | timer | evloop deriving DecidableEq, Repr

structure Cfg where
  kind : SKind
  immediate : Bool     -- delay <= 0: scheduled through `schedule()` (Timer(0, ..) / the ready list)
deriving DecidableEq, Repr

structure St where
  due : Bool := false
  pc : Nat := 0            -- scheduler thread, see `thrStep`
  cancelled : Bool := false -- `finished` set / the item's disposable disposed
  disposedEarly : Bool := false  -- dispose() happened before the due time
  started : Bool := false
  early : Bool := false     -- started before the due time
  bad : Bool := false       -- started although disposed before the due time
deriving DecidableEq, Repr

def init (c : Cfg) : St := { due := c.immediate }

def start (s : St) : St :=
  { s with started := true, early := s.early || !s.due, bad := s.bad || s.disposedEarly }

/-- the scheduler's own thread -/
def thrStep (c : Cfg) (s : St) : Option (St × String) :=
  match c.kind with
  | .timer =>
    -- Timer.run: self.finished.wait(self.interval); if not self.finished.is_set(): self.function(..)
    match s.pc with
    | 0 => if s.due || s.cancelled then some ({ s with pc := 1 }, "wake") else none
    | 1 => if s.cancelled then some ({ s with pc := 2 }, "skip") else some ({ start s with pc := 2 }, "run")
    | _ => none
  | .evloop =>
    match s.pc with
    -- top of the loop, under the condition: time = self.now; due items go to `ready`
    | 0 => if s.due then some ({ s with pc := 1 }, "top-due") else some ({ s with pc := 3 }, "top-notdue")
    -- outside the lock: if not item.is_cancelled(): item.invoke()
    | 1 => if s.cancelled then some ({ s with pc := 5 }, "check-skip") else some ({ start s with pc := 5 }, "check-run")
    -- bottom, under the condition: seconds = (item.duetime - self.now); wait(seconds) if positive
    | 3 => if s.due then some ({ s with pc := 0 }, "bottom-due") else some ({ s with pc := 4 }, "bottom-wait")
    -- condition.wait(seconds) returns once the time has elapsed
    | 4 => if s.due then some ({ s with pc := 0 }, "timeout") else none
    | _ => none

/-- actions: 0 = scheduler thread, 1 = the user disposes (once), 2 = the scheduler clock reaches the due time,
3 = the event loop's timed `condition.wait` returns although the scheduler clock has NOT reached the due time
(the wait runs on the monotonic clock; the scheduler clock may have been stepped back, or `now` overridden) -/
def stepL (c : Cfg) (s : St) (a : Nat) : Option (St × String) :=
  match a with
  | 0 => thrStep c s
  | 1 => if s.cancelled then none
         else some ({ s with cancelled := true, disposedEarly := !s.due }, "dispose")
  | 2 => if s.due then none else some ({ s with due := true }, "tick")
  | 3 => if c.kind == .evloop && s.pc == 4 then some ({ s with pc := 0 }, "timeout-early") else none
  | _ => none

def step (c : Cfg) (s : St) (a : Nat) : Option St := (stepL c s a).map (·.1)

def acts : List Nat := [0, 1, 2, 3]

def run (c : Cfg) (s : St) : List Nat → St
  | [] => s
  | a :: as => run c ((step c s a).getD s) as

def runLabels (c : Cfg) (s : St) : List Nat → List String × St
  | [] => ([], s)
  | a :: as =>
    match stepL c s a with
    | none => let r := runLabels c s as; ("blocked" :: r.1, r.2)
    | some (t, l) => let r := runLabels c t as; (l :: r.1, r.2)

def succs (c : Cfg) (s : St) : List St := acts.filterMap (step c s)

def addNew (seen : List St) : List St → List St
  | [] => seen
  | t :: ts => if seen.contains t then addNew seen ts else addNew (seen ++ [t]) ts

def closure (c : Cfg) : Nat → List St → List St
  | 0, seen => seen
  | n + 1, seen =>
    let seen' := addNew seen (seen.flatMap (succs c))
    if seen'.length = seen.length then seen else closure c n seen'

def reach (c : Cfg) : List St := closure c 32 [init c]

def Closed (c : Cfg) (R : List St) : Bool :=
  R.contains (init c) && R.all (fun s => acts.all (fun a => match step c s a with | none => true | some t => R.contains t))

def safe (s : St) : Bool := !s.early && !s.bad

def allCfgs : List Cfg := [⟨.timer, false⟩, ⟨.timer, true⟩, ⟨.evloop, false⟩, ⟨.evloop, true⟩]

/-! ### ImmediateScheduler -/

inductive ImmOut | ranSync | wouldBlock deriving DecidableEq, Repr

/-- `schedule_relative(duetime)`: `if duetime > DELTA_ZERO: raise WouldBlockException()` else invoke now.
`delay` in clock units (microseconds). -/
def immRelative (delay : Int) : ImmOut := if delay > 0 then .wouldBlock else .ranSync

/-- `schedule(action)` = invoke now -/
def immSchedule : ImmOut := .ranSync

/-- `schedule_absolute(duetime)` = `schedule_relative(duetime - now)` -/
def immAbsolute (due now : Int) : ImmOut := immRelative (due - now)

end Thr2Timer

/-!
# Any number of actions sharing one EventLoopScheduler thread

`reactivex/scheduler/eventloopscheduler.py: run`, with items `order` (in heap order: due time, then insertion)
queued with positive delays before the thread's first turn.  `rank i` is the due time of item `i`.

* top of the loop (under the condition): `time = self.now`; every queued item whose due time is reached is
  dequeued, head first, into the local `ready` deque;
* outside the lock, for each ready item: read `item.is_cancelled()`, invoke if not cancelled;
* bottom (under the condition): queue empty → idle; head due → next turn; else `condition.wait(head.due - now)`.

`dispose()` of an item is `ScheduledItem.cancel` (a flag).  The variant `removeByDue` models the mechanism of a
tempting "optimisation": `self._queue.remove(si)` — `PriorityQueue.remove` finds the FIRST heap entry that is
`==` to the item, and `ScheduledItem.__eq__` compares due times only.
-/

namespace Thr2LoopN

inductive Disp | flag | removeByDue deriving DecidableEq, Repr

structure Cfg where
  order : List Nat      -- the items, in heap order
  rank : Nat → Nat      -- due time of each item
  disp : Disp

inductive Act where
  | loop
  | tick (r : Nat)      -- the clock reaches due time `r`
  | dispose (i : Nat)
  | earlyWake           -- the timed `condition.wait` returns although the head is not due on the scheduler clock

structure St where
  due : Nat → Bool := fun _ => false
  dq : Nat → Bool := fun _ => false        -- item has left `_queue`
  ready : List Nat := []                    -- the loop's local deque
  c : Nat → Bool := fun _ => false          -- item's disposable disposed
  disposed : Nat → Bool := fun _ => false   -- dispose() was called
  early : Nat → Bool := fun _ => false      -- … before the item's due time
  started : Nat → Bool := fun _ => false
  pc : Nat := 0
  waitFor : Nat := 0        -- item whose due time bounds the current `condition.wait`
  notified : Bool := false
  tooEarly : Bool := false  -- some item started before its due time
  bad : Bool := false       -- some item started although disposed before its due time

def init : St := {}

def set (f : Nat → Bool) (i : Nat) (v : Bool) : Nat → Bool := fun j => if j = i then v else f j

def startItem (s : St) (i : Nat) : St :=
  { s with tooEarly := s.tooEarly || !s.due i, bad := s.bad || s.early i, started := set s.started i true }

/-- the queued items in heap order -/
def heap (c : Cfg) (s : St) : List Nat := c.order.filter (fun i => !s.dq i)

/-- dequeue the due items, head first, stopping at the first that is not due -/
def collect (s : St) : List Nat → St
  | [] => s
  | i :: rest => if s.due i then collect { s with dq := set s.dq i true, ready := s.ready ++ [i] } rest else s

def loopStep (c : Cfg) (s : St) : Option (St × String) :=
  match s.pc with
  | 0 => some ({ collect s (heap c s) with pc := 1, notified := false }, "top")
  | 1 =>
    match s.ready with
    | i :: rest =>
      let s := { s with ready := rest }
      if s.c i then some (s, s!"check{i}-skip") else some (startItem s i, s!"check{i}-run")
    | [] => some ({ s with pc := 3 }, "drained")
  | 3 =>
    match heap c s with
    | [] => some ({ s with pc := 5 }, "idle")
    | h :: _ => if s.due h then some ({ s with pc := 0 }, "bottom-due") else some ({ s with pc := 4, waitFor := h }, "bottom-wait")
  | 4 => if s.due s.waitFor || s.notified then some ({ s with pc := 0 }, "wake") else none
  | 5 => if s.notified then some ({ s with pc := 0 }, "wake") else none
  | _ => none

def disposeStep (c : Cfg) (s : St) (i : Nat) : Option (St × String) :=
  if s.disposed i then none
  else
    let s := { s with disposed := set s.disposed i true, early := set s.early i (!s.due i) }
    match c.disp with
    | .flag => some ({ s with c := set s.c i true }, s!"dispose{i}")
    | .removeByDue =>
      -- the first heap entry whose due time equals the item's
      match (heap c s).find? (fun j => c.rank j == c.rank i) with
      | some j => some ({ s with dq := set s.dq j true, notified := true }, s!"remove{j}")
      | none => some ({ s with c := set s.c i true }, s!"dispose{i}")

def stepL (c : Cfg) (s : St) : Act → Option (St × String)
  | .loop => loopStep c s
  | .tick r => some ({ s with due := fun j => s.due j || decide (c.rank j ≤ r) }, s!"tick{r}")
  | .dispose i => disposeStep c s i
  | .earlyWake => if s.pc = 4 then some ({ s with pc := 0 }, "wake") else none

def step (c : Cfg) (s : St) (a : Act) : Option St := (stepL c s a).map (·.1)

/-- any list of actions is a schedule; actions that are not enabled are skipped -/
def run (c : Cfg) (s : St) : List Act → St
  | [] => s
  | a :: as => run c ((step c s a).getD s) as

def runLabels (c : Cfg) (s : St) : List Act → List String × St
  | [] => ([], s)
  | a :: as =>
    match stepL c s a with
    | none => let r := runLabels c s as; ("blocked" :: r.1, r.2)
    | some (t, l) => let r := runLabels c t as; (l :: r.1, r.2)

end Thr2LoopN

/-!
# `NewThreadScheduler.schedule_periodic` (inherited by ThreadPoolScheduler)

```
while True:
    if timeout > 0.0: disposed.wait(timeout)
    if disposed.is_set(): return
    time = self.now; state = action(state); timeout = seconds - (self.now - time)
```
`slow` = the tick that just ended overran its period (`timeout <= 0`: no wait before the next test).
-/

namespace Thr2Periodic

structure St where
  pc : Nat := 0            -- 0 loop head, 1 waiting, 2 about to read `disposed`, 3 tick running, 9 returned
  slow : Bool := false     -- the last tick overran (or the period is 0)
  disposed : Bool := false
  elapsed : Bool := false  -- the current wait's timeout has elapsed
  bad : Bool := false      -- a tick started after dispose() had returned
deriving DecidableEq, Repr

def init (period0 : Bool) : St := { slow := period0 }

/-- actions: 0 = the periodic thread, 1 = dispose() (sets the event), 2 = the wait's timeout elapses,
4 / 5 = the running tick ends within / beyond its period -/
def stepL (s : St) (a : Nat) : Option (St × String) :=
  match a with
  | 0 =>
    match s.pc with
    | 0 => if s.slow then some ({ s with pc := 2 }, "nowait") else some ({ s with pc := 1, elapsed := false }, "wait")
    | 1 => if s.disposed || s.elapsed then some ({ s with pc := 2 }, "waitret") else none
    | 2 => if s.disposed then some ({ s with pc := 9 }, "return") else some ({ s with pc := 3 }, "tick-start")
    | _ => none
  | 1 => if s.disposed then none else some ({ s with disposed := true }, "dispose")
  | 2 => if s.pc == 1 && !s.elapsed then some ({ s with elapsed := true }, "elapse") else none
  | 4 => if s.pc == 3 then some ({ s with pc := 0, slow := false }, "tick-end") else none
  | 5 => if s.pc == 3 then some ({ s with pc := 0, slow := true }, "tick-end-slow") else none
  | _ => none

/-- `bad` is recorded by the step function itself: a tick start while `disposed` -/
def step (s : St) (a : Nat) : Option St :=
  (stepL s a).map fun (t, l) => if l == "tick-start" && s.disposed then { t with bad := true } else t

def acts : List Nat := [0, 1, 2, 4, 5]

def run (s : St) : List Nat → St
  | [] => s
  | a :: as => run ((step s a).getD s) as

def runLabels (s : St) : List Nat → List String × St
  | [] => ([], s)
  | a :: as =>
    match stepL s a with
    | none => let r := runLabels s as; ("blocked" :: r.1, r.2)
    | some (_, l) => let r := runLabels ((step s a).getD s) as; (l :: r.1, r.2)

def succs (s : St) : List St := acts.filterMap (step s)

def addNew (seen : List St) : List St → List St
  | [] => seen
  | t :: ts => if seen.contains t then addNew seen ts else addNew (seen ++ [t]) ts

def closure : Nat → List St → List St
  | 0, seen => seen
  | n + 1, seen =>
    let seen' := addNew seen (seen.flatMap succs)
    if seen'.length = seen.length then seen else closure n seen'

def reach : List St := closure 32 [init false, init true]

def Closed (R : List St) : Bool :=
  R.contains (init false) && R.contains (init true) &&
    R.all (fun s => acts.all (fun a => match step s a with | none => true | some t => R.contains t))

end Thr2Periodic

/-!
# Thr2Timer — one action on a real-time scheduler (C34)

Atomic-step models, for ONE scheduled action, of

* `TimeoutScheduler` (`reactivex/scheduler/timeoutscheduler.py`): a `threading.Timer` thread that waits until
  the interval has elapsed on the clock or `finished` is set, then reads `finished` and runs the action if it
  is not set; `dispose()` is `timer.cancel()`, i.e. `finished.set()`.  (`threading.Timer` is modelled, not
  verified.)
* the event-loop thread behind `NewThreadScheduler` / `ThreadPoolScheduler` (a one-shot `EventLoopScheduler`
  with `exit_if_empty`) and `EventLoopScheduler` (`reactivex/scheduler/eventloopscheduler.py: run`): at the top
  of its loop it reads the clock under the condition and moves the item to `ready` if due; outside the lock it
  reads `item.is_cancelled()` and invokes the item if not cancelled; otherwise it reads the clock again and
  waits on the condition for the remaining time.  `dispose()` is `ScheduledItem.cancel`.
* `ImmediateScheduler` (`immediatescheduler.py`): a function of the delay.

The clock is abstracted to "the due time has been reached" (`due`), which any schedule may make true at any
point (action 2) and which never becomes false again.  "Starts" = the read of `finished` / `is_cancelled()`.
-/

namespace Thr2Timer

inductive SKind | timer | evloop deriving DecidableEq, Repr

structure Cfg where
  kind : SKind
  immediate : Bool     -- delay <= 0: scheduled through `schedule()` (Timer(0, ..) / the ready list)
deriving DecidableEq, Repr

structure St where
  due : Bool := false
  pc : Nat := 0            -- scheduler thread, see `thrStep`
  cancelled : Bool := false -- `finished` set / the item's disposable disposed
  disposedEarly : Bool := false  -- dispose() happened before the due time
  started : Bool := false
  early : Bool := false     -- started before the due time
  bad : Bool := false       -- started although disposed before the due time
deriving DecidableEq, Repr

def init (c : Cfg) : St := { due := c.immediate }

def start (s : St) : St :=
  { s with started := true, early := s.early || !s.due, bad := s.bad || s.disposedEarly }

/-- the scheduler's own thread -/
def thrStep (c : Cfg) (s : St) : Option (St × String) :=
  match c.kind with
  | .timer =>
    -- Timer.run: self.finished.wait(self.interval); if not self.finished.is_set(): self.function(..)
    match s.pc with
    | 0 => if s.due || s.cancelled then some ({ s with pc := 1 }, "wake") else none
    | 1 => if s.cancelled then some ({ s with pc := 2 }, "skip") else some ({ start s with pc := 2 }, "run")
    | _ => none
  | .evloop =>
    match s.pc with
    -- top of the loop, under the condition: time = self.now; due items go to `ready`
    | 0 => if s.due then some ({ s with pc := 1 }, "top-due") else some ({ s with pc := 3 }, "top-notdue")
    -- outside the lock: if not item.is_cancelled(): item.invoke()
    | 1 => if s.cancelled then some ({ s with pc := 5 }, "check-skip") else some ({ start s with pc := 5 }, "check-run")
    -- bottom, under the condition: seconds = (item.duetime - self.now); wait(seconds) if positive
    | 3 => if s.due then some ({ s with pc := 0 }, "bottom-due") else some ({ s with pc := 4 }, "bottom-wait")
    -- condition.wait(seconds) returns once the time has elapsed
    | 4 => if s.due then some ({ s with pc := 0 }, "timeout") else none
    | _ => none

/-- actions: 0 = scheduler thread, 1 = the user disposes (once), 2 = the clock reaches the due time -/
def stepL (c : Cfg) (s : St) (a : Nat) : Option (St × String) :=
  match a with
  | 0 => thrStep c s
  | 1 => if s.cancelled then none
         else some ({ s with cancelled := true, disposedEarly := !s.due }, "dispose")
  | 2 => if s.due then none else some ({ s with due := true }, "tick")
  | _ => none

def step (c : Cfg) (s : St) (a : Nat) : Option St := (stepL c s a).map (·.1)

def acts : List Nat := [0, 1, 2]

def run (c : Cfg) (s : St) : List Nat → St
  | [] => s
  | a :: as => run c ((step c s a).getD s) as

def runLabels (c : Cfg) (s : St) : List Nat → List String × St
  | [] => ([], s)
  | a :: as =>
    match stepL c s a with
    | none => let r := runLabels c s as; ("blocked" :: r.1, r.2)
    | some (t, l) => let r := runLabels c t as; (l :: r.1, r.2)

def succs (c : Cfg) (s : St) : List St := acts.filterMap (step c s)

def addNew (seen : List St) : List St → List St
  | [] => seen
  | t :: ts => if seen.contains t then addNew seen ts else addNew (seen ++ [t]) ts

def closure (c : Cfg) : Nat → List St → List St
  | 0, seen => seen
  | n + 1, seen =>
    let seen' := addNew seen (seen.flatMap (succs c))
    if seen'.length = seen.length then seen else closure c n seen'

def reach (c : Cfg) : List St := closure c 32 [init c]

def Closed (c : Cfg) (R : List St) : Bool :=
  R.contains (init c) && R.all (fun s => acts.all (fun a => match step c s a with | none => true | some t => R.contains t))

def safe (s : St) : Bool := !s.early && !s.bad

def allCfgs : List Cfg := [⟨.timer, false⟩, ⟨.timer, true⟩, ⟨.evloop, false⟩, ⟨.evloop, true⟩]

/-! ### ImmediateScheduler -/

inductive ImmOut | ranSync | wouldBlock deriving DecidableEq, Repr

/-- `schedule_relative(duetime)`: `if duetime > DELTA_ZERO: raise WouldBlockException()` else invoke now.
`delay` in clock units (microseconds). -/
def immRelative (delay : Int) : ImmOut := if delay > 0 then .wouldBlock else .ranSync

/-- `schedule(action)` = invoke now -/
def immSchedule : ImmOut := .ranSync

/-- `schedule_absolute(duetime)` = `schedule_relative(duetime - now)` -/
def immAbsolute (due now : Int) : ImmOut := immRelative (due - now)

end Thr2Timer

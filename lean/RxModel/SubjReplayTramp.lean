import RxModel.SubjReplay
/-!
# L6 ReplaySubject on its DEFAULT scheduler (CurrentThreadScheduler: a trampoline)

`ReplaySubject()` without a scheduler uses `CurrentThreadScheduler.singleton()` — the same per-thread
trampoline `Observable.subscribe` uses.  The subject, the per-subscriber `ScheduledObserver` and the
`AutoDetachObserver` are the ones of `RxModel/SubjReplay.lean` (all primitives are reused); what changes
is the scheduling discipline (`reactivex/scheduler/trampoline.py`, `trampolinescheduler.py`):

* `schedule(run)` while the trampoline is **idle** runs the item *immediately*, nested inside the caller
  (e.g. inside the first `ensure_active()` of `_on_next_core`, before the second observer's
  `ensure_active()`), and keeps draining the queue until it is empty;
* `schedule(run)` while it is **active** only enqueues (FIFO: every item is due, equal due times keep
  insertion order);
* a top-level `subscribe` runs `set_disposable` *as a trampoline item*: the replayed values are delivered
  before `subscribe` returns the handle to the caller.

The history calls are made directly at top level; the clock the scheduler reads (`Scheduler.now`) is
supplied by the history (monotone), so `_trim`'s window arithmetic is as in the virtual-time model.
An exception escaping from a `run` action (an error reaching an observer without `on_error`) is outside
what the correspondence generates for this variant (recorded as `crashed`, everything stops).
-/

namespace SubjTramp
open Subj (Action Call upd disposedExn)
open SubjReplay

inductive TTask (α : Type) where
  | act (who : Option Id) (a : RAction α)
  | ensure (i : Id)                          -- so_i.ensure_active()
  | pushEnsure (i : Id) (n : Notif α)        -- so_i.on_error / on_completed; so_i.ensure_active()
  | sadDispose (i : Id)
  | resched (i : Id)
  | handle (j : Id)
  | drain                                    -- one round of Trampoline._run
deriving Repr

structure TSt (α : Type) where
  base : St α := {}
  active : Bool := false                     -- not Trampoline._idle
  agenda : List (TTask α) := []

variable {α : Type}

def lift : SubjReplay.Task α → TTask α
  | .act w a => .act w a
  | .sadDispose i => .sadDispose i
  | .resched i => .resched i
  | .handle j => .handle j

def isHandle : SubjReplay.Task α → Bool
  | .handle _ => true
  | _ => false

/-- after an `ensure_active()`: if it scheduled `run` on an idle trampoline, the trampoline starts now -/
def afterSchedule (s : TSt α) (b : St α) : TSt α :=
  if !s.active && !b.pending.isEmpty then { s with base := b, active := true, agenda := .drain :: s.agenda }
  else { s with base := b }

/-- `subject.on_next / on_error / on_completed` -/
def emitT (cfg : Cfg α) (s : TSt α) (who : Option Id) (n : Notif α) : TSt α :=
  let st := s.base
  if st.disposed then { s with base := raiseTo who disposedExn st }
  else if st.stopped then s
  else
    let now := st.clock
    match n with
    | .next v =>
      let st := { st with queue := trim cfg now (st.queue ++ [(now, v)]), allVals := st.allVals ++ [(now, v)],
                          lastNow := now }
      { s with base := pushAll n st.observers st, agenda := st.observers.map TTask.ensure ++ s.agenda }
    | _ =>
      let snap := st.observers
      let st := { st with stopped := true, observers := [],
                          exception := (match n with | .error e => some e | _ => st.exception),
                          queue := trim cfg now st.queue, lastNow := now }
      { s with base := st, agenda := snap.map (TTask.pushEnsure · n) ++ s.agenda }

/-- `so_i.run` invoked by the trampoline -/
def soRunT (cfg : Cfg α) (s : TSt α) (i : Id) : TSt α :=
  let st := s.base
  match st.soQueue i with
  | [] => { s with base := { st with acquired := upd st.acquired i false } }
  | n :: rest =>
    let st := { st with soQueue := upd st.soQueue i rest, fed := upd st.fed i (st.fed i ++ [n]) }
    let r := adoDeliver cfg st i n
    match r.2.2 with
    | some e =>
      { s with base := { r.1 with soQueue := upd r.1.soQueue i [], faulted := upd r.1.faulted i true, crashed := some e },
               agenda := [] }
    | none => { s with base := r.1, agenda := r.2.1.map lift ++ [.resched i] ++ s.agenda }

def stepT (cfg : Cfg α) (s : TSt α) (t : TTask α) : TSt α :=
  match t with
  | .act who (.emit n) =>
    emitT cfg { s with base := (match who with
      | some i => { s.base with evs := s.base.evs ++ [EvR.emit i s.base.clock n] }
      | none => s.base) } who n
  | .act who (.base (.sub j)) =>
    if s.base.seen j then s
    else
      let r := doSub cfg s.base who j
      if !s.active then
        -- top level: `subscribe` schedules set_disposable on the idle trampoline; everything queued by it is
        -- drained before `subscribe` returns the handle
        let needHandle := r.2.any isHandle || r.1.handle j
        { s with base := { r.1 with handle := upd r.1.handle j false }, active := true,
                 agenda := (r.2.filter (fun t => !isHandle t)).map lift ++ [.drain] ++
                   (if needHandle then [.handle j] else []) ++ s.agenda }
      else { s with base := r.1, agenda := r.2.map lift ++ s.agenda }
  | .act _ (.base (.unsub j)) => { s with base := doUnsub s.base j }
  | .act _ (.base .dispose) => { s with base := subjDispose s.base }
  | .ensure i => afterSchedule s (ensureActive s.base i)
  | .pushEnsure i n => afterSchedule s (ensureActive (soPush s.base i n) i)
  | .sadDispose i => { s with base := sadDispose s.base i }
  | .resched i => { s with base := (scheduleRun s.base i).1 }
  | .handle j => { s with base := { s.base with handle := upd s.base.handle j true } }
  | .drain =>
    match s.base.pending with
    | [] => { s with active := false }                         -- queue empty: go idle
    | it :: rest =>
      let s := { s with base := { s.base with pending := rest }, agenda := .drain :: s.agenda }
      if it.cancelled then s
      else
        match it.kind with
        | .run i => soRunT cfg s i
        | .call _ _ => s

def execT (cfg : Cfg α) : Nat → TSt α → TSt α
  | 0, s => s
  | f + 1, s =>
    match s.base.crashed with
    | some _ => s
    | none =>
      match s.agenda with
      | [] => s
      | t :: ts => execT cfg f (stepT cfg { s with agenda := ts } t)

def callTask : Call α → TTask α
  | .sub i => .act none (.base (.sub i))
  | .unsub i => .act none (.base (.unsub i))
  | .dispose => .act none (.base .dispose)
  | .next v => .act none (.emit (.next v))
  | .error e => .act none (.emit (.error e))
  | .completed => .act none (.emit .completed)

/-- A whole history of top-level calls `(now, call)`. -/
def runT (cfg : Cfg α) (fuel : Nat) : TSt α → Nat → List (Nat × Call α) → TSt α
  | s, _, [] => s
  | s, k, (t, c) :: cs =>
    let b := s.base
    let now := max b.clock t
    let b := { b with clock := now, curCall := k, evs := b.evs ++ [EvR.call k now b.observers.length c] }
    runT cfg fuel (execT cfg fuel { s with base := b, agenda := [callTask c] }) (k + 1) cs

end SubjTramp

import RxModel.Core
import RxModel.StructCaptures
/-!
# Struct.Ops — operators with per-subscription state as instances of the frame model

Each operator below is an `OpDef`: immutable built-time parameters `P` (what the closure captures when
the operator is applied to the source and never writes), per-subscription state `σ` allocated by
`subscribe`, and the `on_next` handler as written in `reactivex/operators/_*.py`; `on_error` /
`on_completed` are passed straight to the downstream observer in all of them.  `OpDef.sys` wraps
it as a `Struct.Frame.Sys` whose instances are subscriptions; the `done` flag is the
`AutoDetachObserver` of the subscription (nothing is handled after a terminal went either way).

`zipIterAsIs` is `zip_with_iterable_` as it was before the `fix:` (the iterator lives in the
built-time state and is advanced by every subscription) — kept as the witness that the frame
hypothesis is necessary.
-/

namespace Struct.Ops
open Struct.Frame

structure OpDef (P σ α β : Type) where
  init : P → σ
  onNext : P → σ → α → σ × List (Notif β)

def OpDef.sys {P σ α β} (d : OpDef P σ α β) : Sys P (Bool × σ) (Notif α) (Notif β) where
  create := fun p => ((false, d.init p), p)
  step := fun p l n =>
    if l.1 then (p, l, [])
    else
      match n with
      | .next v => (p, (((d.onNext p l.2 v).2).any Notif.isTerminal, (d.onNext p l.2 v).1), (d.onNext p l.2 v).2)
      | .error e => (p, (true, l.2), [.error e])
      | .completed => (p, (true, l.2), [.completed])

/-- `take_(source, count)` for `count > 0` (`_take.py`: `remaining = count` in `subscribe`) -/
def take {α} : OpDef Nat Nat α α where
  init := fun count => count
  onNext := fun _ remaining v =>
    if remaining > 0 then
      (remaining - 1, if remaining - 1 = 0 then [.next v, .completed] else [.next v])
    else (remaining, [])

/-- `skip_` -/
def skip {α} : OpDef Nat Nat α α where
  init := fun count => count
  onNext := fun _ remaining v => if remaining ≤ 0 then (remaining, [.next v]) else (remaining - 1, [])

/-- `scan_` (`defer(factory)`: `has_accumulation`, `accumulation` per subscription); the
accumulator may raise (`map`'s try/except turns it into `on_error`). -/
def scan {α β} : OpDef ((β → α → Except Err β) × Option β × (α → β)) (Option β) α β where
  init := fun _ => none
  onNext := fun p acc x =>
    let r : Except Err β :=
      match acc with
      | some a => p.1 a x
      | none => match p.2.1 with
        | some seed => p.1 seed x
        | none => .ok (p.2.2 x)
    match r with
    | .ok a => (some a, [.next a])
    | .error e => (acc, [.error e])

/-- `map_indexed_` = `zip_with_iterable(infinite())` then `starmap_indexed`: the index is the
position in a counter created per subscription (after the `fix:`). -/
def mapIndexed {α β} : OpDef (α → Nat → Except Err β) Nat α β where
  init := fun _ => 0
  onNext := fun f i x =>
    match f x i with
    | .ok y => (i + 1, [.next y])
    | .error e => (i + 1, [.error e])

/-- `zip_with_iterable_(source, seq)` (after the `fix:`: `second = iter(seq)` inside `subscribe`) -/
def zipIter {α γ} : OpDef (List γ) (List γ) α (α × γ) where
  init := fun seq => seq
  onNext := fun _ second left =>
    match second with
    | [] => ([], [.completed])
    | r :: rest => (rest, [.next (left, r)])

/-- `distinct_until_changed_` with a key mapper and a comparer (either may raise) -/
def distinctUntilChanged {α κ} : OpDef ((α → Except Err κ) × (κ → κ → Except Err Bool)) (Option κ) α α where
  init := fun _ => none
  onNext := fun p cur v =>
    match p.1 v with
    | .error e => (cur, [.error e])
    | .ok key =>
      match cur with
      | none => (some key, [.next v])
      | some ck =>
        match p.2 ck key with
        | .error e => (cur, [.error e])
        | .ok true => (cur, [])
        | .ok false => (some key, [.next v])

/-- `take_while_(source, predicate, inclusive)` -/
def takeWhile {α} : OpDef ((α → Except Err Bool) × Bool) Bool α α where
  init := fun _ => true
  onNext := fun p running v =>
    if !running then (running, [])
    else
      match p.1 v with
      | .error e => (running, [.error e])   -- `running` keeps its value when the predicate raises
      | .ok true => (true, [.next v])
      | .ok false => (false, if p.2 then [.next v, .completed] else [.completed])

/-- `pairwise_` -/
def pairwise {α} : OpDef Unit (Option α) α (α × α) where
  init := fun _ => none
  onNext := fun _ prev x =>
    match prev with
    | none => (some x, [])
    | some p => (some x, [.next (p, x)])

/-! ### `retry_` / `repeat_`: the per-subscription budget

`retry_(source, n)`: `subscribe` builds `gen = range(n)` and hands `(source for _ in gen)` to
`catch_with_iterable`; `repeat_(source, n)`: `defer` builds `(source for _ in gen)` for
`concat_with_iterable`.  One instance = one downstream subscription; its events are the
notifications of its *current* attempt's source subscription.  `budget = none` is `infinite()`.
(`n ≥ 1`: with `n = 0` the observable completes at once, which the frame model's `create` cannot emit.) -/

inductive BOut (α : Type) where
  | emit (n : Notif α)
  | resubscribe            -- the next source of the iterator is subscribed
deriving Repr, DecidableEq

/-- state: attempts still available after the current one (none = unbounded), done flag -/
structure BState where
  left : Option Nat
  done : Bool
deriving Repr, DecidableEq

def budgetCreate (n : Option Nat) : BState := ⟨n.map (· - 1), false⟩

/-- `retry`: an error moves on to the next attempt if there is one, else it is forwarded -/
def retry {α} : Struct.Frame.Sys (Option Nat) BState (Notif α) (BOut α) where
  create := fun n => (budgetCreate n, n)
  step := fun n s x =>
    if s.done then (n, s, [])
    else
      match x with
      | .next v => (n, s, [.emit (.next v)])
      | .completed => (n, { s with done := true }, [.emit .completed])
      | .error e =>
        match s.left with
        | none => (n, s, [.resubscribe])
        | some 0 => (n, { s with done := true }, [.emit (.error e)])
        | some (k + 1) => (n, { s with left := some k }, [.resubscribe])

/-- `repeat`: a completion moves on to the next round if there is one, else it is forwarded -/
def repeat_ {α} : Struct.Frame.Sys (Option Nat) BState (Notif α) (BOut α) where
  create := fun n => (budgetCreate n, n)
  step := fun n s x =>
    if s.done then (n, s, [])
    else
      match x with
      | .next v => (n, s, [.emit (.next v)])
      | .error e => (n, { s with done := true }, [.emit (.error e)])
      | .completed =>
        match s.left with
        | none => (n, s, [.resubscribe])
        | some 0 => (n, { s with done := true }, [.emit .completed])
        | some (k + 1) => (n, { s with left := some k }, [.resubscribe])

def BOut.isResub {α} : BOut α → Bool
  | .resubscribe => true
  | _ => false

def countResub {α} (l : List (BOut α)) : Nat := l.countP BOut.isResub

/-- `zip_with_iterable_` **before** the fix: `second = iter(seq)` is evaluated when the operator is
applied; every subscription pulls from that one iterator.  The shared state *is* the iterator. -/
def zipIterAsIs {α γ} : Sys (List γ) Bool (Notif α) (Notif (α × γ)) where
  create := fun second => (false, second)
  step := fun second done n =>
    if done then (second, done, [])
    else
      match n with
      | .next left =>
        match second with
        | [] => ([], true, [.completed])
        | r :: rest => (rest, false, [.next (left, r)])
      | .error e => (second, true, [.error e])
      | .completed => (second, true, [.completed])

/-! ### `ref_count_` as a family of applications (C44)

One operator function `op = ops.ref_count()`; instances are its applications `op(connectable_i)`.
After the `fix:` the subscriber count and the connection handle live in the application
(`def ref_count(source): connectable_subscription = None; count = 0 …`).  Actions: subscriber `k`
subscribes / disposes its subscription; outputs: what the application does to *its* connectable. -/

inductive RcAct where
  | sub (k : Nat)
  | unsub (k : Nat)
deriving Repr, DecidableEq

inductive RcOut where
  | srcSubscribe (k : Nat)
  | connect
  | srcUnsubscribe (k : Nat)
  | disconnect
deriving Repr, DecidableEq

/-- per application: `count`, whether `connectable_subscription` holds a live (truthy) handle, and
the subscribers whose `Disposable(dispose)` has not run yet -/
structure RcState where
  count : Int := 0
  conn : Bool := false
  live : List Nat := []
deriving Repr, DecidableEq

def rcStep (s : RcState) : RcAct → RcState × List RcOut
  | .sub k =>
    -- count += 1; should_connect = count == 1; source.subscribe(observer); if should_connect: connect
    let c := s.count + 1
    if c == 1 then ({ count := c, conn := true, live := k :: s.live }, [.srcSubscribe k, .connect])
    else ({ s with count := c, live := k :: s.live }, [.srcSubscribe k])
  | .unsub k =>
    if s.live.contains k then
      -- subscription.dispose(); count -= 1; if not count and connectable_subscription: dispose it
      let c := s.count - 1
      let live := s.live.erase k
      if c == 0 && s.conn then ({ count := c, conn := false, live := live }, [.srcUnsubscribe k, .disconnect])
      else ({ s with count := c, live := live }, [.srcUnsubscribe k])
    else (s, [])   -- Disposable.dispose runs its action once

/-- the fixed `ref_count_`: nothing at factory level -/
def refCount : Sys Unit RcState RcAct RcOut where
  create := fun _ => ({}, ())
  step := fun _ s a => ((), (rcStep s a).1, (rcStep s a).2)

/-- `ref_count_` **before** the fix: `count` and `connectable_subscription` belong to the operator
function, shared by all its applications; each application only knows its live subscribers. -/
def refCountAsIs : Sys (Int × Bool) (List Nat) RcAct RcOut where
  create := fun g => ([], g)
  step := fun g live a =>
    let r := rcStep { count := g.1, conn := g.2, live := live } a
    ((r.1.count, r.1.conn), r.1.live, r.2)

end Struct.Ops

/-!
# Thr2Aio — one action scheduled on an asyncio loop through AsyncIOScheduler / AsyncIOThreadSafeScheduler (C33)

Atomic-step model of `reactivex/scheduler/eventloop/asyncioscheduler.py` and
`asynciothreadsafescheduler.py` for ONE scheduled action, the event-loop thread, the thread that
schedules and later disposes, and the loop clock.  asyncio itself is modelled, not verified (trusted
base): a FIFO ready queue, a timer heap whose entries move to the ready queue once due, `Handle.cancel`
setting a flag that the loop tests when it pops the handle.  Other handles in the loop do not interact
with this action except through FIFO order, which is kept for our own handles (`rq`).

Handles: `1` = the first handle (`call_soon[_threadsafe](interval)` for an immediate schedule,
`call_later(interval)` for AsyncIOScheduler.schedule_relative, `call_soon_threadsafe(stage2)` for the
thread-safe relative schedule); `2` = `call_later(seconds, interval)` made by `stage2` on the loop;
`3` = `call_soon_threadsafe(cancel_handle)` made by a marshalled `dispose()`.

"The action starts" = the loop pops an `interval` handle and finds it not cancelled (the read of
`_cancelled` is the linearisation point, DESIGN.md §8).
-/

namespace Thr2Aio

inductive Flavour | plain | ts deriving DecidableEq, Repr
inductive Kind | soon | rel deriving DecidableEq, Repr
/-- who disposes: a callback on the loop thread / another thread while the loop runs / a thread while
the loop is not running — never started yet, or stopped again after having run — and does not (re)start
before `dispose()` has returned -/
inductive Mode | onLoop | foreign | notRunning deriving DecidableEq, Repr
/-- how the action was scheduled: from a callback on the loop thread / from another thread while the loop
runs / before the loop was started -/
inductive SMode | onLoop | foreign | pre deriving DecidableEq, Repr
/-- `_on_self_loop_or_not_running` on a thread that has no running loop: `asIs` answers True (pinned
tree, the defect), `fixed` answers False (marshal the cancellation) -/
inductive Test | asIs | fixed deriving DecidableEq, Repr

structure Cfg where
  fl : Flavour
  kind : Kind
  smode : SMode
  mode : Mode
  test : Test
deriving DecidableEq, Repr

/-- where a handle is: not created / in the ready queue / in the timer heap / popped or dropped -/
inductive Loc | none | ready | timer | gone deriving DecidableEq, Repr

structure St where
  l1 : Loc := .none
  c1 : Bool := false        -- handle 1 cancelled
  l2 : Loc := .none
  c2 : Bool := false
  l3 : Loc := .none
  rq : List Nat := []       -- our handles in the ready queue, FIFO
  hs : List Nat := []       -- the `handle` list of the thread-safe schedule_relative
  due : Bool := false       -- the loop clock has reached the timer's due time
  running : Bool := false
  lp : Nat := 0             -- loop thread: 0 idle, 1 inside stage2 before call_later, 2 after call_later before append
  up : Nat := 0             -- user thread program counter (see `userStep`)
  fut : Bool := false       -- the Future of a marshalled dispose is resolved
  started : Bool := false
  returned : Bool := false  -- dispose() has returned
  late : Bool := false      -- the action started after dispose() had returned
  early : Bool := false     -- a relative action started before its due time
deriving DecidableEq, Repr

def init (c : Cfg) : St := { running := c.smode != .pre }

/-- the user's current call (schedule while `up < 10`, dispose afterwards) runs on the loop thread -/
def userOnLoop (c : Cfg) (s : St) : Bool := if s.up < 10 then c.smode == .onLoop else c.mode == .onLoop

/-- the user is in the middle of a call -/
def midCall (s : St) : Bool := !(s.up == 0 || s.up == 10 || s.up == 20)

/-- the action body begins (on the loop thread) -/
def start (c : Cfg) (s : St) : St :=
  { s with started := true, late := s.late || s.returned, early := s.early || (c.kind == .rel && !s.due) }

/-- `do_cancel_handles` / `handle.cancel()` executed as one block (on the loop thread) -/
def cancelAll (c : Cfg) (s : St) : St :=
  match c.kind with
  | .soon => { s with c1 := true }
  | .rel =>
    -- try: handle.pop().cancel(); handle.pop().cancel()  except: pass
    let cancel (s : St) (h : Nat) : St := if h = 1 then { s with c1 := true } else { s with c2 := true }
    match s.hs.reverse with
    | [] => s
    | [a] => cancel { s with hs := [] } a
    | a :: b :: rest => cancel (cancel { s with hs := rest.reverse } a) b

/-- result of `_on_self_loop_or_not_running()` evaluated by the disposing thread: true = cancel directly -/
def direct (c : Cfg) (s : St) : Bool :=
  !s.running || c.mode == .onLoop || (c.mode != .onLoop && c.test == .asIs)

/-- one step of the loop thread -/
def loopStep (c : Cfg) (s : St) : Option (St × String) :=
  if !s.running then none
  -- a callback of the loop thread runs to completion: while the user's call is in progress on the loop
  -- thread (mode onLoop) the loop does nothing else
  else if userOnLoop c s && midCall s then none
  else match s.lp with
  | 1 => some ({ s with l2 := .timer, c2 := false, lp := 2 }, "later")
  | 2 => some ({ s with hs := s.hs ++ [2], lp := 0 }, "append")
  | _ =>
    match s.rq with
    | 1 :: rest =>
      let s := { s with rq := rest, l1 := .gone }
      if s.c1 then some (s, "pop1-skip")
      else if c.fl == .ts && c.kind == .rel then some ({ s with lp := 1 }, "pop1-run")
      else some (start c s, "pop1-run")
    | 2 :: rest =>
      let s := { s with rq := rest, l2 := .gone }
      if s.c2 then some (s, "pop2-skip") else some (start c s, "pop2-run")
    | 3 :: rest =>
      some ({ cancelAll c { s with rq := rest, l3 := .gone } with fut := true }, "pop3-run")
    | _ => none

/-- the loop moves a due timer to the end of the ready queue (asyncio does this at the start of every
iteration, whether or not other handles are ready: a separate action, enabled between callbacks) -/
def collectStep (c : Cfg) (s : St) : Option (St × String) :=
  if !s.running || s.lp != 0 then none
  else if userOnLoop c s && midCall s then none
  else if s.due && s.l1 == .timer then some ({ s with l1 := .ready, rq := s.rq ++ [1] }, "collect1")
  else if s.due && s.l2 == .timer then some ({ s with l2 := .ready, rq := s.rq ++ [2] }, "collect2")
  else none

/-- one step of the scheduling / disposing thread.  pcs: 0 not scheduled; 1 thread-safe relative: handle 1
queued, not yet appended to `handle`; 10 scheduled; 11 direct cancel of the single handle; 12 marshalled:
about to queue cancel_handle; 13 waiting for the future; 14/15 direct `do_cancel_handles` first / second
pop; 19 about to return; 20 returned. -/
def userStep (c : Cfg) (s : St) : Option (St × String) :=
  if userOnLoop c s && (!s.running || s.lp != 0) then none
  -- dispose() is called from another thread while the loop runs / while it is not running
  else if s.up == 10 && c.mode == .foreign && !s.running then none
  else if s.up == 10 && c.mode == .notRunning && s.running then none
  else match s.up with
  | 0 =>
    match c.fl, c.kind with
    | _, .soon => some ({ s with l1 := .ready, rq := s.rq ++ [1], up := 10 }, "soon")
    | .plain, .rel => some ({ s with l1 := .timer, up := 10 }, "later")
    | .ts, .rel => some ({ s with l1 := .ready, rq := s.rq ++ [1], up := 1 }, "soon")
  | 1 => some ({ s with hs := s.hs ++ [1], up := 10 }, "append")
  | 10 =>
    match c.fl with
    | .plain => some ({ s with c1 := true, up := 20, returned := true }, "cancel1-ret")
    | .ts =>
      if direct c s then some ({ s with up := if c.kind == .soon then 11 else 14 }, "test-direct")
      else some ({ s with up := 12 }, "test-marshal")
  | 11 => some ({ s with c1 := true, up := 19 }, "cancel1")
  | 12 => some ({ s with l3 := .ready, rq := s.rq ++ [3], up := 13 }, "enq")
  | 13 => if s.fut then some ({ s with up := 20, returned := true }, "ret") else none
  | 14 =>
    match s.hs.reverse with
    | [] => some ({ s with up := 20, returned := true }, "ret")
    | a :: rest =>
      let s := { s with hs := rest.reverse, up := 15 }
      some (if a = 1 then { s with c1 := true } else { s with c2 := true }, if a = 1 then "cancel1" else "cancel2")
  | 15 =>
    match s.hs.reverse with
    | [] => some ({ s with up := 20, returned := true }, "ret")
    | a :: rest =>
      let s := { s with hs := rest.reverse, up := 19 }
      some (if a = 1 then { s with c1 := true } else { s with c2 := true }, if a = 1 then "cancel1" else "cancel2")
  | 19 => some ({ s with up := 20, returned := true }, "ret")
  | _ => none

/-- actions: 0 = loop thread runs the next ready handle / the next step of `stage2`, 1 = user thread,
2 = the clock reaches the timer's due time, 3 = the loop is (re)started (mode notRunning: only once dispose()
has returned — the property's proviso), 4 = the loop thread moves a due timer to the ready queue,
5 = the loop is stopped -/
def stepL (c : Cfg) (s : St) (a : Nat) : Option (St × String) :=
  match a with
  | 0 => loopStep c s
  | 1 => userStep c s
  | 2 => if !s.due && (s.l1 == .timer || s.l2 == .timer) then some ({ s with due := true }, "tick") else none
  | 3 =>
    -- the loop is (re)started: once dispose() has returned, or — scheduled before the first start and
    -- disposed on / while the loop runs — once the action is scheduled
    if !s.running && (s.returned || (c.smode == .pre && c.mode != .notRunning && s.up == 10))
    then some ({ s with running := true }, "startloop") else none
  | 4 => collectStep c s
  | 5 =>
    -- the running loop is stopped (between callbacks) before a dispose that is to happen while it is stopped
    if s.running && s.lp == 0 && s.up == 10 && c.mode == .notRunning
    then some ({ s with running := false }, "stoploop") else none
  | _ => none

def step (c : Cfg) (s : St) (a : Nat) : Option St := (stepL c s a).map (·.1)

def acts : List Nat := [0, 1, 2, 3, 4, 5]

/-- any list of actions is a schedule; actions that are not enabled are skipped -/
def run (c : Cfg) (s : St) : List Nat → St
  | [] => s
  | a :: as => run c ((step c s a).getD s) as

def runLabels (c : Cfg) (s : St) : List Nat → List String × St
  | [] => ([], s)
  | a :: as =>
    match stepL c s a with
    | none => let r := runLabels c s as; ("blocked" :: r.1, r.2)
    | some (t, l) => let r := runLabels c t as; (l :: r.1, r.2)

/-! ### reachable-set computation (finite state space) -/

def succs (c : Cfg) (s : St) : List St := acts.filterMap (step c s)

def addNew (seen : List St) : List St → List St
  | [] => seen
  | t :: ts => if seen.contains t then addNew seen ts else addNew (seen ++ [t]) ts

/-- breadth-first closure with fuel -/
def closure (c : Cfg) : Nat → List St → List St
  | 0, seen => seen
  | n + 1, seen =>
    let seen' := addNew seen (seen.flatMap (succs c))
    if seen'.length = seen.length then seen else closure c n seen'

def reach (c : Cfg) : List St := closure c 96 [init c]

/-- `R` contains the initial state and is closed under every action -/
def Closed (c : Cfg) (R : List St) : Bool :=
  R.contains (init c) && R.all (fun s => acts.all (fun a => match step c s a with | none => true | some t => R.contains t))

def safe (s : St) : Bool := !s.late && !s.early

end Thr2Aio

import RxModel.Core
/-!
# Timed — common definitions for the operators that read the clock or own timers (C15–C17)

A *timeline* is a list of `(virtual time, notification)`; time is integer ticks.

**The scheduler rule that is inlined here** (`reactivex/scheduler/virtualtimescheduler.py`, `internal/priorityqueue.py`):
pending items run in the order of `(due time, scheduling order)`; an item whose due time is in the past runs
at the current clock reading.  On `TestScheduler` the messages of a *hot* observable are scheduled when the
observable is created, i.e. before any timer an operator arms after subscription, so **the source wins a tie**
against an operator's timer.  The messages of a *cold* observable are scheduled when it is subscribed, so a timer
the operator arms *before* it subscribes its source wins the tie (take_with_time, take_until_with_time,
skip_with_time, the first timer of timeout), a timer armed after loses it.  `timerBefore` is that rule.
-/

namespace Timed

abbrev TL (α : Type) := List (Nat × Notif α)

/-- Does a timer with due time `due` run before a source message at `t`?  `timerFirst` = the timer was scheduled
before the source message was (only possible for a cold source and a timer armed before `source.subscribe`). -/
def timerBefore (timerFirst : Bool) (due t : Nat) : Bool :=
  if timerFirst then decide (due ≤ t) else decide (due < t)

/-- What the source subscription's `AutoDetachObserver` lets through: nothing after the first terminal. -/
def conform {α} : TL α → TL α
  | [] => []
  | (t, .next v) :: r => (t, .next v) :: conform r
  | (t, n) :: _ => [(t, n)]

/-- A hot observable subscribed at `sub`: messages at or before `sub` ran before the subscription
(they were scheduled earlier), the rest goes through the subscription's `AutoDetachObserver`. -/
def hot {α} (sub : Nat) (msgs : TL α) : TL α := conform (msgs.filter (fun m => decide (sub < m.1)))

/-- A cold observable subscribed at `sub`: every message is scheduled relative to the subscription. -/
def cold {α} (sub : Nat) (msgs : TL α) : TL α := conform (msgs.map (fun m => (sub + m.1, m.2)))

/-- Times are non-decreasing and not below `lo` (what a virtual-time scheduler delivers). -/
def Mono {α} : Nat → TL α → Prop
  | _, [] => True
  | lo, (t, _) :: r => lo ≤ t ∧ Mono t r

def Mono.dec {α} : (lo : Nat) → (l : TL α) → Decidable (Mono lo l)
  | _, [] => isTrue trivial
  | lo, (t, _) :: r =>
    match (inferInstance : Decidable (lo ≤ t)), Mono.dec t r with
    | isTrue h1, isTrue h2 => isTrue ⟨h1, h2⟩
    | isFalse h1, _ => isFalse (fun h => h1 h.1)
    | _, isFalse h2 => isFalse (fun h => h2 h.2)

instance {α} (lo : Nat) (l : TL α) : Decidable (Mono lo l) := Mono.dec lo l

/-- The elements before the first terminal, with their arrival times. -/
def nexts {α} : TL α → List (Nat × α)
  | [] => []
  | (t, .next v) :: r => (t, v) :: nexts r
  | _ :: _ => []

/-- The first terminal notification, if any. -/
def firstTerminal {α} : TL α → Option (Nat × Notif α)
  | [] => none
  | (_, .next _) :: r => firstTerminal r
  | (t, n) :: _ => some (t, n)

def isNext {α} : Notif α → Bool
  | .next _ => true
  | _ => false

/-- stamp a list of downstream calls made inside one handler with the handler's time -/
def at_ {α} (t : Nat) (ns : List (Notif α)) : TL α := ns.map (fun n => (t, n))

end Timed

import RxModel.Core
/-!
# L7 Pure — future, callback and blocking bridges

Mirrors `reactivex/observable/fromfuture.py`, `startasync.py`, `reactivex/operators/_tofuture.py`,
`reactivex/run.py` (+ `Observable.run/__await__`), `reactivex/observable/toasync.py`, `start.py`
and `reactivex/observable/fromcallback.py`.

Threads and event loops are runtime glue: the models are the *logic* (what a done-callback, an
observer callback or a scheduled action does to the shared state), over arbitrary histories of the
external events (the future is resolved / cancelled, the subscription is disposed, the source
emits, the scheduler runs the action, an observer subscribes, the user function calls the handler).
The subscriber is always behind an AutoDetachObserver (`stopped` flag: set by a terminal
notification and by `dispose()`, *before* the subscription is disposed).

`from_callback` is modelled as REPAIRED (`fixes/C41_from_callback_complete_and_fresh_handler.patch`);
the pinned tree's behaviour is `FromCallback.handlerAsIs` / `passedAsIs` (marked AS-IS), used only
for the counter-example theorems.
-/

namespace Pure.Bridges

/-- state of a future (`asyncio.Future` or `concurrent.futures.Future`) -/
inductive Fut (α : Type) where
  | pending
  | result (v : α)
  | exception (e : Err)
  | cancelled
deriving Repr, BEq, DecidableEq

def Fut.isDone {α} : Fut α → Bool
  | .pending => false
  | _ => true

def Fut.isCancelled {α} : Fut α → Bool
  | .cancelled => true
  | _ => false

def cancelledError : Err := "CancelledError"
def noElements : Err := "SequenceContainsNoElementsError"

/-- deliver notifications through an AutoDetachObserver: nothing once stopped; a terminal stops it -/
def deliver {α} : Bool → List (Notif α) → Bool × List (Notif α)
  | st, [] => (st, [])
  | true, _ => (true, [])
  | false, n :: r =>
    let (st', o) := deliver n.isTerminal r
    (st', n :: o)

/-! ## from_future / start_async -/
namespace FromFuture

/-- what the code that owns the future does to it -/
inductive Outcome (α : Type) where
  | result (v : α)
  | exception (e : Err)
  | cancel
deriving Repr, BEq, DecidableEq

def Outcome.fut {α} : Outcome α → Fut α
  | .result v => .result v
  | .exception e => .exception e
  | .cancel => .cancelled

inductive Event (α : Type) where
  | resolve (o : Outcome α)     -- set_result / set_exception / cancel by the owner
  | dispose                     -- the subscriber disposes its subscription
deriving Repr, BEq, DecidableEq

structure State (α : Type) where
  fut : Fut α
  stopped : Bool := false
  out : List (Notif α) := []
  /-- set_result/set_exception attempted on a future that is already done (InvalidStateError at the owner) -/
  invalid : Nat := 0
deriving Repr, BEq, DecidableEq

/-- the `done` callback: `future.result()` mapped to notifications -/
def doneNotifs {α} : Fut α → List (Notif α)
  | .result v => [.next v, .completed]
  | .exception e => [.error e]
  | .cancelled => [.error cancelledError]
  | .pending => []

def runDone {α} (s : State α) : State α :=
  let (st, o) := deliver s.stopped (doneNotifs s.fut)
  { s with stopped := st, out := s.out ++ o }

/-- `subscribe`: `future.add_done_callback(done)` — a future that is already done runs it right away
(`concurrent.futures`: immediately; asyncio: on the next loop iteration). -/
def subscribe {α} (f : Fut α) : State α :=
  let s : State α := { fut := f }
  if f.isDone then runDone s else s

def step {α} (s : State α) : Event α → State α
  | .resolve o =>
    match s.fut with
    | .pending => runDone { s with fut := o.fut }
    | _ =>
      match o with
      | .cancel => s                                  -- cancel() on a done future returns False
      | _ => { s with invalid := s.invalid + 1 }
  | .dispose =>
    -- AutoDetachObserver.dispose: is_stopped = True, then the subscription's dispose: future.cancel()
    let s := { s with stopped := true }
    match s.fut with
    | .pending => runDone { s with fut := .cancelled }
    | _ => s

def run {α} (f : Fut α) (evs : List (Event α)) : State α := evs.foldl step (subscribe f)

/-- `start_async(function_async)`: the function raising is `throw(ex)`, else `from_future(its future)`. -/
def startAsync {α} (fn : Except Err (Fut α)) (evs : List (Event α)) : List (Notif α) :=
  match fn with
  | .error e => [.error e]
  | .ok f => (run f evs).out

end FromFuture

/-! ## to_future / await / run() -/
namespace ToFuture

inductive Event (α : Type) where
  | src (n : Notif α)     -- the source calls the observer (raw: may go on after a terminal)
  | cancel                -- somebody cancels the returned future
deriving Repr, BEq, DecidableEq

structure State (α : Type) where
  hasValue : Bool := false
  last : Option α := none
  fut : Fut α := .pending
  stopped : Bool := false       -- the AutoDetachObserver of `source.subscribe(...)`
deriving Repr, BEq, DecidableEq

def step {α} (s : State α) : Event α → State α
  | .src n =>
    if s.stopped then s
    else
      match n with
      | .next v => { s with hasValue := true, last := some v }
      | .error e =>
        -- on_error: `if not future.cancelled(): future.set_exception(err)`; done-callback disposes
        { s with stopped := true, fut := if s.fut.isCancelled then s.fut else .exception e }
      | .completed =>
        { s with stopped := true, last := none,
                 fut := if s.fut.isCancelled then s.fut
                        else match s.hasValue, s.last with
                          | true, some v => .result v
                          | _, _ => .exception noElements }
  | .cancel =>
    match s.fut with
    | .pending => { s with fut := .cancelled, stopped := true }   -- done-callback: `dis.dispose()`
    | _ => s

def run {α} (evs : List (Event α)) : State α := evs.foldl step {}

/-- what the property prescribes, read off the notification list: the first terminal decides -/
def expected {α} (xs : List (Notif α)) : Fut α :=
  let pre := xs.takeWhile (fun n => !n.isTerminal)
  match xs.dropWhile (fun n => !n.isTerminal) with
  | [] => .pending
  | .error e :: _ => .exception e
  | _ :: _ =>
    match (pre.filterMap fun n => match n with | .next v => some v | _ => none).getLast? with
    | some v => .result v
    | none => .exception noElements

/-- `run(source)`: the same fold with a latch; after it: `if exception: raise`; `if not has_result:
raise SequenceContainsNoElementsError`; `return result`. -/
inductive RunResult (α : Type) where
  | returns (v : α)
  | raises (e : Err)
  | blocks
deriving Repr, BEq, DecidableEq

structure RunState (α : Type) where
  hasResult : Bool := false
  result : Option α := none
  exception : Option Err := none
  done : Bool := false
  stopped : Bool := false

def runStep {α} (s : RunState α) (n : Notif α) : RunState α :=
  if s.stopped then s
  else
    match n with
    | .next v => { s with hasResult := true, result := some v }
    | .error e => { s with exception := some e, done := true, stopped := true }
    | .completed => { s with done := true, stopped := true }

def runBlocking {α} (xs : List (Notif α)) : RunResult α :=
  let s := xs.foldl runStep {}
  if !s.done then .blocks
  else
    match s.exception with
    | some e => .raises e
    | none =>
      match s.hasResult, s.result with
      | true, some v => .returns v
      | _, _ => .raises noElements

end ToFuture

/-! ## run(): the latch between the producer thread and the waiting thread

`run()` subscribes (the source emits from ANOTHER thread, through the AutoDetachObserver) and then
executes `while not done: latch.wait()`, after which it reads `exception`, `has_result`, `result`.
Atomic steps (single bytecode-level reads/writes of the closure cells under the GIL, and the
`threading.Event` operations): the producer's callbacks write `result`, `has_result` (on_next),
`exception`, `done`, `latch.set()` (on_error), `done`, `latch.set()` (on_completed) in that
program order; the waiter reads `done`, blocks in `latch.wait()` until the event is set
(level-triggered), and then reads the three cells.  Any interleaving of the two threads is a list
of choices `true` = the producer takes its next step, `false` = the waiter does (a blocked waiter's
step is a no-op). -/
namespace RunLatch
open ToFuture (RunResult)

inductive PStep (α : Type) where
  | setResult (v : α)
  | setHasResult
  | setException (e : Err)
  | setDone
  | setLatch
deriving Repr, DecidableEq

/-- the producer thread's program for a raw call sequence: the AutoDetachObserver lets nothing
through after the first terminal -/
def compile {α} : List (Notif α) → List (PStep α)
  | [] => []
  | .next v :: r => .setResult v :: .setHasResult :: compile r
  | .error e :: _ => [.setException e, .setDone, .setLatch]
  | .completed :: _ => [.setDone, .setLatch]

structure Shared (α : Type) where
  result : Option α := none
  hasResult : Bool := false
  exception : Option Err := none
  done : Bool := false
  latch : Bool := false
deriving Repr, DecidableEq

def pstep {α} (sh : Shared α) : PStep α → Shared α
  | .setResult v => { sh with result := some v }
  | .setHasResult => { sh with hasResult := true }
  | .setException e => { sh with exception := some e }
  | .setDone => { sh with done := true }
  | .setLatch => { sh with latch := true }

/-- program counter of the waiting thread -/
inductive WPc (α : Type) where
  | checkDone                 -- `while not done`
  | waiting                   -- inside `latch.wait()`
  | readExc                   -- `if exception: raise`
  | readHas                   -- `if not has_result: raise SequenceContainsNoElementsError`
  | readRes                   -- `return result`
  | finished (r : RunResult α)
deriving Repr, DecidableEq

structure Sys (α : Type) where
  sh : Shared α := {}
  rem : List (PStep α)
  w : WPc α := .checkDone

def outcome {α} (sh : Shared α) : RunResult α :=
  match sh.exception with
  | some e => .raises e
  | none =>
    if sh.hasResult then
      match sh.result with
      | some v => .returns v
      | none => .raises noElements
    else .raises noElements

def wstep {α} (s : Sys α) : Sys α :=
  match s.w with
  | .checkDone => if s.sh.done then { s with w := .readExc } else { s with w := .waiting }
  | .waiting => if s.sh.latch then { s with w := .checkDone } else s
  | .readExc =>
    match s.sh.exception with
    | some e => { s with w := .finished (.raises e) }
    | none => { s with w := .readHas }
  | .readHas => if s.sh.hasResult then { s with w := .readRes } else { s with w := .finished (.raises noElements) }
  | .readRes =>
    match s.sh.result with
    | some v => { s with w := .finished (.returns v) }
    | none => { s with w := .finished (.raises noElements) }
  | .finished _ => s

def pstepSys {α} (s : Sys α) : Sys α :=
  match s.rem with
  | [] => s
  | p :: r => { s with sh := pstep s.sh p, rem := r }

def sysStep {α} (s : Sys α) (producer : Bool) : Sys α := if producer then pstepSys s else wstep s

/-- run an interleaving -/
def run {α} (xs : List (Notif α)) (sched : List Bool) : Sys α :=
  sched.foldl sysStep { rem := compile xs }

end RunLatch

/-! ## to_async / start -/
namespace ToAsync

inductive Event where
  | run                    -- the scheduler runs the scheduled action
  | subscribe (i : Nat)    -- observer `i` subscribes to the returned observable
deriving Repr, DecidableEq

/-- the AsyncSubject plus the bookkeeping the harness observes -/
structure State (α : Type) where
  stopped : Bool := false
  value : Option α := none
  exception : Option Err := none
  observers : List Nat := []
  invocations : Nat := 0
  outs : List (Nat × Notif α) := []     -- (observer, notification) in delivery order
deriving Repr, BEq, DecidableEq

def step {α} (func : Except Err α) (s : State α) : Event → State α
  | .run =>
    if s.invocations > 0 then s          -- the action is scheduled exactly once
    else
      match func with
      | .error e =>
        { s with invocations := 1, stopped := true, exception := some e, observers := [],
                 outs := s.outs ++ s.observers.map (fun i => (i, .error e)) }
      | .ok r =>
        { s with invocations := 1, stopped := true, value := some r, observers := [],
                 outs := s.outs ++ s.observers.flatMap (fun i => [(i, .next r), (i, .completed)]) }
  | .subscribe i =>
    if !s.stopped then { s with observers := s.observers ++ [i] }
    else
      match s.exception, s.value with
      | some e, _ => { s with outs := s.outs ++ [(i, .error e)] }
      | none, some v => { s with outs := s.outs ++ [(i, .next v), (i, .completed)] }
      | none, none => { s with outs := s.outs ++ [(i, .completed)] }

def run {α} (func : Except Err α) (evs : List Event) : State α := evs.foldl (step func) {}

def received {α} (s : State α) (i : Nat) : List (Notif α) :=
  s.outs.filterMap (fun (j, n) => if j = i then some n else none)

end ToAsync

/-! ## from_callback (REPAIRED) -/
namespace FromCallback

structure Cfg (α : Type) where
  /-- `mapper(args)` on the tuple of the callback's arguments; may raise -/
  mapper : Option (List α → Except Err α)
  /-- how a Python list of values is a value -/
  listOf : List α → α
  /-- `None` -/
  none : α

/-- what one invocation of `handler(*cbargs)` sends to the observer -/
def handler {α} (cfg : Cfg α) (cbargs : List α) : List (Notif α) :=
  match cfg.mapper with
  | some m =>
    match m cbargs with
    | .error e => [.error e]
    | .ok r => [.next r, .completed]
  | none =>
    match cbargs with
    | [x] => [.next x, .completed]
    | [] => [.next cfg.none, .completed]
    | xs => [.next (cfg.listOf xs), .completed]

/-- one subscription: the user function invokes the handler with these argument lists, in order -/
def subscribeRun {α} (cfg : Cfg α) : Bool → List (List α) → List (Notif α)
  | _, [] => []
  | st, c :: cs =>
    let (st', o) := deliver st (handler cfg c)
    o ++ subscribeRun cfg st' cs

/-- an argument the user function receives -/
inductive Arg (α : Type) where
  | val (v : α)
  | handler (sub : Nat)     -- the handler of subscription number `sub`
deriving Repr, BEq, DecidableEq

/-- `func(*arguments, handler)`: the k-th subscription passes the original arguments and ITS handler -/
def passed {α} (args : List α) (k : Nat) : List (Arg α) := args.map .val ++ [.handler k]

/-! ### AS-IS (pinned tree) -/

/-- AS-IS handler: with a mapper there is no `on_completed`; without a mapper and without arguments
`observer.on_next(*[])` is a TypeError raised into the caller of the handler (`none` = raised). -/
def handlerAsIs {α} (cfg : Cfg α) (cbargs : List α) : Option (List (Notif α)) :=
  match cfg.mapper with
  | some m =>
    match m cbargs with
    | .error e => some [.error e]
    | .ok r => some [.next r]
  | none =>
    match cbargs with
    | [x] => some [.next x, .completed]
    | [] => Option.none
    | xs => some [.next (cfg.listOf xs), .completed]

/-- AS-IS: `arguments.append(handler); func(*arguments)` on the list captured by `function(*args)`:
the k-th subscription passes the handlers of all subscriptions so far. -/
def passedAsIs {α} (args : List α) (k : Nat) : List (Arg α) :=
  args.map .val ++ (List.range (k + 1)).map .handler

end FromCallback

end Pure.Bridges

/-!
# Thr2Table — shape of the regenerated lock table (`RxGen/Locks.lean`) and its check (C43)

One `Row` per handler path of a combinator, recorded by running the REAL operator single-threaded
with instrumented locks (`harness/props/C43.py: regenerate`):
source index × notification kind × control-path class (the set of lines of the operator's file the
handler executed).  For every downstream call and every write to operator state made on that path,
the row lists the locks held at that moment (lock *roles*: `1` = the `RLock()` the operator creates
itself, `10+k` = `.lock` of source `k` — what `synchronized(source.lock)` takes —, `100+n` = `.lock`
of the n-th other observable built for the scenario).
-/

namespace Thr2

inductive Comb where
  | merge | mergeAll | mergeMaxc | flatMap | zip | combineLatest | withLatestFrom | amb
  | windowTime | windowToc | windowCount | bufferTime
deriving DecidableEq, Repr

/-- notification kind of the triggering event / of a downstream call; `T` = the operator's timer
fired, `I` = the outer source emitted an inner observable, `S` = subscription time -/
inductive K where
  | N | E | C | T | I | S
deriving DecidableEq, Repr

structure Row where
  op : Comb
  src : Nat
  kind : K
  cls : Nat
  calls : List (K × List Nat)      -- downstream call, lock roles held
  writes : List (Nat × List Nat)   -- write to a plain state cell/list (source line), lock roles held
  tsafe : Nat                      -- operations on self-synchronised disposable containers (`group.add` …)
  guard : List (Bool × Option Bool) -- `amb` only: (side of the calling handler, `choice` at the call)

def Comb.all : List Comb :=
  [.merge, .mergeAll, .mergeMaxc, .flatMap, .zip, .combineLatest, .withLatestFrom, .amb, .windowTime, .windowToc,
   .windowCount, .bufferTime]

/-- held-lock sets of everything that must be serialised on this path -/
def Row.held (r : Row) : List (List Nat) := r.calls.map (·.2) ++ r.writes.map (·.2)

/-- paths that run while sources may emit concurrently (everything but subscription time) -/
def live (t : List Row) (op : Comb) : List Row := t.filter (fun r => r.op = op ∧ r.kind ≠ .S)

/-- some lock role is held at every downstream call and every state write of every live path -/
def oneLock (rows : List Row) : Bool :=
  let sets := rows.flatMap Row.held
  match sets with
  | [] => false
  | s :: _ => s.any (fun c => sets.all (fun x => x.contains c))

/-- the table exercises downstream `on_next`, `on_error` and `on_completed` of the combinator -/
def covers (rows : List Row) : Bool :=
  [K.N, K.E, K.C].all (fun k => rows.any (fun r => r.calls.any (fun c => c.1 = k)))

/-- `amb`: the choice is written under one lock, and every downstream call is made by the side
that `choice` names at that moment (the calls themselves are outside the lock, by design). -/
def ambOk (rows : List Row) : Bool :=
  (let sets := rows.flatMap (fun r => r.writes.map (·.2))
   match sets with
   | [] => false
   | s :: _ => s.any (fun c => sets.all (fun x => x.contains c))) &&
  rows.all (fun r => r.calls.length = r.guard.length ∧ r.guard.all (fun g => g.2 = some g.1))

/-- `window_with_count` (and `buffer_with_count` built on it) has one source and no timer: every live path
is driven by source 0, so only one thread ever runs its handlers and no lock is needed. -/
def singleSource (rows : List Row) : Bool := rows.all (fun r => r.src = 0)

def tableOk (t : List Row) : Bool :=
  Comb.all.all fun op =>
    let rows := live t op
    covers rows &&
      (if op = .amb then ambOk rows else if op = .windowCount then singleSource rows else oneLock rows)

end Thr2

import RxModel.Subj
/-!
# L6 ReplaySubject on a virtual-time scheduler

Mirrors `reactivex/subject/replaysubject.py` (`ReplaySubject`, `RemovableDisposable`, `_trim`),
`reactivex/observer/scheduledobserver.py` (one `ScheduledObserver` per subscriber, run
single-threaded), the `AutoDetachObserver` + `SingleAssignmentDisposable` that `Observable.subscribe`
puts around the user's callbacks, and as much of `VirtualTimeScheduler.start` / `PriorityQueue` as the
subject exercises (stable `(due, insertion order)` queue, clock, spin counter).

A history is a list of timed top-level calls, all scheduled up front (`schedule_absolute`) on the
scheduler the subject uses; `start()` then runs everything.  No user callback ever runs inside a subject
method here (all deliveries are `run` actions of the scheduler), except through `subscribe`'s fail
path on a disposed subject; callbacks re-enter the subject through their reaction scripts
(`RAction`: the `Subj.Action`s, and re-entrant emission into the same subject), executed from an explicit
agenda as in `RxModel/Subj.lean`.

Times are `Nat` ticks (the harness uses integer virtual times; `TestScheduler` maps tick t to t seconds).
-/

namespace SubjReplay
open Subj (Action Call upd disposedExn)

abbrev Id := Nat

/-- What a user callback may do: the C20 actions, or emit into the same subject (re-entrant
`subject.on_next / on_error / on_completed` from inside the callback — a feedback loop). -/
inductive RAction (α : Type) where
  | base (a : Action)
  | emit (n : Notif α)
deriving Repr

structure Cfg (α : Type) where
  bufferSize : Option Nat            -- None = sys.maxsize
  window : Option Nat                -- None = timedelta.max
  hasErr : Id → Bool
  react : Id → Nat → List (RAction α)

inductive ItemKind (α : Type) where
  | call (k : Nat) (c : Call α)      -- history call number k
  | run (i : Id)                     -- ScheduledObserver.run of observer i's ScheduledObserver
deriving Repr

/-- A `ScheduledItem` in the scheduler's priority queue. -/
structure Item (α : Type) where
  due : Nat
  id : Nat
  kind : ItemKind α
  cancelled : Bool := false          -- item.disposable.is_disposed
deriving Repr

/-- Synchronous work pending inside the currently executing scheduler action. -/
inductive Task (α : Type) where
  | act (who : Option Id) (a : RAction α) -- `none`: the history call itself; `some i`: a reaction of observer i
  | sadDispose (i : Id)                   -- `finally: self.dispose()` of a terminal AutoDetachObserver callback
  | resched (i : Id)                      -- `self.scheduler.schedule(self.run)` at the end of ScheduledObserver.run
  | handle (j : Id)                       -- `subscribe` (fail path) returns: the user now holds j's handle
deriving Repr

/-- Global order of the observable events of a run (compared with the real code, and what the
property oracle reads). -/
inductive EvR (α : Type) where
  | emit (i now : Nat) (n : Notif α)  -- observer i's callback emits n into the subject (re-entrant)
  | call (k now nobs : Nat) (c : Call α)  -- history call k (= c) starts, `scheduler.now` = now, `len(subject.observers)` = nobs
  | sub (j now : Nat)         -- subscribe(j) is attempted (top level or reaction)
  | unsub (j : Nat)           -- the handle of j's subscription is disposed
  | dispose                   -- subject.dispose()
  | cb (i now : Nat)          -- a user callback of observer i runs
deriving Repr

structure St (α : Type) where
  -- ReplaySubject
  stopped : Bool := false
  disposed : Bool := false
  observers : List Id := []
  exception : Option Err := none
  queue : List (Nat × α) := []                  -- deque of QueueItem(interval, value)
  -- per observer: the user's side and the AutoDetachObserver (+ its SingleAssignmentDisposable)
  seen : Id → Bool := fun _ => false
  handle : Id → Bool := fun _ => false
  cbs : Id → Nat := fun _ => 0
  log : Id → List (Nat × Notif α) := fun _ => []
  adoStopped : Id → Bool := fun _ => false
  sadDisposed : Id → Bool := fun _ => false
  held : Id → Bool := fun _ => false              -- the SAD holds the RemovableDisposable
  -- per observer: the ScheduledObserver
  soStopped : Id → Bool := fun _ => false         -- Observer.is_stopped
  soQueue : Id → List (Notif α) := fun _ => []    -- queued actions
  acquired : Id → Bool := fun _ => false
  faulted : Id → Bool := fun _ => false
  serDisposed : Id → Bool := fun _ => false       -- SerialDisposable.is_disposed
  serCur : Id → Option Nat := fun _ => none       -- SerialDisposable.current (a scheduled item)
  -- the scheduler
  clock : Nat := 0
  spin : Nat := 0
  nextId : Nat := 0
  pending : List (Item α) := []                   -- priority queue, kept sorted by (due, insertion)
  crashed : Option Err := none                    -- an exception escaped from an action out of `start()`
  -- the running action
  agenda : List (Task α) := []
  curCall : Nat := 0
  raised : List (Nat × Err) := []                 -- (history call, exception its caller saw)
  xlog : List (Id × Err) := []                    -- exceptions caught by reacting callbacks
  -- ghost
  enq : Id → List (Notif α) := fun _ => []        -- everything ever appended to so_i.queue (or failed into ado_i by subscribe)
  fed : Id → List (Notif α) := fun _ => []        -- everything handed to the AutoDetachObserver (by so_i.run / subscribe's fail path)
  allVals : List (Nat × α) := []                  -- every (now, value) the subject accepted
  lastNow : Nat := 0                              -- the latest `scheduler.now` the subject read
  evs : List (EvR α) := []                            -- oldest first

variable {α : Type}

/-! ### `_trim` — the two while-loops as written -/

/-- `while len(self.queue) > self.buffer_size: self.queue.popleft()` -/
def trimCount (bs : Option Nat) : List (Nat × α) → List (Nat × α)
  | [] => []
  | x :: xs =>
    match bs with
    | none => x :: xs
    | some n => if (x :: xs).length > n then trimCount bs xs else x :: xs

/-- `while self.queue and (now - self.queue[0].interval) > self._window: self.queue.popleft()` -/
def trimAge (w : Option Nat) (now : Nat) : List (Nat × α) → List (Nat × α)
  | [] => []
  | x :: xs =>
    match w with
    | none => x :: xs
    | some w' => if now - x.1 > w' then trimAge w now xs else x :: xs

def trim (cfg : Cfg α) (now : Nat) (q : List (Nat × α)) : List (Nat × α) :=
  trimAge cfg.window now (trimCount cfg.bufferSize q)

/-! ### scheduler -/

/-- `PriorityQueue.enqueue`: after every item that is not later (stable in insertion order). -/
def pqInsert (it : Item α) : List (Item α) → List (Item α)
  | [] => [it]
  | x :: xs => if it.due < x.due then it :: x :: xs else x :: pqInsert it xs

/-- `item.disposable.dispose()` for the pending item with this id. -/
def cancelItem (id : Nat) (p : List (Item α)) : List (Item α) :=
  p.map fun it => if it.id = id then { it with cancelled := true } else it

/-- `scheduler.schedule(so_i.run)`: returns the new state and the id of the scheduled item. -/
def scheduleRun (st : St α) (i : Id) : St α × Nat :=
  ({ st with pending := pqInsert { due := st.clock, id := st.nextId, kind := .run i } st.pending,
             nextId := st.nextId + 1 }, st.nextId)

/-! ### ScheduledObserver -/

/-- `so_i.on_next / on_error / on_completed` (Observer base class + `_on_*_core`: append an action). -/
def soPush (st : St α) (i : Id) (n : Notif α) : St α :=
  if st.soStopped i then st
  else
    { st with soStopped := if n.isTerminal then upd st.soStopped i true else st.soStopped,
              soQueue := upd st.soQueue i (st.soQueue i ++ [n]),
              enq := upd st.enq i (st.enq i ++ [n]) }

/-- `so_i.ensure_active()` -/
def ensureActive (st : St α) (i : Id) : St α :=
  if !st.faulted i && !(st.soQueue i).isEmpty then
    if st.acquired i then st
    else
      -- is_owner: `self.disposable.disposable = self.scheduler.schedule(self.run)`
      let r := scheduleRun { st with acquired := upd st.acquired i true } i
      let st := r.1
      if st.serDisposed i then { st with pending := cancelItem r.2 st.pending }
      else
        let st' := { st with serCur := upd st.serCur i (some r.2) }
        match st.serCur i with
        | some old => { st' with pending := cancelItem old st'.pending }
        | none => st'
  else st

/-- `so_i.dispose()`: Observer.dispose + SerialDisposable.dispose -/
def soDispose (st : St α) (i : Id) : St α :=
  let st := { st with soStopped := upd st.soStopped i true }
  if st.serDisposed i then st
  else
    let st' := { st with serDisposed := upd st.serDisposed i true, serCur := upd st.serCur i none }
    match st.serCur i with
    | some old => { st' with pending := cancelItem old st'.pending }
    | none => st'

/-- `RemovableDisposable.dispose` -/
def removableDispose (st : St α) (i : Id) : St α :=
  let st := soDispose st i
  if !st.disposed && st.observers.contains i then { st with observers := st.observers.erase i } else st

/-- `SingleAssignmentDisposable.dispose` of observer i's AutoDetachObserver. -/
def sadDispose (st : St α) (i : Id) : St α :=
  if st.sadDisposed i then st
  else
    let st' := { st with sadDisposed := upd st.sadDisposed i true, held := upd st.held i false }
    if st.held i then removableDispose st' i else st'

/-! ### the subject -/

def pushAll (n : Notif α) : List Id → St α → St α
  | [], st => st
  | i :: is, st => pushAll n is (soPush st i n)

def ensureAll : List Id → St α → St α
  | [], st => st
  | i :: is, st => ensureAll is (ensureActive st i)

/-- `for observer in observers: observer.on_error(e); observer.ensure_active()` -/
def pushEnsureAll (n : Notif α) : List Id → St α → St α
  | [], st => st
  | i :: is, st => pushEnsureAll n is (ensureActive (soPush st i n) i)

def raiseTo (who : Option Id) (e : Err) (st : St α) : St α :=
  match who with
  | none => { st with raised := st.raised ++ [(st.curCall, e)] }
  | some i => { st with xlog := st.xlog ++ [(i, e)] }

/-- The user callback of observer `i` runs with `n` at the current virtual time. -/
def callback (st : St α) (i : Id) (n : Notif α) : St α :=
  { st with log := upd st.log i (st.log i ++ [(st.clock, n)]), cbs := upd st.cbs i (st.cbs i + 1),
            evs := st.evs ++ [EvR.cb i st.clock] }

def reactions (cfg : Cfg α) (st : St α) (i : Id) : List (Task α) :=
  (cfg.react i (st.cbs i)).map (Task.act (some i))

/-- `subject.on_next / on_error / on_completed`, called by `who` (`none`: the history call itself;
`some i`: re-entrantly from a callback of observer i, which catches the exception). -/
def emit (cfg : Cfg α) (st : St α) (who : Option Id) (n : Notif α) : St α :=
  if st.disposed then raiseTo who disposedExn st                      -- check_disposed
  else if st.stopped then st                                          -- Observer: `if not self.is_stopped`
  else
    let now := st.clock
    match n with
    | .next v =>
      let st := { st with queue := trim cfg now (st.queue ++ [(now, v)]), allVals := st.allVals ++ [(now, v)],
                          lastNow := now }
      ensureAll st.observers (pushAll n st.observers st)
    | _ =>
      let snap := st.observers
      let st := { st with stopped := true, observers := [],
                          exception := (match n with | .error e => some e | _ => st.exception),
                          queue := trim cfg now st.queue, lastNow := now }
      pushEnsureAll n snap st

/-- `ReplaySubject.dispose` -/
def subjDispose (st : St α) : St α :=
  { st with queue := [], disposed := true, observers := [], exception := none, stopped := true,
            evs := st.evs ++ [EvR.dispose] }

/-- The user disposes the handle of j's subscription (`Disposable(ado.dispose)`). -/
def doUnsub (st : St α) (j : Id) : St α :=
  if st.handle j then sadDispose { st with adoStopped := upd st.adoStopped j true, evs := st.evs ++ [EvR.unsub j] } j
  else st

/-- `for item in self.queue: so.on_next(item.value)` -/
def pushList (st : St α) (j : Id) : List (Notif α) → St α
  | [] => st
  | n :: ns => pushList (soPush st j n) j ns

/-- `ReplaySubject._subscribe_core` on an undisposed subject, followed by the assignment of the returned
`RemovableDisposable` to the (fresh, undisposed) SingleAssignmentDisposable of j's AutoDetachObserver and
the return of the handle to the user.  No user code runs in between. -/
def subscribeCore (cfg : Cfg α) (st : St α) (j : Id) : St α :=
  let now := st.clock
  let st := { st with queue := trim cfg now st.queue, lastNow := now, observers := st.observers ++ [j] }
  let st := pushList st j (st.queue.map fun (it : Nat × α) => Notif.next it.2)
  let st :=
    match st.exception with
    | some e => soPush st j (.error e)
    | none => if st.stopped then soPush st j .completed else st
  let st := ensureActive st j
  { st with held := upd st.held j true, handle := upd st.handle j true }

/-- `subject.subscribe(callbacks of j)` called by `who`; returns the reactions to run (fail path only). -/
def doSub (cfg : Cfg α) (st : St α) (who : Option Id) (j : Id) : St α × List (Task α) :=
  if st.seen j then (st, [])
  else
    let st := { st with seen := upd st.seen j true, evs := st.evs ++ [EvR.sub j st.clock] }
    if st.disposed then
      -- check_disposed raises inside _subscribe_core; set_disposable: `if not ado.fail(ex): raise`
      -- (ghost: the DisposedException counts as what this observer was to be handed, and was handed)
      let st := { st with adoStopped := upd st.adoStopped j true, enq := upd st.enq j [.error disposedExn],
                          fed := upd st.fed j [.error disposedExn] }
      if cfg.hasErr j then (callback st j (.error disposedExn), reactions cfg st j ++ [.handle j])
      else (raiseTo who disposedExn st, [])
    else (subscribeCore cfg st j, [])

/-- `ado_i.on_next / on_error / on_completed` called from `so_i.run`.  Returns the follow-up tasks and
whether an exception escapes (`default_error` of a missing `on_error` handler). -/
def adoDeliver (cfg : Cfg α) (st : St α) (i : Id) (n : Notif α) : St α × List (Task α) × Option Err :=
  if st.adoStopped i then (st, [], none)
  else
    match n with
    | .next _ => (callback st i n, reactions cfg st i, none)
    | .completed =>
      (callback { st with adoStopped := upd st.adoStopped i true } i n, reactions cfg st i ++ [.sadDispose i], none)
    | .error e =>
      let st := { st with adoStopped := upd st.adoStopped i true }
      if cfg.hasErr i then (callback st i n, reactions cfg st i ++ [.sadDispose i], none)
      else (sadDispose st i, [], some e)

/-- `so_i.run` invoked by the scheduler. -/
def soRun (cfg : Cfg α) (st : St α) (i : Id) : St α :=
  match st.soQueue i with
  | [] => { st with acquired := upd st.acquired i false }
  | n :: rest =>
    let st := { st with soQueue := upd st.soQueue i rest, fed := upd st.fed i (st.fed i ++ [n]) }
    let r := adoDeliver cfg st i n
    match r.2.2 with
    | some e =>
      -- `except Exception: self.queue = []; self.has_faulted = True; raise` — out of scheduler.start()
      { r.1 with soQueue := upd r.1.soQueue i [], faulted := upd r.1.faulted i true, crashed := some e }
    | none => { r.1 with agenda := r.2.1 ++ [.resched i] }

def doTask (cfg : Cfg α) (st : St α) : Task α → St α
  | .act who (.base (.sub j)) => let r := doSub cfg st who j; { r.1 with agenda := r.2 ++ r.1.agenda }
  | .act _ (.base (.unsub j)) => doUnsub st j
  | .act _ (.base .dispose) => subjDispose st
  | .act who (.emit n) =>
    emit cfg (match who with | some i => { st with evs := st.evs ++ [EvR.emit i st.clock n] } | none => st) who n
  | .sadDispose i => sadDispose st i
  | .resched i => (scheduleRun st i).1
  | .handle j => { st with handle := upd st.handle j true }

/-- One history call, made by the harness inside its scheduled action. -/
def doCall (cfg : Cfg α) (st : St α) (k : Nat) (c : Call α) : St α :=
  let st := { st with curCall := k, evs := st.evs ++ [EvR.call k st.clock st.observers.length c] }
  match c with
  | .next v => emit cfg st none (.next v)
  | .error e => emit cfg st none (.error e)
  | .completed => emit cfg st none .completed
  | .sub i => { st with agenda := [.act none (.base (.sub i))] }
  | .unsub i => { st with agenda := [.act none (.base (.unsub i))] }
  | .dispose => { st with agenda := [.act none (.base .dispose)] }

/-- `start()` has dequeued an item due at `due`: advance the clock / the spin counter. -/
def advance (st : St α) (due : Nat) : St α :=
  let st :=
    if due > st.clock then { st with clock := due, spin := 0 }
    else if st.spin > 100 then { st with clock := st.clock + 1, spin := 0 }
    else st
  { st with spin := st.spin + 1 }

/-- `if not item.is_cancelled(): item.invoke()` -/
def invoke (cfg : Cfg α) (st : St α) (it : Item α) : St α :=
  if it.cancelled then st
  else
    match it.kind with
    | .call k c => doCall cfg st k c
    | .run i => soRun cfg st i

/-- One step of `VirtualTimeScheduler.start` (or of the action it is executing). -/
def step (cfg : Cfg α) (st : St α) : St α :=
  match st.crashed with
  | some _ => st
  | none =>
    match st.agenda with
    | t :: ts => doTask cfg { st with agenda := ts } t
    | [] =>
      match st.pending with
      | [] => st
      | it :: rest => invoke cfg (advance { st with pending := rest } it.due) it

def idle (st : St α) : Bool :=
  st.crashed.isSome || (st.agenda.isEmpty && st.pending.isEmpty)

def steps (cfg : Cfg α) : Nat → St α → St α
  | 0, st => st
  | f + 1, st => if idle st then st else steps cfg f (step cfg st)

/-- All history calls scheduled up front, in list order. -/
def schedule (calls : List (Nat × Call α)) : St α :=
  go calls 0 {}
where
  go : List (Nat × Call α) → Nat → St α → St α
    | [], _, st => st
    | (t, c) :: cs, k, st =>
      go cs (k + 1) { st with pending := pqInsert { due := t, id := st.nextId, kind := .call k c } st.pending,
                              nextId := st.nextId + 1 }

def run (cfg : Cfg α) (fuel : Nat) (calls : List (Nat × Call α)) : St α :=
  steps cfg fuel (schedule calls)

end SubjReplay

/-!
# Val — the closed value grammar used by the line protocol

Python values that the correspondence harness feeds through real RxPY code and
through the Lean models.  Models are polymorphic in the element type; `Val` is
what the *driver* instantiates them with.  Structural equality (`BEq`) is
equality of `(type, repr)`; `Val.pyEq` is Python's `==` on this domain
(`0 == 0.0 == False`, `1 == True`, `() != []`).
-/

inductive Val
  | none
  | bool (b : Bool)
  | int (i : Int)
  | flt (s : String)          -- repr of a Python float, e.g. "0.0"
  | str (s : String)
  | tup (xs : List Val)
  | lst (xs : List Val)
  | dct (kvs : List (Val × Val))
deriving Repr, BEq, Inhabited

namespace Val

/-- numeric view used by Python `==` between bool/int/float (floats only as integral literals "k.0"). -/
def asNum? : Val → Option Int
  | .bool b => some (if b then 1 else 0)
  | .int i => some i
  | .flt s =>
    match s.splitOn "." with
    | [a, "0"] => a.toInt?
    | _ => Option.none
  | _ => Option.none

mutual
partial def pyEq : Val → Val → Bool
  | .none, .none => true
  | .str a, .str b => a == b
  | .tup a, .tup b => pyEqList a b
  | .lst a, .lst b => pyEqList a b
  | .dct a, .dct b => a.length == b.length && a.all (fun (k, v) => b.any (fun (k', v') => pyEq k k' && pyEq v v'))
  | .flt a, .flt b => a == b || (match asNum? (.flt a), asNum? (.flt b) with | some x, some y => x == y | _, _ => false)
  | a, b =>
    match asNum? a, asNum? b with
    | some x, some y => x == y
    | _, _ => false
partial def pyEqList : List Val → List Val → Bool
  | [], [] => true
  | x :: xs, y :: ys => pyEq x y && pyEqList xs ys
  | _, _ => false
end

/-- Python truthiness. -/
def truthy : Val → Bool
  | .none => false
  | .bool b => b
  | .int i => i != 0
  | .flt s => !(s == "0.0" || s == "-0.0")
  | .str s => !s.isEmpty
  | .tup xs => !xs.isEmpty
  | .lst xs => !xs.isEmpty
  | .dct xs => !xs.isEmpty

def isNone : Val → Bool
  | .none => true
  | _ => false

/-- hashable in Python (lists and dicts are not; tuples iff all members are). -/
partial def hashable : Val → Bool
  | .lst _ => false
  | .dct _ => false
  | .tup xs => xs.all hashable
  | _ => true

end Val

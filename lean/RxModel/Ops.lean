import RxModel.Core
/-!
# L1 — single-source operators as handler triples (DESIGN.md §4 L1)

An operator over one source is `⟨σ, init, onNext, onError, onCompleted⟩`.  A handler returns the new
state, the downstream calls it made (in order), an exception escaping to the emitter (if any) and
whether it disposed its own source subscription (only compositions do: the `AutoDetachObserver`
between two stages disposes the upstream when it sees a terminal).  User callbacks are parameters
of type `α → Except Err β`.

`Op.run` mirrors what happens around the handlers in `Observable.subscribe`:

* the handlers are wrapped in an **upstream** `AutoDetachObserver` (`source.subscribe(on_next, …)`
  inside the operator's `subscribe`), so they stop being called after the source's first terminal
  or after the subscription was disposed;
* the downstream calls go to the **downstream** `AutoDetachObserver` of the subscriber; when that
  one delivers a terminal it disposes the subscription, i.e. the upstream observer.

`lag = true` is the adversarial variant in which that disposal never reaches the upstream observer
(a raw observer plugged in with `_subscribe_core`, or disposal lagging inside a synchronous
subscribe): the handlers keep being invoked after they emitted a terminal.
-/

namespace Ops

/-- What one handler invocation did. -/
structure HOut (σ β : Type) where
  st : σ
  out : List (Notif β) := []
  esc : Option Err := none
  disp : Bool := false

structure Op (α β : Type) where
  σ : Type
  init : σ
  /-- downstream calls made while subscribing, before anything arrives from the source
  (`empty()` returned by `take(0)`, the values of `start_with`). -/
  pre : List (Notif β) := []
  /-- whether the source is subscribed at all (`take(0)` returns `empty()` and never does). -/
  sub : Bool := true
  onNext : σ → α → HOut σ β
  onError : σ → Err → HOut σ β
  onCompleted : σ → HOut σ β

def Op.handle {α β} (op : Op α β) (s : op.σ) : Notif α → HOut op.σ β
  | .next v => op.onNext s v
  | .error e => op.onError s e
  | .completed => op.onCompleted s

def toCall {α} : Notif α → ObsCall α
  | .next v => .next v
  | .error e => .error e
  | .completed => .completed

/-- name of `reactivex.internal.ArgumentOutOfRangeException` -/
def aoor : Err := "ArgumentOutOfRangeException"

/-- No user callback of the *observers* raises in this family (that is C01/C09's subject). -/
def noRaise : Nat → Bool := fun _ => false

/-- Push downstream calls through an `AutoDetachObserver`: new observer state, what it delivered,
and whether it disposed its subscription. -/
def feed {β} (d : Ado) : List (Notif β) → Ado × List (Notif β) × Bool
  | [] => (d, [], false)
  | n :: ns =>
    let r := Ado.step noRaise d (toCall n)
    let r2 := feed r.1 ns
    (r2.1, r.2.delivered.toList ++ r2.2.1, (r.2.disposes != 0) || r2.2.2)

/-- run state: upstream observer, operator state, downstream observer -/
structure RS (σ : Type) where
  up : Ado
  st : σ
  down : Ado

/-- what one input notification produced -/
structure StepOut (β : Type) where
  /-- the handler's downstream calls (what a raw observer records) -/
  raw : List (Notif β)
  /-- what the subscriber's callbacks received -/
  vis : List (Notif β)
  esc : Option Err
deriving Repr

def disposeAdo (a : Ado) : Ado := (Ado.step (α := Unit) noRaise a .dispose).1

def Op.step {α β} (lag : Bool) (op : Op α β) (s : RS op.σ) (n : Notif α) : RS op.σ × StepOut β :=
  let r := Ado.step noRaise s.up (toCall n)
  match r.2.delivered with
  | none => ({ s with up := r.1 }, ⟨[], [], none⟩)
  | some m =>
    let h := op.handle s.st m
    let f := feed s.down h.out
    let up2 := if (f.2.2 && !lag) || h.disp then disposeAdo r.1 else r.1
    ({ up := up2, st := h.st, down := f.1 }, ⟨h.out, f.2.1, h.esc⟩)

def Op.runFrom {α β} (lag : Bool) (op : Op α β) : RS op.σ → List (Notif α) → List (StepOut β)
  | _, [] => []
  | s, n :: ns => (op.step lag s n).2 :: Op.runFrom lag op (op.step lag s n).1 ns

/-- state right after `subscribe` returned, and what was delivered while subscribing -/
def Op.start {α β} (lag : Bool) (op : Op α β) : RS op.σ × StepOut β :=
  let f := feed {} op.pre
  let up : Ado := if !op.sub || (f.2.2 && !lag) then disposeAdo {} else {}
  ({ up := up, st := op.init, down := f.1 }, ⟨op.pre, f.2.1, none⟩)

/-- Element 0 is what happened at subscription; element `i+1` is what input `i` produced. -/
def Op.run {α β} (lag : Bool) (op : Op α β) (raw : List (Notif α)) : List (StepOut β) :=
  (op.start lag).2 :: Op.runFrom lag op (op.start lag).1 raw

def visible {β} (r : List (StepOut β)) : List (Notif β) := r.flatMap (·.vis)
def rawCalls {β} (r : List (StepOut β)) : List (Notif β) := r.flatMap (·.raw)

/-- The grammar cut: everything up to and including the first terminal. -/
def cut {α} : List (Notif α) → List (Notif α)
  | [] => []
  | .next v :: r => .next v :: cut r
  | .error e :: _ => [.error e]
  | .completed :: _ => [.completed]

def hasTerminal {α} : List (Notif α) → Bool
  | [] => false
  | .next _ :: r => hasTerminal r
  | _ :: _ => true

/-- The handlers' downstream calls over an input list, without any observer in between: stops after
the first terminal of the input (upstream observer) and after a handler disposed its source. -/
def Op.emits {α β} (op : Op α β) : op.σ → List (Notif α) → List (Notif β)
  | _, [] => []
  | s, n :: ns =>
    (op.handle s n).out ++
      (if n.isTerminal || (op.handle s n).disp then [] else Op.emits op (op.handle s n).st ns)

/-- **The visible semantics of an operator**: what a subscriber sees for a raw input. -/
def Op.sem {α β} (op : Op α β) (raw : List (Notif α)) : List (Notif β) :=
  cut (op.pre ++ (if op.sub then op.emits op.init raw else []))

/-! ## Conforming view of a raw input: the elements before the first terminal, and how it ended -/

inductive End where
  | open
  | completed
  | error (e : Err)
deriving Repr, BEq, DecidableEq

def End.toNotifs {β} : End → List (Notif β)
  | .open => []
  | .completed => [.completed]
  | .error e => [.error e]

def elems {α} : List (Notif α) → List α
  | [] => []
  | .next v :: r => v :: elems r
  | _ :: _ => []

def fin {α} : List (Notif α) → End
  | [] => .open
  | .next _ :: r => fin r
  | .error e :: _ => .error e
  | .completed :: _ => .completed

/-- a sequence of elements with its end, as notifications -/
def outSeq {β} (ys : List β) (e : End) : List (Notif β) := ys.map Notif.next ++ e.toNotifs

/-- handler outputs over a conforming sequence -/
def Op.emitsSeq {α β} (op : Op α β) : op.σ → List α → End → List (Notif β)
  | _, [], .open => []
  | s, [], .completed => (op.onCompleted s).out
  | s, [], .error e => (op.onError s e).out
  | s, x :: xs, e =>
    (op.onNext s x).out ++ (if (op.onNext s x).disp then [] else Op.emitsSeq op (op.onNext s x).st xs e)

/-! ## Composition `source.pipe(a, b)`: `b`'s handlers sit behind the `AutoDetachObserver` that
`b`'s `source.subscribe(...)` creates around them; when that observer sees a terminal, or when `b`
disposes its source, `a`'s subscription (the upstream of the whole) is disposed. -/

structure MidOut (σ γ : Type) where
  mid : Ado
  st : σ
  out : List (Notif γ)
  esc : Option Err

def feedMid {β γ} (b : Op β γ) : Ado → b.σ → List (Notif β) → MidOut b.σ γ
  | m, sb, [] => ⟨m, sb, [], none⟩
  | m, sb, n :: ns =>
    let r := Ado.step noRaise m (toCall n)
    match r.2.delivered with
    | none => feedMid b r.1 sb ns
    | some x =>
      let h := b.handle sb x
      let m2 := if h.disp then disposeAdo r.1 else r.1
      let rest := feedMid b m2 h.st ns
      ⟨rest.mid, rest.st, h.out ++ rest.out, h.esc.orElse (fun _ => rest.esc)⟩

@[reducible] def Op.comp {α β γ} (a : Op α β) (b : Op β γ) : Op α γ :=
  let p := feedMid b {} b.init a.pre
  { σ := a.σ × Ado × b.σ
    init := (a.init, p.mid, p.st)
    pre := b.pre ++ (if b.sub then p.out else [])
    sub := b.sub && a.sub && !p.mid.stopped
    onNext := fun s x =>
      let ha := a.onNext s.1 x
      let r := feedMid b s.2.1 s.2.2 ha.out
      ⟨(ha.st, r.mid, r.st), r.out, ha.esc.orElse (fun _ => r.esc), ha.disp || r.mid.stopped⟩
    onError := fun s e =>
      let ha := a.onError s.1 e
      let r := feedMid b s.2.1 s.2.2 ha.out
      ⟨(ha.st, r.mid, r.st), r.out, ha.esc.orElse (fun _ => r.esc), ha.disp || r.mid.stopped⟩
    onCompleted := fun s =>
      let ha := a.onCompleted s.1
      let r := feedMid b s.2.1 s.2.2 ha.out
      ⟨(ha.st, r.mid, r.st), r.out, ha.esc.orElse (fun _ => r.esc), ha.disp || r.mid.stopped⟩ }

/-- `source.pipe()` with no operators returns the source itself. -/
def idOp {α} : Op α α where
  σ := Unit
  init := ()
  onNext := fun _ v => ⟨(), [.next v], none, false⟩
  onError := fun _ e => ⟨(), [.error e], none, false⟩
  onCompleted := fun _ => ⟨(), [.completed], none, false⟩

end Ops

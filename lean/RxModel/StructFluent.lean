/-!
# Struct.Fluent — the shape of a fluent mixin method and what it means (C39)

`RxGen/Fluent.lean` (regenerated from `/repo/reactivex/observable/mixins/*.py` and
`/repo/reactivex/operators/__init__.py` on every run) is a table of `Method` and `OpSig` records.
This file gives the records a meaning:

* `fluentApp`  — the operator application `ops.NAME(args)` that the *body of the mixin method*
  builds when the method is called with actual arguments `env` (a restricted, fail-closed model of
  Python call binding: positional arguments to positional parameters in order, keywords by name,
  `*p` to the operator's `*args`);
* `pipedApp`   — the operator application obtained by calling `ops.NAME` *directly with the same
  actual arguments* (i-th positional argument to the operator's i-th positional parameter,
  keyword-only arguments by name, `*args` to `*args`);
* `ok`         — a decidable check on one table row, evaluated by `decide` on the regenerated table.

`RxProofs/Lemmas/StructFluent.lean` proves that `ok` is sound: for a row that passes, the two
applications coincide for every argument environment (for every value type).
-/

namespace Struct.Fluent

inductive PKind where
  | pos | kwonly | vararg | varkw
deriving DecidableEq, Repr

/-- a parameter of a mixin method or of an operator; `dflt` is the source text of its default. -/
structure Param where
  name : String
  kind : PKind
  dflt : Option String
deriving DecidableEq, Repr

/-- an argument expression in the operator call made by a mixin method body -/
inductive Arg where
  | param (p : String)    -- a parameter of the mixin method, passed through unchanged
  | star (p : String)     -- `*p`
  | other (src : String)  -- anything else (fail closed)
deriving DecidableEq, Repr

inductive Target where
  | op (n : String)       -- `ops.n(...)` piped onto / applied to `self`
  | self (m : String)     -- `self.m(...)` (delegation to another fluent method)
  | unknown (src : String)
deriving DecidableEq, Repr

structure Call where
  target : Target
  pos : List Arg
  kw : List (String × Arg)
deriving DecidableEq, Repr

inductive Guard where
  | isVal (p v : String)   -- `p is v`
  | notVal (p v : String)  -- fell through an earlier `if p is v: return …`
  | unknown (src : String)
deriving DecidableEq, Repr

structure Branch where
  guards : List Guard
  call : Call
deriving DecidableEq, Repr

structure Method where
  name : String
  cls : String
  params : List Param
  branches : List Branch
  /-- every pipe/application in the body has `self` (through `_as_observable()`/`cast`) as receiver,
  with exactly one operator -/
  recvSelf : Bool
deriving DecidableEq, Repr

structure OpSig where
  name : String
  params : List Param
deriving DecidableEq, Repr

structure Table where
  methods : List Method
  ops : List OpSig
  /-- fluent method names that are defined more than once along Observable's MRO or overridden in
  `class Observable` (must be empty) -/
  shadowed : List String
  /-- mixin classes that `class Observable` does not inherit from (must be empty) -/
  notInherited : List String

/-- documented aliases: `Observable.do` is `do_action`, `Observable.to_list` is `to_iterable`. -/
def aliases : List (String × String) := [("do", "do_action"), ("to_list", "to_iterable")]

def aliasOf (n : String) : String := (aliases.lookup n).getD n

/-- a fluent parameter with a default whose operator parameter has none: the fluent call with the
argument omitted has no piped counterpart at all (`ops.starmap_indexed()` is a `TypeError`).
Listed explicitly; anything else of this kind fails the table obligation. -/
def lenientDefaults : List (String × String) := [("starmap_indexed", "mapper_indexed")]

/-! ## Meaning -/

def posParams (ps : List Param) : List Param := ps.filter (fun p => p.kind == .pos)

def paramByName (ps : List Param) (n : String) : Option Param := ps.find? (fun p => p.name == n)

section sem
variable {V : Type} [DecidableEq V] (const : String → V)

/-- value an omitted parameter takes -/
def Param.default (p : Param) : Option V :=
  match p.kind with
  | .vararg => some (const "()")
  | .varkw => some (const "{}")
  | _ => p.dflt.map const

/-- value a parameter has inside the body when the caller's actuals are `env` -/
def Param.resolve (env : String → Option V) (p : Param) : Option V :=
  match env p.name with
  | some v => some v
  | none => p.default const

def resolveName (ps : List Param) (env : String → Option V) (n : String) : Option V :=
  (paramByName ps n).bind (fun p => p.resolve const env)

def evalArg (ps : List Param) (env : String → Option V) : Arg → Option V
  | .param p => resolveName const ps env p
  | .star p => resolveName const ps env p
  | .other _ => none

def guardHolds (ps : List Param) (env : String → Option V) : Guard → Bool
  | .isVal p v => resolveName const ps env p == some (const v)
  | .notVal p v => (resolveName const ps env p).isSome && resolveName const ps env p != some (const v)
  | .unknown _ => false

end sem

def Arg.isStar : Arg → Bool
  | .star _ => true
  | _ => false

def Arg.isOther : Arg → Bool
  | .other _ => true
  | _ => false

/-- index of the positional parameter called `n` -/
def posIndex (ps : List Param) (n : String) : Option Nat :=
  let l := posParams ps
  let i := l.findIdx (fun p => p.name == n)
  if i < l.length then some i else none

def hasVararg (ps : List Param) : Bool := ps.any (fun p => p.kind == .vararg)

/-- restricted Python call binding: which shapes of `ops.NAME(...)` calls the model understands -/
def callShapeOk (sig : List Param) (c : Call) : Bool :=
  let npos := (posParams sig).length
  (c.pos.all fun a => !a.isOther) && (c.kw.all fun (_, a) => !a.isOther && !a.isStar) &&
  ((c.pos.take npos).all fun a => !a.isStar) &&
  (c.pos.length ≤ npos ||
    (c.pos.length == npos + 1 && hasVararg sig && (c.pos.drop npos).all fun a => a.isStar)) &&
  (c.kw.all fun (k, _) =>
    match paramByName sig k with
    | some q => (q.kind == .kwonly) ||
        (q.kind == .pos && match posIndex sig k with | some i => c.pos.length ≤ i | none => false)
    | none => false) &&
  (c.kw.map Prod.fst).Nodup

/-- the argument expression bound to operator parameter `q` by call `c` (if any) -/
def argFor (sig : List Param) (c : Call) (q : Param) : Option Arg :=
  match q.kind with
  | .pos =>
    match posIndex sig q.name with
    | some i =>
      match c.pos[i]? with
      | some a => some a
      | none => c.kw.lookup q.name
    | none => none
  | .kwonly => c.kw.lookup q.name
  | .vararg => c.pos[(posParams sig).length]?
  | .varkw => none

/-- an operator application: the operator's name and the value every operator parameter receives -/
structure App (V : Type) where
  op : String
  args : List (String × V)
deriving DecidableEq, Repr

section sem2
variable {V : Type} [DecidableEq V] (const : String → V)

def bindParam (sig : List Param) (mps : List Param) (env : String → Option V) (c : Call) (q : Param) :
    Option (String × V) :=
  match argFor sig c q with
  | some a => (evalArg const mps env a).map (fun v => (q.name, v))
  | none => (q.default const).map (fun v => (q.name, v))

def applyCall (sig : List Param) (mps : List Param) (env : String → Option V) (c : Call) :
    Option (List (String × V)) :=
  if callShapeOk sig c then sig.mapM (bindParam const sig mps env c) else none

def selectBranch (mps : List Param) (env : String → Option V) (bs : List Branch) : Option Branch :=
  bs.find? (fun b => b.guards.all (guardHolds const mps env))

/-- the operator application built by the body of a method whose branches call `ops.…` directly -/
def fluentDirect (ops : List OpSig) (m : Method) (env : String → Option V) : Option (App V) :=
  if m.recvSelf && m.params.all (fun p => (p.resolve const env).isSome) then
    match selectBranch const m.params env m.branches with
    | some b =>
      match b.call.target with
      | .op n =>
        match ops.find? (fun s => s.name == n) with
        | some sig => (applyCall const sig.params m.params env b.call).map (fun a => ⟨n, a⟩)
        | none => none
      | _ => none
    | none => none
  else none

/-- `self.m'(p₁, …, pₙ)` where `p₁ … pₙ` are exactly the (identical) parameters of both methods -/
def identityArgs (ps : List Param) (c : Call) : Bool :=
  c.kw.isEmpty && c.pos == ps.map (fun p => Arg.param p.name) && ps.all (fun p => p.kind == .pos)

/-- the operator application built by a fluent method call -/
def fluentApp (t : Table) (m : Method) (env : String → Option V) : Option (App V) :=
  if m.recvSelf && m.params.all (fun p => (p.resolve const env).isSome) then
    match selectBranch const m.params env m.branches with
    | some b =>
      match b.call.target with
      | .op _ => fluentDirect const t.ops m env
      | .self n =>
        match t.methods.find? (fun m' => m'.name == n) with
        | some m' =>
          if m'.params == m.params && identityArgs m.params b.call then fluentDirect const t.ops m' env
          else none
        | none => none
      | .unknown _ => none
    | none => none
  else none

/-- the mixin parameter that "is the same argument" as operator parameter `q`:
same positional index, same keyword-only name, `*args` ↔ `*args` -/
def corrInv (sig : List Param) (mps : List Param) (q : Param) : Option Param :=
  match q.kind with
  | .pos => (posIndex sig q.name).bind (fun i => (posParams mps)[i]?)
  | .kwonly => mps.find? (fun p => p.kind == .kwonly && p.name == q.name)
  | .vararg => mps.find? (fun p => p.kind == .vararg)
  | .varkw => mps.find? (fun p => p.kind == .varkw)

/-- the operator parameter a mixin parameter's actual goes to in the piped form -/
def corr (sig : List Param) (mps : List Param) (p : Param) : Option Param :=
  sig.find? (fun q => corrInv sig mps q == some p)

def pipedParam (sig : List Param) (mps : List Param) (env : String → Option V) (q : Param) :
    Option (String × V) :=
  match (corrInv sig mps q).bind (fun p => env p.name) with
  | some v => some (q.name, v)
  | none => (q.default const).map (fun v => (q.name, v))

/-- `ops.NAME` called directly with the same actual arguments -/
def pipedApp (sig : OpSig) (mps : List Param) (env : String → Option V) : Option (App V) :=
  if mps.all (fun p => (env p.name).isNone || (corr sig.params mps p).isSome) then
    (sig.params.mapM (pipedParam const sig.params mps env)).map (fun a => ⟨sig.name, a⟩)
  else none

end sem2

/-! ## The decidable row check -/

def defaultsCompat (p q : Param) : Bool :=
  match p.dflt, q.dflt with
  | some d, some d' => d == d'
  | _, _ => true

def guardKnown (mps : List Param) : Guard → Bool
  | .isVal p _ => (paramByName mps p).isSome
  | .notVal p _ => (paramByName mps p).isSome
  | .unknown _ => false

/-- one operator parameter in one branch -/
def paramOk (sig : List Param) (mps : List Param) (b : Branch) (q : Param) : Bool :=
  match argFor sig b.call q, corrInv sig mps q with
  | some (.param p), some p' => p == p'.name && q.kind != .vararg && q.kind != .varkw && defaultsCompat p' q
  | some (.star p), some p' => p == p'.name && q.kind == .vararg
  | some _, _ => false           -- passes something the caller did not give
  | none, some p' =>             -- argument dropped: only under a guard pinning it to the operator's default
    (match q.kind, q.dflt with
     | .pos, some d => b.guards.contains (.isVal p'.name d)
     | .kwonly, some d => b.guards.contains (.isVal p'.name d)
     | _, _ => false)
  | none, none =>                -- operator parameter the fluent method does not expose: operator default
    q.dflt.isSome || q.kind == .vararg || q.kind == .varkw

def branchOk (sig : OpSig) (mps : List Param) (b : Branch) : Bool :=
  b.call.target == .op sig.name && callShapeOk sig.params b.call &&
  b.guards.all (guardKnown mps) && sig.params.all (paramOk sig.params mps b)

/-- the guards are those of `if g₁: return …  if g₂: return … return …`: branch i carries
`notVal g₁ … notVal gᵢ₋₁, isVal gᵢ`, the last one only the negations. -/
def exhaustive : List Guard → List Branch → Bool
  | negs, [b] => b.guards == negs
  | negs, b :: rest =>
    match b.guards.getLast? with
    | some (.isVal p v) => b.guards == negs ++ [.isVal p v] && exhaustive (negs ++ [.notVal p v]) rest
    | _ => false
  | _, [] => false

def namesDistinct (ps : List Param) : Bool := (ps.map (·.name)).Nodup

/-- leniency: a mixin default where the operator has none must be on the explicit list -/
def lenientOk (mname : String) (sig mps : List Param) : Bool :=
  mps.all fun p =>
    match corr sig mps p with
    | some q => !(p.dflt.isSome && q.dflt.isNone && q.kind != .vararg && q.kind != .varkw) ||
        lenientDefaults.contains (mname, p.name)
    | none => true

/-- a method whose branches all call `ops.opName(...)` directly -/
def directOk (ops : List OpSig) (opName : String) (mname : String) (m : Method) : Bool :=
  m.recvSelf && namesDistinct m.params &&
  match ops.find? (fun s => s.name == opName) with
  | some sig =>
    namesDistinct sig.params &&
    m.branches.all (branchOk sig m.params) && exhaustive [] m.branches &&
    m.params.all (fun p => (corr sig.params m.params p).isSome) &&
    lenientOk mname sig.params m.params
  | none => false

def isSelfBranch (b : Branch) : Bool :=
  match b.call.target with
  | .self _ => true
  | _ => false

/-- row check: same name or documented alias, arguments forwarded in the operator's order,
equal defaults; a delegating method (`do`, `to_list`) must delegate with identical parameters to
a row that is itself fine for the alias' operator. -/
def ok (t : Table) (m : Method) : Bool :=
  match m.branches with
  | [⟨[], ⟨.self n, pos, kw⟩⟩] =>
    m.recvSelf && n == aliasOf m.name &&
    (match t.methods.find? (fun m' => m'.name == n) with
     | some m' => m'.params == m.params && identityArgs m.params ⟨.self n, pos, kw⟩ &&
         !(m'.branches.any isSelfBranch) && directOk t.ops (aliasOf m.name) m.name m'
     | none => false)
  | _ => !(m.branches.any isSelfBranch) && directOk t.ops (aliasOf m.name) m.name m

def tableOk (t : Table) : Bool :=
  t.methods.all (ok t) && t.shadowed.isEmpty && t.notInherited.isEmpty

end Struct.Fluent

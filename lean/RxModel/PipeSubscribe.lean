import RxModel.PipeProducers
/-!
# Subscribe / trampoline ordering and early termination (C14)

`Observable.subscribe` (reactivex/observable/observable.py) runs `set_disposable` on the current-thread
trampoline: `_subscribe_core(...)` first (which reaches the producer's `subscribe`, which calls
`scheduler.schedule(action)`), and only then assigns the returned disposable to the AutoDetachObserver.
`Trampoline.run` (reactivex/scheduler/trampoline.py) only *enqueues* an item when the trampoline is
already running; an idle trampoline (a fresh `CurrentThreadScheduler()` instance) or the
`ImmediateScheduler` runs the action inside `schedule()`.

`Cmd` is the little program a `subscribe()` call executes; `execAll` runs it inline on the busy shared
trampoline and returns the primitive events in order plus the bodies that were enqueued on the shared
trampoline; `drain` then runs those FIFO.
-/
namespace Pipe

inductive Ev where
  | assign        -- the AutoDetachObserver received the subscription (end of `set_disposable`)
  | emit          -- the producer's action body starts emitting
deriving Repr, DecidableEq

inductive Cmd where
  | assign
  | emitLoop
  | sched (shared : Bool) (body : List Cmd)   -- `scheduler.schedule(action)`: shared trampoline, or a fresh/immediate scheduler
deriving Repr

mutual
def Cmd.exec : Cmd → List Ev × List (List Cmd)
  | .assign => ([.assign], [])
  | .emitLoop => ([.emit], [])
  | .sched true body => ([], [body])            -- busy trampoline: enqueue, return at once
  | .sched false body => execAll body            -- idle trampoline / ImmediateScheduler: run inside schedule()
def execAll : List Cmd → List Ev × List (List Cmd)
  | [] => ([], [])
  | c :: cs => ((c.exec).1 ++ (execAll cs).1, (c.exec).2 ++ (execAll cs).2)
end

/-- run the queued bodies FIFO (fuel bounds the number of queue items processed). -/
def drain : Nat → List (List Cmd) → List Ev
  | 0, _ => []
  | _, [] => []
  | f + 1, b :: q => (execAll b).1 ++ drain f (q ++ (execAll b).2)

/-- the program of `source.pipe(stages…, terminator).subscribe()` for a producer whose action is
scheduled on the shared trampoline (`shared = true`, the default) or on an explicitly supplied
immediate / fresh current-thread scheduler: `schedule(set_disposable)` with
`set_disposable = [_subscribe_core → producer.subscribe → scheduler.schedule(action)] ; assign`. -/
def subscribeProgram (shared : Bool) : List (List Cmd) := [[.sched shared [.emitLoop], .assign]]

def subscribeEvents (shared : Bool) : List Ev := drain 8 (subscribeProgram shared)

/-! ## The emitting loop against an early terminator (`take n`) -/

structure St where
  assigned : Bool        -- the subscription chain down to the producer's flag is connected
  flag : Bool := false   -- the producer's `disposed` flag
  remaining : Nat        -- `take`'s counter
  pulls : Nat := 0
deriving Repr, DecidableEq

/-- one element travels from the producer through pass-through stages into `take(n)`. When the counter
reaches zero `take` completes, the subscriber's AutoDetachObserver disposes its subscription, and that
reaches the producer's flag iff the subscription was already assigned. -/
def emitOne (s : St) : St :=
  let s := { s with pulls := s.pulls + 1 }
  if s.remaining = 0 then s
  else if s.remaining = 1 then { s with remaining := 0, flag := s.assigned }
  else { s with remaining := s.remaining - 1 }

/-- `while not disposed: on_next(next(iterator))` with a work budget. -/
def loopRun : Nat → St → St
  | 0, s => s
  | f + 1, s => if s.flag then s else loopRun f (emitOne s)

/-- the whole `subscribe()` call: the order of `assign` and `emit` decides whether the loop can be stopped. -/
def subscribeRun (shared : Bool) (n fuel : Nat) : St :=
  let assignedFirst := (subscribeEvents shared).head? == some Ev.assign
  loopRun fuel { assigned := assignedFirst, remaining := n }

end Pipe

namespace Pipe

/-! ## Queued sources behind a producer: why a re-scheduling producer is fair and a looping one starves

A second source subscribed in the same `subscribe()` call (the `of(1)` of `take_until(of(1))`, the inner of
`flat_map`, the other side of `combine_latest`) schedules its own emitting action on the shared trampoline.
`Prog` is what sits in the trampoline queue: `loop` = `from_iterable`'s single action that emits while its flag is
unset (it never returns when nobody sets the flag — it consumes the whole budget); `step k` = one action of a
re-scheduling producer (`range`, `generate`, `repeat_value`, `repeat`: emit one element, then `schedule(action)`
again, `k` more to come); `other` = the queued second source's action. -/

inductive Prog where
  | loop                  -- from_iterable(infinite): while not disposed: on_next(next(it))
  | step (k : Nat)        -- re-scheduling producer with k further elements after this one
  | other                 -- the second source's action
deriving Repr, DecidableEq

inductive QEv where
  | produced              -- one element of the never-ending producer reached the pipeline
  | otherRan              -- the queued second source got to run
deriving Repr, DecidableEq

/-- drain the trampoline queue FIFO under a work budget (one unit per produced element / action). -/
def drainQ : Nat → List Prog → List QEv
  | 0, _ => []
  | _, [] => []
  | f + 1, .loop :: _ => .produced :: drainQ f [.loop]        -- the loop keeps the thread: nothing behind it ever runs
  | f + 1, .step 0 :: q => .produced :: drainQ f q
  | f + 1, .step (k + 1) :: q => .produced :: drainQ f (q ++ [.step k])   -- re-scheduled behind what is already queued
  | f + 1, .other :: q => .otherRan :: drainQ f q

end Pipe

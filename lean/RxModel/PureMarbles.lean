import RxModel.Core
/-!
# L7 Pure — marble diagrams (`reactivex/observable/marbles.py`)

`parse` is modelled as a hand-written scanner over `List Char` that mirrors the compiled regex

    (\(.*?\)) | (-+) | (,) | (#|\||[^-,()#\|]+)

with the SAME alternation order as `re.findall` tries it at every position (group, ticks, comma,
element; a character at which no alternative matches — an unmatched `(` or a `)` outside a group —
is skipped by `findall` without touching the frame counter), the frame counter `iframe`,
the group handling (`group[1:-1].split(",")`, `check_stopped` on *every* item including empty ones,
messages for the non-empty ones, `iframe += len(group)`), `try_number` (Python `int()` grammar,
then `float()` grammar, else the string itself), the lookup, and `raise_stopped`.

Scope: characters are ASCII (`.` does not match `\n`; `int()`/`float()` strip ASCII whitespace);
Unicode digits and Unicode whitespace, which Python's `int()`/`float()` also accept, are outside the model.
Timespans and shifts are integers (float timespans are not modelled).
-/

namespace Pure.Marbles

/-! ## try_number -/

/-- what `try_number` returns: a Python int, a Python float (kept as its cleaned lexeme: sign,
digits, `.`, exponent, or inf/nan — underscores removed), or the element string itself. -/
inductive Elem where
  | int (i : Int)
  | flt (lex : List Char)
  | str (s : List Char)
deriving Repr, BEq, DecidableEq

/-- CPython's underscore rule (`_Py_string_to_number_with_underscores`, and the digit loop of
`PyLong_FromString`): an underscore only directly after a digit and directly before a digit. -/
def usOK : Char → List Char → Bool
  | prev, [] => prev != '_'
  | prev, c :: cs =>
    if c == '_' then prev.isDigit && usOK c cs
    else (prev != '_' || c.isDigit) && usOK c cs

def stripSign : List Char → Bool × List Char
  | '+' :: r => (false, r)
  | '-' :: r => (true, r)
  | r => (false, r)

/-- ASCII whitespace stripped by `int()` / `float()`: `\t \n \v \f \r`, `\x1c`–`\x1f`, space. -/
def isPyWs (c : Char) : Bool :=
  c == ' ' || (9 ≤ c.toNat && c.toNat ≤ 13) || (28 ≤ c.toNat && c.toNat ≤ 31)

def pyStrip (cs : List Char) : List Char :=
  ((cs.dropWhile isPyWs).reverse.dropWhile isPyWs).reverse

def natOfDigits (cs : List Char) : Nat :=
  (cs.filter Char.isDigit).foldl (fun a c => 10 * a + (c.toNat - 48)) 0

/-- `digit (_? digit)*` -/
def intBody (cs : List Char) : Bool :=
  !cs.isEmpty && cs.all (fun c => c.isDigit || c == '_') && usOK '\x00' cs

/-- Python `int(s)` for base 10 on whitespace-free ASCII: `[+-]? digit (_? digit)*`. -/
def pyInt? (cs : List Char) : Option Int :=
  let (neg, body) := stripSign (pyStrip cs)
  if intBody body then
    some (if neg then -(Int.ofNat (natOfDigits body)) else Int.ofNat (natOfDigits body))
  else none

def isInfNan (cs : List Char) : Bool :=
  let l := cs.map Char.toLower
  l == ['i', 'n', 'f'] || l == ['i', 'n', 'f', 'i', 'n', 'i', 't', 'y'] || l == ['n', 'a', 'n']

def expOK : List Char → Bool
  | [] => true
  | e :: r =>
    (e == 'e' || e == 'E') &&
      (let r' := (stripSign r).2
       !r'.isEmpty && r'.all Char.isDigit)

/-- `digits* ('.' digits*)?` with at least one digit, then an optional complete exponent. -/
def decimalOK (cs : List Char) : Bool :=
  let ip := cs.takeWhile Char.isDigit
  let r1 := cs.dropWhile Char.isDigit
  match r1 with
  | '.' :: r =>
    let fp := r.takeWhile Char.isDigit
    (!ip.isEmpty || !fp.isEmpty) && expOK (r.dropWhile Char.isDigit)
  | _ => !ip.isEmpty && expOK r1

/-- Python `float(s)` grammar on whitespace-free ASCII; returns the lexeme without underscores. -/
def pyFloat? (cs0 : List Char) : Option (List Char) :=
  let cs := pyStrip cs0
  if usOK '\x00' cs then
    let d := cs.filter (· != '_')
    let body := (stripSign d).2
    if isInfNan body || decimalOK body then some d else none
  else none

/-- `try_number`: int, then float, else the string. -/
def tryNumber (cs : List Char) : Elem :=
  match pyInt? cs with
  | some i => .int i
  | none =>
    match pyFloat? cs with
    | some l => .flt l
    | none => .str cs

/-! ## parse -/

/-- the two `ValueError`s `parse` raises -/
inductive PErr where
  | stopped   -- "Elements cannot be declared after a # or | symbol."
  | comma     -- "Comma is only allowed in group of elements."
deriving Repr, BEq, DecidableEq

structure Cfg (α : Type) where
  timespan : Int
  shift : Int
  raiseStopped : Bool
  /-- `lookup_.get(value)`; `none` = key absent -/
  lookup : Elem → Option α
  /-- the value itself as an element of the output type -/
  embed : Elem → α
  /-- name of the exception used for `#` -/
  err : Err

abbrev Msg (α : Type) := Int × Notif α

/-- `timestamp = iframe * timespan + time_shift` -/
def time {α} (cfg : Cfg α) (iframe : Nat) : Int := (iframe : Int) * cfg.timespan + cfg.shift

def mapElement {α} (cfg : Cfg α) (t : Int) (element : List Char) : Msg α :=
  if element = ['|'] then (t, .completed)
  else if element = ['#'] then (t, .error cfg.err)
  else
    let v := tryNumber element
    (t, .next ((cfg.lookup v).getD (cfg.embed v)))

/-- `check_stopped(element)`: new value of `is_stopped`, or the ValueError. -/
def checkStopped {α} (cfg : Cfg α) (stopped : Bool) (element : List Char) : Except PErr Bool :=
  if cfg.raiseStopped then
    if stopped then .error .stopped
    else .ok (element == ['#'] || element == ['|'])
  else .ok stopped

/-- `for elm in elements: check_stopped(elm)` -/
def checkAll {α} (cfg : Cfg α) : Bool → List (List Char) → Except PErr Bool
  | st, [] => .ok st
  | st, e :: es =>
    match checkStopped cfg st e with
    | .error x => .error x
    | .ok st' => checkAll cfg st' es

/-- `str.split(",")` -/
def splitComma : List Char → List (List Char)
  | [] => [[]]
  | c :: cs =>
    if c = ',' then [] :: splitComma cs
    else
      match splitComma cs with
      | [] => [[c]]
      | h :: t => (c :: h) :: t

/-- the lazy `.*?\)` after an opening parenthesis: the text up to the first `)`, provided no newline
comes before it (`.` does not match `\n`). -/
def findClose : List Char → Option (List Char)
  | [] => none
  | c :: cs =>
    if c = ')' then some []
    else if c = '\n' then none
    else
      match findClose cs with
      | some b => some (c :: b)
      | none => none

def isSpecial (c : Char) : Bool :=
  c == '-' || c == ',' || c == '(' || c == ')' || c == '#' || c == '|'

/-- The tokenizer loop of `parse` over the space-free string: `iframe`, `is_stopped`, result or error. -/
def scan {α} (cfg : Cfg α) : List Char → Nat → Bool → Except PErr (List (Msg α))
  | [], _, _ => .ok []
  | c :: cs, f, st =>
    if c = '(' then
      -- alternative 1: group
      match findClose cs with
      | some body =>
        let items := splitComma body
        match checkAll cfg st items with
        | .error e => .error e
        | .ok st' =>
          -- the group is `(` body `)`: `iframe += len(group)`, continue after the `)`
          match scan cfg (cs.drop (body.length + 1)) (f + (body.length + 2)) st' with
          | .error e => .error e
          | .ok ms => .ok ((items.filter (fun e => !e.isEmpty)).map (mapElement cfg (time cfg f)) ++ ms)
      | none => scan cfg cs f st           -- no alternative matches a lone '(' : findall skips it
    else if c = '-' then
      -- alternative 2: ticks (greedy run of hyphens)
      scan cfg (cs.dropWhile (· == '-')) (f + (1 + (cs.takeWhile (· == '-')).length)) st
    else if c = ',' then
      -- alternative 3: comma outside a group
      .error .comma
    else if c = '#' ∨ c = '|' then
      -- alternative 4a: a terminal marble
      match checkStopped cfg st [c] with
      | .error e => .error e
      | .ok st' =>
        match scan cfg cs (f + 1) st' with
        | .error e => .error e
        | .ok ms => .ok (mapElement cfg (time cfg f) [c] :: ms)
    else if c = ')' then
      scan cfg cs f st                     -- a ')' outside a group matches nothing: skipped
    else
      -- alternative 4b: greedy run of non-special characters
      let run := c :: cs.takeWhile (fun x => !isSpecial x)
      match checkStopped cfg st run with
      | .error e => .error e
      | .ok st' =>
        match scan cfg (cs.dropWhile (fun x => !isSpecial x)) (f + run.length) st' with
        | .error e => .error e
        | .ok ms => .ok (mapElement cfg (time cfg f) run :: ms)
termination_by s => s.length
decreasing_by
  all_goals simp_wf
  all_goals first
    | omega
    | (have := (List.dropWhile_sublist (l := cs) (fun x => x == '-')).length_le; omega)
    | (have := (List.dropWhile_sublist (l := cs) (fun x => !isSpecial x)).length_le; omega)

/-- `parse(string, timespan, time_shift, lookup, error, raise_stopped)` -/
def parse {α} (cfg : Cfg α) (s : List Char) : Except PErr (List (Msg α)) :=
  scan cfg (s.filter (· != ' ')) 0 false

/-! ## Token AST, renderer and the declarative reading of a diagram -/

inductive Tok where
  | ticks (n : Nat)                  -- n hyphens
  | elem (cs : List Char)            -- a value marble, one or more ordinary characters
  | completed                        -- `|`
  | error                            -- `#`
  | group (items : List (List Char)) -- `(i1,i2,…)`
  | comma                            -- a comma outside a group (a syntax error)
  | strayClose                       -- a `)` outside a group: outside the documented syntax, skipped by the tokenizer
  | strayOpen                        -- a `(` that no `)` closes: outside the documented syntax, skipped by the tokenizer
deriving Repr, BEq, DecidableEq

def joinComma : List (List Char) → List Char
  | [] => []
  | [x] => x
  | x :: y :: r => x ++ ',' :: joinComma (y :: r)

def render1 : Tok → List Char
  | .ticks n => List.replicate n '-'
  | .elem cs => cs
  | .completed => ['|']
  | .error => ['#']
  | .group items => '(' :: (joinComma items ++ [')'])
  | .comma => [',']
  | .strayClose => [')']
  | .strayOpen => ['(']

/-- how far a token advances the frame counter: its length — except that the characters the
tokenizer skips (unbalanced parentheses) do not advance time at all -/
def width : Tok → Nat
  | .strayClose => 0
  | .strayOpen => 0
  | t => (render1 t).length

def render : List Tok → List Char
  | [] => []
  | t :: ts => render1 t ++ render ts

def itemOK (cs : List Char) : Bool := cs.all (fun c => c != ',' && c != ')' && c != '\n' && c != ' ')

def isElemTok : Tok → Bool
  | .elem _ => true
  | _ => false

def tokOK : Tok → Bool
  | .ticks n => n ≥ 1
  | .elem cs => !cs.isEmpty && cs.all (fun c => !isSpecial c && c != ' ')
  | .group items => !items.isEmpty && items.all itemOK
  | _ => true

/-- well-formed token list: every token is well-formed, no value marble is directly followed
by another one (their renderings would fuse into one marble), and a `strayOpen` is really unclosed. -/
def WF : List Tok → Bool
  | [] => true
  | [t] => tokOK t
  | t :: u :: r =>
    tokOK t && !(isElemTok t && isElemTok u) &&
      (match t with
       | .strayOpen => (findClose (render (u :: r))).isNone     -- really unclosed: no `)` follows on the line
       | _ => true) &&
      WF (u :: r)

/-- the marbles a token declares, in reading order (group items include the empty ones, which are
checked against `raise_stopped` but emit nothing) -/
def marblesOf : Tok → List (List Char)
  | .ticks _ => []
  | .elem cs => [cs]
  | .completed => [['|']]
  | .error => [['#']]
  | .group items => items
  | .comma => []
  | .strayClose => []
  | .strayOpen => []

/-- What the documented syntax says a token list means, walking the tokens with the index `p` of the
token's first character in the (space-free) rendering: a marble gets time `p·timespan + shift`;
group items all get the time of the opening parenthesis; terminal checks in reading order. -/
def specGo {α} (cfg : Cfg α) : List Tok → Nat → Bool → Except PErr (List (Msg α))
  | [], _, _ => .ok []
  | t :: ts, p, st =>
    if t = .comma then .error .comma
    else
      match checkAll cfg st (marblesOf t) with
      | .error e => .error e
      | .ok st' =>
        match specGo cfg ts (p + width t) st' with
        | .error e => .error e
        | .ok ms =>
          .ok (((marblesOf t).filter (fun e => !e.isEmpty)).map (mapElement cfg (time cfg p)) ++ ms)

def spec {α} (cfg : Cfg α) (toks : List Tok) : Except PErr (List (Msg α)) := specGo cfg toks 0 false

/-- every marble of a token list with the index of the character that starts its token -/
def allMarbles : List Tok → Nat → List (Nat × List Char)
  | [], _ => []
  | t :: ts, p => (marblesOf t).map (fun m => (p, m)) ++ allMarbles ts (p + width t)

/-- frame count reached after a token list -/
def frame : List Tok → Nat
  | [] => 0
  | t :: ts => width t + frame ts

def noStray (toks : List Tok) : Bool := toks.all (fun t => decide (t ≠ .strayClose ∧ t ≠ .strayOpen))

def isTerm (m : List Char) : Bool := m == ['#'] || m == ['|']

def noComma (toks : List Tok) : Bool := toks.all (fun t => decide (t ≠ .comma))

/-! ## delivery: `from_marbles` (cold) and `hot` on a virtual-time scheduler

Both schedule one action per parsed message with `schedule_relative(time)`.  The virtual-time
scheduler runs actions in `(due, seq)` order — modelled by a stable insertion into a queue sorted
by due time — and never moves its clock backwards. -/

/-- stable insertion by due time: after all entries with due ≤ the new one -/
def enqueue {β} (q : List (Int × β)) (x : Int × β) : List (Int × β) :=
  match q with
  | [] => [x]
  | y :: r => if x.1 < y.1 then x :: y :: r else y :: enqueue r x

def enqueueAll {β} (q : List (Int × β)) (xs : List (Int × β)) : List (Int × β) :=
  xs.foldl enqueue q

/-- run a queue from clock `now`: each action runs at `max clock due`. -/
def runQueue {β} : Int → List (Int × β) → List (Int × β)
  | _, [] => []
  | now, (d, x) :: r => let t := if d > now then d else now; (t, x) :: runQueue t r

/-- `from_marbles(...)` subscribed at `sub` (clock = `sub`) and disposed by an action scheduled for
`disp` *before* the subscription: what the observer records.  A dispose cancels the not-yet-run
actions (CompositeDisposable of the scheduled items). -/
def coldDeliver {α} (msgs : List (Msg α)) (sub disp : Int) : List (Msg α) :=
  let q := enqueueAll [] (msgs.map fun (t, n) => (sub + t, n))
  (runQueue sub q).filter (fun (t, _) => t < disp)

/-- `hot(...)` created at clock `created`; a subscriber subscribing at `sub ≥ created` through an action
scheduled after the creation, disposing at `disp` through an action scheduled after the creation:
it sees exactly the notifications whose action runs strictly after `sub` and not after `disp`. -/
def hotDeliver {α} (msgs : List (Msg α)) (created sub disp : Int) : List (Msg α) :=
  let q := enqueueAll [] (msgs.map fun (t, n) => (created + t, n))
  (runQueue created q).filter (fun (t, _) => sub < t && t ≤ disp)

/-- `hot(...)` created at clock `created` from INSIDE a scheduled action (e.g. the `create` callback of
`TestScheduler.start`), the subscribe and dispose actions having been scheduled before the run: the
hot observable's own actions are then the youngest in the queue, so at equal due time the subscribe
(and the dispose) action goes first — a subscriber at `sub ≥ created` sees exactly the notifications
due in `[sub, disp)`. -/
def hotDeliverLate {α} (msgs : List (Msg α)) (created sub disp : Int) : List (Msg α) :=
  (enqueueAll [] (msgs.map fun (t, n) => (created + t, n))).filter (fun (t, _) => sub ≤ t && t < disp)

/-! ### the delivery loop of `hot` over several observers

`hot` keeps a list `observers` and runs `for observer in observers: notification.accept(observer)`.
An observer that receives a terminal notification unsubscribes itself from within that call
(AutoDetachObserver → dispose → `observers.remove(observer)`).  On the pinned tree the loop iterates
over the LIVE list (CPython list iteration is index based), so the removal shifts the tail and the
next observer is skipped; the proposed fix (`fixes/C38_hot_observers_snapshot.patch`) iterates over
a snapshot.  `hotDeliver` above is the per-subscriber view of the FIXED loop. -/

/-- AS-IS loop (pinned tree): index-based iteration over the live list; returns the observers called. -/
def loopAsIs (terminal : Bool) : Nat → Nat → List Nat → List Nat
  | 0, _, _ => []
  | fuel + 1, i, obs =>
    match obs[i]? with
    | none => []
    | some o => o :: loopAsIs terminal fuel (i + 1) (if terminal then obs.erase o else obs)

def calledAsIs (terminal : Bool) (obs : List Nat) : List Nat := loopAsIs terminal obs.length 0 obs

/-- FIXED loop: iterates over the snapshot `observers[:]`; removals during the loop do not matter. -/
def loopFixed (terminal : Bool) : List Nat → List Nat → List Nat
  | [], _ => []
  | o :: snapshot, live => o :: loopFixed terminal snapshot (if terminal then live.erase o else live)

def calledFixed (terminal : Bool) (obs : List Nat) : List Nat := loopFixed terminal obs obs

end Pure.Marbles

import RxModel.VtsPQ
/-!
# L4 `Tmr` — `observable/timer.py: observable_timer_duetime_and_period` on a virtual-time scheduler

`timer(duetime, period)` with `duetime != period` (or an absolute `datetime` duetime) does not use
`PeriodicScheduler`; it has its own self-rescheduling action with ABSOLUTE due times:

    dt = duetime if absolute else scheduler.now + duetime        # at subscribe
    def action(scheduler, state):
        if p > 0.0:
            now = scheduler.now
            dt = dt + p
            if dt <= now: dt = now + p
        observer.on_next(count); count += 1
        mad.disposable = scheduler.schedule_absolute(dt, action)
    mad.disposable = scheduler.schedule_absolute(dt, action)

The model runs it on the `advance_to` loop of the virtual-time scheduler (same queue and clock rules as
`RxModel/Vts.lean`: least `(due, count)` first, clock at run = `max clock due`), together with other actions
that take virtual time (`block sl`: an action calling `scheduler.sleep(sl)`), and with an observer whose
`on_next(k)` itself sleeps `cost k` — the two ways a tick can find the clock already past its due time.
Time is an `Int` (ticks / microseconds), `p ≥ 1` (for `p ≤ 0` the real loop reschedules at the same instant for ever; the
model reports `stuck`).  Disposal of the subscription is not modelled here (see `RxModel/VtsPeriodic.lean` for the
MultipleAssignmentDisposable plumbing, which is the same).
-/

namespace Tmr
open Vts

inductive Kind where
  /-- a scheduled action that calls `scheduler.sleep(sl)` -/
  | block (sl : Nat)
  /-- the timer's action about to emit `k`; the item's `due` is the timer's `dt` -/
  | tick (k : Nat)
deriving Repr, DecidableEq

structure Item where
  due : Int
  kind : Kind
deriving Repr, DecidableEq

/-- emission `k` delivered at clock `at_`; `due` (ghost) is the due time the tick had -/
structure Ran where
  k : Nat
  at_ : Int
  due : Int
deriving Repr, DecidableEq

structure St where
  clock : Int := 0
  queue : PQ Item := {}
  enabled : Bool := false
  log : List Ran := []

inductive Out where
  | ok
  | raised (e : String)
  | stuck
deriving Repr, DecidableEq

/-- `dt = dt + p; if dt <= now: dt = now + p` -/
def nextDue (p due now : Int) : Int := if due + p ≤ now then now + p else due + p

def enqueue (s : St) (it : Item) : St := { s with queue := s.queue.enqueue it }

/-- `subscribe`: `dt = now + duetime` (relative) or `dt = duetime` (absolute); `schedule_absolute(dt, action)` -/
def subscribe (s : St) (dt : Int) : St := enqueue s { due := dt, kind := .tick 0 }

/-- `scheduler.schedule_absolute(t, lambda: scheduler.sleep(sl))` -/
def scheduleBlock (s : St) (t : Int) (sl : Nat) : St := enqueue s { due := t, kind := .block sl }

inductive Iter where
  | exit (s : St)
  | next (s : St)
  | stuck (s : St)

/-- one iteration of the loop of `advance_to(T)` -/
def iter (p : Int) (cost : Nat → Nat) (T : Int) (s : St) : Iter :=
  if s.enabled = false then .exit s
  else
    match s.queue.dequeue? Item.due with
    | none => .exit s
    | some (x, q') =>
      if x.due > T then .exit s
      else
        let now := if x.due > s.clock then x.due else s.clock
        match x.kind with
        | .block sl => .next { s with clock := now + sl, queue := q' }
        | .tick k =>
          if p ≤ 0 then .stuck s
          else
            .next (enqueue { s with clock := now + cost k, queue := q', log := s.log ++ [{ k, at_ := now, due := x.due }] }
              { due := nextDue p x.due now, kind := .tick (k + 1) })

def weight (T : Int) (l : List (Item × Int)) : Nat :=
  (l.map (fun e => (T + 1 - e.1.due).toNat + 1)).sum

def loopFuel (p : Int) (cost : Nat → Nat) (T : Int) : Nat → St → St × Out
  | 0, s => (s, .stuck)
  | n + 1, s =>
    match iter p cost T s with
    | .exit s' => (s', .ok)
    | .next s' => loopFuel p cost T n s'
    | .stuck s' => (s', .stuck)

/-- `advance_to(T)` as written (see `Vts.advanceTo`); the fuel `weight + 1` always suffices
(`RxProofs/Lemmas/VtsTimer.lean: loopFuel_enough`) -/
def advanceTo (p : Int) (cost : Nat → Nat) (T : Int) (s : St) : St × Out :=
  if s.clock > T then (s, .raised "ArgumentOutOfRangeException")
  else if s.clock = T ∨ s.enabled = true then (s, .ok)
  else
    match loopFuel p cost T (weight T s.queue.items + 1) { s with enabled := true } with
    | (s', .ok) => ({ s' with enabled := false, clock := T }, .ok)
    | r => r

end Tmr

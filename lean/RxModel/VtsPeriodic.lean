import RxModel.Core
import RxModel.VtsPQ
/-!
# L4 `Periodic` — `PeriodicScheduler.schedule_periodic` on a virtual-time scheduler, optionally through
`CatchScheduler.schedule_periodic`; `interval`/`timer(p, p)` are the instance `f = (· + 1)`, `state = 0`.

Mirrors `reactivex/scheduler/periodicscheduler.py`:

    disp = MultipleAssignmentDisposable(); seconds = to_seconds(period)
    def periodic(scheduler, state):
        if disp.is_disposed: return None
        now = scheduler.now
        try: state = action(state)
        except Exception: disp.dispose(); raise
        time = seconds - (scheduler.now - now).total_seconds()
        disp.disposable = scheduler.schedule_relative(time, periodic, state=state)
    disp.disposable = self.schedule_relative(period, periodic, state=state); return disp

and `CatchScheduler.schedule_periodic` (`failed` flag, handler, `disp.dispose()` on a handled failure), on
top of the same queue/clock rules as `RxModel/Vts.lean` (`advance_to` loop, as written).

* A periodic task is `Task`: its period, whether its `MultipleAssignmentDisposable` is disposed, whether it
  was scheduled through a CatchScheduler and that wrapper's `failed` flag.
* The user's periodic action is a function `f : Nat → σ → Tick σ` (task id, state ↦ what the call does):
  it may call `scheduler.sleep(d)` (this is what the drift term `(scheduler.now - now)` measures), dispose
  its own handle, and then return a new state or raise.
* Pending items are the self-rescheduling `periodic` closures (`tick`) and plain actions that dispose a
  task's handle at a given time (`dispose`).  Disposing a handle sets `disposed` and cancels the pending
  `tick` of that task (the MultipleAssignmentDisposable disposes its current inner disposable; a tick
  assigned to an already disposed one is disposed = cancelled at once and stays in the queue).
* A periodic task reschedules itself for ever, so only `advance_to(T)` is modelled.  Its loop is total for
  every input: a `tick` reschedules strictly later (period ≥ 1; a period ≤ 0 makes the real call spin for
  ever at one instant, which the model reports as `stuck`), so `Σ (T + 1 - due)` over the pending items
  decreases (`iter_next_weight`).
-/

namespace Per

structure Tick (σ : Type) where
  /-- `scheduler.sleep(d)` inside the action -/
  sleep : Nat := 0
  /-- the action disposes the handle returned by `schedule_periodic` -/
  dispose : Bool := false
  /-- returned state, or the exception raised -/
  next : Except Err σ

structure Task where
  period : Int
  disposed : Bool := false
  catch_ : Bool := false
  failed : Bool := false
deriving Repr, DecidableEq

inductive Kind (σ : Type) where
  | tick (pid : Nat) (st : σ)
  | dispose (pid : Nat)
deriving Repr

structure Item (σ : Type) where
  due : Int
  kind : Kind σ
  cancelled : Bool := false
deriving Repr

/-- one invocation of a user periodic action -/
structure Ran (σ : Type) where
  pid : Nat
  at_ : Int
  st : σ
deriving Repr, DecidableEq

structure St (σ : Type) where
  clock : Int := 0
  queue : Vts.PQ (Item σ) := {}
  enabled : Bool := false
  tasks : List (Nat × Task) := []
  log : List (Ran σ) := []
  hlog : List Err := []

inductive Out where
  | ok
  | raised (e : Err)
  | stuck
deriving Repr, DecidableEq

variable {σ : Type}

def getTask (s : St σ) (pid : Nat) : Option Task := (s.tasks.find? (·.1 == pid)).map (·.2)

def setTask (s : St σ) (pid : Nat) (t : Task) : St σ :=
  { s with tasks := s.tasks.map (fun p => if p.1 == pid then (pid, t) else p) }

def isTick (pid : Nat) : Kind σ → Bool
  | .tick p _ => p == pid
  | .dispose _ => false

def cancelEntry (pid : Nat) (e : Item σ × Int) : Item σ × Int :=
  if isTick pid e.1.kind then ({ e.1 with cancelled := true }, e.2) else e

/-- `handle.dispose()` for task `pid` (idempotent) -/
def disposeTask (s : St σ) (pid : Nat) : St σ :=
  match getTask s pid with
  | none => s
  | some t =>
    let s1 := setTask s pid { t with disposed := true }
    { s1 with queue := { s1.queue with items := s1.queue.items.map (cancelEntry pid) } }

def enqueue (s : St σ) (it : Item σ) : St σ := { s with queue := s.queue.enqueue it }

/-- `schedule_periodic(period, action, state)` (through a CatchScheduler iff `catch_`) -/
def schedulePeriodic (s : St σ) (pid : Nat) (period : Int) (st : σ) (catch_ : Bool) : St σ :=
  enqueue { s with tasks := s.tasks ++ [(pid, { period, catch_ })] }
    { due := s.clock + period, kind := .tick pid st }

/-- schedule a plain action at absolute time `t` that disposes the handle of task `pid` -/
def scheduleDispose (s : St σ) (t : Int) (pid : Nat) : St σ :=
  enqueue s { due := t, kind := .dispose pid }

inductive Iter (σ : Type) where
  | exit (s : St σ)
  | next (s : St σ)
  | raised (s : St σ) (e : Err)
  | stuck (s : St σ)

/-- the body of `periodic` (and of the CatchScheduler wrapper around the user action), for task `pid`
with record `t`, invoked with state `st` at clock `s.clock` -/
def runTick (handler : Err → Bool) (f : Nat → σ → Tick σ) (s : St σ) (pid : Nat) (t : Task) (st : σ) :
    St σ × Option Err :=
  if t.disposed then (s, none)                      -- `if disp.is_disposed: return None`
  else if t.catch_ && t.failed then                 -- CatchScheduler.periodic: `if failed: return None`
    -- the inner periodic goes on with state None
    (enqueue s { due := s.clock + t.period, kind := .tick pid st }, none)
  else
    let now := s.clock                              -- `now = scheduler.now`
    let r := f pid st
    let s1 := { s with log := s.log ++ [{ pid, at_ := s.clock, st }], clock := s.clock + r.sleep }
    let s2 := if r.dispose then disposeTask s1 pid else s1
    match r.next with
    | .ok st' =>
      -- `time = seconds - (scheduler.now - now)`; `disp.disposable = scheduler.schedule_relative(time, …)`
      let due := s2.clock + (t.period - (s2.clock - now))
      let dead := ((getTask s2 pid).map (·.disposed)).getD false
      (enqueue s2 { due, kind := .tick pid st', cancelled := dead }, none)
    | .error e =>
      if t.catch_ then
        -- CatchScheduler: `failed = True; if not self._handler(ex): raise; disp.dispose(); return None`
        let s3 := setTask { s2 with hlog := s2.hlog ++ [e] } pid
          { ((getTask s2 pid).getD t) with failed := true }
        if handler e then
          let s4 := disposeTask s3 pid
          let due := s4.clock + (t.period - (s4.clock - now))
          (enqueue s4 { due, kind := .tick pid st, cancelled := true }, none)
        else (disposeTask s3 pid, some e)           -- inner: `except Exception: disp.dispose(); raise`
      else (disposeTask s2 pid, some e)             -- `except Exception: disp.dispose(); raise`

/-- one iteration of the loop of `advance_to(T)` -/
def iter (handler : Err → Bool) (f : Nat → σ → Tick σ) (T : Int) (s : St σ) : Iter σ :=
  if s.enabled = false then .exit s
  else
    match s.queue.dequeue? Item.due with
    | none => .exit s
    | some (x, q') =>
      if x.due > T then .exit s
      else
        let s1 := { s with clock := if x.due > s.clock then x.due else s.clock, queue := q' }
        if x.cancelled then .next s1
        else
          match x.kind with
          | .dispose pid => .next (disposeTask s1 pid)
          | .tick pid st =>
            match getTask s1 pid with
            | none => .next s1
            | some t =>
              if t.period ≤ 0 then .stuck s
              else
                match runTick handler f s1 pid t st with
                | (s2, none) => .next s2
                | (s2, some e) => .raised s2 e

/-- termination weight: how many more times the pending items can be dequeued before `T` -/
def weight (T : Int) (l : List (Item σ × Int)) : Nat :=
  (l.map (fun e => (T + 1 - e.1.due).toNat + 1)).sum

/-- the loop with explicit fuel; `advanceTo` supplies `weight + 1`, which always suffices
(`RxProofs/Lemmas/VtsPeriodic.lean: loopFuel_enough`) -/
def loopFuel (handler : Err → Bool) (f : Nat → σ → Tick σ) (T : Int) : Nat → St σ → St σ × Out
  | 0, s => (s, .stuck)
  | n + 1, s =>
    match iter handler f T s with
    | .exit s' => (s', .ok)
    | .next s' => loopFuel handler f T n s'
    | .raised s' e => (s', .raised e)
    | .stuck s' => (s', .stuck)

def aoor : Err := "ArgumentOutOfRangeException"

/-- `advance_to(T)` as written (see `Vts.advanceTo`) -/
def advanceTo (handler : Err → Bool) (f : Nat → σ → Tick σ) (T : Int) (s : St σ) : St σ × Out :=
  if s.clock > T then (s, .raised aoor)
  else if s.clock = T ∨ s.enabled = true then (s, .ok)
  else
    match loopFuel handler f T (weight T s.queue.items + 1) { s with enabled := true } with
    | (s', .ok) => ({ s' with enabled := false, clock := T }, .ok)
    | r => r

/-- top-level calls -/
inductive Op (σ : Type) where
  | periodic (pid : Nat) (period : Int) (st : σ) (catch_ : Bool)
  | disposeAt (t : Int) (pid : Nat)
  | disposeNow (pid : Nat)
  | advanceTo (t : Int)
  | stop

def doOp (handler : Err → Bool) (f : Nat → σ → Tick σ) (s : St σ) : Op σ → St σ × Out
  | .periodic pid p st c => (schedulePeriodic s pid p st c, .ok)
  | .disposeAt t pid => (scheduleDispose s t pid, .ok)
  | .disposeNow pid => (disposeTask s pid, .ok)
  | .advanceTo t => advanceTo handler f t s
  | .stop => ({ s with enabled := false }, .ok)

def runOps (handler : Err → Bool) (f : Nat → σ → Tick σ) : St σ → List (Op σ) → St σ × List Out
  | s, [] => (s, [])
  | s, op :: ops =>
    match doOp handler f s op with
    | (s', .stuck) => (s', [.stuck])
    | (s', o) => let (s'', os) := runOps handler f s' ops; (s'', o :: os)

end Per

import Driver.Common
import RxModel.TimedWin
import RxModel.TimedRate
import RxModel.TimedShift
import RxModel.TimedMap
import RxModel.TimedSim
open Lean Drv Timed

namespace DrvTimed

def notifToJson : Notif Val → Json
  | .next v => Json.arr #[.str "N", valToJson v]
  | .error e => Json.arr #[.str "E", .str e]
  | .completed => Json.arr #[.str "C"]

def notifOfJson (j : Json) : Except String (Notif Val) := do
  match j with
  | .arr #[.str "N", v] => pure (.next (← valOfJson v))
  | .arr #[.str "E", .str e] => pure (.error e)
  | .arr #[.str "C"] => pure .completed
  | _ => throw s!"bad notification {j.compress}"

def tlOfJson (js : List Json) : Except String (TL Val) :=
  js.mapM fun j =>
    match j with
    | .arr #[t, n] => do pure ((← t.getNat?), (← notifOfJson n))
    | _ => throw s!"bad timed notification {j.compress}"

def tlToJson (l : TL Val) : Json :=
  Json.arr (l.map fun (t, n) => Json.arr #[.num (JsonNumber.fromNat t), notifToJson n]).toArray

/-- `{"src":"hot"|"cold","msgs":[..]}` as seen by a subscription made at `sub` -/
def seen (kind : String) (sub : Nat) (msgs : TL Val) : TL Val :=
  if kind == "cold" then cold sub msgs else hot sub msgs

def getSeen (j : Json) (sub : Nat) : Except String (TL Val) := do
  pure (seen (← getStr j "src") sub (← tlOfJson (← getArr j "msgs")))

def both (run spec : TL Val) : Json := Json.mkObj [("run", tlToJson run), ("spec", tlToJson spec)]

/-- also the scheduler simulation (`RxModel/TimedSim.lean`: queue ordered by (due, insertion)) where it applies -/
def both3 (run spec : TL Val) (sim : Option (TL Val)) : Json :=
  match sim with
  | some sm => Json.mkObj [("run", tlToJson run), ("spec", tlToJson spec), ("sim", tlToJson sm)]
  | none => both run spec

/-- relative/absolute time argument: `{"abs": bool, "at": n}` -/
def getDue (j : Json) : Except String Due := do
  let a ← getNat j "at"
  pure (if (← getBool j "abs") then .abs a else .rel a)

/-- an observable returned by a mapper: a cold observable (timeline relative to its subscription) or one that signals
synchronously inside `subscribe` (BehaviorSubject, finished Subject, `empty()` on ImmediateScheduler) -/
inductive Inner where
  | cold (tl : TL Val)
  | inline (sigs : List Sig)

def innerOfJson (x : Json) : Except String Inner :=
  match x with
  | .arr a => do pure (.cold (← tlOfJson a.toList))
  | .obj _ =>
    match x.getObjValAs? Nat "timer" with
    | .ok d =>
      -- `reactivex.timer(d)` with no scheduler of its own: one action scheduled at subscription on the subscribe-time
      -- scheduler, emitting 0 and completing at `d`
      pure (.cold [(d, .next (.int 0)), (d, .completed)])
    | .error _ => do
      match (← getStr x "inline") with
      | "B" => pure (.inline [.next])
      | "CS" => pure (.inline [.completed])
      | "EI" => pure (.inline [.completed])
      | "ES" => pure (.inline [.error "inlineErr"])
      | "RI" => pure (.inline [.next, .completed])
      | k => throw s!"bad inline kind {k}"
  | _ => throw "bad inner observable"

/-- `"inners"`: the observables the mapper returns, by call ordinal (cyclic) -/
def getInners (j : Json) : Except String (List Inner) := do
  (← getArr j "inners").mapM innerOfJson

def innerOf (inners : List Inner) (k : Nat) : Inner :=
  if inners.isEmpty then .cold [] else inners.getD (k % inners.length) (.cold [])

def getRaises (j : Json) : Except String (Nat → Val → Option String) := do
  match (← getOptInt j "raise_at") with
  | some r => pure (fun k _ => if (k : Int) == r then some "mapErr" else none)
  | none => pure (fun _ _ => none)

/-- the source's events; an inline inner observable signals right after the element it was created for (inside that
element's `on_next`, before anything else queued for the instant) -/
def srcEvents (inners : List Inner) (off : Nat) : Nat → TL Val → List (Nat × MEv Val)
  | _, [] => []
  | k, (t, .next v) :: r =>
    (t, MEv.src (.next v)) ::
      ((match innerOf inners (k + off) with
        | .inline sigs => sigs.map (fun sg => (t, MEv.inner (k + off) sg))
        | .cold _ => []) ++ srcEvents inners off (k + 1) r)
  | k, (t, n) :: r => (t, MEv.src n) :: srcEvents inners off k r

/-- scheduled (cold) inner observables for the source elements: element `i` (arriving at `t_i`) gets index `i + off` -/
def elemInners (inners : List Inner) (off : Nat) (src : TL Val) : List (Nat × MEv Val) :=
  (((elemTimes src).zipIdx).map (fun (p : Nat × Nat) =>
    match innerOf inners (p.2 + off) with
    | .cold tl => innerEvents (α := Val) (p.2 + off) p.1 tl
    | .inline _ => [])).flatten

/-- `"echo": [k, ..]`: the consumer pushes `("echo", k)` into the source from inside on_next for its k-th element -/
def getEcho (j : Json) : Nat → Option Val :=
  match j.getObjValAs? (List Nat) "echo" with
  | .ok ks => fun k => if ks.contains k then some (Val.tup [.str "echo", .int k]) else none
  | .error _ => fun _ => none

def isEchoVal : Val → Bool
  | .tup (.str "echo" :: _) => true
  | _ => false

def hasEcho (j : Json) : Bool :=
  match j.getObjValAs? (List Nat) "echo" with
  | .ok (_ :: _) => true
  | _ => false

def handle1 (op : String) (j : Json) : Except String Json := do
  let sub ← getNat j "sub"
  let isCold := (← getStr j "src") == "cold"
  let src ← getSeen j sub
  match op with
  | "take_with_time" =>
    let d ← getNat j "d"
    pure (both3 (twtRun isCold (sub + d) (sub + d) src) (twtSpec isCold (sub + d) (sub + d) src)
      (if isCold then none else some (simStart twtOp (fun _ => []) sub (some (sub + d, ())) () src)))
  | "take_until_with_time" =>
    let due := (← getDue j).at sub
    pure (both3 (twtRun isCold due (max due sub) src) (twtSpec isCold due (max due sub) src)
      (if isCold then none else some (simStart twtOp (fun _ => []) sub (some (due, ())) () src)))
  | "skip_with_time" =>
    let d ← getNat j "d"
    pure (both3 (swtRun isCold (sub + d) false src) (swtSpec isCold (sub + d) src)
      (if isCold then none else some (simStart swtOp (fun _ => []) sub (some (sub + d, ())) false src)))
  | "skip_until_with_time" =>
    let due := (← getDue j).at sub
    pure (both3 (swtRun false due false src) (swtSpec false due src)
      (some (simStart swtOp (fun _ => []) sub (some (due, ())) false src)))
  | "take_last_with_time" =>
    let d ← getNat j "d"
    pure (both (tlwtRun keepFixed d [] src) (tlwtSpec d src))
  | "take_last_with_time_asis" =>
    let d ← getNat j "d"
    pure (both (tlwtRun keepAsIs d [] src) (tlwtSpec d src))
  | "skip_last_with_time" =>
    let d ← getNat j "d"
    pure (both (slwtRun d [] src) (slwtSpec d [] 0 src))
  | "timeout" =>
    let mode ← getDue j
    let other : Nat → TL Val ←
      match j.getObjVal? "other" with
      | .ok (.obj o) => do
        let oj := Json.obj o
        let kind ← getStr oj "src"
        let om ← tlOfJson (← getArr oj "msgs")
        pure (fun S => seen kind S om)
      | _ => pure (fun S => [(S, Notif.error "Exception")])
    let s0 := toInit mode sub
    pure (both3 (toRun mode isCold other s0 src)
               (toSpec mode isCold other (mode.at sub) (max (mode.at sub) sub) true src)
               (if isCold then none else some (simStart (toOp mode) other sub
                  (some (mode.at sub, { due := mode.at sub, fireAt := max (mode.at sub) sub, myId := 0, first := true })) s0 src)))
  -- C16
  | "throttle_first" =>
    let w ← getNat j "d"
    if hasEcho j && w > 0 then
      return Json.mkObj [("run", tlToJson (tfRunFb w (getEcho j) 0 none src))]
    pure (both3 (throttleFirst w sub src) (if w = 0 then [(sub, .error "ValueError")] else tfSpec w src)
      (if w = 0 then none else some (simStart (tfOp w) (fun _ => []) sub none none src)))
  | "debounce" =>
    let d ← getNat j "d"
    if hasEcho j then
      return Json.mkObj [("run", tlToJson (simRunFb (debOp d) (fun _ => []) (getEcho j) isEchoVal (4 * src.length + 16) 0 sub (srcItems src) {}))]
    pure (both3 (debRun d {} src) (debSpec d src) (some (simStart (debOp d) (fun _ => []) sub none {} src)))
  | "sample" =>
    let (ticks, tf) : List (Nat × SampEv) × Bool ←
      match j.getObjVal? "sampler" with
      | .ok (.obj o) => do
        let oj := Json.obj o
        let sk ← getStr oj "src"
        pure (samplerEvents (seen sk sub (← tlOfJson (← getArr oj "msgs"))), isCold && sk == "hot")
      | _ => do pure (intervalTicks sub (← getNat j "period") (← getNat j "stop"), false)
    if hasEcho j then
      return Json.mkObj [("run", tlToJson (sampSimFb (getEcho j) isEchoVal 0 (mergeStable (sampSrcItems src ++ sampTickItems ticks)) true {}))]
    let q := if tf then mergeStable (sampTickItems ticks ++ sampSrcItems src) else mergeStable (sampSrcItems src ++ sampTickItems ticks)
    pure (both3 (sampRun tf {} src ticks) (sampSpec tf none src ticks) (some (sampSim q true {})))
  -- C15
  | "timestamp" =>
    let f := fun (l : TL (Val × Nat)) => l.map (fun m => (m.1, m.2.map (fun p => Val.tup [p.1, .int p.2])))
    pure (both (f (tsRun src)) (f (tsSpec src)))
  | "time_interval" =>
    let f := fun (l : TL (Val × Nat)) => l.map (fun m => (m.1, m.2.map (fun p => Val.tup [p.1, .int p.2])))
    pure (both (f (tiRun sub src)) (f (tiSpec sub src)))
  | "delay" =>
    let d := match (← getDue j) with | .rel d => d | .abs D => D - sub
    pure (both (delayRun d src) (delaySpec d src))
  | "delay_subscription" =>
    let S := max ((← getDue j).at sub) sub
    let src' := seen (← getStr j "src") S (← tlOfJson (← getArr j "msgs"))
    -- subscribed without a scheduler argument the mapper's `empty()` completes inline (ImmediateScheduler): plain relay
    if (j.getObjValAs? Bool "inline").toOption == some true then pure (both src' (conform src'))
    else pure (both (dsRun [] src') (dsSpec src'))
  -- *_with_mapper
  | "throttle_with_mapper" =>
    let inners ← getInners j
    let raises ← getRaises j
    if hasEcho j then
      let inn : Nat → InnerObs := fun c =>
        match innerOf inners c with
        | .cold tl => .cold ((conform tl).map (fun m => (m.1, sigOf m.2)))
        | .inline sigs => .inline sigs
      return Json.mkObj [("run", tlToJson (twmSimFb raises (getEcho j) isEchoVal inn 2000 0 {} (src.map (fun m => (m.1, MEv.src m.2)))))]
    let tr := mergeStable (srcEvents inners 0 0 src ++ elemInners inners 0 src)
    pure (both (twmRun raises tr) (twmSpec raises tr))
  | "delay_with_mapper" =>
    let inners ← getInners j
    let raises ← getRaises j
    let kind ← getStr j "src"
    let msgs ← tlOfJson (← getArr j "msgs")
    match j.getObjVal? "subdelay" with
    | .ok (.arr a) =>
      let sd := conform (← tlOfJson a.toList)
      let subEv : List (Nat × MEv Val) := sd.map (fun m => (sub + m.1, MEv.sub (sigOf m.2)))
      let src' : TL Val :=
        match sd with
        | (r, .next _) :: _ => seen kind (sub + r) msgs
        | (r, .completed) :: _ => seen kind (sub + r) msgs
        | _ => []
      -- a cold source is scheduled when `start()` subscribes it, i.e. after the subscription delay's own messages
      let tr := if isCold then mergeStable (subEv ++ srcEvents inners 0 0 src' ++ elemInners inners 0 src')
                else mergeStable (srcEvents inners 0 0 src' ++ subEv ++ elemInners inners 0 src')
      pure (both (dwmRun raises true tr) (dwmSpec raises true tr))
    | _ =>
      let tr := mergeStable (srcEvents inners 0 0 src ++ elemInners inners 0 src)
      pure (both (dwmRun raises false tr) (dwmSpec raises false tr))
  | "timeout_with_mapper" =>
    let inners ← getInners j
    let raises ← getRaises j
    let first : List (Nat × MEv Val) :=
      match j.getObjVal? "first" with
      | .ok .null => []
      | .ok fj => (match innerOfJson fj with | .ok (.cold tl) => innerEvents 0 sub tl | _ => [])
      | _ => []
    let other : Nat → TL Val ←
      match j.getObjVal? "other" with
      | .ok (.obj o) => do
        let oj := Json.obj o
        let kind ← getStr oj "src"
        let om ← tlOfJson (← getArr oj "msgs")
        pure (fun S => seen kind S om)
      | _ => pure (fun S => [(S, Notif.error "Exception")])
    let tr := if isCold then mergeStable (first ++ srcEvents inners 1 0 src ++ elemInners inners 1 src)
              else mergeStable (srcEvents inners 1 0 src ++ first ++ elemInners inners 1 src)
    pure (both (towmRun raises other tr) (towmSpec raises other tr))
  | _ => throw s!"unknown op {op}"

/-- every subscription has its own state: a second subscription at `sub2` of the same observable is the same run from
`sub2` (`run2` / `spec2`) -/
def handle (op : String) (j : Json) : Except String Json := do
  let r ← handle1 op j
  match getOptInt j "sub2" with
  | .ok (some t2) =>
    let r2 ← handle1 op (j.setObjVal! "sub" (.num (JsonNumber.fromInt t2)))
    pure (Json.mkObj ([("run", (← r.getObjVal? "run")), ("spec", (← r.getObjVal? "spec")),
                      ("run2", (← r2.getObjVal? "run")), ("spec2", (← r2.getObjVal? "spec"))] ++
                     (match r.getObjVal? "sim", r2.getObjVal? "sim" with
                      | .ok a, .ok b => [("sim", a), ("sim2", b)]
                      | _, _ => [])))
  | _ => pure r

end DrvTimed

def main : IO Unit := Drv.run DrvTimed.handle

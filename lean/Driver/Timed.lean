import Driver.Common
open Lean Drv

namespace DrvTimed

def handle (op : String) (_j : Json) : Except String Json := do
  match op with
  | _ => throw s!"unknown op {op}"

end DrvTimed

def main : IO Unit := Drv.run DrvTimed.handle

import Driver.Common
import RxModel.PureSources
open Lean Drv
open Pure.Sources

/-! op `src` of `drv_pure`: one source factory subscribed at `sub` and disposed at `disp` on the
virtual-time scheduler model; also the producer's isolated `chain`. -/
namespace DrvPureSources

def notifToJson : Notif Val → Json
  | .next v => Json.arr #[.str "N", valToJson v]
  | .error e => Json.arr #[.str "E", .str e]
  | .completed => Json.arr #[.str "C"]

def msgsToJson (ms : List (Int × Notif Val)) : Json :=
  Json.arr (ms.map fun (t, n) => Json.arr #[.num (JsonNumber.fromInt t), notifToJson n]).toArray

def fnExcept (f : FnTab) (x : Val) : Except Err Val :=
  match f.call x with
  | .ok v => .ok v
  | .error e => .error e

/-- a relative time returned by a time mapper: int, integral float, or `(".td", seconds)` for a timedelta -/
def delayOfVal : Val → Except String Int
  | .int k => pure k
  | .tup [.str ".td", .int k] => pure k
  | v =>
    match v.asNum? with
    | some k => pure k
    | none => throw "time mapper result is not an integral relative time"

def optStr (j : Json) (k : String) : Option String :=
  match j.getObjVal? k with
  | .ok (.str s) => some s
  | _ => none

def result {σ} (P : Producer σ Val) (sub disp : Int) : Json :=
  let st := Sim.record P 4000 sub disp
  Json.mkObj [("msgs", msgsToJson st.out),
              ("escaped", match st.escaped with | some e => .str e | none => .null),
              ("pending", .num (JsonNumber.fromNat st.queue.length)),
              ("chain", msgsToJson (chain P 400 sub))]

def handle (op : String) (j : Json) : Except String Json := do
  if op != "src" then throw s!"unknown op {op}"
  let kind ← getStr j "kind"
  let sub ← getInt j "sub"
  let disp ← getInt j "disp"
  match kind with
  | "range" =>
    match rangeArgs (← getInt j "start") (← getOptInt j "stop") (← getOptInt j "step") with
    | .error e => pure (Json.mkObj [("factory_error", .str e)])
    | .ok (lo, hi, st) =>
      let P := rangeP lo hi st
      let P' : Producer (Int × Nat × Int) Val :=
        { first := P.first, step := fun s => let r := P.step s; { emits := r.emits.map (Notif.map Val.int), next := r.next, escapes := r.escapes } }
      pure (result P' sub disp)
  | "from_iterable" | "of" =>
    pure (result (fromIterableP { items := (← getVals j "items"), fails := optStr j "fails" }) sub disp)
  | "return_value" => pure (result (returnValueP (← getVal j "value")) sub disp)
  | "empty" => pure (result (emptyP (α := Val)) sub disp)
  | "never" => pure (result (neverP (α := Val)) sub disp)
  | "throw" => pure (result (throwP (α := Val) (← getStr j "err")) sub disp)
  | "generate" | "gwrt" =>
    let init ← getVal j "init"
    let cond ← getFn j "cond"
    let iter ← getFn j "iter"
    let f : GenFns Val :=
      { cond := fun s => (fnExcept cond s).map Val.truthy, iter := fun s => fnExcept iter s }
    if kind == "generate" then pure (result (generateP init f) sub disp)
    else
      let tmf ← getFn j "tm"
      let tm : Val → Except Err Int := fun s =>
        match fnExcept tmf s with
        | .error e => .error e
        | .ok v => match delayOfVal v with | .ok d => .ok d | .error _ => .error "BAD-DELAY"
      if (j.getObjValAs? Bool "asis").toOption == some true then pure (result (gwrtAsIs init f tm) sub disp)
      else pure (result (gwrtP init f tm) sub disp)
  | "timer" =>
    let P := timerP (← getInt j "d")
    let P' : Producer Unit Val :=
      { first := P.first, step := fun s => let r := P.step s; { emits := r.emits.map (Notif.map Val.int), next := r.next, escapes := r.escapes } }
    pure (result P' sub disp)
  | "repeat_value" => pure (result (repeatValueP (← getVal j "value") (← getOptInt j "count")) sub disp)
  | _ => throw s!"unknown source kind {kind}"

end DrvPureSources

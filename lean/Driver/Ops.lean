import Driver.Common
import RxModel.OpsElem
import RxModel.OpsSlice
import RxModel.OpsVal
import RxModel.OpsFb
open Lean Drv Ops

/-!
# drv_ops — line-protocol driver for the L1 operator models (C05, C07, C08)

`{"op":"c05","name":<operator>,"mode":"sub"|"raw","tsub":200,"input":[[t,notif],..], …params}`
→ `{"out":[[t,notif],..],"esc":[[t,name],..]}` or `{"ctor":<exception name>}`.
`mode = "sub"`: what the subscriber's callbacks receive (`lag = false`);
`mode = "raw"`: the handlers' downstream calls with the disposal never arriving (`lag = true`).
Every output carries the time of the input whose handler call produced it (`tsub` for what is
emitted while subscribing).
-/

namespace DrvOps

def notifToJson : Notif Val → Json
  | .next v => Json.arr #[.str "N", valToJson v]
  | .error e => Json.arr #[.str "E", .str e]
  | .completed => Json.arr #[.str "C"]

def notifOfJson : Json → Except String (Notif Val)
  | .arr #[.str "N", v] => do pure (.next (← valOfJson v))
  | .arr #[.str "E", .str e] => pure (.error e)
  | .arr #[.str "C"] => pure .completed
  | j => throw s!"bad notification {j.compress}"

def timedOfJson : Json → Except String (Int × Notif Val)
  | .arr #[t, n] => do pure ((← t.getInt?), (← notifOfJson n))
  | j => throw s!"bad timed notification {j.compress}"

/-- notifications as values (`materialize` output / `dematerialize` input): `(".N", v)`, `(".E", name)`, `(".C",)` -/
def notifToVal : Notif Val → Val
  | .next v => .tup [.str ".N", v]
  | .error e => .tup [.str ".E", .str e]
  | .completed => .tup [.str ".C"]

def notifOfVal : Val → Notif Val
  | .tup [.str ".N", v] => .next v
  | .tup [.str ".E", .str e] => .error e
  | .tup [.str ".C"] => .completed
  | _ => .error "not-a-notification"

def timedJson (t : Int) (n : Notif Val) : Json := Json.arr #[.num (JsonNumber.fromInt t), notifToJson n]

def runTimed {α β} (lag : Bool) (op : Op α β) (cin : Val → α) (cout : β → Val) (tsub : Int)
    (inp : List (Int × Notif Val)) : Json :=
  let r := op.run lag (inp.map (fun p => p.2.map cin))
  let times := tsub :: inp.map (·.1)
  let rows := times.zip r
  let out := rows.flatMap fun (t, so) => ((if lag then so.raw else so.vis).map fun n => timedJson t (n.map cout))
  let esc := rows.filterMap fun (t, so) => so.esc.map fun e => Json.arr #[.num (JsonNumber.fromInt t), .str e]
  Json.mkObj [("out", .arr out.toArray), ("esc", .arr esc.toArray)]

def ctorErr (e : String) : Json := Json.mkObj [("ctor", .str e)]

/-- optional callback table (`null` = argument not given) -/
def getFnOpt (j : Json) (k : String) : Except String (Option FnTab) :=
  match j.getObjVal? k with
  | .ok .null => pure none
  | .ok v => do pure (some (← fnOfJson v))
  | .error _ => pure none

def truthyRes (r : Res) : Except Err Bool := r.map Val.truthy
def pred1 (f : FnTab) : Val → Except Err Bool := fun v => truthyRes (f.call v)
def pred2 (f : FnTab) : Val → Nat → Except Err Bool := fun v i => truthyRes (f.call (.tup [v, .int i]))

/-- the FnTab protocol for n-ary callbacks: one argument is looked up as itself, several as their tuple -/
def tabArgs (f : FnTab) : List Val → Except Err Val
  | [x] => f.call x
  | xs => f.call (.tup xs)

def pyEqCmp (cmp : Option FnTab) : Val → Val → Bool := fun a b =>
  match cmp with
  | none => Val.pyEq a b
  | some c => match c.call (.tup [a, b]) with | .ok v => v.truthy | .error _ => false

def pyEqCmpE (cmp : Option FnTab) : Val → Val → Except Err Bool := fun a b =>
  match cmp with
  | none => .ok (Val.pyEq a b)
  | some c => truthyRes (c.call (.tup [a, b]))

def keyFn (key : Option FnTab) : Val → Except Err Val := fun v =>
  match key with
  | none => .ok v
  | some k => k.call v

instance : PyVal Val := ⟨Val.truthy, Val.isNone⟩

/-- parsed parameters of a chainable (`Val → Val`) stage -/
structure StageDesc where
  name : String
  f : Option FnTab := none
  p : Option FnTab := none
  key : Option FnTab := none
  cmp : Option FnTab := none
  n : Int := 0
  inclusive : Bool := false
  dflt : Val := .none

def stageDescOfJson (j : Json) : Except String StageDesc := do
  let name ← getStr j "name"
  pure { name := name, f := ← getFnOpt j "f", p := ← getFnOpt j "p", key := ← getFnOpt j "key", cmp := ← getFnOpt j "cmp",
         n := (j.getObjValAs? Int "n").toOption.getD 0, inclusive := (j.getObjValAs? Bool "inclusive").toOption.getD false,
         dflt := (getVal j "dflt").toOption.getD .none }

def noFn : FnTab := ⟨[], .ok .none⟩

/-- the operator of a stage: `none` = not chainable, `some (.error e)` = constructor-time exception -/
def StageDesc.op (d : StageDesc) : Option (Except Err (Op Val Val)) :=
  match d.name with
  | "map" => some (.ok (match d.f with | some f => mapOp f.call | none => mapOp (fun v : Val => .ok v)))
  | "filter" => some (.ok (filterOp (pred1 (d.p.getD noFn))))
  | "filter_indexed" => some (.ok (filterIndexedOp (d.p.map pred2)))
  | "take" => some (take? (α := Val) d.n)
  | "skip" => some (skip? (α := Val) d.n)
  | "take_while" => some (.ok (takeWhileOp (pred1 (d.p.getD noFn)) d.inclusive))
  | "take_while_indexed" => some (.ok (takeWhileIndexedOp (pred2 (d.p.getD noFn)) d.inclusive))
  | "skip_while" => some (.ok (skipWhileOp (pred1 (d.p.getD noFn))))
  | "distinct" => some (.ok (distinctOp (keyFn d.key) (pyEqCmpE d.cmp)))
  | "distinct_until_changed" => some (.ok (distinctUntilChangedOp (keyFn d.key) (pyEqCmpE d.cmp)))
  | "take_last" => some (.ok (takeLastOp (α := Val) d.n))
  | "skip_last" => some (.ok (skipLastOp (α := Val) d.n))
  | "default_if_empty" => some (.ok (defaultIfEmptyOp d.dflt))
  | "ignore_elements" => some (.ok (ignoreElementsOp (α := Val)))
  | _ => none

/-- all stages as operators, or the first constructor-time exception / unsupported name -/
def stagesOps : List StageDesc → Except String (Except Err (List (Op Val Val)))
  | [] => .ok (.ok [])
  | d :: ds =>
    match d.op, stagesOps ds with
    | none, _ => .error s!"operator {d.name} cannot be chained"
    | _, .error e => .error e
    | some (.error e), _ => .ok (.error e)
    | some (.ok _), .ok (.error e) => .ok (.error e)
    | some (.ok o), .ok (.ok os) => .ok (.ok (o :: os))

/-- `source.pipe(s1, s2, …)`: the stages composed with the real observer/disposal chain between them -/
def chainOp : List (Op Val Val) → Op Val Val
  | [] => idOp
  | [a] => a
  | a :: b :: rest => a.comp (chainOp (b :: rest))

def handleC05 (j : Json) : Except String Json := do
  let name ← getStr j "name"
  let mode ← getStr j "mode"
  let lag := mode == "raw"
  let tsub ← getInt j "tsub"
  let inp ← (← getArr j "input").mapM timedOfJson
  let idv : Val → Val := id
  let go {α β} (op : Op α β) (cin : Val → α) (cout : β → Val) : Json := runTimed lag op cin cout tsub inp
  match name with
  | "map" =>
    match ← getFnOpt j "f" with
    | some f => pure (go (mapOp f.call) idv idv)
    | none => pure (go (mapOp (fun v : Val => .ok v)) idv idv)          -- mapper or identity
  | "map_indexed" =>
    match ← getFnOpt j "f" with
    | some f => pure (go (mapIndexedOp (fun x i => f.call (.tup [x, .int i]))) idv idv)
    | none => pure (go (mapIndexedOp (fun (x : Val) _ => .ok x)) idv idv)  -- mapper_indexed or _identity
  | "starmap" => pure (go (starmapOp ((← getFnOpt j "f").map tabArgs)) idv idv)
  | "pluck" => pure (go (pluckOp (← getVal j "key")) idv idv)
  | "filter" => pure (go (filterOp (pred1 (← getFn j "p"))) idv idv)
  | "filter_indexed" => pure (go (filterIndexedOp ((← getFnOpt j "p").map pred2)) idv idv)
  | "take" =>
    match take? (α := Val) (← getInt j "n") with
    | .error e => pure (ctorErr e)
    | .ok op => pure (go op idv idv)
  | "skip" =>
    match skip? (α := Val) (← getInt j "n") with
    | .error e => pure (ctorErr e)
    | .ok op => pure (go op idv idv)
  | "take_while" => pure (go (takeWhileOp (pred1 (← getFn j "p")) (← getBool j "inclusive")) idv idv)
  | "take_while_indexed" => pure (go (takeWhileIndexedOp (pred2 (← getFn j "p")) (← getBool j "inclusive")) idv idv)
  | "skip_while" => pure (go (skipWhileOp (pred1 (← getFn j "p"))) idv idv)
  | "skip_while_indexed" => pure (go (skipWhileIndexedOp (pred2 (← getFn j "p"))) idv idv)
  | "distinct" => pure (go (distinctOp (keyFn (← getFnOpt j "key")) (pyEqCmpE (← getFnOpt j "cmp"))) idv idv)
  | "distinct_until_changed" =>
    pure (go (distinctUntilChangedOp (keyFn (← getFnOpt j "key")) (pyEqCmpE (← getFnOpt j "cmp"))) idv idv)
  | "pairwise" => pure (go (pairwiseOp (α := Val)) idv (fun p => .tup [p.1, p.2]))
  | "start_with" => pure (go (startWithOp (← getVals j "args")) idv idv)
  | "default_if_empty" => pure (go (defaultIfEmptyOp (← getVal j "dflt")) idv idv)
  | "ignore_elements" => pure (go (ignoreElementsOp (α := Val)) idv idv)
  | "take_last" => pure (go (takeLastOp (α := Val) (← getInt j "n")) idv idv)
  | "skip_last" => pure (go (skipLastOp (α := Val) (← getInt j "n")) idv idv)
  | "skip_last_asis" => pure (go (skipLastAsIsOp (α := Val) (← getInt j "n")) idv idv)
  | "take_last_buffer" => pure (go (takeLastBufferOp (α := Val) (← getInt j "n")) idv Val.lst)
  | "element_at" =>
    match elementAt? (α := Val) (← getInt j "n") none with
    | .error e => pure (ctorErr e)
    | .ok op => pure (go op idv idv)
  | "element_at_or_default" =>
    match elementAt? (α := Val) (← getInt j "n") (some (← getVal j "dflt")) with
    | .error e => pure (ctorErr e)
    | .ok op => pure (go op idv idv)
  | "find" => pure (go (findOp (pred2 (← getFn j "p"))) idv (fun o => o.getD .none))
  | "find_index" => pure (go (findIndexOp (pred2 (← getFn j "p"))) idv Val.int)
  | "materialize" => pure (go (materializeOp (α := Val)) idv notifToVal)
  | "dematerialize" => pure (go (dematerializeOp (α := Val)) notifOfVal idv)
  | "materialize_dematerialize" => pure (go ((materializeOp (α := Val)).comp dematerializeOp) idv idv)
  | "chain" =>
    let descs ← (← getArr j "stages").mapM stageDescOfJson
    match stagesOps descs with
    | .error e => throw e
    | .ok (.error e) => pure (ctorErr e)
    | .ok (.ok os) => pure (go (chainOp os) idv idv)
  | "slice" =>
    let fixed := (j.getObjValAs? Bool "fixed").toOption.getD true
    match Slice.pipeline fixed (← getOptInt j "start") (← getOptInt j "stop") (← getOptInt j "step") with
    | .error e => pure (ctorErr e)
    | .ok stages => pure (go (Slice.pipeOp (α := Val) stages) idv idv)
  | _ => throw s!"unknown operator {name}"

/-! ### re-entrant feedback runs (`mode = "feedback"`): `{"fb":[notif..],"esc":[]}` -/

def runFbJson {α β} (r : ROp α β) (cin : Val → α) (cout : β → Val) (inp : List (Int × Notif Val)) : Json :=
  let vis := r.runFb 40 (inp.map (fun p => p.2.map cin))
  Json.mkObj [("fb", .arr (vis.map (fun n => notifToJson (n.map cout))).toArray), ("esc", .arr #[])]

def handleFb (j : Json) : Except String Json := do
  let name ← getStr j "name"
  let inp ← (← getArr j "input").mapM timedOfJson
  let idv : Val → Val := id
  let go {α β} (r : ROp α β) (cin : Val → α) (cout : β → Val) : Json := runFbJson r cin cout inp
  match name with
  | "map" =>
    match ← getFnOpt j "f" with
    | some f => pure (go (mapR f.call) idv idv)
    | none => pure (go (mapR (fun v : Val => .ok v)) idv idv)
  | "starmap" => pure (go (mapR (starred ((← getFnOpt j "f").map tabArgs))) idv idv)
  | "pluck" => pure (go (mapR (pluckGet (← getVal j "key"))) idv idv)
  | "filter" => pure (go (filterR (pred1 (← getFn j "p"))) idv idv)
  | "filter_indexed" => pure (go (filterIndexedR ((← getFnOpt j "p").map pred2)) idv idv)
  | "take" =>
    let n ← getInt j "n"
    if n < 0 then pure (ctorErr aoor) else pure (go (takeR (α := Val) n.toNat) idv idv)
  | "skip" =>
    let n ← getInt j "n"
    if n < 0 then pure (ctorErr aoor) else pure (go (skipR (α := Val) n.toNat) idv idv)
  | "take_while" => pure (go (takeWhileR (pred1 (← getFn j "p")) (← getBool j "inclusive")) idv idv)
  | "take_while_indexed" => pure (go (takeWhileIndexedR (pred2 (← getFn j "p")) (← getBool j "inclusive")) idv idv)
  | "skip_while" => pure (go (skipWhileR (pred1 (← getFn j "p"))) idv idv)
  | "distinct" => pure (go (distinctR (keyFn (← getFnOpt j "key")) (pyEqCmpE (← getFnOpt j "cmp"))) idv idv)
  | "distinct_until_changed" =>
    pure (go (distinctUntilChangedR (keyFn (← getFnOpt j "key")) (pyEqCmpE (← getFnOpt j "cmp"))) idv idv)
  | "pairwise" => pure (go (pairwiseR (α := Val)) idv (fun p => .tup [p.1, p.2]))
  | "start_with" => pure (go (startWithR (← getVals j "args")) idv idv)
  | "default_if_empty" => pure (go (defaultIfEmptyR (← getVal j "dflt")) idv idv)
  | "ignore_elements" => pure (go (ignoreElementsR (α := Val)) idv idv)
  | "take_last" => pure (go (takeLastR (α := Val) (← getInt j "n")) idv idv)
  | "skip_last" => pure (go (skipLastR (α := Val) (← getInt j "n")) idv idv)
  | "take_last_buffer" => pure (go (takeLastBufferR (α := Val) (← getInt j "n")) idv Val.lst)
  | "element_at" =>
    let n ← getInt j "n"
    if n < 0 then pure (ctorErr aoor) else pure (go (elementAtOrDefaultR (α := Val) n.toNat none) idv idv)
  | "element_at_or_default" =>
    let n ← getInt j "n"
    if n < 0 then pure (ctorErr aoor) else pure (go (elementAtOrDefaultR (α := Val) n.toNat (some (← getVal j "dflt"))) idv idv)
  | "find" => pure (go (findValueR (pred2 (← getFn j "p")) (fun x _ => some x) (none : Option Val)) idv (fun o => o.getD .none))
  | "find_index" => pure (go (findValueR (pred2 (← getFn j "p")) (fun _ i => (i : Int)) (-1)) idv Val.int)
  | "materialize" => pure (go (materializeR (α := Val)) idv notifToVal)
  | "dematerialize" => pure (go (dematerializeR (α := Val)) notifOfVal idv)
  | "slice" =>
    -- a slice whose pipeline is a single stage is that operator; longer pipelines have no re-entrant model
    match Slice.pipeline true (← getOptInt j "start") (← getOptInt j "stop") (← getOptInt j "step") with
    | .error e => pure (ctorErr e)
    | .ok [.take n] => pure (go (takeR (α := Val) n) idv idv)
    | .ok [.skip n] => pure (go (skipR (α := Val) n) idv idv)
    | .ok [.takeLast n] => pure (go (takeLastR (α := Val) (n : Int)) idv idv)
    | .ok [.skipLast n] => pure (go (skipLastR (α := Val) (n : Int)) idv idv)
    | .ok [.everyNth st] => pure (go (filterIndexedR (α := Val) (some (fun _ i => .ok (i % st == 0)))) idv idv)
    | .ok _ => pure (Json.mkObj [("unsupported", .str name)])
  | _ => pure (Json.mkObj [("unsupported", .str name)])

/-! ### C07 -/

def optIntJson : Option Int → Json
  | none => .null
  | some i => .num (JsonNumber.fromInt i)

def endOfJson (j : Json) : Except String End :=
  match j with
  | .arr #[.str "C"] => pure .completed
  | .arr #[.str "E", .str e] => pure (.error e)
  | .null => pure .open
  | _ => throw "bad end"

/-- `{"op":"slice","start":a,"stop":b,"step":c,"xs":[..],"end":["C"]|["E",name]|null,"fixed":bool}` →
`{"pipe":[notif..],"stages":[..],"py":[vals]}` or `{"ctor":"TypeError"}` -/
def handleSlice (j : Json) : Except String Json := do
  let start ← getOptInt j "start"
  let stop ← getOptInt j "stop"
  let step ← getOptInt j "step"
  let xs ← getVals j "xs"
  let e ← endOfJson ((j.getObjVal? "end").toOption.getD .null)
  let fixed := (j.getObjValAs? Bool "fixed").toOption.getD true
  match Slice.pipeline fixed start stop step with
  | .error err => pure (ctorErr err)
  | .ok stages =>
    let raw := outSeq xs e
    let vis := visible ((Slice.pipeOp (α := Val) stages).run false raw)
    let ev := Slice.evalStages stages xs
    pure (Json.mkObj [
      ("pipe", .arr (vis.map notifToJson).toArray),
      ("stages", .arr (stages.map (fun s => Json.str s.name)).toArray),
      ("eval", .arr (ev.map valToJson).toArray),
      ("py", .arr ((Slice.pySlice xs start stop (step.getD 1)).map valToJson).toArray),
      ("pyidx", .arr ((Slice.pySliceIdx xs start stop (step.getD 1)).map valToJson).toArray)])

def handle (op : String) (j : Json) : Except String Json := do
  match op with
  | "c05" => if (j.getObjValAs? String "mode").toOption == some "feedback" then handleFb j else handleC05 j
  | "slice" => handleSlice j
  | _ => throw s!"unknown op {op}"

end DrvOps

def main : IO Unit := Drv.run DrvOps.handle

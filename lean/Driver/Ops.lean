import Driver.Common
open Lean Drv

namespace DrvOps

def handle (op : String) (_j : Json) : Except String Json := do
  match op with
  | _ => throw s!"unknown op {op}"

end DrvOps

def main : IO Unit := Drv.run DrvOps.handle

import Driver.Common
open Lean Drv

namespace DrvSubj

def handle (op : String) (_j : Json) : Except String Json := do
  match op with
  | _ => throw s!"unknown op {op}"

end DrvSubj

def main : IO Unit := Drv.run DrvSubj.handle

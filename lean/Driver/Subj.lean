import Driver.Common
import RxModel.Subj
import RxModel.SubjReplay
import RxModel.SubjReplayTramp
open Lean Drv

namespace DrvSubj
open Subj

def notifToJson : Notif Val → Json
  | .next v => Json.arr #[.str "N", valToJson v]
  | .error e => Json.arr #[.str "E", .str e]
  | .completed => Json.arr #[.str "C"]

def actionOfJson (j : Json) : Except String Action :=
  match j with
  | .arr #[.str "unsub", n] => do pure (.unsub (← n.getNat?))
  | .arr #[.str "sub", n] => do pure (.sub (← n.getNat?))
  | .arr #[.str "dispose"] => pure .dispose
  | _ => throw s!"bad action {j.compress}"

def callOfJson (j : Json) : Except String (Call Val) :=
  match j with
  | .arr #[.str "sub", n] => do pure (.sub (← n.getNat?))
  | .arr #[.str "unsub", n] => do pure (.unsub (← n.getNat?))
  | .arr #[.str "next", v] => do pure (.next (← valOfJson v))
  | .arr #[.str "error", .str e] => pure (.error e)
  | .arr #[.str "completed"] => pure .completed
  | .arr #[.str "dispose"] => pure .dispose
  | _ => throw s!"bad call {j.compress}"

structure ObsSpec where
  err : Bool
  react : List (Nat × List Action)

def obsOfJson (j : Json) : Except String ObsSpec := do
  let err ← getBool j "err"
  let rs ← (← getArr j "react").mapM fun p =>
    match p with
    | .arr #[n, .arr acts] => do pure ((← n.getNat?), (← acts.toList.mapM actionOfJson))
    | _ => throw "bad react entry"
  pure { err, react := rs }

def cfgOf (kind : Kind) (os : List ObsSpec) : Cfg :=
  { kind
    hasErr := fun i => match os[i]? with | some o => o.err | none => true
    react := fun i k => match os[i]? with
      | some o => (match o.react.find? (fun p => p.1 == k) with | some p => p.2 | none => [])
      | none => [] }

def getOptNat (j : Json) (k : String) : Except String (Option Nat) :=
  match j.getObjVal? k with
  | .ok .null => pure none
  | .ok v => do pure (some (← v.getNat?))
  | .error _ => pure none

def ractionOfJson (j : Json) : Except String (SubjReplay.RAction Val) :=
  match j with
  | .arr #[.str "next", v] => do pure (.emit (.next (← valOfJson v)))
  | .arr #[.str "error", .str e] => pure (.emit (.error e))
  | .arr #[.str "completed"] => pure (.emit .completed)
  | _ => do pure (.base (← actionOfJson j))

structure RObsSpec where
  err : Bool
  react : List (Nat × List (SubjReplay.RAction Val))

def robsOfJson (j : Json) : Except String RObsSpec := do
  let err ← getBool j "err"
  let rs ← (← getArr j "react").mapM fun p =>
    match p with
    | .arr #[n, .arr acts] => do pure ((← n.getNat?), (← acts.toList.mapM ractionOfJson))
    | _ => throw "bad react entry"
  pure { err, react := rs }

def evToJson : SubjReplay.EvR Val → Json
  | .emit i now n => Json.arr #[.str "emit", .num (JsonNumber.fromNat i), .num (JsonNumber.fromNat now), notifToJson n]
  | .call k now nobs _ => Json.arr #[.str "call", .num (JsonNumber.fromNat k), .num (JsonNumber.fromNat now), .num (JsonNumber.fromNat nobs)]
  | .sub j now => Json.arr #[.str "sub", .num (JsonNumber.fromNat j), .num (JsonNumber.fromNat now)]
  | .unsub j => Json.arr #[.str "unsub", .num (JsonNumber.fromNat j)]
  | .dispose => Json.arr #[.str "dispose"]
  | .cb i now => Json.arr #[.str "cb", .num (JsonNumber.fromNat i), .num (JsonNumber.fromNat now)]

def optErr : Option Err → Json
  | some e => .str e
  | none => .null

def handle (op : String) (j : Json) : Except String Json := do
  match op with
  | "subj" =>
    let kind ← (do
      match (← getStr j "kind") with
      | "subject" => pure Kind.subject
      | "behavior" => pure Kind.behavior
      | "async" => pure Kind.async
      | k => throw s!"bad kind {k}" : Except String Kind)
    let os ← (← getArr j "observers").mapM obsOfJson
    let calls ← (← getArr j "calls").mapM callOfJson
    let initial ← (match kind with
      | .behavior => do pure (some (← getVal j "init"))
      | _ => pure none : Except String (Option Val))
    let cfg := cfgOf kind os
    let (st, raised) := run cfg 100000 (init cfg initial) calls
    let logs := (List.range os.length).map fun i => Json.arr (((st.log i).map notifToJson).toArray)
    pure (Json.mkObj [("logs", Json.arr logs.toArray),
                      ("xs", Json.arr (st.xlog.map fun (i, e) => Json.arr #[.num (JsonNumber.fromNat i), .str e]).toArray),
                      ("raised", Json.arr (raised.map optErr).toArray),
                      ("nobs", Json.arr ((runObsCounts cfg 100000 (init cfg initial) calls).map fun n => Json.num (JsonNumber.fromNat n)).toArray),
                      ("oof", .bool st.oof)])
  | "replay_tramp" =>
    let os ← (← getArr j "observers").mapM robsOfJson
    let calls ← (← getArr j "calls").mapM fun p =>
      match p with
      | .arr #[t, c] => do pure ((← t.getNat?), (← callOfJson c))
      | _ => throw "bad timed call"
    let buffer ← getOptNat j "buffer"
    let window ← getOptNat j "window"
    let cfg : SubjReplay.Cfg Val :=
      { bufferSize := buffer, window := window
        hasErr := fun i => match os[i]? with | some o => o.err | none => true
        react := fun i k => match os[i]? with
          | some o => (match o.react.find? (fun p => p.1 == k) with | some p => p.2 | none => [])
          | none => [] }
    let s := SubjTramp.runT cfg 1000000 {} 0 calls
    let st := s.base
    let logs := (List.range os.length).map fun i =>
      Json.arr (((st.log i).map fun (t, n) => Json.arr #[.num (JsonNumber.fromNat t), notifToJson n]).toArray)
    pure (Json.mkObj [("logs", Json.arr logs.toArray),
                      ("xs", Json.arr (st.xlog.map fun (i, e) => Json.arr #[.num (JsonNumber.fromNat i), .str e]).toArray),
                      ("raised", Json.arr (st.raised.map fun (k, e) => Json.arr #[.num (JsonNumber.fromNat k), .str e]).toArray),
                      ("crashed", optErr st.crashed),
                      ("order", Json.arr (st.evs.map evToJson).toArray),
                      ("idle", .bool (s.agenda.isEmpty && !s.active && st.pending.isEmpty))])
  | "replay" =>
    let os ← (← getArr j "observers").mapM robsOfJson
    let calls ← (← getArr j "calls").mapM fun p =>
      match p with
      | .arr #[t, c] => do pure ((← t.getNat?), (← callOfJson c))
      | _ => throw "bad timed call"
    let buffer ← getOptNat j "buffer"
    let window ← getOptNat j "window"
    let cfg : SubjReplay.Cfg Val :=
      { bufferSize := buffer, window := window
        hasErr := fun i => match os[i]? with | some o => o.err | none => true
        react := fun i k => match os[i]? with
          | some o => (match o.react.find? (fun p => p.1 == k) with | some p => p.2 | none => [])
          | none => [] }
    let st := SubjReplay.run cfg 1000000 calls
    let logs := (List.range os.length).map fun i =>
      Json.arr (((st.log i).map fun (t, n) => Json.arr #[.num (JsonNumber.fromNat t), notifToJson n]).toArray)
    pure (Json.mkObj [("logs", Json.arr logs.toArray),
                      ("xs", Json.arr (st.xlog.map fun (i, e) => Json.arr #[.num (JsonNumber.fromNat i), .str e]).toArray),
                      ("raised", Json.arr (st.raised.map fun (k, e) => Json.arr #[.num (JsonNumber.fromNat k), .str e]).toArray),
                      ("crashed", optErr st.crashed),
                      ("order", Json.arr (st.evs.map evToJson).toArray),
                      ("idle", .bool (SubjReplay.idle st))])
  | _ => throw s!"unknown op {op}"

end DrvSubj

def main : IO Unit := Drv.run DrvSubj.handle

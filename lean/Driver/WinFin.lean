import Driver.Common
import RxModel.WinFin
open Lean Drv

/-! Driver ops for C40 (using / finally / do); ops are prefixed `fin_`. Dispatched from `Driver/Win.lean`. -/
namespace DrvWinFin
open WinFin

def notifOfJson (j : Json) : Except String (Notif Val) := do
  match j with
  | .arr #[.str "N", v] => pure (.next (← valOfJson v))
  | .arr #[.str "E", .str e] => pure (.error e)
  | .arr #[.str "C"] => pure .completed
  | _ => throw s!"bad notification {j.compress}"

def evOfJson (j : Json) : Except String (Int × Ev Val) := do
  match j with
  | .arr #[t, .arr #[.str "D"]] => pure ((← t.getInt?), .dispose)
  | .arr #[t, n] => pure ((← t.getInt?), .src (← notifOfJson n))
  | _ => throw s!"bad event {j.compress}"

def operOfString : String → Except String Oper
  | "using" => pure .using
  | "finally_action" => pure .finallyAction
  | "do_finally" => pure .doFinally
  | "do_action" => pure .doAction
  | "do" => pure .doAction
  | "do_after_next" => pure .doAfterNext
  | "do_on_subscribe" => pure .doOnSubscribe
  | "do_on_dispose" => pure .doOnDispose
  | "do_on_terminate" => pure .doOnTerminate
  | "do_after_terminate" => pure .doAfterTerminate
  | s => throw s!"unknown operator {s}"

def actName : ActK → String
  | .next => "next" | .error => "error" | .completed => "completed" | .afterNext => "after_next"
  | .subscribe => "subscribe" | .dispose => "dispose" | .terminate => "terminate"
  | .afterTerminate => "after_terminate" | .fin => "finally" | .resf => "resf" | .obsf => "obsf"

def effToJson : Eff Val → Json
  | .emit (.next v) r => Json.arr #[.str "N", valToJson v, .bool r]
  | .emit (.error e) r => Json.arr #[.str "E", .str e, .bool r]
  | .emit .completed r => Json.arr #[.str "C", .bool r]
  | .act k (some (.next v)) r => Json.arr #[.str "act", .str (actName k), valToJson v, .bool r]
  | .act k (some (.error e)) r => Json.arr #[.str "act", .str (actName k), .str e, .bool r]
  | .act k _ r => Json.arr #[.str "act", .str (actName k), .bool r]
  | .resDispose => Json.arr #[.str "resD"]
  | .srcDispose => Json.arr #[.str "srcD"]
  | .escape e => Json.arr #[.str "esc", .str e]

def natList (j : Json) (k : String) : Except String (List Nat) := do
  pure ((← getArr j k).filterMap (fun x => x.getNat?.toOption))

def handle (op : String) (j : Json) : Except String Json := do
  match op with
  | "fin_run" =>
    let oper ← operOfString (← getStr j "oper")
    let subR ← natList j "sub_raises"
    let actR ← natList j "act_raises"
    let has ← (do pure ((← getArr j "has").map (fun x => x.getBool?.toOption.getD true)) : Except String (List Bool))
    let isDo := (← getStr j "oper") == "do"
    let resf ← (match (← getStr j "res") with
      | "some" => pure ResK.some | "none" => pure ResK.none | "raise" => pure ResK.raise
      | s => throw s!"bad res {s}" : Except String ResK)
    let c : Cfg := {
      oper, subRaises := fun k => subR.contains k, actRaises := fun k => actR.contains k,
      cbErr := fun k => s!"cb{k}", actErr := fun k => s!"act{k}",
      hasNext := isDo || has.getD 0 true, hasError := isDo || has.getD 1 true, hasCompleted := isDo || has.getD 2 true,
      resf, obsfRaises := (← getStr j "obsf") == "raise",
      -- `res_kind` (truthy / falsy resource objects) is deliberately not read: `if resource is not None`
      srcDisposeRaises := (j.getObjValAs? Bool "srcd_raises").toOption.getD false }
    let sync ← (← getArr j "sync").mapM notifOfJson
    let syncExn := (j.getObjValAs? String "sync_exn").toOption
    let evs ← (← getArr j "trace").mapM evOfJson
    let prop := (j.getObjValAs? Bool "sync_prop").toOption.getD false
    let (log, handle) := runTimed c (← getInt j "t_sub") { emits := sync, exn := syncExn, propagate := prop } evs
    pure (Json.mkObj [("log", Json.arr (log.map (fun (t, e) => Json.arr #[.num (JsonNumber.fromInt t), effToJson e])).toArray),
                      ("subscribed", .bool handle)])
  | _ => throw s!"unknown op {op}"

end DrvWinFin

import Driver.Common
import RxModel.Thr2Lock
import RxModel.Thr2Aio
import RxModel.Thr2Merge
import RxModel.Thr2Timer
open Lean Drv

namespace DrvThr2
open Thr2

def kindToNotif : String → Except String (Notif Val)
  | "N" => pure (.next .none)
  | "E" => pure (.error "e")
  | "C" => pure .completed
  | k => throw s!"bad notification kind {k}"

def notifKind : Notif Val → String
  | .next _ => "N"
  | .error _ => "E"
  | .completed => "C"

def opOfJson (j : Json) : Except String (Op Val) := do
  match j with
  | .str "acq" => pure .acq
  | .str "rel" => pure .rel
  | .str "free" => pure .free
  | .arr #[.str "call", .str k] => do pure (.call (← kindToNotif k))
  | _ => throw s!"bad op {j.compress}"

def nth {β} (l : List β) (i : Nat) (d : β) : β := (l[i]?).getD d

/-- `lock_replay`: per-thread straight-line programs (ops observed on the real run) executed by the
interleaving model under the observed schedule.  Returns the label of every step the model took,
what it delivered to the subscriber, the maximal number of threads inside a callback and the
order of lock acquisitions. -/
def lockReplay (j : Json) : Except String Json := do
  let progsJ ← getArr j "progs"
  let progs ← progsJ.mapM fun pj =>
    match pj with
    | .arr ops => ops.toList.mapM opOfJson
    | _ => throw "bad program"
  let sched := (← getArr j "sched").filterMap (fun x => x.getNat?.toOption)
  let tprogs := progs.map progOf
  let S0 : Sys Unit Val := init () (fun i => nth tprogs i .halt)
  let (labels, S) := runLabels S0 sched
  pure (Json.mkObj [
    ("labels", Json.arr (labels.map Json.str).toArray),
    ("delivered", Json.arr (S.delivered.map (fun n => Json.str (notifKind n))).toArray),
    ("calls", Json.arr (S.calls.map (fun n => Json.str (notifKind n))).toArray),
    ("max_active", .num (JsonNumber.fromNat S.maxActive)),
    ("acq", Json.arr (S.acq.map (fun i => Json.num (JsonNumber.fromNat i))).toArray),
    ("lock_free", .bool S.lock.isNone)])

def notifsOf (j : Json) (k : String) : Except String (List (Notif Val)) := do
  (← getArr j k).mapM fun x =>
    match x with
    | .str s => kindToNotif s
    | _ => throw "bad notification"

/-- `amb_run`: the `amb` model itself (two sides, any schedule). -/
def ambRun (j : Json) : Except String Json := do
  let ls ← notifsOf j "left"
  let rs ← notifsOf j "right"
  let sched := (← getArr j "sched").filterMap (fun x => x.getNat?.toOption)
  let S := runSched (init none (ambProgs ls rs)) sched
  pure (Json.mkObj [
    ("delivered", Json.arr (S.delivered.map (fun n => Json.str (notifKind n))).toArray),
    ("max_active", .num (JsonNumber.fromNat S.maxActive)),
    ("choice", match S.st with | none => .null | some b => .bool b)])

/-- run thread `t` through one locked block: acquire, all steps, release -/
def runBlock {σ} (S : Thr2.Sys σ Val) (t : Nat) : Thr2.Sys σ Val :=
  let S1 := (Thr2.step S t).getD S
  let rec go (fuel : Nat) (S : Thr2.Sys σ Val) : Thr2.Sys σ Val :=
    match fuel with
    | 0 => S
    | f + 1 => if (S.thr t).holds then go f ((Thr2.step S t).getD S) else S
  go 16 S1

def stepOnce {σ} (S : Thr2.Sys σ Val) (t : Nat) : Thr2.Sys σ Val := (Thr2.step S t).getD S

/-- `merge_seq`: the merge_all model run handler by handler in a given order (sequential schedule). -/
def mergeSeq (j : Json) : Except String Json := do
  let outer ← (← getArr j "outer").mapM fun e =>
    match e with
    | .arr #[.str "I", k] => do pure (Thr2.OEv.inner (← k.getNat?))
    | .arr #[.str "E"] => pure (Thr2.OEv.err "e")
    | .arr #[.str "C"] => pure Thr2.OEv.comp
    | _ => throw s!"bad outer event {e.compress}"
  let inners ← (← getArr j "inners").mapM fun l =>
    match l with
    | .arr ks => ks.toList.mapM fun k => match k with | .str s => kindToNotif s | _ => throw "bad kind"
    | _ => throw "bad inner"
  let order := (← getArr j "order").filterMap (fun x => x.getNat?.toOption)
  let S0 : Thr2.Sys Thr2.MS Val := Thr2.init {} (Thr2.mergeProgs outer (fun k => nth inners k []))
  -- one handler of thread t: the event decides which atomic steps / locked block it consists of
  let handler := fun (acc : Thr2.Sys Thr2.MS Val × List Nat) (t : Nat) =>
    let (S, pos) := acc
    let p := nth pos t 0
    let pos' := pos.set t (p + 1)
    if t = 0 then
      match outer[p]? with
      | none => (S, pos')
      | some (.inner k) =>
        let replay := !(S.st.closed || S.st.added.contains k) && (Thr2.replayOf (α := Val) S.st k).isSome
        let S1 := stepOnce S 0
        (if replay then runBlock S1 0 else S1, pos')
      | some _ => (runBlock S 0, pos')
    else
      match (nth inners (t - 1) [])[p]? with
      | none => (S, pos')
      | some _ =>
        let handled := !S.st.iterm.contains (t - 1) && S.st.added.contains (t - 1)
        let S1 := stepOnce S t
        (if handled then runBlock S1 t else S1, pos')
  let (S, _) := order.foldl handler (S0, List.replicate (inners.length + 1) 0)
  pure (Json.mkObj [
    ("calls", Json.arr (S.calls.map (fun n => Json.str (notifKind n))).toArray),
    ("delivered", Json.arr (S.delivered.map (fun n => Json.str (notifKind n))).toArray)])

/-- `aio_replay`: the asyncio model of one scheduled action under an observed schedule. -/
def aioReplay (j : Json) : Except String Json := do
  let fl ← (do match (← getStr j "fl") with
    | "plain" => pure Thr2Aio.Flavour.plain | "ts" => pure .ts | x => throw s!"bad fl {x}" : Except String Thr2Aio.Flavour)
  let kind ← (do match (← getStr j "kind") with
    | "soon" => pure Thr2Aio.Kind.soon | "rel" => pure .rel | x => throw s!"bad kind {x}" : Except String Thr2Aio.Kind)
  let smode ← (do match (← getStr j "smode") with
    | "onLoop" => pure Thr2Aio.SMode.onLoop | "foreign" => pure .foreign | "pre" => pure .pre
    | x => throw s!"bad smode {x}" : Except String Thr2Aio.SMode)
  let mode ← (do match (← getStr j "mode") with
    | "onLoop" => pure Thr2Aio.Mode.onLoop | "foreign" => pure .foreign | "notRunning" => pure .notRunning
    | x => throw s!"bad mode {x}" : Except String Thr2Aio.Mode)
  let test ← (do match (← getStr j "test") with
    | "asIs" => pure Thr2Aio.Test.asIs | "fixed" => pure .fixed | x => throw s!"bad test {x}" : Except String Thr2Aio.Test)
  let c : Thr2Aio.Cfg := ⟨fl, kind, smode, mode, test⟩
  let sched := (← getArr j "sched").filterMap (fun x => x.getNat?.toOption)
  let (labels, s) := Thr2Aio.runLabels c (Thr2Aio.init c) sched
  pure (Json.mkObj [
    ("labels", Json.arr (labels.map Json.str).toArray),
    ("started", .bool s.started), ("returned", .bool s.returned), ("late", .bool s.late), ("early", .bool s.early)])

/-- `timer_replay`: the real-time scheduler model of one action under an observed schedule;
`imm`: the ImmediateScheduler functions. -/
def timerReplay (j : Json) : Except String Json := do
  let kind ← (do match (← getStr j "kind") with
    | "timer" => pure Thr2Timer.SKind.timer | "evloop" => pure .evloop | x => throw s!"bad kind {x}" : Except String Thr2Timer.SKind)
  let imm ← getBool j "immediate"
  let c : Thr2Timer.Cfg := ⟨kind, imm⟩
  let sched := (← getArr j "sched").filterMap (fun x => x.getNat?.toOption)
  let (labels, s) := Thr2Timer.runLabels c (Thr2Timer.init c) sched
  pure (Json.mkObj [
    ("labels", Json.arr (labels.map Json.str).toArray),
    ("started", .bool s.started), ("early", .bool s.early), ("bad", .bool s.bad)])

/-- `loopn_replay`: any number of items on one event-loop thread under an observed schedule. -/
def loopnReplay (j : Json) : Except String Json := do
  let order := (← getArr j "order").filterMap (fun x => x.getNat?.toOption)
  let ranks := (← getArr j "ranks").filterMap (fun x => x.getNat?.toOption)
  let acts ← (← getArr j "sched").mapM fun a =>
    match a with
    | .arr #[.str "loop"] => pure Thr2LoopN.Act.loop
    | .arr #[.str "tick", r] => do pure (Thr2LoopN.Act.tick (← r.getNat?))
    | .arr #[.str "dispose", i] => do pure (Thr2LoopN.Act.dispose (← i.getNat?))
    | .arr #[.str "earlyWake"] => pure Thr2LoopN.Act.earlyWake
    | _ => throw s!"bad action {a.compress}"
  let c : Thr2LoopN.Cfg := ⟨order, fun i => nth ranks i 0, .flag⟩
  let (labels, s) := Thr2LoopN.runLabels c Thr2LoopN.init acts
  pure (Json.mkObj [
    ("labels", Json.arr (labels.map Json.str).toArray),
    ("started", Json.arr ((List.range ranks.length).map (fun i => Json.bool (s.started i))).toArray),
    ("too_early", .bool s.tooEarly), ("bad", .bool s.bad)])

/-- `periodic_replay`: the NewThreadScheduler.schedule_periodic loop under an observed schedule. -/
def periodicReplay (j : Json) : Except String Json := do
  let p0 ← getBool j "period0"
  let sched := (← getArr j "sched").filterMap (fun x => x.getNat?.toOption)
  let (labels, s) := Thr2Periodic.runLabels (Thr2Periodic.init p0) sched
  pure (Json.mkObj [("labels", Json.arr (labels.map Json.str).toArray), ("bad", .bool s.bad)])

def immOut : Thr2Timer.ImmOut → Json
  | .ranSync => .str "ran"
  | .wouldBlock => .str "wouldblock"

def immRun (j : Json) : Except String Json := do
  match (← getStr j "how") with
  | "schedule" => pure (immOut Thr2Timer.immSchedule)
  | "relative" => do pure (immOut (Thr2Timer.immRelative (← getInt j "delay")))
  | "absolute" => do pure (immOut (Thr2Timer.immAbsolute (← getInt j "due") (← getInt j "now")))
  | x => throw s!"bad how {x}"

def handle (op : String) (j : Json) : Except String Json := do
  match op with
  | "timer_replay" => timerReplay j
  | "loopn_replay" => loopnReplay j
  | "periodic_replay" => periodicReplay j
  | "imm" => immRun j
  | "merge_seq" => mergeSeq j
  | "lock_replay" => lockReplay j
  | "amb_run" => ambRun j
  | "aio_replay" => aioReplay j
  | _ => throw s!"unknown op {op}"

end DrvThr2

def main : IO Unit := Drv.run DrvThr2.handle

import Driver.Common
import RxModel.Thr2Lock
open Lean Drv

namespace DrvThr2
open Thr2

def kindToNotif : String → Except String (Notif Val)
  | "N" => pure (.next .none)
  | "E" => pure (.error "e")
  | "C" => pure .completed
  | k => throw s!"bad notification kind {k}"

def notifKind : Notif Val → String
  | .next _ => "N"
  | .error _ => "E"
  | .completed => "C"

def opOfJson (j : Json) : Except String (Op Val) := do
  match j with
  | .str "acq" => pure .acq
  | .str "rel" => pure .rel
  | .str "free" => pure .free
  | .arr #[.str "call", .str k] => do pure (.call (← kindToNotif k))
  | _ => throw s!"bad op {j.compress}"

def nth {β} (l : List β) (i : Nat) (d : β) : β := (l[i]?).getD d

/-- `lock_replay`: per-thread straight-line programs (ops observed on the real run) executed by the
interleaving model under the observed schedule.  Returns the label of every step the model took,
what it delivered to the subscriber, the maximal number of threads inside a callback and the
order of lock acquisitions. -/
def lockReplay (j : Json) : Except String Json := do
  let progsJ ← getArr j "progs"
  let progs ← progsJ.mapM fun pj =>
    match pj with
    | .arr ops => ops.toList.mapM opOfJson
    | _ => throw "bad program"
  let sched := (← getArr j "sched").filterMap (fun x => x.getNat?.toOption)
  let tprogs := progs.map progOf
  let S0 : Sys Unit Val := init () (fun i => nth tprogs i .halt)
  let (labels, S) := runLabels S0 sched
  pure (Json.mkObj [
    ("labels", Json.arr (labels.map Json.str).toArray),
    ("delivered", Json.arr (S.delivered.map (fun n => Json.str (notifKind n))).toArray),
    ("calls", Json.arr (S.calls.map (fun n => Json.str (notifKind n))).toArray),
    ("max_active", .num (JsonNumber.fromNat S.maxActive)),
    ("acq", Json.arr (S.acq.map (fun i => Json.num (JsonNumber.fromNat i))).toArray),
    ("lock_free", .bool S.lock.isNone)])

def notifsOf (j : Json) (k : String) : Except String (List (Notif Val)) := do
  (← getArr j k).mapM fun x =>
    match x with
    | .str s => kindToNotif s
    | _ => throw "bad notification"

/-- `amb_run`: the `amb` model itself (two sides, any schedule). -/
def ambRun (j : Json) : Except String Json := do
  let ls ← notifsOf j "left"
  let rs ← notifsOf j "right"
  let sched := (← getArr j "sched").filterMap (fun x => x.getNat?.toOption)
  let S := runSched (init none (ambProgs ls rs)) sched
  pure (Json.mkObj [
    ("delivered", Json.arr (S.delivered.map (fun n => Json.str (notifKind n))).toArray),
    ("max_active", .num (JsonNumber.fromNat S.maxActive)),
    ("choice", match S.st with | none => .null | some b => .bool b)])

def handle (op : String) (j : Json) : Except String Json := do
  match op with
  | "lock_replay" => lockReplay j
  | "amb_run" => ambRun j
  | _ => throw s!"unknown op {op}"

end DrvThr2

def main : IO Unit := Drv.run DrvThr2.handle

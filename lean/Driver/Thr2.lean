import Driver.Common
import RxModel.Thr2Lock
import RxModel.Thr2Aio
import RxModel.Thr2Timer
open Lean Drv

namespace DrvThr2
open Thr2

def kindToNotif : String → Except String (Notif Val)
  | "N" => pure (.next .none)
  | "E" => pure (.error "e")
  | "C" => pure .completed
  | k => throw s!"bad notification kind {k}"

def notifKind : Notif Val → String
  | .next _ => "N"
  | .error _ => "E"
  | .completed => "C"

def opOfJson (j : Json) : Except String (Op Val) := do
  match j with
  | .str "acq" => pure .acq
  | .str "rel" => pure .rel
  | .str "free" => pure .free
  | .arr #[.str "call", .str k] => do pure (.call (← kindToNotif k))
  | _ => throw s!"bad op {j.compress}"

def nth {β} (l : List β) (i : Nat) (d : β) : β := (l[i]?).getD d

/-- `lock_replay`: per-thread straight-line programs (ops observed on the real run) executed by the
interleaving model under the observed schedule.  Returns the label of every step the model took,
what it delivered to the subscriber, the maximal number of threads inside a callback and the
order of lock acquisitions. -/
def lockReplay (j : Json) : Except String Json := do
  let progsJ ← getArr j "progs"
  let progs ← progsJ.mapM fun pj =>
    match pj with
    | .arr ops => ops.toList.mapM opOfJson
    | _ => throw "bad program"
  let sched := (← getArr j "sched").filterMap (fun x => x.getNat?.toOption)
  let tprogs := progs.map progOf
  let S0 : Sys Unit Val := init () (fun i => nth tprogs i .halt)
  let (labels, S) := runLabels S0 sched
  pure (Json.mkObj [
    ("labels", Json.arr (labels.map Json.str).toArray),
    ("delivered", Json.arr (S.delivered.map (fun n => Json.str (notifKind n))).toArray),
    ("calls", Json.arr (S.calls.map (fun n => Json.str (notifKind n))).toArray),
    ("max_active", .num (JsonNumber.fromNat S.maxActive)),
    ("acq", Json.arr (S.acq.map (fun i => Json.num (JsonNumber.fromNat i))).toArray),
    ("lock_free", .bool S.lock.isNone)])

def notifsOf (j : Json) (k : String) : Except String (List (Notif Val)) := do
  (← getArr j k).mapM fun x =>
    match x with
    | .str s => kindToNotif s
    | _ => throw "bad notification"

/-- `amb_run`: the `amb` model itself (two sides, any schedule). -/
def ambRun (j : Json) : Except String Json := do
  let ls ← notifsOf j "left"
  let rs ← notifsOf j "right"
  let sched := (← getArr j "sched").filterMap (fun x => x.getNat?.toOption)
  let S := runSched (init none (ambProgs ls rs)) sched
  pure (Json.mkObj [
    ("delivered", Json.arr (S.delivered.map (fun n => Json.str (notifKind n))).toArray),
    ("max_active", .num (JsonNumber.fromNat S.maxActive)),
    ("choice", match S.st with | none => .null | some b => .bool b)])

/-- `aio_replay`: the asyncio model of one scheduled action under an observed schedule. -/
def aioReplay (j : Json) : Except String Json := do
  let fl ← (do match (← getStr j "fl") with
    | "plain" => pure Thr2Aio.Flavour.plain | "ts" => pure .ts | x => throw s!"bad fl {x}" : Except String Thr2Aio.Flavour)
  let kind ← (do match (← getStr j "kind") with
    | "soon" => pure Thr2Aio.Kind.soon | "rel" => pure .rel | x => throw s!"bad kind {x}" : Except String Thr2Aio.Kind)
  let smode ← (do match (← getStr j "smode") with
    | "onLoop" => pure Thr2Aio.SMode.onLoop | "foreign" => pure .foreign | "pre" => pure .pre
    | x => throw s!"bad smode {x}" : Except String Thr2Aio.SMode)
  let mode ← (do match (← getStr j "mode") with
    | "onLoop" => pure Thr2Aio.Mode.onLoop | "foreign" => pure .foreign | "notRunning" => pure .notRunning
    | x => throw s!"bad mode {x}" : Except String Thr2Aio.Mode)
  let test ← (do match (← getStr j "test") with
    | "asIs" => pure Thr2Aio.Test.asIs | "fixed" => pure .fixed | x => throw s!"bad test {x}" : Except String Thr2Aio.Test)
  let c : Thr2Aio.Cfg := ⟨fl, kind, smode, mode, test⟩
  let sched := (← getArr j "sched").filterMap (fun x => x.getNat?.toOption)
  let (labels, s) := Thr2Aio.runLabels c (Thr2Aio.init c) sched
  pure (Json.mkObj [
    ("labels", Json.arr (labels.map Json.str).toArray),
    ("started", .bool s.started), ("returned", .bool s.returned), ("late", .bool s.late), ("early", .bool s.early)])

/-- `timer_replay`: the real-time scheduler model of one action under an observed schedule;
`imm`: the ImmediateScheduler functions. -/
def timerReplay (j : Json) : Except String Json := do
  let kind ← (do match (← getStr j "kind") with
    | "timer" => pure Thr2Timer.SKind.timer | "evloop" => pure .evloop | x => throw s!"bad kind {x}" : Except String Thr2Timer.SKind)
  let imm ← getBool j "immediate"
  let c : Thr2Timer.Cfg := ⟨kind, imm⟩
  let sched := (← getArr j "sched").filterMap (fun x => x.getNat?.toOption)
  let (labels, s) := Thr2Timer.runLabels c (Thr2Timer.init c) sched
  pure (Json.mkObj [
    ("labels", Json.arr (labels.map Json.str).toArray),
    ("started", .bool s.started), ("early", .bool s.early), ("bad", .bool s.bad)])

def immOut : Thr2Timer.ImmOut → Json
  | .ranSync => .str "ran"
  | .wouldBlock => .str "wouldblock"

def immRun (j : Json) : Except String Json := do
  match (← getStr j "how") with
  | "schedule" => pure (immOut Thr2Timer.immSchedule)
  | "relative" => do pure (immOut (Thr2Timer.immRelative (← getInt j "delay")))
  | "absolute" => do pure (immOut (Thr2Timer.immAbsolute (← getInt j "due") (← getInt j "now")))
  | x => throw s!"bad how {x}"

def handle (op : String) (j : Json) : Except String Json := do
  match op with
  | "timer_replay" => timerReplay j
  | "imm" => immRun j
  | "lock_replay" => lockReplay j
  | "amb_run" => ambRun j
  | "aio_replay" => aioReplay j
  | _ => throw s!"unknown op {op}"

end DrvThr2

def main : IO Unit := Drv.run DrvThr2.handle

import Lean.Data.Json
import RxModel.Val
/-!
# Driver.Common — JSON line protocol shared by all model drivers

One request per line (a JSON object with an `"op"` field), one response per line.
Value encoding (mirrors `harness/fw/values.py`):
`null`→None, `true/false`→bool, number→int, `{"f":"0.5"}`→float (repr),
string→str, `{"t":[..]}`→tuple, `[..]`→list, `{"d":[[k,v],..]}`→dict.
-/
open Lean

namespace Drv

partial def valOfJson : Json → Except String Val
  | .null => pure .none
  | .bool b => pure (.bool b)
  | .num n => if n.exponent == 0 then pure (.int n.mantissa) else throw s!"non-integer number {n}"
  | .str s => pure (.str s)
  | .arr xs => do pure (.lst (← xs.toList.mapM valOfJson))
  | .obj kvs =>
    match kvs.toList with
    | [("f", .str s)] => pure (.flt s)
    | [("t", .arr xs)] => do pure (.tup (← xs.toList.mapM valOfJson))
    | [("d", .arr xs)] => do
        let ps ← xs.toList.mapM fun p =>
          match p with
          | .arr #[k, v] => do pure ((← valOfJson k), (← valOfJson v))
          | _ => throw "bad dict entry"
        pure (.dct ps)
    | _ => throw s!"bad value object {Json.compress (.obj kvs)}"

partial def valToJson : Val → Json
  | .none => .null
  | .bool b => .bool b
  | .int i => .num (JsonNumber.fromInt i)
  | .flt s => Json.mkObj [("f", .str s)]
  | .str s => .str s
  | .tup xs => Json.mkObj [("t", .arr (xs.map valToJson).toArray)]
  | .lst xs => .arr (xs.map valToJson).toArray
  | .dct kvs => Json.mkObj [("d", .arr (kvs.map fun (k, v) => Json.arr #[valToJson k, valToJson v]).toArray)]

/-- result of a user callback: a value or a raised exception (named). -/
abbrev Res := Except String Val

def resOfJson (j : Json) : Except String Res :=
  match j with
  | .obj kvs =>
    match kvs.toList with
    | [("raise", .str e)] => pure (.error e)
    | _ => do pure (.ok (← valOfJson j))
  | _ => do pure (.ok (← valOfJson j))

def resToJson : Res → Json
  | .ok v => valToJson v
  | .error e => Json.mkObj [("raise", .str e)]

/-- A user callback as a finite table `{"tab":[[arg,res],..],"dflt":res}`; the argument of an
n-ary callback is the tuple of its arguments.  Lookup is by `(type, repr)` equality. -/
structure FnTab where
  tab : List (Val × Res)
  dflt : Res

def fnOfJson (j : Json) : Except String FnTab := do
  let tabJ ← j.getObjValAs? (Array Json) "tab"
  let tab ← tabJ.toList.mapM fun p =>
    match p with
    | .arr #[k, r] => do pure ((← valOfJson k), (← resOfJson r))
    | _ => throw "bad table entry"
  let dflt ← resOfJson (← j.getObjVal? "dflt")
  pure { tab, dflt }

def FnTab.call (f : FnTab) (x : Val) : Res :=
  match f.tab.find? (fun (k, _) => k == x) with
  | some (_, r) => r
  | none => f.dflt

def getStr (j : Json) (k : String) : Except String String := j.getObjValAs? String k
def getInt (j : Json) (k : String) : Except String Int := j.getObjValAs? Int k
def getNat (j : Json) (k : String) : Except String Nat := j.getObjValAs? Nat k
def getBool (j : Json) (k : String) : Except String Bool := j.getObjValAs? Bool k
def getArr (j : Json) (k : String) : Except String (List Json) := do
  pure (← j.getObjValAs? (Array Json) k).toList
def getVal (j : Json) (k : String) : Except String Val := do valOfJson (← j.getObjVal? k)
def getVals (j : Json) (k : String) : Except String (List Val) := do (← getArr j k).mapM valOfJson
def getFn (j : Json) (k : String) : Except String FnTab := do fnOfJson (← j.getObjVal? k)
def getOptInt (j : Json) (k : String) : Except String (Option Int) :=
  match j.getObjVal? k with
  | .ok .null => pure none
  | .ok v => do pure (some (← v.getInt?))
  | .error _ => pure none

partial def loop (h : IO.FS.Stream) (out : IO.FS.Stream) (handle : Json → Except String Json) : IO Unit := do
  let line ← h.getLine
  if line.isEmpty then return ()
  let resp :=
    match Json.parse line with
    | .error e => Json.mkObj [("error", .str s!"parse: {e}")]
    | .ok j =>
      match handle j with
      | .ok r => r
      | .error e => Json.mkObj [("error", .str e)]
  out.putStrLn resp.compress
  loop h out handle

/-- Standard `main`: dispatch each request on its `"op"` field. -/
def run (handle : String → Json → Except String Json) : IO Unit := do
  let stdin ← IO.getStdin
  let stdout ← IO.getStdout
  loop stdin stdout fun j => do
    let op ← getStr j "op"
    handle op j
  stdout.flush

end Drv

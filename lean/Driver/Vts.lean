import Driver.Common
import RxModel.Vts
import RxModel.VtsPeriodic
import RxModel.VtsTimer
open Lean Drv

namespace DrvVts
open Vts

def modeOfStr : String → Except String Mode
  | "imm" => pure .imm
  | "rel" => pure .rel
  | "abs" => pure .abs
  | s => throw s!"bad mode {s}"

def viaOfStr : String → Except String Via
  | "handed" => pure .handed
  | "inner" => pure .inner
  | "outer" => pure .outer
  | s => throw s!"bad via {s}"

/-- action = {"id": n, "steps": [step…], "raise": null | "name", "ret": absent | null | child id};
step = ["sched", via, mode, t, action] | ["cancel", id] | ["stop"] | ["sleep", t]
| ["advance_to", t, caught] | ["advance_by", d, caught] | ["start"]   (re-entrant calls from inside the action) -/
partial def actOfJson (j : Json) : Except String (Nat × Act) := do
  let id ← getNat j "id"
  let steps ← getArr j "steps"
  let last : Act := match j.getObjValAs? String "raise" with
    | .ok e => .raise e
    | .error _ =>
      match j.getObjValAs? Nat "ret" with
      | .ok c => .ret c          -- the action returns the handle of child `c`
      | .error _ => .done
  let body ← steps.foldrM (init := last) fun st acc => do
    match st with
    | .arr #[.str "sched", .str via, .str m, t, child] =>
      let (cid, c) ← actOfJson child
      pure (Act.sched (← viaOfStr via) (← modeOfStr m) (← t.getInt?) cid c acc)
    | .arr #[.str "cancel", i] => pure (Act.cancel (← i.getNat?) acc)
    | .arr #[.str "stop"] => pure (Act.stop acc)
    | .arr #[.str "sleep", t] => pure (Act.sleep (← t.getInt?) acc)
    | .arr #[.str "advance_to", t, .bool c] => pure (Act.ctl (.advTo (← t.getInt?) c) acc)
    | .arr #[.str "advance_by", d, .bool c] => pure (Act.ctl (.advBy (← d.getInt?) c) acc)
    | .arr #[.str "start"] => pure (Act.ctl .start acc)
    | _ => throw s!"bad step {st.compress}"
  pure (id, body)

/-- op = ["sched", wrapped, mode, t, action] | ["cancel", id] | ["start"] | ["stop"] | ["advance_to", t]
| ["advance_by", t] | ["sleep", t] -/
def opOfJson (j : Json) : Except String Op := do
  match j with
  | .arr #[.str "sched", .bool w, .str m, t, a] =>
    let (id, body) ← actOfJson a
    pure (.sched w (← modeOfStr m) (← t.getInt?) id body)
  | .arr #[.str "cancel", i] => pure (.cancel (← i.getNat?))
  | .arr #[.str "start"] => pure .start
  | .arr #[.str "stop"] => pure .stop
  | .arr #[.str "advance_to", t] => pure (.advanceTo (← t.getInt?))
  | .arr #[.str "advance_by", t] => pure (.advanceBy (← t.getInt?))
  | .arr #[.str "sleep", t] => pure (.sleep (← t.getInt?))
  | _ => throw s!"bad op {j.compress}"

def outToJson : Out → Json
  | .ok => .str "ok"
  | .raised e => Json.arr #[.str "raised", .str e]
  | .stuck => .str "stuck"

def num (i : Int) : Json := .num (JsonNumber.fromInt i)

/-- PriorityQueue scripts over items `(prio, label)` compared by `prio` only:
["enq", prio, label] | ["deq"] | ["peek"] | ["len"] | ["remove", prio] | ["clear"] -/
def pqScript (ops : List Json) : Except String (List Json) := do
  let due : (Int × Int) → Int := fun x => x.1
  let mut q : PQ (Int × Int) := {}
  let mut out : List Json := []
  for o in ops do
    match o with
    | .arr #[.str "enq", p, l] =>
      q := q.enqueue ((← p.getInt?), (← l.getInt?)); out := .null :: out
    | .arr #[.str "deq"] =>
      match q.dequeue? due with
      | none => out := .str "IndexError" :: out
      | some (x, q') => q := q'; out := Json.arr #[num x.1, num x.2] :: out
    | .arr #[.str "peek"] =>
      match q.peek? due with
      | none => out := .str "IndexError" :: out
      | some x => out := Json.arr #[num x.1, num x.2] :: out
    | .arr #[.str "len"] => out := num q.length :: out
    | .arr #[.str "remove", p] =>
      let pv ← p.getInt?
      let (b, q') := q.remove (fun x => x.1 == pv)
      q := q'; out := .bool b :: out
    | .arr #[.str "clear"] => q := q.clear; out := .null :: out
    | _ => throw s!"bad pq op {o.compress}"
  pure out.reverse


/-! ### periodic scripts

user action of task `pid`: `{"pid": n, "raise_at": [states], "sleep_at": [[state, d]..], "dispose_at": [states]}`;
it returns `state + 1` unless it raises `p<pid>s<state>`.
ops: ["periodic", pid, period, state, catch] | ["dispose_at", t, pid] | ["dispose_now", pid] | ["advance_to", t] | ["stop"] -/
structure UserFn where
  pid : Nat
  raiseAt : List Int
  sleepAt : List (Int × Nat)
  disposeAt : List Int

def userFnOfJson (j : Json) : Except String UserFn := do
  let pid ← getNat j "pid"
  let raiseAt ← (← getArr j "raise_at").mapM (·.getInt?)
  let disposeAt ← (← getArr j "dispose_at").mapM (·.getInt?)
  let sleepAt ← (← getArr j "sleep_at").mapM fun p =>
    match p with
    | .arr #[a, b] => do pure ((← a.getInt?), (← b.getNat?))
    | _ => throw "bad sleep_at"
  pure { pid, raiseAt, sleepAt, disposeAt }

def userF (fns : List UserFn) (pid : Nat) (st : Int) : Per.Tick Int :=
  match fns.find? (·.pid == pid) with
  | none => { next := .ok (st + 1) }
  | some u =>
    { sleep := ((u.sleepAt.find? (·.1 == st)).map (·.2)).getD 0
      dispose := u.disposeAt.contains st
      next := if u.raiseAt.contains st then .error s!"p{pid}s{st}" else .ok (st + 1) }

def perOpOfJson (j : Json) : Except String (Per.Op Int) := do
  match j with
  | .arr #[.str "periodic", pid, period, st, .bool c] =>
    pure (.periodic (← pid.getNat?) (← period.getInt?) (← st.getInt?) c)
  | .arr #[.str "dispose_at", t, pid] => pure (.disposeAt (← t.getInt?) (← pid.getNat?))
  | .arr #[.str "dispose_now", pid] => pure (.disposeNow (← pid.getNat?))
  | .arr #[.str "advance_to", t] => pure (.advanceTo (← t.getInt?))
  | .arr #[.str "stop"] => pure .stop
  | _ => throw s!"bad periodic op {j.compress}"

def perOutToJson : Per.Out → Json
  | .ok => .str "ok"
  | .raised e => Json.arr #[.str "raised", .str e]
  | .stuck => .str "stuck"

def handle (op : String) (j : Json) : Except String Json := do
  match op with
  | "vts_script" =>
    let ops ← (← getArr j "ops").mapM opOfJson
    let clock ← getInt j "clock"
    let bump ← getInt j "bump"
    let deadlock := (getBool j "as_is_deadlock").toOption.getD false
    let trueFor ← (do pure ((← getArr j "handler_true").filterMap (fun x => x.getStr?.toOption)) : Except String (List String))
    let hdflt := (getBool j "handler_default").toOption.getD false
    -- "handler_seq": verdicts of the first handler calls by position (null = decide by name), then by name
    let hseq : List (Option Bool) := match j.getObjValAs? (Array Json) "handler_seq" with
      | .ok a => a.toList.map (fun x => x.getBool?.toOption)
      | .error _ => []
    let cfg : Cfg := { bump := bump, spinDeadlock := deadlock,
                       handler := fun k e => match hseq[k]? with
                         | some (some b) => b
                         | _ => if trueFor.contains e then !hdflt else hdflt }
    let (s, outs) := runOps cfg { clock := clock } ops
    pure (Json.mkObj [
      ("outs", Json.arr (outs.map outToJson).toArray),
      ("log", Json.arr (s.log.map fun r => Json.arr #[num r.id, num r.at_]).toArray),
      ("clock", num s.clock),
      ("enabled", .bool s.enabled),
      ("pending", num s.queue.length),
      ("hlog", Json.arr (s.hlog.map Json.str).toArray)])
  | "per_script" =>
    let ops ← (← getArr j "ops").mapM perOpOfJson
    let fns ← (← getArr j "fns").mapM userFnOfJson
    let clock ← getInt j "clock"
    let trueFor ← (do pure ((← getArr j "handler_true").filterMap (fun x => x.getStr?.toOption)) : Except String (List String))
    let hdflt := (getBool j "handler_default").toOption.getD false
    let handler : Err → Bool := fun e => if trueFor.contains e then !hdflt else hdflt
    let (s, outs) := Per.runOps handler (userF fns) { clock := clock } ops
    pure (Json.mkObj [
      ("outs", Json.arr (outs.map perOutToJson).toArray),
      ("log", Json.arr (s.log.map fun r => Json.arr #[num r.pid, num r.at_, num r.st]).toArray),
      ("clock", num s.clock),
      ("enabled", .bool s.enabled),
      ("pending", num s.queue.length),
      ("hlog", Json.arr (s.hlog.map Json.str).toArray)])
  | "tmr_script" =>
    -- timer(duetime, period), duetime != period: {"clock", "due0", "period", "blockers": [[t, sleep]..], "obs_sleep": [..], "T"}
    let clock ← getInt j "clock"
    let due0 ← getInt j "due0"
    let period ← getInt j "period"
    let T ← getInt j "T"
    let blockers ← (← getArr j "blockers").mapM fun b =>
      match b with
      | .arr #[t, sl] => do pure ((← t.getInt?), (← sl.getNat?))
      | _ => throw "bad blocker"
    let obs ← (← getArr j "obs_sleep").mapM (·.getNat?)
    let cost : Nat → Nat := fun k => if obs.isEmpty then 0 else obs[k % obs.length]!
    let s0 := Tmr.subscribe (blockers.foldl (fun s b => Tmr.scheduleBlock s b.1 b.2) { clock := clock }) due0
    let (s, o) := Tmr.advanceTo period cost T s0
    pure (Json.mkObj [
      ("seen", Json.arr (s.log.map fun r => Json.arr #[num r.at_, num r.k]).toArray),
      ("clock", num s.clock),
      ("out", .str (match o with | .ok => "ok" | .stuck => "stuck" | .raised e => e))])
  | "pq_script" =>
    pure (Json.arr (← pqScript (← getArr j "ops")).toArray)
  | _ => throw s!"unknown op {op}"

end DrvVts

def main : IO Unit := Drv.run DrvVts.handle

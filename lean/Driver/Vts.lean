import Driver.Common
open Lean Drv

namespace DrvVts

def handle (op : String) (_j : Json) : Except String Json := do
  match op with
  | _ => throw s!"unknown op {op}"

end DrvVts

def main : IO Unit := Drv.run DrvVts.handle

import Driver.Common
open Lean Drv

namespace DrvPipe

def handle (op : String) (_j : Json) : Except String Json := do
  match op with
  | _ => throw s!"unknown op {op}"

end DrvPipe

def main : IO Unit := Drv.run DrvPipe.handle

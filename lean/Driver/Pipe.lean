import Driver.Common
import RxModel.PipeHeap
import RxModel.PipeProducers
import RxModel.PipeSubscribe
import RxModel.PipeTramp
open Lean Drv

namespace DrvPipe
open Pipe

def kindOf (s : String) : Except String Kind :=
  match s with
  | "leaf" => pure .leaf | "comp" => pure .comp | "serial" => pure .serial | "single" => pure .single
  | "multi" => pure .multi | "refcount" => pure .refcount | "inner" => pure .inner
  | _ => throw s!"bad kind {s}"

def natOf (j : Json) : Except String Nat := j.getNat?

/-- replay a recorded trace; at every `chk` marker emit the model's (done, released) flags. -/
def heapTrace (ops : List Json) : Except String Json := do
  let mut h : Heap := []
  let mut out : Array Json := #[]
  let mut rejected : Nat := 0
  for o in ops do
    match o with
    | .arr a =>
      match a.toList with
      | [.str "new", .str k, .arr items] =>
        h := (Pipe.apply h (.new (← kindOf k) (← items.toList.mapM natOf))).1
      | [.str "add", c, x] => h := (Pipe.apply h (.add (← natOf c) (← natOf x))).1
      | [.str "remove", c, x] => h := (Pipe.apply h (.remove (← natOf c) (← natOf x))).1
      | [.str "clear", c] => h := (Pipe.apply h (.clear (← natOf c))).1
      | [.str "assign", s, x] =>
        let (h', r) := Pipe.apply h (.assign (← natOf s) (← natOf x))
        h := h'
        if r == .rejected then rejected := rejected + 1
      | [.str "dispose", x] => h := (Pipe.apply h (.dispose (← natOf x))).1
      | [.str "getInner", r] => h := (Pipe.apply h (.getInner (← natOf r))).1
      | [.str "rejected"] => pure ()
      | .str "chk" :: _ =>
        out := out.push (Json.arr #[Json.arr (h.map (fun n => Json.bool n.done)).toArray,
                                     Json.arr (h.map (fun n => Json.bool n.released)).toArray])
      | _ => throw s!"bad op {o.compress}"
    | _ => throw "bad op"
  pure (Json.mkObj [("chk", Json.arr out), ("rejected", .num (JsonNumber.fromNat rejected))])

def handle (op : String) (j : Json) : Except String Json := do
  match op with
  | "heap_trace" => heapTrace (← getArr j "ops")
  | "subscribe_run" =>
    let shared ← getBool j "shared"
    let n ← getNat j "n"
    let fuel ← getNat j "fuel"
    let st := Pipe.subscribeRun shared n fuel
    let evs := (subscribeEvents shared).map (fun e => match e with | .assign => Json.str "assign" | .emit => Json.str "emit")
    pure (Json.mkObj [("pulls", .num (JsonNumber.fromNat st.pulls)), ("stopped", .bool st.flag), ("events", Json.arr evs.toArray)])
  | "drain_q" =>
    -- queue = [producer action, other source's action]; answer: did the other source run, and after how many produced elements
    let kind ← getStr j "producer"
    let fuel ← getNat j "fuel"
    let prog : Prog := if kind == "loop" then .loop else .step fuel
    let evs := drainQ fuel [prog, .other]
    let before := (evs.takeWhile (· != QEv.otherRan)).length
    pure (Json.mkObj [("otherRan", .bool (evs.contains QEv.otherRan)), ("producedBefore", .num (JsonNumber.fromNat before))])
  | "from_iter" =>
    let xs ← getVals j "xs"
    let k := (j.getObjValAs? Nat "k").toOption
    let dd : Nat → Bool := fun i => k == some i
    let (out, pulls) := fromIter dd 0 false xs
    let enc : Notif Val → Json
      | .next v => Json.arr #[.str "N", valToJson v]
      | .error e => Json.arr #[.str "E", .str e]
      | .completed => Json.arr #[.str "C"]
    pure (Json.mkObj [("out", Json.arr (out.map enc).toArray), ("pulls", .num (JsonNumber.fromNat pulls))])
  | "tramp_merge" =>
    -- producers: [[kind, n], ...]; k: absent = never, -1 = right after subscribe, n = during notification n
    let prods ← (← getArr j "producers").mapM fun pj => do
      match pj with
      | .arr a =>
        match a.toList with
        | [.str kind, n] =>
          let n ← natOf n
          match kind with
          | "of" => pure (Tramp.ofP n) | "iter" => pure (Tramp.iterP n)
          | "range" => pure (Tramp.rangeP n) | "gen" => pure (Tramp.genP n)
          | _ => throw s!"bad producer {kind}"
        | _ => throw "bad producer"
      | _ => throw "bad producer"
    let w : Tramp.When := match (j.getObjValAs? Int "k").toOption with
      | none => .never
      | some i => if i < 0 then .atStart else .during i.toNat
    let enc : Tramp.Ev → Json
      | .cb p t => Json.arr #[.str "cb", .num (JsonNumber.fromNat p), .num (JsonNumber.fromNat t)]
      | .next p i => Json.arr #[.str "N", .num (JsonNumber.fromNat p), .num (JsonNumber.fromNat i)]
      | .completed => Json.arr #[.str "C"]
    let fin := Tramp.final w prods
    pure (Json.mkObj [("evs", Json.arr ((fin.evs.map enc).toArray)), ("queue_left", .num (JsonNumber.fromNat fin.queue.length))])
  | _ => throw s!"unknown op {op}"

end DrvPipe

def main : IO Unit := Drv.run DrvPipe.handle

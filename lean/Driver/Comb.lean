import Driver.Common
open Lean Drv

namespace DrvComb

def handle (op : String) (_j : Json) : Except String Json := do
  match op with
  | _ => throw s!"unknown op {op}"

end DrvComb

def main : IO Unit := Drv.run DrvComb.handle

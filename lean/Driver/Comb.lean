import Driver.Common
import RxModel.CombN
import RxModel.CombHO
import RxModel.CombSeq
import RxModel.CombPhase
open Lean Drv Comb

namespace DrvComb

def notifOfJson (f : Json → Except String ι) : Json → Except String (Notif ι)
  | .arr #[.str "N", v] => do pure (.next (← f v))
  | .arr #[.str "E", .str e] => pure (.error e)
  | .arr #[.str "C"] => pure .completed
  | j => throw s!"bad notification {j.compress}"

def evOfJson (f : Nat → Json → Except String ι) : Json → Except String (Ev ι)
  | .arr #[.str "s", k, n] => do
      let k ← k.getNat?
      pure (.src k (← notifOfJson (f k) n))
  | .arr #[.str "t"] => pure .tick
  | .arr #[.str "d"] => pure .dispose
  | j => throw s!"bad event {j.compress}"

def notifToJson (f : β → Json) : Notif β → Json
  | .next v => Json.arr #[.str "N", f v]
  | .error e => Json.arr #[.str "E", .str e]
  | .completed => Json.arr #[.str "C"]

def effToJson (f : β → Json) : Eff β → Json
  | .emit n => Json.arr #[.str "e", notifToJson f n]
  | .sub k => Json.arr #[.str "s", .num (JsonNumber.fromNat k)]
  | .unsub k => Json.arr #[.str "u", .num (JsonNumber.fromNat k)]

def tupToJson (xs : List Val) : Json := valToJson (.tup xs)

def plainEv (_ : Nat) (j : Json) : Except String Val := valOfJson j
/-- higher-order: an element of the outer source (id 0) is the trace id (≥ 1) of an inner = `obs (id - 1)` -/
def hoEv (k : Nat) (j : Json) : Except String (HV Val) :=
  if k = 0 then do pure (.obs ((← j.getNat?) - 1)) else do pure (.val (← valOfJson j))

def respond {σ ι β} (m : Machine σ ι β) (init : St σ) (initSubs : List Nat) (evs : List (Ev ι)) (f : β → Json) : Json :=
  Json.mkObj [("init", Json.arr (initSubs.map (fun k => effToJson f (Eff.sub k : Eff β))).toArray),
              ("steps", Json.arr ((runE m init evs).map (fun l => Json.arr (l.map (effToJson f)).toArray)).toArray)]

def evToJson (f : ι → Json) : Ev ι → Json
  | .src k n => Json.arr #[.str "s", .num (JsonNumber.fromNat k), notifToJson f n]
  | .tick => Json.arr #[.str "t"]
  | .dispose => Json.arr #[.str "d"]

/-- timelines `[[sid, [[t, notif], …]], …]` in subscription order -/
def timelinesOfJson (j : Json) : Except String (List (Nat × List (Nat × Notif Val))) := do
  let arr ← j.getArr?
  arr.toList.mapM fun e =>
    match e with
    | .arr #[sid, msgs] => do
      let sid ← sid.getNat?
      let ms ← (← msgs.getArr?).toList.mapM fun m =>
        match m with
        | .arr #[t, n] => do pure ((← t.getNat?), (← notifOfJson valOfJson n))
        | _ => throw "bad timeline entry"
      pure (sid, ms)
    | _ => throw "bad timeline"

/-- a static n-ary operator: plain (all sources subscribed), phased (the subscribe loop is in the trace: `"phased": true`),
and, if `"timelines"` are given, the event list the model derives from them (delivered events only) -/
def staticRespond {σ β} (j : Json) (m : Machine σ Val β) (s0 : σ) (init : St σ) (initSubs order : List Nat)
    (evs : List (Ev Val)) (f : β → Json) : Except String Json := do
  let ph := (j.getObjValAs? Bool "phased").toOption.getD false
  let base := if ph then respond (phased m) (phasedInit s0 order) [] evs f else respond m init initSubs evs f
  match j.getObjVal? "timelines" with
  | .ok tj =>
    let tls ← timelinesOfJson tj
    let tev := tlEvents tls
    let mask := acceptedMask m init (tev.map (·.2))
    let acc := (tev.zip mask).filter (·.2) |>.map (·.1)
    let tlJ := Json.arr (acc.map (fun te => Json.arr #[.num (JsonNumber.fromNat te.1), evToJson valToJson te.2])).toArray
    pure (base.setObjVal! "tl_events" tlJ)
  | .error _ => pure base

def itemOfJson : Json → Except String Item
  | .str "src" => pure .src
  | .str "stop" => pure .stop
  | j =>
    match j.getObjValAs? String "fail" with
    | .ok e => pure (.fail e)
    | .error _ => do pure (.raise (← j.getObjValAs? String "raise"))

def handle (op : String) (j : Json) : Except String Json := do
  let evsJ ← getArr j "events"
  match op with
  | "zip" =>
    let n ← getNat j "n"
    staticRespond j (zipM n) {} (zipInit n) (List.range n) (subOrder op n) (← evsJ.mapM (evOfJson plainEv)) tupToJson
  | "combine_latest" =>
    let n ← getNat j "n"
    staticRespond j (clM n) {} (clInit n) (List.range n) (subOrder op n) (← evsJ.mapM (evOfJson plainEv)) tupToJson
  | "with_latest_from" =>
    let n ← getNat j "n"     -- total number of sources (parent + children)
    staticRespond j (wlfM (n - 1)) {} (wlfInit (n - 1)) (wlfInitSubs (n - 1)) (subOrder op n) (← evsJ.mapM (evOfJson plainEv)) tupToJson
  | "fork_join" =>
    let n ← getNat j "n"
    staticRespond j (fjM n) {} (fjInit n) (List.range n) (subOrder op n) (← evsJ.mapM (evOfJson plainEv)) tupToJson
  | "amb" =>
    let n ← getNat j "n"
    let evs ← evsJ.mapM (evOfJson plainEv)
    if (j.getObjValAs? Bool "phased").toOption.getD false then
      pure (respond (phasedAmb n) (phasedInit {} (subOrder op n)) [] evs valToJson)
    else
      staticRespond j (ambM n) {} (ambInit n) (List.range n).reverse (subOrder op n) evs valToJson
  | "amb_nested" =>
    let n ← getNat j "n"
    pure (respond (ambNestedM n) (ambNestedInit n) (List.range n).reverse (← evsJ.mapM (evOfJson plainEv)) valToJson)
  | "amb2" =>
    pure (respond (ambM 2) amb2Init [0, 1] (← evsJ.mapM (evOfJson plainEv)) valToJson)
  | "merge_all" =>
    pure (respond maM (hoInit {}) [0] (← evsJ.mapM (evOfJson hoEv)) valToJson)
  | "merge" =>
    let maxc ← getNat j "maxc"
    pure (respond (mcM maxc) (hoInit {}) [0] (← evsJ.mapM (evOfJson hoEv)) valToJson)
  | "switch" =>
    pure (respond swM (hoInit {}) [0] (← evsJ.mapM (evOfJson hoEv)) valToJson)
  | "seq" =>
    let kind ← match (← getStr j "kind") with
      | "concat" => pure SeqKind.concat
      | "catch" => pure SeqKind.catch
      | "oern" => pure SeqKind.oern
      | k => throw s!"bad kind {k}"
    let items ← (← getArr j "items").mapM itemOfJson
    let rest ← itemOfJson (← j.getObjVal? "rest")
    let itemsF : Nat → Item := fun i => (items[i]?).getD rest
    let inline := (j.getObjValAs? Bool "inline").toOption.getD false
    let evs ← evsJ.mapM (evOfJson plainEv)
    let callsJ := fun (st : St SeqSt) => Json.arr (st.s.calls.map (fun c =>
      Json.arr #[.num (JsonNumber.fromNat c.1), match c.2 with | some e => .str e | none => .null])).toArray
    if inline then
      pure ((respond (seqInlineM kind itemsF) seqInit [] evs valToJson).setObjVal! "calls"
        (callsJ (final (seqInlineM (α := Val) kind itemsF) seqInit evs)))
    else
      pure ((respond (seqM kind itemsF) seqInit [] evs valToJson).setObjVal! "calls"
        (callsJ (final (seqM (α := Val) kind itemsF) seqInit evs)))
  | "catch_handler" =>
    let res : Except Err Unit := match j.getObjValAs? String "res" with
      | .ok e => .error e
      | .error _ => .ok ()
    pure (respond (chM res) chInit [0] (← evsJ.mapM (evOfJson plainEv)) valToJson)
  | _ => throw s!"unknown op {op}"

end DrvComb

def main : IO Unit := Drv.run DrvComb.handle

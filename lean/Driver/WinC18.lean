import Driver.Common
import RxModel.WinBuf
import RxModel.WinBnd
import RxModel.WinTime
open Lean Drv

/-! Driver ops for C18 (windows / buffers); ops are prefixed `win_`. Dispatched from `Driver/Win.lean`. -/
namespace DrvWinC18
open Win

def notifOfJson (j : Json) : Except String (Notif Val) :=
  match j with
  | .arr #[.str "N", v] => do pure (.next (← valOfJson v))
  | .arr #[.str "E", .str e] => pure (.error e)
  | .arr #[.str "C"] => pure .completed
  | _ => throw s!"bad notification {j.compress}"

def notifToJson (f : β → Json) : Notif β → Json
  | .next v => Json.arr #[.str "N", f v]
  | .error e => Json.arr #[.str "E", .str e]
  | .completed => Json.arr #[.str "C"]

def natJ (n : Nat) : Json := .num (JsonNumber.fromNat n)

/-- `[t, k, notif]` or `[t, "D", windows?]`. -/
def evOfJson (j : Json) : Except String (Nat × Ev Val) :=
  match j with
  | .arr #[t, .str "D", .bool w] => do pure ((← t.getNat?), .dispose w)
  | .arr #[t, k, n] => do pure ((← t.getNat?), .src (← k.getNat?) (← notifOfJson n))
  | _ => throw s!"bad event {j.compress}"

def outToJson : Nat × Out Val → Json
  | (t, .outer n) => Json.arr #[natJ t, .str "O", notifToJson natJ n]
  | (t, .win id n) => Json.arr #[natJ t, .str "W", natJ id, notifToJson valToJson n]
  | (t, .sub k) => Json.arr #[natJ t, .str "S", natJ k]
  | (t, .unsub k) => Json.arr #[natJ t, .str "U", natJ k]
  | (t, .escaped e) => Json.arr #[natJ t, .str "X", .str e]

def logJ (l : List (Nat × Out Val)) : Json := Json.arr (l.map outToJson).toArray

def boutToJson : Nat × BOut Val → Json
  | (t, .outer n) => Json.arr #[natJ t, .str "O", notifToJson (fun l => Json.arr (l.map valToJson).toArray) n]
  | (t, .sub k) => Json.arr #[natJ t, .str "S", natJ k]
  | (t, .unsub k) => Json.arr #[natJ t, .str "U", natJ k]
  | (t, .escaped e) => Json.arr #[natJ t, .str "X", .str e]

def both (wlog : List (Nat × Out Val)) (blog : List (Nat × BOut Val)) : Json :=
  Json.mkObj [("log", logJ wlog), ("blog", Json.arr (blog.map boutToJson).toArray)]

def handle (op : String) (j : Json) : Except String Json := do
  let evs ← (← getArr j "events").mapM evOfJson
  let t0 ← getNat j "t0"
  let horizon ← getNat j "horizon"
  let fuel := 4 * (evs.length + horizon) + 16
  let raiseAt := (getNat j "raise_at").toOption
  -- closings firing inside subscribe: null (hot / never) | "fire" | ["E", name]
  let sync : List (Option (Option Err)) := ((getArr j "sync").toOption.getD []).map fun
    | .str "fire" => some none
    | .arr #[.str "E", .str e] => some (some e)
    | _ => none
  match op with
  | "win_count" =>
    let count ← getNat j "count"
    let skip ← getNat j "skip"
    pure (both (Cnt.run count skip (Cnt.init t0) evs).b.log
      ((Cnt.mach count skip).bufLog true horizon fuel t0 (Cnt.init t0) evs))
  | "win_bound" =>
    -- boundaries delivering inside their own subscribe: absent/null (hot timeline) | "N" | "C" | ["E", name]
    let bsync : Option (Notif Unit) := match (j.getObjVal? "bsync").toOption with
      | some (.str "N") => some (.next ())
      | some (.str "C") => some .completed
      | some (.arr #[.str "E", .str e]) => some (.error e)
      | _ => none
    pure (both (Bnd.run (Bnd.init t0 bsync) evs).b.log (Bnd.mach.bufLog false horizon fuel t0 (Bnd.init t0 bsync) evs))
  | "win_when" =>
    let pool ← getNat j "pool"
    pure (both (Whn.run raiseAt pool (Whn.init raiseAt pool t0 sync) evs).b.log
      ((Whn.mach raiseAt pool).bufLog false horizon fuel t0 (Whn.init raiseAt pool t0 sync) evs))
  | "win_toggle" =>
    let pool ← getNat j "pool"
    pure (both (Tgl.run raiseAt pool (Tgl.init t0 sync) evs).b.log
      ((Tgl.mach raiseAt pool).bufLog false horizon fuel t0 (Tgl.init t0 sync) evs))
  | "win_time" =>
    let span ← getNat j "span"
    let shift ← getNat j "shift"
    pure (both ((Tim.mach shift).run horizon fuel (Tim.init span shift t0) evs).b.log
      ((Tim.mach shift).bufLog false horizon fuel t0 (Tim.init span shift t0) evs))
  | "win_time_count" =>
    let span ← getNat j "span"
    let count ← getNat j "count"
    pure (both ((Toc.mach span count).run horizon fuel (Toc.init span t0) evs).b.log
      ((Toc.mach span count).bufLog false horizon fuel t0 (Toc.init span t0) evs))
  | _ => throw s!"unknown op {op}"

end DrvWinC18

import Driver.Common
import Driver.WinC18
import Driver.WinGrp
import Driver.WinFin
open Lean Drv

/-! `drv_win`: one executable for the Win family; dispatch on the op prefix. -/
namespace DrvWin

def handle (op : String) (j : Json) : Except String Json :=
  if op.startsWith "grp_" then DrvWinGrp.handle op j
  else if op.startsWith "fin_" then DrvWinFin.handle op j
  else DrvWinC18.handle op j

end DrvWin

def main : IO Unit := Drv.run DrvWin.handle

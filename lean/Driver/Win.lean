import Driver.Common
open Lean Drv

namespace DrvWin

def handle (op : String) (_j : Json) : Except String Json := do
  match op with
  | _ => throw s!"unknown op {op}"

end DrvWin

def main : IO Unit := Drv.run DrvWin.handle

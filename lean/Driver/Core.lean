import Driver.Common
import RxModel.Core
open Lean Drv

namespace DrvCore

def notifToJson : Notif Val → Json
  | .next v => Json.arr #[.str "N", valToJson v]
  | .error e => Json.arr #[.str "E", .str e]
  | .completed => Json.arr #[.str "C"]

def callOfJson (j : Json) : Except String (ObsCall Val) := do
  match j with
  | .arr #[.str "next", v] => pure (.next (← valOfJson v))
  | .arr #[.str "error", .str e] => pure (.error e)
  | .arr #[.str "completed"] => pure .completed
  | .arr #[.str "dispose"] => pure .dispose
  | .arr #[.str "fail", .str e] => pure (.fail e)
  | _ => throw s!"bad call {j.compress}"

def outToJson (o : CallOut Val) : Json :=
  Json.mkObj [("d", match o.delivered with | some n => notifToJson n | none => .null),
              ("r", .bool (o.delivered.isSome && o.raised)), ("disp", .num (JsonNumber.fromNat o.disposes))]

def handle (op : String) (j : Json) : Except String Json := do
  let raisesL ← (do pure ((← getArr j "raises").filterMap (fun x => x.getNat?.toOption)) : Except String (List Nat))
  let raises := fun k => raisesL.contains k
  match op with
  | "ado_script" =>
    let calls ← (← getArr j "calls").mapM callOfJson
    pure (Json.arr ((Ado.runOuts raises {} calls).map outToJson).toArray)
  | "obs_script" =>
    let calls ← (← getArr j "calls").mapM callOfJson
    pure (Json.arr ((ObsBase.runOuts raises {} calls).map outToJson).toArray)
  | "subscribe_script" =>
    let body ← (← getArr j "body").mapM callOfJson
    let later ← (← getArr j "later").mapM callOfJson
    let exn := (j.getObjValAs? String "exn").toOption
    let (seen, reraised) := subscribeRun raises body exn later
    pure (Json.mkObj [("seen", Json.arr (seen.map notifToJson).toArray), ("reraised", .bool reraised)])
  | _ => throw s!"unknown op {op}"

end DrvCore

def main : IO Unit := Drv.run DrvCore.handle

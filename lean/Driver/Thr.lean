import Driver.Common
import RxModel.ThrSO
import RxModel.ThrTramp
open Lean Drv

namespace DrvThr

/-! ## C32: ScheduledObserver atomic-step model -/
section SO
open Thr.SO

def lblToJson : Lbl Int → Json
  | .noop => Json.arr #[.str "noop"]
  | .skip => Json.arr #[.str "skip"]
  | .check => Json.arr #[.str "check"]
  | .mark => Json.arr #[.str "mark"]
  | .append x => Json.arr #[.str "append", .num (JsonNumber.fromInt x)]
  | .ea o => Json.arr #[.str "ea", .bool o]
  | .sched => Json.arr #[.str "sched"]
  | .runBegin => Json.arr #[.str "runBegin"]
  | .pop x => Json.arr #[.str "pop", .num (JsonNumber.fromInt x)]
  | .release => Json.arr #[.str "release"]
  | .dstart x => Json.arr #[.str "dstart", .num (JsonNumber.fromInt x)]
  | .dend r => Json.arr #[.str "dend", .bool r]
  | .fault => Json.arr #[.str "fault"]
  | .resched => Json.arr #[.str "resched"]

def callOfJson (j : Json) : Except String (Call Int) :=
  match j with
  | .arr #[x, .bool t] => do pure { item := (← x.getInt?), terminal := t }
  | _ => throw s!"bad call {j.compress}"

def tidOfJson (k : Json) (i : Json) : Except String Tid := do
  let n ← i.getNat?
  match k with
  | .str "p" => pure (.prod n)
  | .str "c" => pure (.cons n)
  | _ => throw "bad tid"

def sysJson (s : Sys Int) : Json :=
  Json.mkObj [("delivered", Json.arr (s.delivered.map fun x => Json.num (JsonNumber.fromInt x)).toArray),
    ("received", Json.arr (s.received.map fun x => Json.num (JsonNumber.fromInt x)).toArray),
    ("queue", Json.arr (s.queue.map fun x => Json.num (JsonNumber.fromInt x)).toArray),
    ("acq", .bool s.isAcquired), ("faulted", .bool s.hasFaulted), ("stopped", .bool s.isStopped),
    ("pending", .num (JsonNumber.fromNat s.pendingRuns)), ("quiescent", .bool (quiescent s))]

def getSys (j : Json) : Except String (Sys Int × (Nat → Bool)) := do
  let progs ← (← getArr j "progs").mapM fun p => do
    match p with
    | .arr cs => cs.toList.mapM callOfJson
    | _ => throw "bad prog"
  let nc ← getNat j "nc"
  let raisesL := (← getArr j "raises").filterMap (fun x => x.getNat?.toOption)
  pure (init progs nc, fun k => raisesL.contains k)

/-- replay an observed sequence of (thread, label): each observed step must be the step the model takes. -/
def replay (raises : Nat → Bool) : Sys Int → Nat → List (Tid × Json) → Sys Int × Option (Nat × Json)
  | s, _, [] => (s, none)
  | s, k, (t, l) :: rest =>
    let (s', ml) := stepL raises s t
    let mj := lblToJson ml
    if mj == l then replay raises s' (k + 1) rest else (s, some (k, mj))

/-- run thread `t` until `stop` holds (at most `fuel` steps) -/
def runUntil (raises : Nat → Bool) (t : Tid) (stop : Sys Int → Bool) : Nat → Sys Int → Sys Int
  | 0, s => s
  | n + 1, s => let s' := step raises s t; if stop s' then s' else runUntil raises t stop n s'

def prodCallsLeft (s : Sys Int) (i : Nat) : Nat :=
  match s.prods[i]? with
  | some p => p.calls.length + (if p.pc == .ready then 0 else 1)
  | none => 0

def consIdle (s : Sys Int) (j : Nat) : Bool :=
  match s.cons[j]? with
  | some c => c.isIdle
  | none => true

def handleSO (op : String) (j : Json) : Except String Json := do
  match op with
  | "so_trace" =>
    let (s0, raises) ← getSys j
    let steps ← (← getArr j "trace").mapM fun e =>
      match e with
      | .arr #[k, i, l] => do pure ((← tidOfJson k i), l)
      | _ => throw "bad trace entry"
    let (s, bad) := replay raises s0 0 steps
    match bad with
    | none => pure (Json.mkObj [("ok", .bool true), ("final", sysJson s)])
    | some (k, ml) => pure (Json.mkObj [("ok", .bool false), ("at", .num (JsonNumber.fromNat k)), ("model", ml), ("state", sysJson s)])
  | "so_seq" =>
    -- method-level history: ["emit", p] = producer p performs its next call to completion; ["pump", c] = consumer c
    -- executes one pending `run` action to completion (no-op when none is pending)
    let (s0, raises) ← getSys j
    let ops ← getArr j "ops"
    let mut s := s0
    let mut outs : Array Json := #[]
    for o in ops do
      match o with
      | .arr #[.str "emit", i] =>
        let i ← i.getNat?
        let target := prodCallsLeft s i - 1
        if prodCallsLeft s i > 0 then
          s := runUntil raises (.prod i) (fun s' => prodCallsLeft s' i ≤ target) 16 s
      | .arr #[.str "pump", c] =>
        let c ← c.getNat?
        if s.pendingRuns > 0 then
          s := runUntil raises (.cons c) (fun s' => consIdle s' c) 16 s
      | _ => throw s!"bad op {o.compress}"
      outs := outs.push (sysJson s)
    pure (Json.arr outs)
  | _ => throw s!"unknown op {op}"
end SO

/-! ## C30: trampoline -/
section Tramp
open Thr.Tramp

def jInt (i : Int) : Json := .num (JsonNumber.fromInt i)
def jNat (n : Nat) : Json := .num (JsonNumber.fromNat n)

partial def opOfJson (j : Json) : Except String Op := do
  match j with
  | .arr #[.str "sched", l, .arr b] => pure (.sched (← l.getNat?) (← b.toList.mapM opOfJson))
  | .arr #[.str "rel", l, d, .arr b] => pure (.schedRel (← l.getNat?) (← d.getInt?) (← b.toList.mapM opOfJson))
  | .arr #[.str "abs", l, t, .arr b] => pure (.schedAbs (← l.getNat?) (← t.getInt?) (← b.toList.mapM opOfJson))
  | .arr #[.str "cancel", l] => pure (.cancel (← l.getNat?))
  | .arr #[.str "tick", d] => pure (.tick (← d.getNat?))
  | _ => throw s!"bad op {j.compress}"

def evToJson : Ev → Option Json
  | .sched id due clk _ => some (Json.arr #[.str "sched", jNat id, jInt due, jInt clk])
  | .start id _ _ clk => some (Json.arr #[.str "start", jNat id, jInt clk])
  | .fin id => some (Json.arr #[.str "fin", jNat id])
  | .skip id => some (Json.arr #[.str "skip", jNat id])
  | .cancel id => some (Json.arr #[.str "cancel", jNat id])
  | .wait t => some (Json.arr #[.str "wait", jInt t])
  | _ => none

def secJson (enq : Option Nat) (deq : List Nat) (idle : Option Bool) (clear : Option (List Nat)) (wait : Option Int) : Json :=
  Json.arr #[.str "sec", (match enq with | some i => jNat i | none => .null), Json.arr (deq.map jNat).toArray,
    (match idle with | some b => .bool b | none => .null),
    (match clear with | some l => Json.arr (l.map jNat).toArray | none => .null),
    (match wait with | some t => jInt t | none => .null)]

/-- the label of the step thread state `th` is about to take (none = silent step) -/
def stepLabel (fixed : Bool) (tr : Tr) (g : Glob) (th : Th) : Option Json :=
  match th.stack with
  | [] => none
  | .act none [] :: _ => none
  | .act (some i) [] :: _ => some (Json.arr #[.str "fin", jNat i])
  | .act _ (.tick d :: _) :: _ => some (Json.arr #[.str "tick", jNat d])
  | .act _ (.cancel k :: _) :: _ => some (Json.arr #[.str "cancel", jNat k])
  | .act _ (.sched l _ :: _) :: _ => some (Json.arr #[.str "sched", jNat l, jInt g.clock, jInt g.clock])
  | .act _ (.schedRel l d _ :: _) :: _ => some (Json.arr #[.str "sched", jNat l, jInt (g.clock + max d 0), jInt g.clock])
  | .act _ (.schedAbs l t _ :: _) :: _ => some (Json.arr #[.str "sched", jNat l, jInt t, jInt g.clock])
  | .enq _ it _ :: _ => some (secJson (some it.id) [] (if tr.idle then some false else none) none none)
  | .drain .collect _ :: _ => some (secJson none ((tr.queue.takeWhile (isDue g.clock)).map (·.id)) none none none)
  | .drain .exec [] :: _ => none
  | .drain .exec (it :: _) :: _ =>
    if it.id ∈ g.cancelled then some (Json.arr #[.str "skip", jNat it.id]) else some (Json.arr #[.str "start", jNat it.id])
  | .drain .check _ :: _ =>
    match tr.queue with
    | [] => some (secJson none [] (if fixed then some true else none) none none)
    | it :: _ => if it.due > g.clock then some (secJson none [] none none (some it.due)) else some (secJson none [] none none none)
  | .drain .final _ :: _ => some (secJson none [] (some true) (some (tr.queue.map (·.id))) none)

def sysLabel (fixed : Bool) (s : Sys) (i : Nat) : Option Json :=
  match s.ths[i]? with
  | none => none
  | some (k, th) => match s.trs[k]? with
    | none => none
    | some tr => stepLabel fixed tr s.g th

def thDone (s : Sys) (i : Nat) : Bool :=
  match s.ths[i]? with
  | some (_, th) => th.stack.isEmpty
  | none => true

/-- advance thread `i` over silent steps (at most `fuel`) until its next step is labelled -/
def skipSilent (fixed : Bool) (i : Nat) : Nat → Sys → Sys
  | 0, s => s
  | n + 1, s => if thDone s i then s else
      match sysLabel fixed s i with
      | some _ => s
      | none => skipSilent fixed i n (s.step fixed i 0)

def replayTr (fixed : Bool) : Sys → Nat → List (Nat × Json) → Sys × Option (Nat × Json)
  | s, _, [] => (s, none)
  | s, k, (i, l) :: rest =>
    let s1 := skipSilent fixed i 8 s
    match sysLabel fixed s1 i with
    | none => (s1, some (k, Json.arr #[.str "done"]))
    | some ml => if ml == l then replayTr fixed (s1.step fixed i 0) (k + 1) rest else (s1, some (k, ml))

def trJson (tr : Tr) : Json := Json.mkObj [("idle", .bool tr.idle), ("queue", Json.arr (tr.queue.map (fun it => jNat it.id)).toArray)]

def handleTr (op : String) (j : Json) : Except String Json := do
  let fixed ← getBool j "fixed"
  let clock ← getInt j "clock"
  match op with
  | "tr_seq" =>
    let prog ← (← getArr j "prog").mapM opOfJson
    let fuel ← getNat j "fuel"
    let s := exec fixed fuel (init prog clock)
    pure (Json.mkObj [("events", Json.arr (s.th.log.reverse.filterMap evToJson).toArray), ("done", .bool s.th.stack.isEmpty),
      ("idle", .bool s.tr.idle), ("queue", jNat s.tr.queue.length), ("clock", jInt s.g.clock)])
  | "tr_trace" =>
    let ntr ← getNat j "ntr"
    let progs ← (← getArr j "progs").mapM fun p =>
      match p with
      | .arr #[k, .arr ops] => do pure ((← k.getNat?), (← ops.toList.mapM opOfJson))
      | _ => throw "bad prog"
    let steps ← (← getArr j "trace").mapM fun e =>
      match e with
      | .arr #[i, l] => do pure ((← i.getNat?), l)
      | _ => throw "bad trace entry"
    let (s, bad) := replayTr fixed (Sys.init ntr progs clock) 0 steps
    -- let every thread finish its trailing silent steps
    let s := (List.range progs.length).foldl (fun s i => skipSilent fixed i 8 s) s
    let fin := Json.mkObj [("done", Json.arr ((List.range progs.length).map fun i => Json.bool (thDone s i)).toArray),
      ("trs", Json.arr (s.trs.map trJson).toArray), ("clock", jInt s.g.clock)]
    match bad with
    | none => pure (Json.mkObj [("ok", .bool true), ("final", fin)])
    | some (k, ml) => pure (Json.mkObj [("ok", .bool false), ("at", jNat k), ("model", ml), ("state", fin)])
  | _ => throw s!"unknown op {op}"
end Tramp

def handle (op : String) (j : Json) : Except String Json := do
  if op.startsWith "so_" then handleSO op j
  else if op.startsWith "tr_" then handleTr op j
  else throw s!"unknown op {op}"

end DrvThr

def main : IO Unit := Drv.run DrvThr.handle

import Driver.Common
import RxModel.ThrSO
import RxModel.ThrTramp
import RxModel.ThrEL
open Lean Drv

namespace DrvThr

/-! ## C32: ScheduledObserver atomic-step model -/
section SO
open Thr.SO

def lblToJson : Lbl Int → Json
  | .noop => Json.arr #[.str "noop"]
  | .skip => Json.arr #[.str "skip"]
  | .check => Json.arr #[.str "check"]
  | .mark => Json.arr #[.str "mark"]
  | .append x => Json.arr #[.str "append", .num (JsonNumber.fromInt x)]
  | .ea o => Json.arr #[.str "ea", .bool o]
  | .sched => Json.arr #[.str "sched"]
  | .runBegin => Json.arr #[.str "runBegin"]
  | .pop x => Json.arr #[.str "pop", .num (JsonNumber.fromInt x)]
  | .release => Json.arr #[.str "release"]
  | .dstart x => Json.arr #[.str "dstart", .num (JsonNumber.fromInt x)]
  | .dend r => Json.arr #[.str "dend", .bool r]
  | .fault => Json.arr #[.str "fault"]
  | .resched => Json.arr #[.str "resched"]
  | .assign d => Json.arr #[.str "assign", .bool d]
  | .cancelRun c => Json.arr #[.str "cancelRun", .bool c]
  | .dstop => Json.arr #[.str "dstop"]
  | .dflag => Json.arr #[.str "dflag"]

def callOfJson (j : Json) : Except String (Call Int) :=
  match j with
  | .arr #[x, .bool t] => do pure { item := (← x.getInt?), terminal := t }
  | _ => throw s!"bad call {j.compress}"

def tidOfJson (k : Json) (i : Json) : Except String Tid := do
  let n ← i.getNat?
  match k with
  | .str "p" => pure (.prod n)
  | .str "c" => pure (.cons n)
  | .str "d" => pure (.disp n)
  | _ => throw "bad tid"

def sysJson (s : Sys Int) : Json :=
  Json.mkObj [("delivered", Json.arr (s.delivered.map fun x => Json.num (JsonNumber.fromInt x)).toArray),
    ("received", Json.arr (s.received.map fun x => Json.num (JsonNumber.fromInt x)).toArray),
    ("queue", Json.arr (s.queue.map fun x => Json.num (JsonNumber.fromInt x)).toArray),
    ("acq", .bool s.isAcquired), ("faulted", .bool s.hasFaulted), ("stopped", .bool s.isStopped),
    ("pending", .num (JsonNumber.fromNat s.pendingRuns)), ("quiescent", .bool (quiescent s)),
    ("lost", .bool s.lostToken), ("sdisposed", .bool s.serialDisposed)]

def getSys (j : Json) : Except String (Sys Int × (Nat → Bool)) := do
  let progs ← (← getArr j "progs").mapM fun p => do
    match p with
    | .arr cs => cs.toList.mapM callOfJson
    | _ => throw "bad prog"
  let nc ← getNat j "nc"
  let nd := (j.getObjValAs? Nat "nd").toOption.getD 0
  let raisesL := (← getArr j "raises").filterMap (fun x => x.getNat?.toOption)
  pure (init progs nc nd, fun k => raisesL.contains k)

/-- replay an observed sequence of (thread, label): each observed step must be the step the model takes. -/
def replay (raises : Nat → Bool) : Sys Int → Nat → List (Tid × Json) → Sys Int × Option (Nat × Json)
  | s, _, [] => (s, none)
  | s, k, (t, l) :: rest =>
    let (s', ml) := stepL raises s t
    let mj := lblToJson ml
    if mj == l then replay raises s' (k + 1) rest else (s, some (k, mj))

/-- run thread `t` until `stop` holds (at most `fuel` steps) -/
def runUntil (raises : Nat → Bool) (t : Tid) (stop : Sys Int → Bool) : Nat → Sys Int → Sys Int
  | 0, s => s
  | n + 1, s => let s' := step raises s t; if stop s' then s' else runUntil raises t stop n s'

def prodCallsLeft (s : Sys Int) (i : Nat) : Nat :=
  match s.prods[i]? with
  | some p => p.calls.length + (if p.pc == .ready then 0 else 1)
  | none => 0

def consIdle (s : Sys Int) (j : Nat) : Bool :=
  match s.cons[j]? with
  | some c => c.isIdle
  | none => true

def handleSO (op : String) (j : Json) : Except String Json := do
  match op with
  | "so_trace" =>
    let (s0, raises) ← getSys j
    let steps ← (← getArr j "trace").mapM fun e =>
      match e with
      | .arr #[k, i, l] => do pure ((← tidOfJson k i), l)
      | _ => throw "bad trace entry"
    let (s, bad) := replay raises s0 0 steps
    match bad with
    | none => pure (Json.mkObj [("ok", .bool true), ("final", sysJson s)])
    | some (k, ml) => pure (Json.mkObj [("ok", .bool false), ("at", .num (JsonNumber.fromNat k)), ("model", ml), ("state", sysJson s)])
  | "so_seq" =>
    -- method-level history: ["emit", p] = producer p performs its next call to completion; ["pump", c] = consumer c
    -- executes one pending `run` action to completion (no-op when none is pending)
    let (s0, raises) ← getSys j
    let ops ← getArr j "ops"
    let mut s := s0
    let mut outs : Array Json := #[]
    for o in ops do
      match o with
      | .arr #[.str "emit", i] =>
        let i ← i.getNat?
        let target := prodCallsLeft s i - 1
        if prodCallsLeft s i > 0 then
          s := runUntil raises (.prod i) (fun s' => prodCallsLeft s' i ≤ target) 16 s
      | .arr #[.str "dispose", k] =>
        let k ← k.getNat?
        s := runUntil raises (.disp k) (fun s' => s'.disps[k]? == some .done) 8 s
      | .arr #[.str "pump", c] =>
        let c ← c.getNat?
        if s.pendingRuns > 0 then
          s := runUntil raises (.cons c) (fun s' => consIdle s' c) 16 s
      | _ => throw s!"bad op {o.compress}"
      outs := outs.push (sysJson s)
    pure (Json.arr outs)
  | _ => throw s!"unknown op {op}"
end SO

/-! ## C30: trampoline -/
section Tramp
open Thr.Tramp

def jInt (i : Int) : Json := .num (JsonNumber.fromInt i)
def jNat (n : Nat) : Json := .num (JsonNumber.fromNat n)

partial def opOfJson (j : Json) : Except String Op := do
  match j with
  | .arr #[.str "sched", l, .arr b] => pure (.sched (← l.getNat?) (← b.toList.mapM opOfJson))
  | .arr #[.str "rel", l, d, .arr b] => pure (.schedRel (← l.getNat?) (← d.getInt?) (← b.toList.mapM opOfJson))
  | .arr #[.str "abs", l, t, .arr b] => pure (.schedAbs (← l.getNat?) (← t.getInt?) (← b.toList.mapM opOfJson))
  | .arr #[.str "cancel", l] => pure (.cancel (← l.getNat?))
  | .arr #[.str "tick", d] => pure (.tick (← d.getNat?))
  | .arr #[.str "raise"] => pure .raise_
  | _ => throw s!"bad op {j.compress}"

def evToJson : Ev → Option Json
  | .sched id due clk _ => some (Json.arr #[.str "sched", jNat id, jInt due, jInt clk])
  | .start id _ _ clk => some (Json.arr #[.str "start", jNat id, jInt clk])
  | .fin id => some (Json.arr #[.str "fin", jNat id])
  | .raised id => some (Json.arr #[.str "raised", jNat id])
  | .skip id => some (Json.arr #[.str "skip", jNat id])
  | .cancel id => some (Json.arr #[.str "cancel", jNat id])
  | .wait t => some (Json.arr #[.str "wait", jInt t])
  | _ => none

def secJson (enq : Option Nat) (deq : List Nat) (idle : Option Bool) (clear : Option (List Nat)) (wait : Option Int) : Json :=
  Json.arr #[.str "sec", (match enq with | some i => jNat i | none => .null), Json.arr (deq.map jNat).toArray,
    (match idle with | some b => .bool b | none => .null),
    (match clear with | some l => Json.arr (l.map jNat).toArray | none => .null),
    (match wait with | some t => jInt t | none => .null)]

/-- the label of the step thread state `th` is about to take (none = silent step) -/
def stepLabel (fixed : Bool) (tr : Tr) (g : Glob) (th : Th) : Option Json :=
  match th.stack with
  | [] => none
  | .act none [] :: _ => none
  | .act (some i) [] :: _ => some (Json.arr #[.str "fin", jNat i])
  | .act _ (.tick d :: _) :: _ => some (Json.arr #[.str "tick", jNat d])
  | .act _ (.cancel k :: _) :: _ => some (Json.arr #[.str "cancel", jNat k])
  | .act (some i) (.raise_ :: _) :: .drain _ _ :: _ => some (Json.arr #[.str "raised", jNat i])
  | .act _ (.raise_ :: _) :: _ => none
  | .act _ (.sched l _ :: _) :: _ => some (Json.arr #[.str "sched", jNat l, jInt g.clock, jInt g.clock])
  | .act _ (.schedRel l d _ :: _) :: _ => some (Json.arr #[.str "sched", jNat l, jInt (g.clock + max d 0), jInt g.clock])
  | .act _ (.schedAbs l t _ :: _) :: _ => some (Json.arr #[.str "sched", jNat l, jInt t, jInt g.clock])
  | .enq _ it _ :: _ => some (secJson (some it.id) [] (if tr.idle then some false else none) none none)
  | .drain .collect _ :: _ => some (secJson none ((tr.queue.takeWhile (isDue g.clock)).map (·.id)) none none none)
  | .drain .exec [] :: _ => none
  | .drain .exec (it :: _) :: _ =>
    if it.id ∈ g.cancelled then some (Json.arr #[.str "skip", jNat it.id]) else some (Json.arr #[.str "start", jNat it.id])
  | .drain .check _ :: _ =>
    match tr.queue with
    | [] => some (secJson none [] (if fixed then some true else none) none none)
    | it :: _ => if it.due > g.clock then some (secJson none [] none none (some it.due)) else some (secJson none [] none none none)
  | .drain .final _ :: _ => some (secJson none [] (some true) (some (tr.queue.map (·.id))) none)
  | .drain .waiting _ :: _ => some (Json.arr #[.str "woke"])
  | .drain .abort _ :: _ => some (secJson none [] (some true) (some (tr.queue.map (·.id))) none)

def sysLabel (fixed : Bool) (s : Sys) (i : Nat) : Option Json :=
  match s.ths[i]? with
  | none => none
  | some (k, th) => match s.trs[k]? with
    | none => none
    | some tr => stepLabel fixed tr s.g th

def thDone (s : Sys) (i : Nat) : Bool :=
  match s.ths[i]? with
  | some (_, th) => th.stack.isEmpty
  | none => true

/-- advance thread `i` over silent steps (at most `fuel`) until its next step is labelled -/
def skipSilent (fixed : Bool) (i : Nat) : Nat → Sys → Sys
  | 0, s => s
  | n + 1, s => if thDone s i then s else
      match sysLabel fixed s i with
      | some _ => s
      | none => skipSilent fixed i n (s.step fixed i 0)

def replayTr (fixed : Bool) : Sys → Nat → List (Nat × Json × Int) → Sys × Option (Nat × Json)
  | s, _, [] => (s, none)
  | s, k, (i, l, clk) :: rest =>
    let s0 := skipSilent fixed i 8 s
    -- the observed clock at this step: that much time has passed since the previous step
    let s1 : Sys := { s0 with g := { s0.g with clock := max s0.g.clock clk } }
    match sysLabel fixed s1 i with
    | none => (s1, some (k, Json.arr #[.str "done"]))
    | some ml => if ml == l then replayTr fixed (s1.step fixed i 0) (k + 1) rest else (s1, some (k, ml))

def trJson (tr : Tr) : Json := Json.mkObj [("idle", .bool tr.idle), ("queue", Json.arr (tr.queue.map (fun it => jNat it.id)).toArray)]

def handleTr (op : String) (j : Json) : Except String Json := do
  let fixed ← getBool j "fixed"
  let clock ← getInt j "clock"
  match op with
  | "tr_seq" =>
    let prog ← (← getArr j "prog").mapM opOfJson
    let fuel ← getNat j "fuel"
    let s := exec fixed fuel (init prog clock)
    pure (Json.mkObj [("events", Json.arr (s.th.log.reverse.filterMap evToJson).toArray), ("done", .bool s.th.stack.isEmpty),
      ("idle", .bool s.tr.idle), ("queue", jNat s.tr.queue.length), ("clock", jInt s.g.clock)])
  | "tr_trace" =>
    let ntr ← getNat j "ntr"
    let progs ← (← getArr j "progs").mapM fun p =>
      match p with
      | .arr #[k, .arr ops] => do pure ((← k.getNat?), (← ops.toList.mapM opOfJson))
      | _ => throw "bad prog"
    let steps ← (← getArr j "trace").mapM fun e =>
      match e with
      | .arr #[i, l, c] => do pure ((← i.getNat?), l, (← c.getInt?))
      | _ => throw "bad trace entry"
    let (s, bad) := replayTr fixed (Sys.init ntr progs clock) 0 steps
    -- let every thread finish its trailing silent steps
    let s := (List.range progs.length).foldl (fun s i => skipSilent fixed i 8 s) s
    let fin := Json.mkObj [("done", Json.arr ((List.range progs.length).map fun i => Json.bool (thDone s i)).toArray),
      ("trs", Json.arr (s.trs.map trJson).toArray), ("clock", jInt s.g.clock)]
    match bad with
    | none => pure (Json.mkObj [("ok", .bool true), ("final", fin)])
    | some (k, ml) => pure (Json.mkObj [("ok", .bool false), ("at", jNat k), ("model", ml), ("state", fin)])
  | _ => throw s!"unknown op {op}"
end Tramp

/-! ## C31: EventLoopScheduler -/
section EL
open Thr.EL

partial def elOpOfJson (j : Json) : Except String Thr.EL.Op := do
  match j with
  | .arr #[.str "sched", l, .arr b] => pure (.sched (← l.getNat?) (← b.toList.mapM elOpOfJson))
  | .arr #[.str "rel", l, d, .arr b] => pure (.schedRel (← l.getNat?) (← d.getInt?) (← b.toList.mapM elOpOfJson))
  | .arr #[.str "abs", l, t, .arr b] => pure (.schedAbs (← l.getNat?) (← t.getInt?) (← b.toList.mapM elOpOfJson))
  | .arr #[.str "cancel", l] => pure (.cancel (← l.getNat?))
  | .arr #[.str "dispose"] => pure .dispose
  | .arr #[.str "tick", d] => pure (.tick (← d.getNat?))
  | _ => throw s!"bad op {j.compress}"

def jn (n : Nat) : Json := .num (JsonNumber.fromNat n)
def ji (i : Int) : Json := .num (JsonNumber.fromInt i)
def jids (l : List Nat) : Json := Json.arr (l.map jn).toArray

/-- label of the step thread `me` is about to take (none = silent or not enabled) -/
def elLabel (xie : Bool) (sh : Sh) (th : Th) : Option Json :=
  match th.stack with
  | [] => none
  | .act none [] :: _ => none
  | .act (some i) [] :: _ => some (Json.arr #[.str "fin", jn i])
  | .act _ (.tick d :: _) :: _ => some (Json.arr #[.str "tick", jn d])
  | .act _ (.cancel k :: _) :: _ => some (Json.arr #[.str "cancel", jn k])
  | .act _ (.dispose :: _) :: _ => some (Json.arr #[.str "dispose", .bool (!sh.disposed)])
  | .act _ (.sched l _ :: _) :: _ => some (Json.arr #[.str "sched", jn l, ji sh.clock, ji sh.clock])
  | .act _ (.schedRel l d _ :: _) :: _ => some (Json.arr #[.str "sched", jn l, ji (sh.clock + max d 0), ji sh.clock])
  | .act _ (.schedAbs l t _ :: _) :: _ => some (Json.arr #[.str "sched", jn l, ji t, ji sh.clock])
  | .chk _ it _ :: _ => some (Json.arr #[.str "chk", jn it.id, .bool sh.disposed])
  | .enq _ it _ :: _ => some (Json.arr #[.str "enq", jn it.id, .bool (decide (it.due ≤ sh.clock)), .bool sh.thread.isNone])
  | .loop .top _ :: _ =>
    if sh.disposed then some (Json.arr #[.str "exitDisposed"])
    else some (Json.arr #[.str "collect", jids ((merge sh.clock sh.queue sh.readyList).1.map (·.id)), ji sh.clock])
  | .loop .exec [] :: _ => none
  | .loop .exec (it :: _) :: _ =>
    if it.id ∈ sh.cancelled then some (Json.arr #[.str "skip", jn it.id]) else some (Json.arr #[.str "start", jn it.id])
  | .loop .check _ :: _ =>
    match sh.readyList with
    | _ :: _ => some (Json.arr #[.str "cont"])
    | [] => match sh.queue with
      | it :: _ => if it.due > sh.clock then some (Json.arr #[.str "waitT", ji it.due]) else some (Json.arr #[.str "recheck"])
      | [] => if xie then some (Json.arr #[.str "exitEmpty"]) else some (Json.arr #[.str "waitU"])
  | .loop .waitU _ :: _ => if sh.wstate = .notified then some (Json.arr #[.str "woke"]) else none
  | .loop .waitT _ :: _ => some (Json.arr #[.str "woke"])

def elSilent (th : Th) : Bool :=
  match th.stack with
  | .act none [] :: _ => true
  | .loop .exec [] :: _ => true
  | _ => false

def elThLabel (xie : Bool) (s : Thr.EL.Sys) (i : Nat) : Option Json :=
  match s.ths[i]? with
  | none => none
  | some th => elLabel xie s.sh th

def elSkipSilent (xie : Bool) (i : Nat) : Nat → Thr.EL.Sys → Thr.EL.Sys
  | 0, s => s
  | n + 1, s => match s.ths[i]? with
    | some th => if elSilent th then elSkipSilent xie i n (s.step xie i 0) else s
    | none => s

def elReplay (xie : Bool) : Thr.EL.Sys → Nat → List (Nat × Json × Int) → Thr.EL.Sys × Option (Nat × Json)
  | s, _, [] => (s, none)
  | s, k, (i, l, clk) :: rest =>
    let s0 := elSkipSilent xie i 8 s
    -- the observed clock at this step: that much time has passed since the previous step
    let s1 : Thr.EL.Sys := { s0 with sh := { s0.sh with clock := max s0.sh.clock clk } }
    match elThLabel xie s1 i with
    | none => (s1, some (k, Json.arr #[.str "not-enabled"]))
    | some ml => if ml == l then elReplay xie (s1.step xie i 0) (k + 1) rest else (s1, some (k, ml))

def elEvJson : Thr.EL.Ev → Option Json
  | .sched t id due clk => some (Json.arr #[.str "sched", jn t, jn id, ji due, ji clk])
  | .raised t id => some (Json.arr #[.str "raised", jn t, jn id])
  | .passed _ _ => none
  | .enq t id _ imm sp => some (Json.arr #[.str "enq", jn t, jn id, .bool imm, match sp with | some n => jn n | none => .null])
  | .cancel t id => some (Json.arr #[.str "cancel", jn t, jn id])
  | .dispose t f => some (Json.arr #[.str "dispose", jn t, .bool f])
  | .collect t ids time => some (Json.arr #[.str "collect", jn t, jids ids, ji time])
  | .exitDisposed t => some (Json.arr #[.str "exitDisposed", jn t])
  | .start t id _ _ _ clk => some (Json.arr #[.str "start", jn t, jn id, ji clk])
  | .skip t id _ _ _ => some (Json.arr #[.str "skip", jn t, jn id])
  | .fin t id => some (Json.arr #[.str "fin", jn t, jn id])
  | .cont _ => none
  | .waitT t till => some (Json.arr #[.str "waitT", jn t, ji till])
  | .recheck _ => none
  | .waitU t => some (Json.arr #[.str "waitU", jn t])
  | .exitEmpty t => some (Json.arr #[.str "exitEmpty", jn t])
  | .woke t => some (Json.arr #[.str "woke", jn t])

/-- is thread `i` able to make progress under the controller's blocking rules -/
def elRunnable (s : Thr.EL.Sys) (i : Nat) : Bool :=
  match s.ths[i]? with
  | none => false
  | some th =>
    match th.stack with
    | [] => false
    | .loop .waitU _ :: _ => s.sh.wstate == .notified
    | .loop .waitT _ :: _ =>
      s.sh.wstate == .notified || (match s.sh.queue with | it :: _ => decide (it.due ≤ s.sh.clock) | [] => true)
    | _ => true

/-- the controller's default policy: keep running the last thread while it can run, else the lowest-numbered
runnable thread; when nothing can run but a timed wait is pending, the clock jumps to its deadline. -/
def elPolicy (xie : Bool) : Nat → Option Nat → Thr.EL.Sys → Thr.EL.Sys
  | 0, _, s => s
  | n + 1, last, s =>
    let ids := (List.range s.ths.length).filter (elRunnable s)
    match ids with
    | [] =>
      let timed := s.ths.any fun th => match th.stack with | .loop .waitT _ :: _ => true | _ => false
      match timed, s.sh.queue with
      | true, it :: _ => elPolicy xie n last { s with sh := { s.sh with clock := max s.sh.clock it.due } }
      | _, _ => s
    | i0 :: _ =>
      let pick := match last with
        | some l => if ids.contains l then l else i0
        | none => i0
      elPolicy xie n (some pick) (s.step xie pick 0)

def elFinal (s : Thr.EL.Sys) : Json :=
  Json.mkObj [("disposed", .bool s.sh.disposed), ("thread", match s.sh.thread with | some t => jn t | none => .null),
    ("ready_list", jids (s.sh.readyList.map (·.id))), ("queue", jids (s.sh.queue.map (·.id))), ("clock", ji s.sh.clock),
    ("nthreads", jn s.ths.length),
    ("stacks", Json.arr (s.ths.map fun th => jn th.stack.length).toArray)]

def handleEL (op : String) (j : Json) : Except String Json := do
  let xie ← getBool j "xie"
  let clock ← getInt j "clock"
  let progs ← (← getArr j "progs").mapM fun p =>
    match p with
    | .arr ops => ops.toList.mapM elOpOfJson
    | _ => throw "bad prog"
  let s0 := Thr.EL.Sys.init progs clock
  match op with
  | "el_seq" =>
    let fuel ← getNat j "fuel"
    let s := elPolicy xie fuel none s0
    pure (Json.mkObj [("events", Json.arr (s.sh.log.reverse.filterMap elEvJson).toArray), ("final", elFinal s)])
  | "el_trace" =>
    let steps ← (← getArr j "trace").mapM fun e =>
      match e with
      | .arr #[i, l, c] => do pure ((← i.getNat?), l, (← c.getInt?))
      | _ => throw "bad trace entry"
    let (s, bad) := elReplay xie s0 0 steps
    let s := (List.range s.ths.length).foldl (fun s i => elSkipSilent xie i 8 s) s
    match bad with
    | none => pure (Json.mkObj [("ok", .bool true), ("final", elFinal s)])
    | some (k, ml) => pure (Json.mkObj [("ok", .bool false), ("at", jn k), ("model", ml), ("state", elFinal s)])
  | _ => throw s!"unknown op {op}"
end EL

def handle (op : String) (j : Json) : Except String Json := do
  if op.startsWith "so_" then handleSO op j
  else if op.startsWith "el_" then handleEL op j
  else if op.startsWith "tr_" then handleTr op j
  else throw s!"unknown op {op}"

end DrvThr

def main : IO Unit := Drv.run DrvThr.handle

import Driver.Common
open Lean Drv

namespace DrvThr

def handle (op : String) (_j : Json) : Except String Json := do
  match op with
  | _ => throw s!"unknown op {op}"

end DrvThr

def main : IO Unit := Drv.run DrvThr.handle

import Driver.Common
import RxModel.PureTimeConv
open Lean Drv
open Pure.TimeConv

/-! op `tc` of `drv_pure`: the three conversions of one time value, and the conversions of the results. -/
namespace DrvPureTimeConv

def intJ (i : Int) : Json := .num (JsonNumber.fromInt i)

def ratOfJson (n d : Json) : Except String Rat := do
  let n ← n.getInt?
  let d ← d.getInt?
  if d ≤ 0 then throw "bad denominator" else pure ((n : Rat) / (d : Rat))

def tvOfJson : Json → Except String TV
  | .arr #[.str "f", n, d] => do pure (.flt (← ratOfJson n d))
  | .arr #[.str "i", k] => do pure (.int (← k.getInt?))
  | .arr #[.str "td", k] => do pure (.td (← k.getInt?))
  | .arr #[.str "dt", k] => do pure (.dt (← k.getInt?))
  | j => throw s!"bad time value {j.compress}"

def secsToJson : Secs → Json
  | .flt x => Json.arr #[.str "f", intJ x.num, intJ x.den]
  | .int k => Json.arr #[.str "i", intJ k]

def secsTV : Secs → TV
  | .flt x => .flt x
  | .int k => .int k

def convAll (a : TV) : Json :=
  let sec := toSeconds rd a
  let td := toTimedelta rd a
  let dt := toDatetime rd a
  Json.mkObj [
    ("sec", secsToJson sec), ("td", intJ td), ("dt", intJ dt),
    ("sec_td", intJ (toTimedelta rd (secsTV sec))), ("sec_dt", intJ (toDatetime rd (secsTV sec))),
    ("td_sec", secsToJson (toSeconds rd (.td td))), ("td_dt", intJ (toDatetime rd (.td td))),
    ("dt_sec", secsToJson (toSeconds rd (.dt dt))), ("dt_td", intJ (toTimedelta rd (.dt dt)))]

def handle (op : String) (j : Json) : Except String Json := do
  if op != "tc" then throw s!"unknown op {op}"
  let a ← tvOfJson (← j.getObjVal? "a")
  let b ← tvOfJson (← j.getObjVal? "b")
  pure (Json.mkObj [("a", convAll a), ("b", convAll b)])

end DrvPureTimeConv

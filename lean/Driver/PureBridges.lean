import Driver.Common
import RxModel.PureBridges
open Lean Drv
open Pure.Bridges

/-! ops `br_*` of `drv_pure`: future / callback / blocking bridges. -/
namespace DrvPureBridges

def notifToJson : Notif Val → Json
  | .next v => Json.arr #[.str "N", valToJson v]
  | .error e => Json.arr #[.str "E", .str e]
  | .completed => Json.arr #[.str "C"]

def notifsToJson (ns : List (Notif Val)) : Json := Json.arr (ns.map notifToJson).toArray

def notifOfJson : Json → Except String (Notif Val)
  | .arr #[.str "N", v] => do pure (.next (← valOfJson v))
  | .arr #[.str "E", .str e] => pure (.error e)
  | .arr #[.str "C"] => pure .completed
  | j => throw s!"bad notification {j.compress}"

def futToJson : Fut Val → Json
  | .pending => Json.arr #[.str "pending"]
  | .result v => Json.arr #[.str "result", valToJson v]
  | .exception e => Json.arr #[.str "exception", .str e]
  | .cancelled => Json.arr #[.str "cancelled"]

def futOfJson : Json → Except String (Fut Val)
  | .arr #[.str "pending"] => pure .pending
  | .arr #[.str "result", v] => do pure (.result (← valOfJson v))
  | .arr #[.str "exception", .str e] => pure (.exception e)
  | .arr #[.str "cancelled"] => pure .cancelled
  | j => throw s!"bad future state {j.compress}"

def ffEventOfJson : Json → Except String (FromFuture.Event Val)
  | .arr #[.str "resolve", .arr #[.str "result", v]] => do pure (.resolve (.result (← valOfJson v)))
  | .arr #[.str "resolve", .arr #[.str "exception", .str e]] => pure (.resolve (.exception e))
  | .arr #[.str "resolve", .arr #[.str "cancel"]] => pure (.resolve .cancel)
  | .arr #[.str "dispose"] => pure .dispose
  | j => throw s!"bad from_future event {j.compress}"

def tfEventOfJson : Json → Except String (ToFuture.Event Val)
  | .arr #[.str "src", n] => do pure (.src (← notifOfJson n))
  | .arr #[.str "cancel"] => pure .cancel
  | j => throw s!"bad to_future event {j.compress}"

def taEventOfJson : Json → Except String ToAsync.Event
  | .arr #[.str "run"] => pure .run
  | .arr #[.str "subscribe", i] => do pure (.subscribe (← i.getNat?))
  | j => throw s!"bad to_async event {j.compress}"

def argToJson : FromCallback.Arg Val → Json
  | .val v => Json.arr #[.str "v", valToJson v]
  | .handler k => Json.arr #[.str "h", .num (JsonNumber.fromNat k)]

def handle (op : String) (j : Json) : Except String Json := do
  match op with
  | "br_from_future" =>
    let evs ← (← getArr j "events").mapM ffEventOfJson
    match j.getObjVal? "fn_raises" with
    | .ok (.str e) =>
      pure (Json.mkObj [("out", notifsToJson (FromFuture.startAsync (.error e) evs))])
    | _ =>
      let f ← futOfJson (← j.getObjVal? "initial")
      let s := FromFuture.run f evs
      pure (Json.mkObj [("out", notifsToJson s.out), ("fut", futToJson s.fut),
                        ("invalid", .num (JsonNumber.fromNat s.invalid))])
  | "br_to_future" =>
    let evs ← (← getArr j "events").mapM tfEventOfJson
    let s := ToFuture.run evs
    pure (Json.mkObj [("fut", futToJson s.fut), ("src_disposed", .bool s.stopped)])
  | "br_run" =>
    let xs ← (← getArr j "xs").mapM notifOfJson
    let res : ToFuture.RunResult Val :=
      match j.getObjVal? "sched" with
      | .ok (.arr bs) =>
        -- the two-thread latch model under the given interleaving (then the waiter alone, to quiescence)
        let sched := bs.toList.map fun b => b == Json.bool true
        let s := RunLatch.run xs sched
        let s := RunLatch.wstep (RunLatch.wstep (RunLatch.wstep (RunLatch.wstep (RunLatch.wstep s))))
        match s.w with
        | .finished r => r
        | _ => .blocks
      | _ => ToFuture.runBlocking xs
    pure (match res with
      | .returns v => Json.arr #[.str "returns", valToJson v]
      | .raises e => Json.arr #[.str "raises", .str e]
      | .blocks => Json.arr #[.str "blocks"])
  | "br_to_async" =>
    let func ← resOfJson (← j.getObjVal? "func")
    let evs ← (← getArr j "events").mapM taEventOfJson
    let s := ToAsync.run (match func with | .ok v => .ok v | .error e => .error e) evs
    let ids := evs.filterMap fun e => match e with | .subscribe i => some i | _ => none
    pure (Json.mkObj [("invocations", .num (JsonNumber.fromNat s.invocations)),
                      ("recv", Json.arr (ids.map fun i => Json.arr #[.num (JsonNumber.fromNat i), notifsToJson (ToAsync.received s i)]).toArray)])
  | "br_from_callback" =>
    let args ← getVals j "args"
    let mapper : Option (List Val → Except Err Val) ←
      match j.getObjVal? "mapper" with
      | .ok .null => pure none
      | .error _ => pure none
      | .ok m => do
        let f ← fnOfJson m
        pure (some fun xs => match f.call (.tup xs) with | .ok v => .ok v | .error e => .error e)
    let cfg : FromCallback.Cfg Val := { mapper, listOf := Val.lst, none := Val.none }
    let subs ← (← getArr j "subs").mapM fun s => do
      let calls ← (← s.getArr?).toList.mapM fun c => do (← c.getArr?).toList.mapM valOfJson
      pure calls
    let asis := (j.getObjValAs? Bool "asis").toOption == some true
    let outs := subs.zipIdx.map fun (calls, k) =>
      if asis then
        -- AS-IS: stop at the first handler invocation that raises (TypeError into the user function)
        let rec go (st : Bool) (cs : List (List Val)) (acc : List (Notif Val)) : List (Notif Val) × Bool :=
          match cs with
          | [] => (acc, false)
          | c :: r =>
            match FromCallback.handlerAsIs cfg c with
            | none => (acc, true)
            | some ns => let (st', o) := deliver st ns; go st' r (acc ++ o)
        let (o, raised) := go false calls []
        Json.mkObj [("out", notifsToJson o), ("raised", .bool raised),
                    ("passed", Json.arr ((FromCallback.passedAsIs args k).map argToJson).toArray)]
      else
        Json.mkObj [("out", notifsToJson (FromCallback.subscribeRun cfg false calls)), ("raised", .bool false),
                    ("passed", Json.arr ((FromCallback.passed args k).map argToJson).toArray)]
    pure (Json.mkObj [("subs", Json.arr outs.toArray)])
  | _ => throw s!"unknown op {op}"

end DrvPureBridges

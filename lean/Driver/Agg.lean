import Driver.Common
import RxModel.AggOps
import RxModel.AggSeqEq
import RxModel.AggC09
open Lean Drv Agg

namespace DrvAgg

def notifOfJson (j : Json) : Except String (Notif Val) := do
  match j with
  | .arr #[.str "N", v] => pure (.next (← valOfJson v))
  | .arr #[.str "E", .str e] => pure (.error e)
  | .arr #[.str "C"] => pure .completed
  | _ => throw s!"bad notification {j.compress}"

def notifToJson (n : Notif Val) : Json :=
  match n with
  | .next v => Json.arr #[.str "N", valToJson v]
  | .error e => Json.arr #[.str "E", .str e]
  | .completed => Json.arr #[.str "C"]

def timedOfJson (j : Json) : Except String (Int × Notif Val) := do
  match j with
  | .arr #[t, n] => pure ((← t.getInt?), (← notifOfJson n))
  | _ => throw s!"bad timed notification {j.compress}"

def timedToJson (p : Int × Notif Val) : Json := Json.arr #[.num (JsonNumber.fromInt p.1), notifToJson p.2]

/-! Python-level primitives on `Val` used by the operators' built-in default callbacks. -/

def asInt? : Val → Option Int
  | .bool b => some (if b then 1 else 0)
  | .int i => some i
  | _ => none

/-- `prev + cur` (numbers of this domain: int/bool); anything else raises TypeError -/
def addNum (a b : Val) : Except Err Val :=
  match asInt? a, asInt? b with
  | some x, some y => .ok (.int (x + y))
  | _, _ => .error "TypeError"

/-- `default_sub_comparer`: `x - y` -/
def subNum (a b : Val) : Except Err Int :=
  match asInt? a, asInt? b with
  | some x, some y => .ok (x - y)
  | _, _ => .error "TypeError"

/-- `float(x)` for the averaged domain (exact on int/bool); None/tuple/list → TypeError, str → ValueError -/
def toFloat (a : Val) : Except Err Int :=
  match a with
  | .str _ => .error "ValueError"
  | _ => match asInt? a with
    | some x => .ok x
    | none => .error "TypeError"

def pred1 (f : FnTab) (x : Val) : Except Err Bool := (f.call x).map Val.truthy
def fn1 (f : FnTab) (x : Val) : Except Err Val := f.call x
def fn2 (f : FnTab) (a b : Val) : Except Err Val := f.call (.tup [a, b])
/-- a user comparer returning a number (`SubComparer`) -/
def cmpInt (f : FnTab) (a b : Val) : Except Err Int :=
  match f.call (.tup [a, b]) with
  | .error e => .error e
  | .ok v => match asInt? v with
    | some i => .ok i
    | none => .error "TypeError"
/-- a user comparer returning a truth value (`Comparer`) -/
def cmpBool (f : FnTab) (a b : Val) : Except Err Bool := (f.call (.tup [a, b])).map Val.truthy
def defaultCmp (a b : Val) : Except Err Bool := .ok (Val.pyEq a b)

def optFn (j : Json) (k : String) : Except String (Option FnTab) :=
  match j.getObjVal? k with
  | .ok .null => pure none
  | .ok v => do pure (some (← fnOfJson v))
  | .error _ => pure none

/-- optional value wrapped in a one-element array: `"seed": [v]` (so that `None` is a legal seed) -/
def optVal (j : Json) (k : String) : Except String (Option Val) :=
  match j.getObjVal? k with
  | .ok (.arr #[v]) => do pure (some (← valOfJson v))
  | _ => pure none

def setVal (xs : List Val) : Val := .tup (.str ".set" :: xs)
def avgVal (p : Int × Nat) : Val := .tup [.str ".avg", .int p.1, .int p.2]

def runOp {β} (op : Op Val β) (toVal : β → Val) (lag : Bool) (src : List (Int × Notif Val)) : Json :=
  let outs := op.outT lag src
  let esc := op.escapes lag (src.map (·.2))
  Json.mkObj [("out", Json.arr ((outs.map (fun p => timedToJson (p.1, p.2.map toVal))).toArray)),
              ("escaped", Json.arr ((esc.map Json.str).toArray))]

def handleSingle (op : String) (j : Json) : Except String Json := do
  let lag := (getBool j "lag").toOption.getD false
  let src ← (← getArr j "src").mapM timedOfJson
  let pred ← optFn j "pred"
  let predF := pred.map pred1
  let idV : Val → Val := id
  match op with
  | "scan" =>
    let acc ← getFn j "acc"
    pure (runOp (scanO (fn2 acc) (← optVal j "seed") id) idV lag src)
  | "reduce" =>
    let acc ← getFn j "acc"
    pure (runOp (reduceO (fn2 acc) (← optVal j "seed") id) idV lag src)
  | "count" => pure (runOp (countO predF) (fun n => Val.int n) lag src)
  | "sum" =>
    match ← optFn j "key" with
    | some k => pure (runOp (sumByO (fn1 k) addNum (.int 0)) idV lag src)
    | none => pure (runOp (sumPlainO addNum (.int 0)) idV lag src)
  | "average" =>
    match ← optFn j "key" with
    | some k => pure (runOp (averageO (fun x => (fn1 k x).bind toFloat')) avgVal lag src)
    | none => pure (runOp (averageO toFloat) avgVal lag src)
  | "min" =>
    match ← optFn j "cmp" with
    | some c => pure (runOp (minO (cmpInt c)) idV lag src)
    | none => pure (runOp (minO subNum) idV lag src)
  | "max" =>
    match ← optFn j "cmp" with
    | some c => pure (runOp (maxO (cmpInt c)) idV lag src)
    | none => pure (runOp (maxO subNum) idV lag src)
  | "min_by" =>
    let key ← getFn j "key"
    match ← optFn j "cmp" with
    | some c => pure (runOp (minByO (fn1 key) (cmpInt c)) Val.lst lag src)
    | none => pure (runOp (minByO (fn1 key) subNum) Val.lst lag src)
  | "max_by" =>
    let key ← getFn j "key"
    match ← optFn j "cmp" with
    | some c => pure (runOp (maxByO (fn1 key) (cmpInt c)) Val.lst lag src)
    | none => pure (runOp (maxByO (fn1 key) subNum) Val.lst lag src)
  | "to_list" => pure (runOp toListO Val.lst lag src)
  | "to_set" => pure (runOp (toSetHO Val.hashable Val.pyEq) setVal lag src)
  | "to_dict" =>
    let key ← getFn j "key"
    match ← optFn j "elem" with
    | some e => pure (runOp (toDictHO Val.hashable Val.pyEq (fn1 key) (fn1 e)) Val.dct lag src)
    | none => pure (runOp (toDictHO Val.hashable Val.pyEq (fn1 key) (fun x => .ok x)) Val.dct lag src)
  | "first" => pure (runOp (firstO predF) idV lag src)
  | "first_or_default" => pure (runOp (firstOrDefaultPO predF (← getVal j "default")) idV lag src)
  | "last" => pure (runOp (lastO predF) idV lag src)
  | "last_or_default" => pure (runOp (lastOrDefaultPO predF (← getVal j "default")) idV lag src)
  | "single" => pure (runOp (singleO predF) idV lag src)
  | "single_or_default" => pure (runOp (singleOrDefaultPO predF (← getVal j "default")) idV lag src)
  | "some" => pure (runOp (someO predF) Val.bool lag src)
  | "all" =>
    match predF with
    | some p => pure (runOp (allO p) Val.bool lag src)
    | none => throw "all needs pred"
  | "contains" =>
    let v ← getVal j "value"
    match ← optFn j "cmp" with
    | some c => pure (runOp (containsO v (cmpBool c)) Val.bool lag src)
    | none => pure (runOp (containsO v defaultCmp) Val.bool lag src)
  | "is_empty" => pure (runOp isEmptyO Val.bool lag src)
  -- element-wise operators with callbacks re-stated for C09
  | "map" => pure (runOp (mapO (fn1 (← getFn j "fn"))) idV lag src)
  | "filter" => pure (runOp (filterO (pred1 (← getFn j "fn"))) idV lag src)
  | "take_while" =>
    pure (runOp (takeWhileO (pred1 (← getFn j "fn")) ((getBool j "inclusive").toOption.getD false)) idV lag src)
  | "distinct" =>
    let key ← optFn j "key"
    let keyF : Val → Except Err Val := match key with | some k => fn1 k | none => fun x => .ok x
    match ← optFn j "cmp" with
    | some c => pure (runOp (distinctO keyF (cmpBool c)) idV lag src)
    | none => pure (runOp (distinctO keyF defaultCmp) idV lag src)
  | "find" =>
    let f ← getFn j "fn"
    let yi := (getBool j "yield_index").toOption.getD false
    pure (runOp (findO (fun x i => (f.call (.tup [x, .int i])).map Val.truthy) yi) (fun r => match r with | .inl (some v) => v | .inl none => Val.none | .inr i => Val.int i) lag src)
  | _ => throw s!"unknown op {op}"
where
  -- with a key mapper `float()` is not applied: a non-number fails in `prev.sum + cur` (TypeError), caught by scan's map
  toFloat' (v : Val) : Except Err Int := match asInt? v with | some i => .ok i | none => .error "TypeError"

def sideTimed (sd : Side) (p : Int × Notif Val) : Int × Side × Notif Val := (p.1, sd, p.2)

/-- merge two timed streams by time; on a tie the left source (created first) is delivered first -/
def mergeT : Nat → List (Int × Notif Val) → List (Int × Notif Val) → List (Int × Side × Notif Val)
  | 0, _, _ => []
  | _ + 1, [], rs => rs.map (sideTimed .R)
  | _ + 1, ls, [] => ls.map (sideTimed .L)
  | fuel + 1, l :: ls, r :: rs =>
    if l.1 ≤ r.1 then sideTimed .L l :: mergeT fuel ls (r :: rs)
    else sideTimed .R r :: mergeT fuel (l :: ls) rs

def handleSeq (j : Json) : Except String Json := do
  let lag := (getBool j "lag").toOption.getD false
  let left ← (← getArr j "left").mapM timedOfJson
  let cmp : Val → Val → Except Err Bool ← (do
    match ← optFn j "cmp" with
    | some c => pure (cmpBool c)
    | none => pure defaultCmp)
  let tr ← (do
    match j.getObjVal? "iter" with
    | .ok (.arr xs) =>
      -- from_iterable(second) subscribed at `t0`: all elements and the completion in one scheduler action
      let t0 ← getInt j "t0"
      let vs ← xs.toList.mapM valOfJson
      let rs : List (Int × Side × Notif Val) := vs.map (fun v => (t0, Side.R, Notif.next v)) ++ [(t0, Side.R, Notif.completed)]
      pure (rs ++ left.map (sideTimed .L))
    | _ =>
      let right ← (← getArr j "right").mapM timedOfJson
      pure (mergeT (left.length + right.length + 1) left right))
  let outs := seqOutT cmp lag tr
  let esc := seqEscapes cmp lag (tr.map (·.2))
  pure (Json.mkObj [("out", Json.arr ((outs.map (fun p => timedToJson (p.1, p.2.map Val.bool))).toArray)),
                    ("escaped", Json.arr ((esc.map Json.str).toArray))])

def handle (op : String) (j : Json) : Except String Json := do
  match op with
  | "sequence_equal" => handleSeq j
  | _ => handleSingle op j

end DrvAgg

def main : IO Unit := Drv.run DrvAgg.handle

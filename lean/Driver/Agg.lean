import Driver.Common
open Lean Drv

namespace DrvAgg

def handle (op : String) (_j : Json) : Except String Json := do
  match op with
  | _ => throw s!"unknown op {op}"

end DrvAgg

def main : IO Unit := Drv.run DrvAgg.handle

import Driver.Common
open Lean Drv

namespace DrvPure

def handle (op : String) (_j : Json) : Except String Json := do
  match op with
  | _ => throw s!"unknown op {op}"

end DrvPure

def main : IO Unit := Drv.run DrvPure.handle

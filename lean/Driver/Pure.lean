import Driver.Common
import Driver.PureMarbles
import Driver.PureSources
import Driver.PureBridges
import Driver.PureTimeConv
open Lean Drv

/-! `drv_pure`: one executable for the Pure family (C36, C37, C38, C41); dispatch on the op prefix. -/
namespace DrvPure

def handle (op : String) (j : Json) : Except String Json :=
  if op.startsWith "marbles_" then DrvPureMarbles.handle op j
  else if op == "src" then DrvPureSources.handle op j
  else if op.startsWith "br_" then DrvPureBridges.handle op j
  else if op == "tc" then DrvPureTimeConv.handle op j
  else throw s!"unknown op {op}"

end DrvPure

def main : IO Unit := Drv.run DrvPure.handle

import Driver.Common
import RxModel.PureMarbles
open Lean Drv
open Pure.Marbles

/-! ops `marbles_parse`, `marbles_cold`, `marbles_hot` of `drv_pure`. -/
namespace DrvPureMarbles

/-- numeric normal form used for Python's `==`/hash between `try_number` results and lookup keys
(exact decimal value; valid for lexemes with ≤ 15 significant digits in the normal double range). -/
inductive NumKey where
  | dec (m : Int) (e : Int)
  | inf (neg : Bool)
  | nan
deriving BEq, Repr

def normDecF : Nat → Int → Int → NumKey
  | 0, m, e => .dec m e
  | fuel + 1, m, e =>
    if m == 0 then .dec 0 0
    else if m % 10 == 0 then normDecF fuel (m / 10) (e + 1)
    else .dec m e

def normDec (m : Int) (e : Int) : NumKey := normDecF (m.natAbs + 1) m e

def natOf (cs : List Char) : Nat := cs.foldl (fun a c => 10 * a + (c.toNat - 48)) 0

/-- value of a float lexeme accepted by `pyFloat?` (no underscores) or printed by Python's `repr`. -/
def parseFloatLex (cs : List Char) : Option NumKey :=
  let (neg, body) := stripSign cs
  let low := body.map Char.toLower
  if low == "inf".toList || low == "infinity".toList then some (.inf neg)
  else if low == "nan".toList then some .nan
  else
    let ip := body.takeWhile Char.isDigit
    let r1 := body.dropWhile Char.isDigit
    let (fp, r2) : List Char × List Char :=
      match r1 with
      | '.' :: r => (r.takeWhile Char.isDigit, r.dropWhile Char.isDigit)
      | _ => ([], r1)
    if ip.isEmpty && fp.isEmpty then none
    else
      let ex : Option Int :=
        match r2 with
        | [] => some 0
        | _ :: r =>
          let (eneg, ed) := stripSign r
          if ed.isEmpty || !ed.all Char.isDigit then none
          else some (if eneg then -(Int.ofNat (natOf ed)) else Int.ofNat (natOf ed))
      match ex with
      | none => none
      | some e =>
        let m : Int := Int.ofNat (natOf (ip ++ fp))
        some (normDec (if neg then -m else m) (e - fp.length))

def elemKey : Elem → Option NumKey
  | .int i => some (normDec i 0)
  | .flt l => parseFloatLex l
  | .str _ => none

def valKey : Val → Option NumKey
  | .int i => some (normDec i 0)
  | .flt s => parseFloatLex s.toList
  | _ => none

def keyMatches (e : Elem) (k : Val) : Bool :=
  match e, k with
  | .str s, .str s' => String.ofList s == s'
  | .str _, _ => false
  | e, k =>
    match elemKey e, valKey k with
    | some .nan, _ => false
    | _, some .nan => false
    | some a, some b => a == b
    | _, _ => false

def embed : Elem → Val
  | .int i => .int i
  | .flt l => .tup [.str ".fl", .str (String.ofList l)]
  | .str s => .str (String.ofList s)

def cfgOfJson (j : Json) (shift : Int) (raiseStopped : Bool) : Except String (Cfg Val) := do
  let timespan ← getInt j "timespan"
  let pairs ← (← getArr j "lookup").mapM fun p =>
    match p with
    | .arr #[k, v] => do pure ((← valOfJson k), (← valOfJson v))
    | _ => throw "bad lookup entry"
  let err := (j.getObjValAs? String "err").toOption.getD "Exception"
  pure { timespan, shift, raiseStopped,
         lookup := fun e => (pairs.find? (fun (k, _) => keyMatches e k)).map (·.2),
         embed, err }

def notifToJson : Notif Val → Json
  | .next v => Json.arr #[.str "N", valToJson v]
  | .error e => Json.arr #[.str "E", .str e]
  | .completed => Json.arr #[.str "C"]

def msgsToJson (ms : List (Msg Val)) : Json :=
  Json.arr (ms.map fun (t, n) => Json.arr #[.num (JsonNumber.fromInt t), notifToJson n]).toArray

def perrToJson : PErr → Json
  | .stopped => Json.mkObj [("err", .str "stopped")]
  | .comma => Json.mkObj [("err", .str "comma")]

def handle (op : String) (j : Json) : Except String Json := do
  let s := (← getStr j "s").toList
  match op with
  | "marbles_parse" =>
    let cfg ← cfgOfJson j (← getInt j "shift") (← getBool j "raise_stopped")
    match parse cfg s with
    | .ok ms => pure (Json.mkObj [("ok", msgsToJson ms)])
    | .error e => pure (perrToJson e)
  | "marbles_cold" =>
    let cfg ← cfgOfJson j 0 true
    match parse cfg s with
    | .ok ms => pure (Json.mkObj [("ok", msgsToJson (coldDeliver ms (← getInt j "sub") (← getInt j "disp")))])
    | .error e => pure (perrToJson e)
  | "marbles_hot" =>
    let cfg ← cfgOfJson j (← getInt j "shift") true
    let subs ← (← getArr j "subs").mapM fun x => x.getInt?
    let disp ← getInt j "disp"
    match parse cfg s with
    | .ok ms =>
      let created := (j.getObjValAs? Int "created").toOption.getD 0
      let late := (j.getObjValAs? Bool "late").toOption.getD false
      pure (Json.mkObj [("ok", Json.arr (subs.map fun sub =>
        msgsToJson (if late then hotDeliverLate ms created sub disp else hotDeliver ms created sub disp)).toArray)])
    | .error e => pure (perrToJson e)
  | "marbles_ctx" =>
    -- reactivex.testing.marbles_testing(timespan): exp() = parse(shift = 200, no raise_stopped);
    -- cold() = from_marbles, hot() = hot(duetime = 200) created at clock 0; start() subscribes at 200, disposes at 1000
    let which ← getStr j "which"
    let cfgE ← cfgOfJson j 200 false
    let expJ := match parse cfgE s with
      | .ok ms => Json.mkObj [("ok", msgsToJson ms)]
      | .error e => perrToJson e
    let gotJ ←
      if which == "cold" then do
        let cfg ← cfgOfJson j 0 true
        pure (match parse cfg s with
          | .ok ms => Json.mkObj [("ok", msgsToJson (coldDeliver ms 200 1000))]
          | .error e => perrToJson e)
      else do
        let cfg ← cfgOfJson j 200 true
        pure (match parse cfg s with
          | .ok ms => Json.mkObj [("ok", msgsToJson (hotDeliver ms 0 200 1000))]
          | .error e => perrToJson e)
    pure (Json.mkObj [("exp", expJ), ("got", gotJ)])
  | _ => throw s!"unknown op {op}"

end DrvPureMarbles

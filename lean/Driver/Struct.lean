import Driver.Common
import RxModel.StructFluent
import RxModel.StructCaptures
import RxModel.StructOps
import RxGen.Fluent
import RxGen.Captures
open Lean Drv

namespace DrvStruct
open Struct.Fluent

def appToJson : Option (App String) → Json
  | none => .null
  | some a => Json.mkObj [("op", .str a.op),
      ("args", Json.arr (a.args.map fun (k, v) => Json.arr #[.str k, .str v]).toArray)]

/-- `fluent_call`: the operator application the model says a fluent call builds (values are opaque
tokens; the default expression `None` is the token "None"), and the application obtained by
calling the operator directly with the same arguments. -/
def fluentCall (j : Json) : Except String Json := do
  let mname ← getStr j "method"
  let envL ← (← getArr j "env").mapM fun p =>
    match p with
    | .arr #[.str k, .str v] => pure (k, v)
    | _ => throw "bad env entry"
  let env : String → Option String := fun n => envL.lookup n
  let t := RxGen.Fluent.table
  match t.methods.find? (fun m => m.name == mname) with
  | none => pure (Json.mkObj [("error", .str "no such method in the table")])
  | some m =>
    let fl := fluentApp (V := String) id t m env
    let pi := match t.ops.find? (fun s => s.name == aliasOf mname) with
      | some sig => pipedApp (V := String) id sig m.params env
      | none => none
    pure (Json.mkObj [("fluent", appToJson fl), ("piped", appToJson pi), ("ok", .bool (ok t m))])

/-! ### frame model runs (C04 / C44) -/
open Struct.Frame Struct.Ops

def notifOfJson (j : Json) : Except String (Notif Val) := do
  match j with
  | .arr #[.str "N", v] => pure (.next (← valOfJson v))
  | .arr #[.str "E", .str e] => pure (.error e)
  | .arr #[.str "C"] => pure .completed
  | _ => throw s!"bad notification {j.compress}"

def notifToJson : Notif Val → Json
  | .next v => Json.arr #[.str "N", valToJson v]
  | .error e => Json.arr #[.str "E", .str e]
  | .completed => Json.arr #[.str "C"]

def actsOfJson {A} (f : Json → Except String A) (js : List Json) : Except String (List (Act A)) :=
  js.mapM fun j =>
    match j with
    | .arr #[.str "c", i] => do pure (.create (← i.getNat?))
    | .arr #[.str "a", i, a] => do pure (.act (← i.getNat?) (← f a))
    | _ => throw s!"bad act {j.compress}"

def outsToJson {O} (f : O → Json) (r : List (Nat × O)) : Json :=
  Json.arr (r.map fun (i, o) => Json.arr #[.num (JsonNumber.fromNat i), f o]).toArray

def pairN : Notif (Val × Val) → Notif Val := Notif.map (fun p => Val.tup [p.1, p.2])

def natOf (v : Val) : Nat := match v with | .int i => i.toNat | _ => 0

def frameRun (j : Json) : Except String Json := do
  let sys ← getStr j "sys"
  let actsJ ← getArr j "acts"
  match sys with
  | "ref_count" =>
    let acts ← actsOfJson (fun a => match a with
      | .arr #[.str "sub", k] => do pure (RcAct.sub (← k.getNat?))
      | .arr #[.str "unsub", k] => do pure (RcAct.unsub (← k.getNat?))
      | _ => throw "bad ref_count act") actsJ
    pure (outsToJson (fun o => match o with
      | RcOut.srcSubscribe k => Json.arr #[.str "srcSubscribe", .num (JsonNumber.fromNat k)]
      | .connect => Json.arr #[.str "connect"]
      | .srcUnsubscribe k => Json.arr #[.str "srcUnsubscribe", .num (JsonNumber.fromNat k)]
      | .disconnect => Json.arr #[.str "disconnect"]) (runG refCount () [] acts))
  | _ =>
    let acts ← actsOfJson notifOfJson actsJ
    match sys with
    | "take" =>
      let n ← getNat j "count"
      pure (outsToJson notifToJson (runG (take (α := Val)).sys n [] acts))
    | "skip" =>
      let n ← getNat j "count"
      pure (outsToJson notifToJson (runG (skip (α := Val)).sys n [] acts))
    | "scan" =>
      let f ← getFn j "accumulator"
      let seed := (getVal j "seed").toOption
      let p : (Val → Val → Except Err Val) × Option Val × (Val → Val) := (fun a x => f.call (.tup [a, x]), seed, id)
      pure (outsToJson notifToJson (runG (scan (α := Val) (β := Val)).sys p [] acts))
    | "map_indexed" =>
      let f ← getFn j "mapper"
      let p : Val → Nat → Except Err Val := fun x i => f.call (.tup [x, .int i])
      pure (outsToJson notifToJson (runG (mapIndexed (α := Val) (β := Val)).sys p [] acts))
    | "zip_with_iterable" =>
      let seq ← getVals j "seq"
      pure (outsToJson (fun n => notifToJson (pairN n)) (runG (zipIter (α := Val) (γ := Val)).sys seq [] acts))
    | "distinct_until_changed" =>
      let f ← getFn j "key_mapper"
      let p : (Val → Except Err Val) × (Val → Val → Except Err Bool) := (f.call, fun a b => .ok (Val.pyEq a b))
      pure (outsToJson notifToJson (runG (distinctUntilChanged (α := Val) (κ := Val)).sys p [] acts))
    | "take_while" =>
      let f ← getFn j "predicate"
      let incl ← getBool j "inclusive"
      let p : (Val → Except Err Bool) × Bool := (fun v => (f.call v).map Val.truthy, incl)
      pure (outsToJson notifToJson (runG (takeWhile (α := Val)).sys p [] acts))
    | "retry" | "repeat" =>
      let n := (getNat j "count").toOption
      let f : BOut Val → Json := fun o => match o with
        | .emit x => notifToJson x
        | .resubscribe => Json.arr #[.str "R"]
      if sys == "retry" then pure (outsToJson f (runG (retry (α := Val)) n [] acts))
      else pure (outsToJson f (runG (repeat_ (α := Val)) n [] acts))
    | "pairwise" =>
      pure (outsToJson (fun n => notifToJson (pairN n)) (runG (pairwise (α := Val)).sys () [] acts))
    | _ => throw s!"unknown sys {sys}"

open Struct.Captures in
def capturesReport : Json :=
  let t := RxGen.Captures.table
  let show_ (e : Entry) : Json := .str s!"{e.file}:{e.path}.{e.name} created@L{e.created} used@{match e.used with | some u => s!"L{u}" | none => "-"} escapes={e.escapes}"
  let showA (a : String × String × String) : Json := .str s!"{a.1}:{a.2.1}.{a.2.2}"
  Json.mkObj [
    ("entries", .num (JsonNumber.fromNat t.length)),
    ("created_above_subscription", .num (JsonNumber.fromNat (t.filter fun e => e.created < 2).length)),
    ("cold_violations", Json.arr ((coldViolations t).map show_).toArray),
    ("factory_violations", Json.arr ((factoryViolations t).map show_).toArray),
    ("cold_allowed", Json.arr ((t.filter fun e => coldBad e && coldOk e).map show_).toArray),
    ("factory_allowed", Json.arr ((t.filter fun e => factoryBad e && factoryOk e).map show_).toArray),
    ("cold_stale_allow", Json.arr ((staleAllow t coldAllow coldBad).map showA).toArray),
    ("factory_stale_allow", Json.arr ((staleAllow t factoryAllow factoryBad).map showA).toArray)]

def handle (op : String) (j : Json) : Except String Json := do
  match op with
  | "fluent_call" => fluentCall j
  | "fluent_table_ok" => pure (.bool (tableOk RxGen.Fluent.table))
  | "frame_run" => frameRun j
  | "captures_report" => pure capturesReport
  | _ => throw s!"unknown op {op}"

end DrvStruct

def main : IO Unit := Drv.run DrvStruct.handle

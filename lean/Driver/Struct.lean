import Driver.Common
open Lean Drv

namespace DrvStruct

def handle (op : String) (_j : Json) : Except String Json := do
  match op with
  | _ => throw s!"unknown op {op}"

end DrvStruct

def main : IO Unit := Drv.run DrvStruct.handle

import Driver.Common
import RxModel.Conn
import RxModel.ConnSync
open Lean Drv

namespace DrvConn
open Conn

def notifOfJson (j : Json) : Except String (Notif Val) := do
  match j with
  | .arr #[.str "N", v] => pure (.next (← valOfJson v))
  | .arr #[.str "E", .str e] => pure (.error e)
  | .arr #[.str "C"] => pure .completed
  | _ => throw s!"bad notification {j.compress}"

def notifToJson : Notif Val → Json
  | .next v => Json.arr #[.str "N", valToJson v]
  | .error e => Json.arr #[.str "E", .str e]
  | .completed => Json.arr #[.str "C"]

def msgsOfJson (js : List Json) : Except String (List (Nat × Notif Val)) :=
  js.mapM fun j =>
    match j with
    | .arr #[t, n] => do pure ((← t.getNat?), (← notifOfJson n))
    | _ => throw "bad message"

def opOfJson (j : Json) : Except String (Nat × Op) := do
  match j with
  | .arr #[t, .arr #[.str "sub", i]] => pure ((← t.getNat?), .sub (← i.getNat?))
  | .arr #[t, .arr #[.str "unsub", i]] => pure ((← t.getNat?), .unsub (← i.getNat?))
  | .arr #[t, .arr #[.str "connect"]] => pure ((← t.getNat?), .connect)
  | .arr #[t, .arr #[.str "disconnect", k]] => pure ((← t.getNat?), .disconnect (← k.getNat?))
  | _ => throw s!"bad op {j.compress}"

def natJ (n : Nat) : Json := .num (JsonNumber.fromNat n)

def subjOfJson (j : Json) : Except String (Subj Val) := do
  let kind ← getStr j "subject"
  match kind with
  | "plain" => pure {}
  | "behavior" => pure { isBehavior := true, value := some (← getVal j "init") }
  | "replay" =>
    let buf := match j.getObjVal? "buf" with
      | .ok (.num n) => some n.mantissa.toNat
      | _ => none
    pure { isReplay := true, bufSize := buf }
  | _ => throw s!"unknown subject kind {kind}"

def worldOfJson (j : Json) : Except String (World Val) := do
  let subj ← subjOfJson j
  let msgs ← msgsOfJson (← getArr j "msgs")
  let hot ← getBool j "hot"
  let wrapS ← getStr j "wrap"
  let wrap ← match wrapS with
    | "raw" => pure Wrap.raw
    | "refcount" => pure Wrap.refCount
    | "auto" => do pure (Wrap.autoConnect (← getNat j "n"))
    | _ => throw s!"unknown wrap {wrapS}"
  pure { subj := subj, wrap := wrap, coldMsgs := if hot then [] else msgs, hot := if hot then some msgs else none }

def timedToJson (l : List (Nat × Notif Val)) : Json :=
  Json.arr (l.map fun (t, n) => Json.arr #[natJ t, notifToJson n]).toArray

def logToJson (l : List (Nat × Nat × Option Nat)) : Json :=
  Json.arr (l.map fun (_, s, u) => Json.arr #[natJ s, match u with | some x => natJ x | none => .null]).toArray

def subscribersOf (ops : List (Nat × Op)) : List Nat :=
  (ops.filterMap fun (_, o) => match o with | .sub i => some i | _ => none).eraseDups

/-- `conn_run`: one shared multicast observable, a history of calls -/
def connRun (j : Json) : Except String Json := do
  let w ← worldOfJson j
  let ops ← (← getArr j "ops").mapM opOfJson
  let horizon ← getNat j "horizon"
  let r := w.run ops horizon
  let outs := (subscribersOf ops).map fun i => (toString i, timedToJson (r.outputsOf i))
  pure (Json.mkObj [("out", Json.mkObj outs), ("src", logToJson r.srcLog)])

/-- merge of the inner subscriptions of one outer subscriber (`rx.merge(c, c)`): nexts pass, the
first error ends it, completion when all inner ones completed -/
def mergeOut (k : Nat) : Nat → Bool → List (Nat × Nat × Notif Val) → List (Nat × Notif Val)
  | _, true, _ => []
  | _, _, [] => []
  | done, false, (_, t, n) :: rest =>
    match n with
    | .next v => (t, .next v) :: mergeOut k done false rest
    | .error e => [(t, .error e)]
    | .completed => if done + 1 = k then [(t, .completed)] else mergeOut k (done + 1) false rest

/-- `mcast_run`: `multicast(subject_factory, mapper)` (= `publish(mapper)`, `replay(mapper=…)`,
`publish_value(v, mapper)`): every outer subscription gets a private connectable, subscribes
`mapper(connectable)` (`k` inner subscriptions) and then connects it. -/
def mcastRun (j : Json) : Except String Json := do
  let w ← worldOfJson j
  let ops ← (← getArr j "ops").mapM opOfJson
  let horizon ← getNat j "horizon"
  let k ← getNat j "inner"
  let subsL := ops.filterMap fun (t, o) => match o with | .sub i => some (t, i) | _ => none
  let res := subsL.map fun (t, i) =>
    let tu : Option Nat := (ops.find? fun (p : Nat × Op) => p.2 == Op.unsub i).map (fun (p : Nat × Op) => p.1)
    let r := w.mcastWorld k t tu horizon
    (i, mergeOut k 0 false r.out, r.srcLog)
  let outs := res.map fun (i, o, _) => (toString i, timedToJson o)
  let logs := res.foldl (fun acc (_, _, l) => acc ++ l) []
  pure (Json.mkObj [("out", Json.mkObj outs), ("src", logToJson logs)])

/-! ### synchronous sources and re-entrant calls -/
open Conn.Sync in
def notifNat (j : Json) : Except String (Notif Nat) := do
  match j with
  | .arr #[.str "N", v] => pure (.next (← v.getNat?))
  | .arr #[.str "E", .str e] => pure (.error e)
  | .arr #[.str "C"] => pure .completed
  | _ => throw s!"bad notification {j.compress}"

def notifNatToJson : Notif Nat → Json
  | .next v => Json.arr #[.str "N", natJ v]
  | .error e => Json.arr #[.str "E", .str e]
  | .completed => Json.arr #[.str "C"]

open Conn.Sync in
def sopOfJson (j : Json) : Except String SOp := do
  match j with
  | .arr #[.str "sub", i, v, r] =>
    let view ← match v with
      | .null => pure none
      | x => do pure (some (← x.getNat?))
    let react ← match r with
      | .arr #[a, b] => do pure (some ((← a.getNat?), (← b.getNat?)))
      | _ => pure none
    pure (.sub (← i.getNat?) view react)
  | .arr #[.str "unsub", i] => pure (.unsub (← i.getNat?))
  | .arr #[.str "connect"] => pure .connect
  | .arr #[.str "disconnect", k] => pure (.disconnect (← k.getNat?))
  | .arr #[.str "push", n] => pure (.push (← notifNat n))
  | _ => throw s!"bad sync op {j.compress}"

open Conn.Sync in
def syncRun (j : Json) : Except String Json := do
  let kind ← getStr j "subject"
  let subj : Subj Nat ← match kind with
    | "plain" => pure {}
    | "behavior" => do pure { isBehavior := true, value := some (← getNat j "init") }
    | "replay" =>
      let buf := match j.getObjVal? "buf" with
        | .ok (.num n) => some n.mantissa.toNat
        | _ => none
      pure { isReplay := true, bufSize := buf }
    | _ => throw s!"unknown subject kind {kind}"
  let sync ← (← getArr j "sync").mapM notifNat
  let actions ← (← getArr j "actions").mapM sopOfJson
  let ops ← (← getArr j "ops").mapM sopOfJson
  let w : SW := { subj := subj, syncMsgs := sync, actions := actions }
  let r := run w ops 5000
  let ids := (r.subs.map (·.1))
  let outs := ids.map fun i => (toString i, Json.arr ((outputsOf r i).map notifNatToJson).toArray)
  pure (Json.mkObj [("out", Json.mkObj outs), ("nsrc", natJ r.nSrc), ("maxopen", natJ r.maxOpen), ("hasSub", .bool r.hasSub)])

def handle (op : String) (j : Json) : Except String Json := do
  match op with
  | "conn_run" => connRun j
  | "mcast_run" => mcastRun j
  | "sync_run" => syncRun j
  | _ => throw s!"unknown op {op}"

end DrvConn

def main : IO Unit := Drv.run DrvConn.handle

import Driver.Common
open Lean Drv

namespace DrvConn

def handle (op : String) (_j : Json) : Except String Json := do
  match op with
  | _ => throw s!"unknown op {op}"

end DrvConn

def main : IO Unit := Drv.run DrvConn.handle

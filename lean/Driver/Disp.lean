import Driver.Common
open Lean Drv

namespace DrvDisp

def handle (op : String) (_j : Json) : Except String Json := do
  match op with
  | _ => throw s!"unknown op {op}"

end DrvDisp

def main : IO Unit := Drv.run DrvDisp.handle

import Driver.Common
import RxModel.Disp
import RxModel.DispNest
/-!
# drv_disp — line-protocol driver for the disposable models (C25–C27)

Request: `{"op":"run","cls":C,"threads":[...],"sched":[tid,...] | null, "items":k, ...}`
* `cls`: disposable | boolean | scheduled | composite | serial | mad | sad | sad_asis | refcount | nest
* `threads`: per thread its program — a call count (disposable, boolean, scheduled callers) or a list of ops
* `sched`: thread index per atomic step; `null` = run the threads one after the other to completion
* `items`: number of item ids whose dispose counters are reported; `init`, `falsy`, `workers`, `raises` (disposable:
  indices of the action invocations that raise) where relevant
Response: `{"ev":[[tid, event, obs|null],...], "final":obs, "stutter":n}` — `obs` (observable state after the
step) is attached to every `ret`/`raise` event; `stutter` counts scheduled steps that did nothing.
-/
open Lean Drv Disp

namespace DrvDisp

def rvToJson : RV → Json
  | .unit => .null
  | .bool b => .bool b
  | .item none => Json.mkObj [("item", .null)]
  | .item (some i) => Json.mkObj [("item", .num (JsonNumber.fromNat i))]
  | .nat n => .num (JsonNumber.fromNat n)

def natJ (n : Nat) : Json := .num (JsonNumber.fromNat n)

def evToJson : Ev → Json
  | .lock w => Json.arr #[.str "L", natJ w]
  | .rd v => Json.arr #[.str "R", .bool v]
  | .wr => Json.arr #[.str "W"]
  | .disp i => Json.arr #[.str "D", natJ i]
  | .action => Json.arr #[.str "A"]
  | .sched => Json.arr #[.str "S"]
  | .ret v => Json.arr #[.str "ret", rvToJson v]
  | .raised => Json.arr #[.str "raise"]

def isEnd : Ev → Bool
  | .ret _ => true
  | .raised => true
  | _ => false

structure Machine (σ π : Type) where
  step : σ → π → σ × π
  log : σ → List Ev
  obs : σ → Json
  done : σ → π → Bool

structure Out where
  evs : Array Json := #[]
  stutter : Nat := 0

def stepOnce {σ π} (m : Machine σ π) (s : Sys σ π) (tid : Nat) (o : Out) : Sys σ π × Out × Bool :=
  let n0 := (m.log s.sh).length
  let s' := s.step m.step tid
  let new := (m.log s'.sh).drop n0
  if new.isEmpty then (s', { o with stutter := o.stutter + 1 }, false)
  else
    let ob := m.obs s'.sh
    let evs := new.foldl (fun acc e =>
      acc.push (Json.arr #[natJ tid, evToJson e, if isEnd e then ob else .null])) o.evs
    (s', { o with evs := evs }, true)

def runSched {σ π} (m : Machine σ π) (s : Sys σ π) (sched : List Nat) : Sys σ π × Out :=
  sched.foldl (fun (acc : Sys σ π × Out) tid =>
    let (s', o', _) := stepOnce m acc.1 tid acc.2
    (s', o')) (s, {})

/-- run thread `tid` until it is done (bounded by `fuel`) -/
def runThread {σ π} (m : Machine σ π) (tid : Nat) : Nat → Sys σ π × Out → Sys σ π × Out
  | 0, acc => acc
  | fuel + 1, (s, o) =>
    match s.pcs[tid]? with
    | none => (s, o)
    | some p =>
      if m.done s.sh p then (s, o)
      else
        let (s', o', progressed) := stepOnce m s tid o
        if progressed then runThread m tid fuel (s', o') else (s', o')

def runSeq {σ π} (m : Machine σ π) (s : Sys σ π) (fuel : Nat) : Sys σ π × Out :=
  (List.range s.pcs.length).foldl (fun acc tid => runThread m tid fuel acc) (s, {})

def finish {σ π} (m : Machine σ π) (r : Sys σ π × Out) : Json :=
  Json.mkObj [("ev", .arr r.2.evs), ("final", m.obs r.1.sh), ("stutter", natJ r.2.stutter)]

def go {σ π} (m : Machine σ π) (s : Sys σ π) (sched : Option (List Nat)) : Json :=
  match sched with
  | some sc => finish m (runSched m s sc)
  | none => finish m (runSeq m s 100000)

def cntJ (cnt : Nat → Nat) (k : Nat) : Json := .arr ((List.range k).map fun i => natJ (cnt i)).toArray

def optJ : Option Nat → Json
  | none => .null
  | some i => natJ i

/-! machines -/

def mDisposable (raises : List Nat) : Machine DSh DTh :=
  { step := dStep (fun k => raises.contains k), log := (·.log),
    obs := fun s => Json.mkObj [("is_disposed", .bool s.isDisposed), ("actions", natJ s.actions)],
    done := fun _ p => p.1 == .idle && p.2 == 0 }

def mBoolean : Machine BSh Nat :=
  { step := bStep, log := (·.log), obs := fun s => Json.mkObj [("is_disposed", .bool s.isDisposed)],
    done := fun _ p => p == 0 }

def mScheduled : Machine SSh SPc :=
  { step := sStep, log := (·.log),
    obs := fun s => Json.mkObj [("is_disposed", .bool s.sadDisposed), ("cnt", .arr #[natJ s.cnt]), ("queued", natJ s.queued)],
    done := fun s p => match p with
      | .caller 0 => true
      | .done => true
      | .waiting k => !(k < s.queued)
      | _ => false }

def mComposite (k : Nat) : Machine CSh CTh :=
  { step := cStep, log := (·.log),
    obs := fun s => Json.mkObj [("is_disposed", .bool s.isDisposed), ("items", .arr (s.items.map natJ).toArray),
                                ("cnt", cntJ s.cnt k)],
    done := fun _ p => p.1 == .idle && p.2.isEmpty }

def mAssign (f : ASh → ATh → ASh × ATh) (k : Nat) : Machine ASh ATh :=
  { step := f, log := (·.log),
    obs := fun s => Json.mkObj [("is_disposed", .bool s.isDisposed), ("current", optJ s.current), ("cnt", cntJ s.cnt k)],
    done := fun _ p => p.1 == .idle && p.2.isEmpty }

def depJ : Dep → Json
  | .inert _ => .str "inert"
  | .inner _ => .str "inner"

def mRefCount : Machine RSh RTh :=
  { step := rStep, log := (·.log),
    obs := fun s => Json.mkObj [("is_disposed", .bool s.isDisposed), ("is_primary_disposed", .bool s.isPrimaryDisposed),
                                ("cnt", .arr #[natJ s.und]), ("deps", .arr (s.deps.map depJ).toArray)],
    done := fun _ t => t.pc == .idle && t.prog.isEmpty }

def mNest (k : Nat) : Machine NSh NTh :=
  { step := nStep, log := (·.log),
    obs := fun s => Json.mkObj [("is_disposed", .bool s.cDisposed), ("has_serial", .bool s.cHasS),
                                ("serial_disposed", .bool s.sDisposed), ("current", optJ s.sCurrent), ("cnt", cntJ s.cnt k)],
    done := fun _ p => p.1 == .idle && p.2.isEmpty }

/-! request parsing -/

def natOf (j : Json) : Except String Nat :=
  match j.getNat? with
  | .ok n => pure n
  | .error e => throw e

def cOpOf (j : Json) : Except String COp := do
  match j with
  | .arr #[.str "add", i] => pure (.add (← natOf i))
  | .arr #[.str "remove", i] => pure (.remove (← natOf i))
  | .arr #[.str "clear"] => pure .clear
  | .arr #[.str "dispose"] => pure .dispose
  | .arr #[.str "len"] => pure .len
  | .arr #[.str "contains", i] => pure (.contains (← natOf i))
  | _ => throw s!"bad composite op {j.compress}"

def aOpOf (j : Json) : Except String AOp := do
  match j with
  | .arr #[.str "set", i] => pure (.set (← natOf i))
  | .arr #[.str "get"] => pure .get
  | .arr #[.str "dispose"] => pure .dispose
  | _ => throw s!"bad assignment op {j.compress}"

def rOpOf (j : Json) : Except String ROp := do
  match j with
  | .arr #[.str "get"] => pure .get
  | .arr #[.str "rel", h] => pure (.rel (← natOf h))
  | .arr #[.str "relm", h] => pure (.relMine (← natOf h))
  | .arr #[.str "dispose"] => pure .dispose
  | _ => throw s!"bad refcount op {j.compress}"

def nOpOf (j : Json) : Except String NOp := do
  match j with
  | .arr #[.str "dispC"] => pure .dispC
  | .arr #[.str "removeS"] => pure .removeS
  | .arr #[.str "dispS"] => pure .dispS
  | .arr #[.str "setS", v] => pure (.setS (← natOf v))
  | _ => throw s!"bad nest op {j.compress}"

def progsOf {α} (f : Json → Except String α) (j : Json) : Except String (List (List α)) := do
  (← getArr j "threads").mapM fun t =>
    match t with
    | .arr xs => xs.toList.mapM f
    | _ => throw "thread program must be a list"

def natsOf (j : Json) (k : String) : Except String (List Nat) := do
  (← getArr j k).mapM natOf

def handle (op : String) (j : Json) : Except String Json := do
  match op with
  | "run" =>
    let cls ← getStr j "cls"
    let sched : Option (List Nat) ←
      match j.getObjVal? "sched" with
      | .ok (.arr xs) => do pure (some (← xs.toList.mapM natOf))
      | _ => pure none
    let k := (j.getObjValAs? Nat "items").toOption.getD 0
    match cls with
    | "disposable" =>
      let rs := (natsOf j "raises").toOption.getD []
      pure (go (mDisposable rs) (dInit (← natsOf j "threads")) sched)
    | "boolean" => pure (go mBoolean (bInit (← natsOf j "threads")) sched)
    | "scheduled" =>
      let w ← getNat j "workers"
      pure (go mScheduled (sInit (← natsOf j "threads") w) sched)
    | "composite" =>
      let init ← natsOf j "init"
      pure (go (mComposite k) (cInit init (← progsOf cOpOf j)) sched)
    | "serial" => pure (go (mAssign serStep k) (aInit (← progsOf aOpOf j)) sched)
    | "mad" => pure (go (mAssign madStep k) (aInit (← progsOf aOpOf j)) sched)
    | "sad" => pure (go (mAssign sadStep k) (aInit (← progsOf aOpOf j)) sched)
    | "sad_asis" =>
      let fl ← natsOf j "falsy"
      pure (go (mAssign (sadAsIsStep fun i => fl.contains i) k) (aInit (← progsOf aOpOf j)) sched)
    | "refcount" => pure (go mRefCount (rInit (← progsOf rOpOf j)) sched)
    | "nest" => pure (go (mNest k) (nInit (← progsOf nOpOf j)) sched)
    | _ => throw s!"unknown cls {cls}"
  | _ => throw s!"unknown op {op}"

end DrvDisp

def main : IO Unit := Drv.run DrvDisp.handle

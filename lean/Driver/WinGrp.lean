import Driver.Common
import RxModel.WinGrp
open Lean Drv

/-! Driver ops for C19 (grouping); ops are prefixed `grp_`. Dispatched from `Driver/Win.lean`. -/
namespace DrvWinGrp
open WinGrp

def notifToJson (n : Notif Val) : Json :=
  match n with
  | .next v => Json.arr #[.str "N", valToJson v]
  | .error e => Json.arr #[.str "E", .str e]
  | .completed => Json.arr #[.str "C"]

def notifOfJson (j : Json) : Except String (Notif Val) :=
  match j with
  | .arr #[.str "N", v] => do pure (.next (← valOfJson v))
  | .arr #[.str "N"] => pure (.next .none)
  | .arr #[.str "E", .str e] => pure (.error e)
  | .arr #[.str "C"] => pure .completed
  | _ => throw s!"bad notification {j.compress}"

def unitNotif (n : Notif Val) : Notif Unit :=
  match n with
  | .next _ => .next ()
  | .error e => .error e
  | .completed => .completed

def natJ (n : Nat) : Json := .num (JsonNumber.fromNat n)

def getNats (j : Json) (k : String) : Except String (List Nat) := do
  match j.getObjVal? k with
  | .ok (.arr xs) => xs.toList.mapM fun x => x.getNat?
  | _ => pure []

def evOfJson (j : Json) : Except String (Ev Val) :=
  match j with
  | .arr #[.str "src", n] => do pure (.src (← notifOfJson n))
  | .arr #[.str "dur", g, n] => do pure (.dur (← g.getNat?) (unitNotif (← notifOfJson n)))
  | .arr #[.str "dispose"] => pure .disposeOuter
  | .arr #[.str "gsub", g] => do pure (.subGroup (← g.getNat?))
  | .arr #[.str "gdisp", g] => do pure (.disposeGroup (← g.getNat?))
  | _ => throw s!"bad event {j.compress}"

def effToJson : Eff Val Val → Json
  | .outer (.next (g, k)) => Json.arr #[.str "O", Json.arr #[.str "G", natJ g, valToJson k]]
  | .outer (.error e) => Json.arr #[.str "O", Json.arr #[.str "E", .str e]]
  | .outer .completed => Json.arr #[.str "O", Json.arr #[.str "C"]]
  | .tap g n => Json.arr #[.str "W", natJ g, notifToJson n]
  | .grp g n => Json.arr #[.str "S", natJ g, notifToJson n]
  | .subDur g => Json.arr #[.str "subDur", natJ g]
  | .unsubDur g => Json.arr #[.str "unsubDur", natJ g]
  | .unsubSrc => Json.arr #[.str "unsubSrc"]
  | .escaped e => Json.arr #[.str "escaped", .str e]

/-- run event by event, returning the effects of each event separately -/
def runSteps (cfg : Cfg Val Val Val) : St Val Val → List (Ev Val) → List (List (Eff Val Val)) × St Val Val
  | s, [] => ([], s)
  | s, e :: es =>
    let s' := stepN cfg { s with out := [] } e
    let (r, sf) := runSteps cfg s' es
    (s'.out :: r, sf)

def partEvOfJson (j : Json) : Except String (Part.Ev Val) :=
  match j with
  | .arr #[.str "src", n] => do pure (.src (← notifOfJson n))
  | .arr #[.str "sub", g] => do pure (.sub (← g.getNat?))
  | .arr #[.str "disp", g] => do pure (.disp (← g.getNat?))
  | _ => throw s!"bad event {j.compress}"

def partEffToJson : Part.Eff Val → Json
  | .got j n => Json.arr #[.str "got", natJ j, notifToJson n]
  | .subSrc => Json.arr #[.str "subSrc"]
  | .unsubSrc => Json.arr #[.str "unsubSrc"]

def partSteps (indexed : Bool) (pred : Val → Nat → Except Err Bool) :
    Part.St Val → List (Part.Ev Val) → List (List (Part.Eff Val))
  | _, [] => []
  | s, e :: es =>
    let s' := Part.step indexed pred { s with out := [] } e
    s'.out :: partSteps indexed pred s' es

def handle (op : String) (j : Json) : Except String Json := do
  match op with
  | "grp_run" =>
    let evs ← (← getArr j "events").mapM evOfJson
    let key ← getFn j "key"
    let elem : Option FnTab ← (match j.getObjVal? "elem" with
      | .ok .null => pure none
      | .ok e => do pure (some (← fnOfJson e))
      | .error _ => pure none)
    let subjRaise ← getNats j "subj_raise"
    let durRaise ← getNats j "dur_raise"
    let dsyncL ← (do
      match j.getObjVal? "dsync" with
      | .ok (.arr xs) => xs.toList.mapM fun x =>
          match x with
          | .null => pure none
          | n => do pure (some (unitNotif (← notifOfJson n)))
      | _ => pure [] : Except String (List (Option (Notif Unit))))
    let dgrpL ← (do
      match j.getObjVal? "dgrp" with
      | .ok (.arr xs) => xs.toList.mapM fun x =>
          match x with
          | .null => pure none
          | n => do pure (some (← n.getNat?))
      | _ => pure [] : Except String (List (Option Nat)))
    let nestL ← (do
      match j.getObjVal? "nest" with
      | .ok (.arr xs) => xs.toList.mapM fun x =>
          match x with
          | .arr ys => ys.toList.mapM valOfJson
          | _ => pure []
      | _ => pure [] : Except String (List (List Val)))
    let immL ← (do
      match j.getObjVal? "imm" with
      | .ok (.arr xs) => xs.toList.mapM fun x => x.getBool?
      | _ => pure [] : Except String (List Bool))
    let cfg : Cfg Val Val Val := {
      keyEq := Val.pyEq
      keyMapper := fun x => key.call x
      elemMapper := fun x => match elem with | some f => f.call x | none => .ok x   -- `element_mapper or identity`
      subjMapper := fun g => if subjRaise.contains g then .error s!"subj{g}" else .ok ()
      durMapper := fun g => if durRaise.contains g then .error s!"durmap{g}" else .ok ()
      dsync := fun g => (dsyncL[g]?).getD none
      imm := fun g => (immL[g]?).getD true
      dgrp := fun g => (dgrpL[g]?).getD none
      nest := fun g => (nestL[g]?).getD [] }
    let (effs, sf) := runSteps cfg init evs
    pure (Json.mkObj [
      ("effects", Json.arr (effs.map fun l => Json.arr (l.map effToJson).toArray).toArray),
      ("wlogs", Json.arr (sf.groups.map fun r => Json.arr (r.wlog.map notifToJson).toArray).toArray),
      ("keys", Json.arr (sf.groups.map fun r => valToJson r.key).toArray)])
  | "grp_part" =>
    let evs ← (← getArr j "events").mapM partEvOfJson
    let indexed ← getBool j "indexed"
    let predT ← getFn j "pred"
    let slots ← (← getArr j "slots").mapM fun x => x.getBool?
    let pred : Val → Nat → Except Err Bool := fun v i =>
      match predT.call (if indexed then Val.tup [v, .int i] else v) with
      | .ok r => .ok r.truthy
      | .error e => .error e
    let s0 : Part.St Val := { slots := slots.map fun b => { second := b } }
    pure (Json.mkObj [("effects", Json.arr ((partSteps indexed pred s0 evs).map fun l => Json.arr (l.map partEffToJson).toArray).toArray)])
  | _ => throw s!"unknown op {op}"

end DrvWinGrp

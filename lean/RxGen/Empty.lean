def RxGen.placeholder : Nat := 0

/-! REGENERATED on every run by harness/props/C08.py from /repo/reactivex/{operators,subject,observable} — do not edit.
Truthiness / `is None` / `or default` / None-sentinel tests on variables fed from `on_next` arguments
(file, function, kind, expression). -/
namespace OpsTruthiness
def sites : List (String × String × String × String) := []
end OpsTruthiness

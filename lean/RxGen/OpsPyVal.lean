/-! REGENERATED on every run by harness/props/C08.py from lean/RxModel/Ops*.lean — do not edit.
Which L1 model definitions ask for Python truthiness / `is None` of an *element* (`[PyVal α]`). -/
namespace OpsPyVal
/-- model definitions of operators as they are (after the proposed fixes) that need `[PyVal α]` -/
def users : List String := []
/-- `…AsIsOp` replicas of pinned defects that need it -/
def asIs : List String := ["skipLastAsIsOp"]
end OpsPyVal

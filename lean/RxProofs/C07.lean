import RxProofs.Lemmas.OpsSlice
/-!
# C07 — slicing an observable behaves like slicing a list

Property theorems only.  `Slice.pipeline true a b c` is the stage list `_slice.py: slice_` builds
(with the `fix:` for a negative start combined with a positive stop; `Slice.pipeline false` is the
pinned tree).  `Slice.pipeOp stages` is `source.pipe(*stages)` built from the **C05 handler models**
with the real observer/disposal chain between the stages; `Slice.evalStages` evaluates the same
stage list with the C05 list semantics; `Slice.pySlice` is Python's `list[a:b:c]` (clamp the bounds
as `slice.indices(len)` does, take the segment, keep every `c`-th element).

`hlen : xs.length ≤ sys.maxsize` is a fact about every Python list (`stop=None` becomes
`take(sys.maxsize)` in the code).
-/
open Ops Ops.Slice

deriving instance DecidableEq for Except

namespace C07
variable {α : Type}

/-- **slice_eq_pyslice.** For all lists, all `start`/`stop` (None, negative, zero, positive) and every
step ≥ 1 (or None), the stage list of `slice_` evaluates to Python's `xs[start:stop:step]`. -/
theorem slice_eq_pyslice (xs : List α) (start stop step : Option Int)
    (hstep : 1 ≤ step.getD 1) (hlen : (xs.length : Int) ≤ maxsize) :
    ∃ stages, pipeline true start stop step = .ok stages ∧
      evalStages stages xs = pySlice xs start stop (step.getD 1) :=
  pipeline_eval_eq_pySlice xs start stop step hstep hlen

/-- **pyslice_eq_index_form.** The clamp-segment-stride form of `pySlice` is the index comprehension
`[xs[i] for i in range(s, e) if (i - s) % step == 0]` over the clamped bounds, for every list, bounds and step. -/
theorem pyslice_eq_index_form (xs : List α) (start stop : Option Int) (step : Int) :
    pySlice xs start stop step = pySliceIdx xs start stop step := pySlice_eq_idx xs start stop step

/-- **pipe_eq_eval.** Running the composed operator models on any raw input (conforming or not, lagging
disposal or not) gives the list semantics of the stage list on the conforming view. -/
theorem pipe_eq_eval (lag : Bool) (stages : List Stage) (raw : List (Notif α)) :
    visible ((pipeOp stages).run lag raw)
      = outSeq (evalSeqStages stages (elems raw, fin raw)).1 (evalSeqStages stages (elems raw, fin raw)).2 := by
  rw [run_sem, sem_pipeOp]

/-- **slice_ops_eq.** `source.pipe(ops.slice(start, stop, step))` over a source that emits `xs` and
completes: the subscriber sees exactly `xs[start:stop:step]` and then completion. -/
theorem slice_ops_eq (lag : Bool) (raw : List (Notif α)) (start stop step : Option Int)
    (hc : fin raw = .completed) (hstep : 1 ≤ step.getD 1) (hlen : ((elems raw).length : Int) ≤ maxsize) :
    ∃ stages, pipeline true start stop step = .ok stages ∧
      visible ((pipeOp stages).run lag raw)
        = outSeq (pySlice (elems raw) start stop (step.getD 1)) .completed := by
  obtain ⟨stages, hp, he⟩ := slice_eq_pyslice (elems raw) start stop step hstep hlen
  refine ⟨stages, hp, ?_⟩
  rw [pipe_eq_eval, hc, ← he, evalStages, evalSeqStages_completed]

/-- a negative step is rejected with `TypeError`, as the code does -/
theorem slice_negative_step (fixed : Bool) (start stop : Option Int) (step : Int) (h : step < 0) :
    pipeline fixed start stop (some step) = .error "TypeError" := by
  have h1 : ¬ step > 1 := by omega
  simp [pipeline, h1, h]

theorem evalSeq_end (s : Stage) (p : List α × End) :
    (s.evalSeq p).2 = p.2 ∨ (s.evalSeq p).2 = .completed := by
  obtain ⟨xs, e⟩ := p
  cases s with
  | take n => by_cases h : n ≤ xs.length <;> simp [Stage.evalSeq, h]
  | skip n => simp [Stage.evalSeq]
  | takeLast n => simp [Stage.evalSeq]
  | skipLast n => simp [Stage.evalSeq]
  | everyNth n => simp [Stage.evalSeq]
  | taggedTail k st => simp [Stage.evalSeq]

theorem evalSeqStages_end (stages : List Stage) (p : List α × End) :
    (evalSeqStages stages p).2 = p.2 ∨ (evalSeqStages stages p).2 = .completed := by
  induction stages generalizing p with
  | nil => left; rfl
  | cons s rest ih =>
    have h1 : evalSeqStages (s :: rest) p = evalSeqStages rest (s.evalSeq p) := rfl
    rw [h1]
    rcases ih (s.evalSeq p) with h | h
    · rcases evalSeq_end s p with h2 | h2
      · left; rw [h, h2]
      · right; rw [h, h2]
    · right; exact h

/-- **slice_error_passthrough.** When the source fails, the sliced sequence ends with that same error —
unless a `take(stop)` stage had already completed it. Nothing else can happen. -/
theorem slice_error_passthrough (lag : Bool) (stages : List Stage) (raw : List (Notif α)) (e : Err)
    (he : fin raw = .error e) :
    ∃ ys, visible ((pipeOp stages).run lag raw) = outSeq ys (.error e) ∨
          visible ((pipeOp stages).run lag raw) = outSeq ys .completed := by
  rw [pipe_eq_eval, he]
  rcases evalSeqStages_end stages (elems raw, .error e) with h | h
  · exact ⟨_, Or.inl (by rw [h])⟩
  · exact ⟨_, Or.inr (by rw [h])⟩

theorem take_succ_drop (xs : List α) (n : Nat) : (xs.take (n + 1)).drop n = (xs[n]?).toList := by
  induction xs generalizing n with
  | nil => simp
  | cons x xs ih =>
    cases n with
    | zero => simp
    | succ n => simpa using ih n

/-- **getitem_int.** `source[i]` is `slice_(i, i+1, 1)`; for `i ≥ 0` that is the `i`-th element (if any). -/
theorem getitem_int_nonneg (xs : List α) (i : Int) (hi : 0 ≤ i) :
    pySlice xs (getitemInt i).1 (getitemInt i).2.1 ((getitemInt i).2.2.getD 1) = (xs[i.toNat]?).toList := by
  have h1 : ¬ i < 0 := by omega
  have h2 : ¬ i + 1 < 0 := by omega
  have h3 : (i + 1).toNat = i.toNat + 1 := by omega
  simp only [getitemInt, pySlice, clampIdx, h1, h2, if_false, Option.getD_some, h3]
  rw [show (1 : Int).toNat = 1 from rfl, stride_one, take_min_length, ← take_succ_drop]
  by_cases h : i.toNat ≤ xs.length
  · rw [Nat.min_eq_left h]
  · rw [Nat.min_eq_right (by omega), List.drop_of_length_le (by simp; omega),
      List.drop_of_length_le (by simp; omega)]

/-- `source[-1]` is `slice_(-1, 0, 1)`, i.e. `list[-1:0]`, which is empty (documented desugaring; the
property does not ask for more). -/
theorem getitem_minus_one (xs : List α) :
    pySlice xs (getitemInt (-1)).1 (getitemInt (-1)).2.1 ((getitemInt (-1)).2.2.getD 1) = [] := by
  simp [getitemInt, pySlice, clampIdx, stride]

/-! ## The pinned tree (before the fix): negative start with a positive stop is wrong

`take(stop)` runs first, so `take_last(-start)` counts from the cut, not from the end. -/
section AsIs

theorem slice_asis_stages : pipeline false (some (-2)) (some 9) none = .ok [.take 9, .takeLast 2] := by decide

/-- replay of DESIGN.md §6 #2: `range(10)[-2:9]` is `[8]`, the pinned `slice_` yields `[7, 8]`. -/
theorem slice_neg_start_counter :
    evalStages [.take 9, .takeLast 2] (List.range 10) = [7, 8] ∧
    pySlice (List.range 10) (some (-2)) (some 9) 1 = [8] := by decide

/-- `range(10)[-3:5]` is `[]`, the pinned `slice_` yields `[2, 3, 4]`. -/
theorem slice_neg_start_counter2 :
    pipeline false (some (-3)) (some 5) none = .ok [.take 5, .takeLast 3] ∧
    evalStages [.take 5, .takeLast 3] (List.range 10) = [2, 3, 4] ∧
    pySlice (List.range 10) (some (-3)) (some 5) 1 = [] := by decide

end AsIs

/-! ## Non-vacuity -/
example : pipeline true (some (-2)) (some 9) none = .ok [.taggedTail 2 9] := by decide
example : pipeline true (some 1) (some (-1)) (some 2) = .ok [.skip 1, .skipLast 1, .everyNth 2] := by decide
example : visible ((pipeOp [.taggedTail 2 9]).run true
      ((List.range 10).map Notif.next ++ [.completed, .next 99, .error "late"]))
    = [.next 8, .completed] := by decide
example : visible ((pipeOp [.skip 1, .skipLast 1, .everyNth 2]).run false
      ((List.range 7).map Notif.next ++ [.completed]))
    = [.next 1, .next 3, .next 5, .completed] := by decide

end C07

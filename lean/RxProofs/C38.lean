import RxProofs.Lemmas.PureMarbles
/-!
# C38 — marble diagrams mean what the documented syntax says

Property theorems only.  `Pure.Marbles.parse` is the hand-written scanner that mirrors the regex
tokenizer of `reactivex/observable/marbles.py:parse` (same alternation order, frame counter, group
handling, `try_number`, lookup, `raise_stopped`).  `Pure.Marbles.spec` is the documented reading of a
token list (`Tok`): a marble gets the time `index · timespan + shift` of the character that starts
its token in the space-free string, group items the time of the opening parenthesis, terminal
checks in reading order.  Integer timespans and shifts only (float timespans are not modelled).
-/
open Pure.Marbles

namespace C38

/-- **parse_render_spaced.** For EVERY well-formed token list and EVERY string that differs from its
rendering only by spaces (anywhere, also inside values and groups), the scanner yields the
documented reading — messages, times and errors. -/
theorem parse_render_spaced {α} (cfg : Cfg α) (toks : List Tok) (hwf : WF toks = true)
    (s : List Char) (hs : s.filter (· != ' ') = render toks) :
    parse cfg s = spec cfg toks := by
  simp only [parse, spec, hs]
  exact scan_render cfg toks hwf 0 false

/-- **parse_render.** `parse (render toks) = spec toks` for every well-formed token list. -/
theorem parse_render {α} (cfg : Cfg α) (toks : List Tok) (hwf : WF toks = true) :
    parse cfg (render toks) = spec cfg toks :=
  parse_render_spaced cfg toks hwf (render toks) (render_nospace toks hwf)

/-- **spec_position_is_index.** In the documented reading every non-empty marble of a token carries the
time `frame · timespan + shift`, where `frame` is the number of characters before the token that
advance time — for a diagram within the documented syntax (no unbalanced parenthesis before it)
that is exactly the index `(render pre).length` of the token's first character in the space-free
string; all items of a group get the index of its opening parenthesis. -/
theorem spec_position_is_index {α} (cfg : Cfg α) (pre post : List Tok) (t : Tok) (ms : List (Msg α))
    (h : spec cfg (pre ++ t :: post) = .ok ms) (m : List Char) (hm : m ∈ marblesOf t) (hne : m ≠ []) :
    mapElement cfg ((frame pre : Int) * cfg.timespan + cfg.shift) m ∈ ms ∧
    (noStray pre = true → frame pre = (render pre).length) := by
  refine ⟨?_, frame_eq_length pre⟩
  obtain ⟨st', ms1, ms2, h2, rfl⟩ := specGo_append cfg pre (t :: post) 0 false ms h
  simp only [specGo, Nat.zero_add] at h2
  split at h2
  · cases h2
  · split at h2
    · cases h2
    · split at h2
      · cases h2
      · cases h2
        apply List.mem_append_right
        apply List.mem_append_left
        rw [List.mem_map]
        exact ⟨m, by simp [List.mem_filter, hm, hne], rfl⟩

/-- **stray_parens_skipped.** Outside the documented syntax: a `)` outside a group and a `(` that is never
closed are skipped WITHOUT advancing time (the regex matches nothing there), so what follows is
timed as if the character were absent — but it still separates two value marbles. -/
theorem stray_parens_skipped {α} (cfg : Cfg α) (pre post : List Tok)
    (h1 : WF (pre ++ .strayClose :: post) = true) :
    frame (pre ++ .strayClose :: post) = frame (pre ++ post) ∧
    parse cfg (render (pre ++ .strayClose :: post)) = spec cfg (pre ++ .strayClose :: post) := by
  refine ⟨?_, parse_render cfg _ h1⟩
  induction pre with
  | nil => simp [frame, width]
  | cons t ts ih =>
    have := ih (WF_cons t _ h1).2.1
    simp only [List.cons_append, frame, this]

/-- **parse_units.** The reading is independent of the time unit: with timespan and shift expressed in a
unit `k` times finer (the harness passes float / timedelta / datetime timespans and shifts that are
multiples of a quarter second and runs the model in quarter-second units, `k = 4`), ANY string
parses to the same messages with all times multiplied by `k` — and to the same error. -/
theorem parse_units {α} (k : Int) (cfg : Cfg α) (s : List Char) :
    parse (scaleCfg k cfg) s = (parse cfg s).map (scaleMsgs k) :=
  scan_scale k cfg _ 0 false

/-- **spec_accepts.** Without a top-level comma, and when either `raise_stopped` is off or no marble
follows a terminal one, the reading is exactly: every non-empty marble, in reading order, at
the time of its index. -/
theorem spec_accepts {α} (cfg : Cfg α) (toks : List Tok) (hc : noComma toks = true)
    (hok : cfg.raiseStopped = false ∨
      (((allMarbles toks 0).map (·.2)).dropLast.all (fun m => !isTerm m)) = true) :
    spec cfg toks =
      .ok (((allMarbles toks 0).filter (fun pm => !pm.2.isEmpty)).map
            (fun pm => mapElement cfg ((pm.1 : Int) * cfg.timespan + cfg.shift) pm.2)) := by
  simp only [spec]
  rw [specGo_noComma cfg toks hc 0 false]
  rcases hok with h | h
  · rw [checkAll_noraise cfg h]; rfl
  · obtain ⟨st', hst⟩ := checkAll_ok_of_no_term_before_last cfg _ h
    rw [hst]; rfl

/-- **parse_rejects_after_terminal.** With `raise_stopped`, a diagram (no top-level comma) in which
some marble — even an empty group item — follows a `#` or `|` marble is rejected with the
"Elements cannot be declared after a # or | symbol." error. -/
theorem parse_rejects_after_terminal {α} (cfg : Cfg α) (hr : cfg.raiseStopped = true)
    (toks : List Tok) (hwf : WF toks = true) (hc : noComma toks = true)
    (a : List (List Char)) (b : List Char) (c : List (List Char))
    (hsplit : (allMarbles toks 0).map (·.2) = a ++ b :: c) (hb : isTerm b = true) (hcne : c ≠ []) :
    parse cfg (render toks) = .error .stopped := by
  rw [parse_render cfg toks hwf]
  simp only [spec]
  rw [specGo_noComma cfg toks hc 0 false, hsplit, checkAll_after_term cfg hr a b c hb hcne]

/-- **parse_no_raise_never_rejects.** Without `raise_stopped`, NO string whatsoever is rejected for
marbles after a terminal (the only possible error is the top-level comma). -/
theorem parse_no_raise_never_rejects {α} (cfg : Cfg α) (hr : cfg.raiseStopped = false) (s : List Char) :
    parse cfg s ≠ .error .stopped :=
  scan_noraise cfg hr _ 0 false

/-- **parse_times_sorted.** For a non-negative timespan the parsed messages of ANY string are in
non-decreasing time order and none is earlier than the shift. -/
theorem parse_times_sorted {α} (cfg : Cfg α) (h : 0 ≤ cfg.timespan) (s : List Char) (ms : List (Msg α))
    (hs : parse cfg s = .ok ms) :
    ms.Pairwise (fun a b => a.1 ≤ b.1) ∧ ∀ m ∈ ms, cfg.shift ≤ m.1 := by
  have := scan_sorted cfg h _ 0 false ms hs
  refine ⟨this.2, fun m hm => ?_⟩
  have := this.1 m hm
  simpa [time] using this

/-- **cold_delivers_parsed.** `from_marbles` (its actions in the scheduler's `(due, seq)` queue):
a subscriber at `sub` records exactly the parsed messages, each at `sub + its parsed time`, up to
the dispose time — for any string and non-negative timespan (shift 0, `raise_stopped` on). -/
theorem cold_delivers_parsed {α} (cfg : Cfg α) (h : 0 ≤ cfg.timespan) (hsh : cfg.shift = 0)
    (s : List Char) (ms : List (Msg α)) (hs : parse cfg s = .ok ms) (sub disp : Int) :
    coldDeliver ms sub disp = (ms.map fun m => (sub + m.1, m.2)).filter (fun m => m.1 < disp) := by
  obtain ⟨h1, h2⟩ := parse_times_sorted cfg h s ms hs
  exact coldDeliver_sorted ms sub disp h1 (fun m hm => by have := h2 m hm; omega)

/-- **hot_delivers_parsed_after_subscription.** `hot` created at `created`: a subscriber arriving at
`sub ≥ created` records exactly the parsed messages whose (absolute) time is after `sub` and not
after its dispose time, at exactly those times. -/
theorem hot_delivers_parsed_after_subscription {α} (cfg : Cfg α) (h : 0 ≤ cfg.timespan)
    (s : List Char) (ms : List (Msg α)) (hs : parse cfg s = .ok ms) (created sub disp : Int)
    (hc : created ≤ sub) :
    hotDeliver ms created sub disp =
      (ms.map fun m => (created + m.1, m.2)).filter (fun m => decide (sub < m.1) && decide (m.1 ≤ disp)) :=
  hotDeliver_sorted ms created sub disp (parse_times_sorted cfg h s ms hs).1 hc

/-- **hot_created_in_action.** `hot` built at a non-zero clock from inside a scheduled action (its own
actions are then the youngest in the queue): a subscriber at `sub` records exactly the parsed
messages due in `[sub, disp)`, each at `created + index·timespan + shift` — the times are relative
to the instant `hot()` was called, whatever form (float, timedelta, absolute datetime) the due time
was given in. -/
theorem hot_created_in_action {α} (cfg : Cfg α) (h : 0 ≤ cfg.timespan)
    (s : List Char) (ms : List (Msg α)) (hs : parse cfg s = .ok ms) (created sub disp : Int) :
    hotDeliverLate ms created sub disp =
      (ms.map fun m => (created + m.1, m.2)).filter (fun m => decide (sub ≤ m.1) && decide (m.1 < disp)) :=
  hotDeliverLate_sorted ms created sub disp (parse_times_sorted cfg h s ms hs).1

/-- **hot_loop_fixed_calls_all.** The repaired delivery loop of `hot` (iterating over a snapshot)
calls every subscribed observer, whether or not observers unsubscribe during the delivery. -/
theorem hot_loop_fixed_calls_all (terminal : Bool) (obs : List Nat) : calledFixed terminal obs = obs :=
  loopFixed_all terminal obs obs

/-- **tryNumber_digits.** A non-empty string of decimal digits is mapped to that integer. -/
theorem tryNumber_digits (ds : List Char) (hne : ds ≠ []) (h : ∀ c ∈ ds, c.isDigit = true) :
    tryNumber ds = .int (Int.ofNat (natOfDigits ds)) :=
  tryNumber_digits' ds hne h

/-! ## AS-IS section: the defect of the pinned tree (DEFECT, not part of the claimed behaviour)

`hot` iterates over the live `observers` list; the first observer unsubscribes itself when it
receives a terminal notification, and the second one is skipped — it never sees the terminal. -/

/-- counter-example on the as-is loop: two observers, a terminal notification, only the first is called -/
theorem hot_loop_asis_skips_second_subscriber : calledAsIs true [1, 2] = [1] := by decide

theorem hot_loop_asis_counter : ∃ obs, calledAsIs true obs ≠ obs := ⟨[1, 2], by decide⟩

/-! ## non-vacuity -/

def cfg0 : Cfg Elem :=
  { timespan := 10, shift := 5, raiseStopped := true, lookup := fun _ => none, embed := id, err := "E" }

/-- `--12-(a,,3)-|` : a well-formed list with a multi-character value, a group with an empty item, a terminal -/
def toks0 : List Tok :=
  [.ticks 2, .elem ['1', '2'], .ticks 1, .group [['a'], [], ['3']], .ticks 1, .completed]

example : WF toks0 = true := by decide
example : render toks0 = "--12-(a,,3)-|".toList := by decide
example : spec cfg0 toks0 =
    .ok [(25, .next (.int 12)), (55, .next (.str ['a'])), (55, .next (.int 3)), (125, .completed)] := by
  rfl
example : parse cfg0 "- -1 2-( a,,3)- |".toList = spec cfg0 toks0 :=
  parse_render_spaced cfg0 toks0 (by decide) _ (by decide)
/-- unbalanced parentheses: `a)b(c` — three separate marbles at frames 0, 1, 2 -/
example : WF [.elem ['a'], .strayClose, .elem ['b'], .strayOpen, .elem ['c']] = true := by decide
example : spec cfg0 [.elem ['a'], .strayClose, .elem ['b'], .strayOpen, .elem ['c']] =
    .ok [(5, .next (.str ['a'])), (15, .next (.str ['b'])), (25, .next (.str ['c']))] := by rfl
/-- hypotheses of `parse_rejects_after_terminal` are satisfiable: `a|(,)` -/
example : parse cfg0 (render [.elem ['a'], .completed, .group [[], []]]) = .error .stopped :=
  parse_rejects_after_terminal cfg0 rfl _ (by decide) (by decide) [['a']] ['|'] [[], []] (by decide) (by decide) (by simp)
example : noComma toks0 = true ∧
    (((allMarbles toks0 0).map (·.2)).dropLast.all (fun m => !isTerm m)) = true := by decide
example : tryNumber ['0', '4', '2'] = .int 42 := by decide

end C38

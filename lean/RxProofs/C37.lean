import RxProofs.Lemmas.PureSources
/-!
# C37 — source factories emit their specified sequences

Property theorems only.  Each factory is a `Pure.Sources.Producer` mirroring its file action by
action; `chain P n t` is what a subscriber at virtual time `t` receives from the producer's own
scheduler recursion (at most `n` scheduled actions — `n` is a bound on the *observation*, every
theorem holds for all `n`).  Callbacks are arbitrary functions that may raise (`Except`).
-/
open Pure.Sources

namespace C37

/-- **pyLen_spec.** The number of values CPython computes for `range(lo, hi, step)` is exactly the
number of `i ≥ 0` with `lo + i·step` on the proper side of `hi` (any sign of `step`, also 0). -/
theorem pyLen_spec (lo hi step : Int) (i : Nat) :
    i < pyLen lo hi step ↔
      (0 < step ∧ lo + (i : Int) * step < hi) ∨ (step < 0 ∧ hi < lo + (i : Int) * step) :=
  pyLen_spec' lo hi step i

/-- **range_eq_pyrange.** `range(start, stop, step)` (in the 1-, 2- and 3-argument forms, as `range_`
resolves them) emits exactly `list(range(...))` and then completes, all at the subscription
instant — for every start/stop/step, negative steps and empty ranges included. -/
theorem range_eq_pyrange (start : Int) (stop step : Option Int) (t : Int) :
    match rangeArgs start stop step with
    | .error _ => step = some 0          -- Python's `range()` raises ValueError
    | .ok (lo, hi, st) =>
      st ≠ 0 ∧ ∀ n, pyLen lo hi st + 1 ≤ n →
        chain (rangeP lo hi st) n t =
          (pyRange lo hi st).map (fun x => (t, Notif.next x)) ++ [(t, .completed)] := by
  cases stop <;> cases step <;> simp only [rangeArgs]
  · exact ⟨by decide, fun n hn => range_chain _ _ _ n hn t⟩
  · rename_i st
    by_cases h0 : st = 0
    · simp [h0]
    · simp only [h0, if_false]
      exact ⟨h0, fun n hn => range_chain _ _ _ n hn t⟩
  · exact ⟨by decide, fun n hn => range_chain _ _ _ n hn t⟩
  · rename_i b st
    by_cases h0 : st = 0
    · simp [h0]
    · simp only [h0, if_false]
      exact ⟨h0, fun n hn => range_chain _ _ _ n hn t⟩

/-- `pyRange` really is the list of the values on the proper side of `stop`, in order. -/
theorem pyRange_mem (lo hi step x : Int) :
    x ∈ pyRange lo hi step ↔
      ∃ i : Nat, x = lo + (i : Int) * step ∧
        ((0 < step ∧ x < hi) ∨ (step < 0 ∧ hi < x)) := by
  simp only [pyRange, List.mem_map, List.mem_range]
  constructor
  · rintro ⟨i, hi', rfl⟩; exact ⟨i, rfl, (pyLen_spec lo hi step i).1 hi'⟩
  · rintro ⟨i, rfl, h⟩; exact ⟨i, (pyLen_spec lo hi step i).2 h, rfl⟩

/-- `range(...)` with step 0 fails in the factory (Python's `range()` raises ValueError). -/
theorem range_step_zero (start : Int) (stop : Option Int) :
    rangeArgs start stop (some 0) = .error "ValueError" := by
  cases stop <;> rfl

/-- **from_iterable_emits_items.** `of(*xs)` / `from_iterable(xs)` emit the iterable's items in order,
then complete — or deliver the iterator's exception after the items it produced. -/
theorem from_iterable_emits_items {α} (it : Iter α) (n : Nat) (t : Int) :
    chain (fromIterableP it) (n + 1) t =
      it.items.map (fun x => (t, Notif.next x)) ++
        [(t, match it.fails with | none => Notif.completed | some e => Notif.error e)] := by
  cases h : it.fails <;> simp [chain, chainFrom, fromIterableP, wait, List.map_map, Function.comp_def, h]

/-- **return_empty_never_throw.** -/
theorem return_empty_never_throw {α} (v : α) (e : Err) (n : Nat) (t : Int) :
    chain (returnValueP v) (n + 1) t = [(t, .next v), (t, .completed)] ∧
    chain (emptyP (α := α)) (n + 1) t = [(t, .completed)] ∧
    chain (neverP (α := α)) n t = [] ∧
    chain (throwP (α := α) e) (n + 1) t = [(t, .error e)] := by
  simp [chain, chainFrom, returnValueP, emptyP, neverP, throwP, wait]

/-- **generate_eq_loop.** `generate(init, cond, iter)` emits exactly the states of the loop
`s = init; while cond(s): yield s; s = iter(s)` — with `cond`/`iter` arbitrary and possibly raising
(the exception ends the sequence as `on_error`) — observed over any number `n` of actions. -/
theorem generate_eq_loop {α} (init : α) (f : GenFns α) (n : Nat) (t : Int) :
    chain (generateP init f) n t = (whileLoop f n init).map (fun x => (t, x)) := by
  have := (generate_chainFrom f init n t init).1
  simpa [chain, generateP, wait] using this

/-- **gwrt_delays.** `generate_with_relative_time` emits each loop state after the relative delay
computed for it: the k-th state at `t + d(s₀) + … + d(s_k)` (non-positive delays wait nothing), and
the terminal notification at the instant the loop ends. -/
theorem gwrt_delays {α} (init : α) (f : GenFns α) (tm : α → Except Err Int) (n : Nat) (t : Int) :
    chain (gwrtP init f tm) n t = delayLoop f tm n t init :=
  gwrt_chain f tm init n t

/-- **gwrt_zero_delay_ok.** (repaired code) No action of `generate_with_relative_time` lets an
exception escape into the scheduler, whatever the delay — zero included. -/
theorem gwrt_zero_delay_ok {α} (init : α) (f : GenFns α) (tm : α → Except Err Int) (q : State4 α) :
    ((gwrtP init f tm).step q).escapes = none :=
  gwrtStep_no_escape f tm q

/-- **timer_emits_zero_at_d.** `timer(d)` emits 0 and completes at `t + d` (`t` for `d ≤ 0`). -/
theorem timer_emits_zero_at_d (d : Int) (n : Nat) (t : Int) :
    chain (timerP d) (n + 1) t =
      [(t + (if d > 0 then d else 0), .next 0), (t + (if d > 0 then d else 0), .completed)] := by
  by_cases h : d ≤ 0
  · have : ¬ d > 0 := by omega
    simp [chain, chainFrom, timerP, wait, h, this]
  · have : d > 0 := by omega
    simp [chain, chainFrom, timerP, wait, h, this]

/-- **repeat_value_n.** `repeat_value(v, k)` for `k ≥ 0` emits `v` exactly `k` times and completes. -/
theorem repeat_value_n {α} (v : α) (k : Nat) (n : Nat) (hn : 2 * k + 1 ≤ n) (t : Int) :
    chain (repeatValueP v (some (k : Int))) n t = List.replicate k (t, Notif.next v) ++ [(t, .completed)] := by
  have hne : (some (k : Int)) ≠ some (-1) := by
    intro h; injection h with h; omega
  have := repeat_chainFrom v (some (k : Int)) k n hn t
  simpa [chain, repeatValueP, hne, wait] using this

/-- `repeat_value(v)` / `repeat_value(v, -1)` never completes: after `2m` actions, `m` copies of `v`. -/
theorem repeat_value_forever {α} (v : α) (m : Nat) (t : Int) :
    chain (repeatValueP v none) (2 * m) t = List.replicate m (t, Notif.next v) ∧
    chain (repeatValueP v (some (-1))) (2 * m) t = List.replicate m (t, Notif.next v) := by
  constructor
  · simpa [chain, repeatValueP, wait] using repeat_forever_chainFrom v none m t
  · simpa [chain, repeatValueP, wait] using repeat_forever_chainFrom v (some (-1)) m t

/-- **sim_eq_chain_quiet.** The recording of the virtual-time scheduler model (what the correspondence
compares with the real TestScheduler run: subscribe action at `sub ≥ 0`, dispose action at `disp`)
is exactly the producer's chain — the object of the theorems above — whenever the run is *quiet*
(`Pure.Sources.quiet`: every action runs before the dispose time, never more than 100 consecutive
same-instant actions so that the scheduler's spin counter does not move the clock, well-formed
emissions, no escaping exception, and the chain ends within `n` actions). -/
theorem sim_eq_chain_quiet {σ α} (P : Producer σ α) (n fuel : Nat) (sub disp : Int) (h0 : 0 ≤ sub) (hlt : sub < disp)
    (hq : match P.first with
          | none => True
          | some (s, d) => quiet P disp n (sub + wait d) (if sub + d.getD 0 > sub then 0 else 1) s = true)
    (hf : n + 2 ≤ fuel) :
    (Sim.record P fuel sub disp).out = chain P n sub :=
  record_eq_chain P n fuel sub disp h0 hlt hq hf

/-- **sim_eq_chainSpin.** In general — with a dispose cutting the run and beyond the scheduler's 100-item spin
limit — the recording of the scheduler model equals `chainSpin`: the same chain of actions, where an
action due at or after the dispose time never runs, and the clock moves to the due time or, after
more than 100 consecutive same-instant items, by one. -/
theorem sim_eq_chainSpin {σ α} (P : Producer σ α) (fuel : Nat) (sub disp : Int) (h0 : 0 ≤ sub) (hlt : sub < disp) :
    (Sim.record P (fuel + 1) sub disp).out =
      match P.first with
      | none => []
      | some (s, d) => chainSpin P disp fuel sub 1 (sub + d.getD 0) s :=
  record_eq_chainSpin P fuel sub disp h0 hlt

/-- **sim_values_prefix_of_chain.** Dispose and spin change only WHEN and HOW MUCH is delivered, never
WHAT: for every well-formed producer (all factories of this property: `wfp_*`) the notifications
recorded on the scheduler are a prefix of the notifications of the producer's chain, i.e. of the
sequences characterised by the theorems above. -/
theorem sim_values_prefix_of_chain {σ α} (P : Producer σ α) (hP : WFP P) (fuel : Nat) (sub disp : Int)
    (h0 : 0 ≤ sub) (hlt : sub < disp) :
    ((Sim.record P (fuel + 1) sub disp).out.map (·.2)) <+: ((chain P fuel sub).map (·.2)) := by
  rw [sim_eq_chainSpin P fuel sub disp h0 hlt]
  simp only [chain]
  cases P.first with
  | none => simp
  | some sd => obtain ⟨s, d⟩ := sd; exact chainSpin_prefix P hP disp fuel _ _ _ _ _

/-- the factories of this property are well-formed producers -/
theorem factories_wellformed {α} (lo hi st d : Int) (init : α) (f : GenFns α) (tm : α → Except Err Int) (v : α)
    (count : Option Int) :
    WFP (rangeP lo hi st) ∧ WFP (generateP init f) ∧ WFP (gwrtP init f tm) ∧ WFP (timerP d) ∧
    WFP (repeatValueP v count) :=
  ⟨wfp_range lo hi st, wfp_generate init f, wfp_gwrt init f tm, wfp_timer d, wfp_repeat v count⟩

/-! ## AS-IS section: the defect of the pinned tree (DEFECT, not part of the claimed behaviour)

`generate_with_relative_time` tests `assert time`; a zero delay (0, 0.0, timedelta(0)) is falsy, so
the AssertionError leaves the action and the scheduler, and the subscriber gets nothing more. -/

def asisFns : GenFns Nat := { cond := fun s => .ok (s < 2), iter := fun s => .ok (s + 1) }

/-- counter-example on the as-is model: `generate_with_relative_time(0, x < 2, x + 1, lambda x: 0)` -/
theorem gwrt_asis_zero_delay_counter :
    ((gwrtAsIs 0 asisFns (fun _ => .ok 0)).step ⟨true, 0, false, 0⟩).escapes = some "AssertionError" ∧
    chain (gwrtAsIs 0 asisFns (fun _ => .ok 0)) 10 0 = [] ∧
    chain (gwrtP 0 asisFns (fun _ => .ok 0)) 10 0 = [(0, .next 0), (0, .next 1), (0, .completed)] := by
  decide

/-! ## non-vacuity -/
example : rangeArgs 5 (some 0) (some (-2)) = .ok (5, 0, -2) := rfl
example : pyRange 5 0 (-2) = [5, 3, 1] := by decide
example : chain (rangeP 5 0 (-2)) 10 7 = [(7, .next 5), (7, .next 3), (7, .next 1), (7, .completed)] := by decide
example : pyRange 3 3 1 = [] := by decide
/-- a loop whose `iter` raises on the third state -/
example : whileLoop { cond := fun (s : Nat) => .ok (s < 5), iter := fun s => if s = 2 then .error "boom" else .ok (s + 1) } 10 0
    = [.next 0, .next 1, .next 2, .error "boom"] := by decide
example : delayLoop asisFns (fun s => .ok (if s = 0 then 0 else 3)) 10 100 0
    = [(100, .next 0), (103, .next 1), (103, .completed)] := by decide
/-- `quiet` holds on a concrete run: range(5, 0, -2) subscribed at 200, disposed at 1000 -/
example : (Sim.record (rangeP 5 0 (-2)) 12 200 1000).out = chain (rangeP 5 0 (-2)) 10 200 :=
  sim_eq_chain_quiet _ 10 12 200 1000 (by decide) (by decide) (by show quiet _ _ _ _ _ _ = true; decide) (by decide)
/-- a dispose cut: range(0, 5) subscribed at 200 but disposed at 200 … nothing; disposed at 201 … everything -/
example : (Sim.record (rangeP 0 5 1) 20 200 201).out.length = 6 := by decide
example : chain (repeatValueP 'x' (some 2)) 5 0 = [(0, .next 'x'), (0, .next 'x'), (0, .completed)] := by decide

end C37

import RxProofs.Lemmas.Thr2Lock
import RxProofs.Lemmas.Thr2Merge
import RxProofs.Lemmas.Thr2Token
import RxModel.Thr2Table
import RxGen.Locks
/-!
# C43 — combinators serialize concurrently emitting sources

Property theorems only (helper lemmas: `RxProofs/Lemmas/Thr2Lock.lean`; model: `RxModel/Thr2Lock.lean`).

The system: any number of threads (`progs : Nat → TProg σ α`, all but finitely many `halt` in practice,
but nothing depends on that), one shared operator state, one lock, one downstream
`AutoDetachObserver`.  A schedule is any list of thread indices (`runSched`).  Handler programs are
resumable and state-dependent, so the theorems hold for every operator whose handlers have the
stated locking shape — which is what `locks_table_ok` establishes for the real combinators from the
table regenerated on every run.
-/

namespace C43
open Thr2

/-- **locked_calls_exclusive.** If no thread ever calls the downstream observer outside the lock
(state steps outside the lock are allowed), then for every number of threads and every schedule:
at no time are two threads inside a downstream callback, and the subscriber has seen
`next* (error|completed)?` — although the observer's `is_stopped` test and its update are separate
atomic steps. -/
theorem locked_calls_exclusive {σ α} (s0 : σ) (progs : Nat → TProg σ α) (hp : ∀ i, NoUCall (progs i))
    (sch : List Nat) :
    (runSched (init s0 progs) sch).maxActive ≤ 1 ∧ Grammar (runSched (init s0 progs) sch).delivered := by
  have h := runSched_inv (fun S => LInv S ∧ A S ∧ G S)
    (fun S i S' ⟨hL, hA, hG⟩ hs =>
      ⟨step_LInv S S' i hL hs, step_AG S S' i (LInv_X S hL) hA hG hs⟩)
    sch (init s0 progs) ⟨init_LInv s0 progs hp, init_AG s0 progs⟩
  exact ⟨h.2.1.1, h.2.2.1⟩

/-- **locked_paths_serialize.** If every handler is a locked block (every downstream call *and* every
state step under the one lock), then after any schedule of any number of threads the operator state
and the sequence of downstream calls are those of the *sequential* machine that runs whole handlers
atomically in the order in which the threads acquired the lock, completed by what the block in
progress (if any) still does.  In particular no two calls overlap (`locked_calls_exclusive`). -/
theorem locked_paths_serialize {σ α} (s0 : σ) (progs : Nat → TProg σ α) (hp : ∀ i, AllLocked (progs i))
    (sch : List Nat) :
    let S := runSched (init s0 progs) sch
    let q := Seq.run { st := s0, calls := [], thr := progs } S.acq
    q.st = (pending S).1 ∧ q.calls = S.calls ++ (pending S).2 ∧
      (S.lock = none → q.st = S.st ∧ q.calls = S.calls) := by
  intro S q
  have h := runSched_inv (SInv { st := s0, calls := [], thr := progs })
    (fun S i S' hI hs => step_SInv _ S S' i hI hs) sch (init s0 progs) (init_SInv s0 progs hp)
  obtain ⟨_, _, _, h4, h5⟩ := h
  refine ⟨h4, h5, fun hl => ?_⟩
  have hp' : pending S = (S.st, []) := by simp [pending, hl]
  rw [hp'] at h4 h5
  exact ⟨h4, by simpa using h5⟩

/-- **serialized_grammar.** Hence: if the operator's *sequential* handler machine only ever produces
well-formed call sequences (whatever the order of the handlers), so does every concurrent run. -/
theorem serialized_grammar {σ α} (s0 : σ) (progs : Nat → TProg σ α) (hp : ∀ i, AllLocked (progs i))
    (hseq : ∀ lin, Grammar (Seq.run { st := s0, calls := [], thr := progs } lin).calls)
    (sch : List Nat) : Grammar (runSched (init s0 progs) sch).calls := by
  have h := (locked_paths_serialize s0 progs hp sch).2.1
  exact grammar_prefix _ _ (h ▸ hseq _)

/-- **amb_serial.** `amb` calls downstream *outside* the lock; still, for any two notification
sequences of the sides (conforming or not, the loser may go on emitting) and any schedule, no two
threads are ever inside a downstream callback and the subscriber sees a well-formed sequence:
the choice is made once, under the lock, and only the chosen side passes the test. -/
theorem amb_serial {α} (ls rs : List (Notif α)) (sch : List Nat) :
    (runSched (init none (ambProgs ls rs)) sch).maxActive ≤ 1 ∧
      Grammar (runSched (init none (ambProgs ls rs)) sch).delivered := by
  have h := runSched_inv (fun S => AmbInv S ∧ A S ∧ G S)
    (fun S i S' ⟨hI, hA, hG⟩ hs =>
      ⟨step_AmbInv S S' i hI hs, step_AG S S' i (AmbInv_X S hI) hA hG hs⟩)
    sch (init none (ambProgs ls rs)) ⟨init_AmbInv ls rs, init_AG _ _⟩
  exact ⟨h.2.1.1, h.2.2.1⟩

/-- **guarded_terminal_final.** Programs may mix locked blocks, atomic steps OUTSIDE the lock (operations on a
self-synchronised container such as `group.add`) and unlocked calls.  If, as a property of the program text,
(`HQT`) from any state satisfying `Q` no step makes a downstream call and `Q` is kept, and (`EMT`) every step
that makes the call `c` lands in `Q`, then for any number of threads and any schedule the call `c` is made at
most once and nothing is called after it (operator level, before the downstream observer filters anything),
and once it has been made `Q` holds. -/
theorem guarded_terminal_final {σ α} (Q : σ → Prop) (c : Notif α) (s0 : σ) (progs : Nat → TProg σ α)
    (h1 : ∀ i, HQT Q (progs i)) (h2 : ∀ i, EMT Q c (progs i)) (sch : List Nat) :
    Final c (runSched (init s0 progs) sch).calls ∧
      (c ∈ (runSched (init s0 progs) sch).calls → Q (runSched (init s0 progs) sch).st) := by
  have h := runSched_inv (FInv Q c) (fun S i S' hI hs => step_FInv Q c S S' i hI hs) sch (init s0 progs)
    (init_FInv Q c s0 progs h1 h2)
  exact ⟨h.2.2, h.2.1⟩

/-- **merge_all_grammar.** `merge_all` / `flat_map` (outer `on_next` = `group.add` as an atomic step outside the
lock, everything else under `source.lock`): for every sequence of outer events, any number of inner sources
with arbitrary notification sequences, and every schedule,
(1) no two threads are ever inside a downstream callback and the subscriber sees `next* terminal?`;
(2) at operator level `on_completed` is called at most once, nothing is called after it, and it is called only
when the outer has completed and no inner subscription is left. -/
theorem merge_all_grammar {α} (outer : List OEv) (inners : Nat → List (Notif α)) (sch : List Nat) :
    let S := runSched (init ({} : MS) (mergeProgs outer inners)) sch
    (S.maxActive ≤ 1 ∧ Grammar S.delivered) ∧
      Final .completed S.calls ∧ (Notif.completed ∈ S.calls → S.st.oc = true ∧ S.st.live = []) := by
  intro S
  have hn : ∀ i, NoUCall (mergeProgs outer inners i) := by
    intro i; cases i with
    | zero => exact noUCall_outerProg outer
    | succ k => exact noUCall_innerProg k (inners k)
  have hq : ∀ i, HQT mDone (mergeProgs outer inners i) := by
    intro i; cases i with
    | zero => exact hqt_outerProg outer
    | succ k => exact hqt_innerProg k (inners k)
  have he : ∀ i, EMT mDone (.completed : Notif α) (mergeProgs outer inners i) := by
    intro i; cases i with
    | zero => exact emt_outerProg outer
    | succ k => exact emt_innerProg k (inners k)
  exact ⟨locked_calls_exclusive _ _ hn sch, guarded_terminal_final mDone .completed _ _ hq he sch⟩

/-- **amb_n_serial.** n-ary `amb` (`rx.amb(s₀ … sₙ₋₁)` = the fold of the binary operator: stage `j` has source
`j` on the left and the output of stage `j-1` on the right, its own lock and its own choice cell; each
`with lock: choice_side()` is one atomic test-and-set): for every `n`, all notification sequences (losers
may go on emitting) and every schedule, no two threads are ever inside a downstream callback and the
subscriber sees a well-formed sequence — the source that is the choice of every stage it passes through is
unique. -/
theorem amb_n_serial {α} (n : Nat) (srcs : Nat → List (Notif α)) (sch : List Nat) :
    (runSched (init (fun _ => none) (ambNProgs n srcs)) sch).maxActive ≤ 1 ∧
      Grammar (runSched (init (fun _ => none) (ambNProgs n srcs)) sch).delivered := by
  have h := runSched_inv (fun S => TInv AUpd (AW n) S ∧ A S ∧ G S)
    (fun S i S' ⟨hI, hA, hG⟩ hs =>
      ⟨step_TInv AUpd (AW n) (AW_stable n) S S' i hI hs,
       step_AG S S' i (TInv_X AUpd (AW n) (AW_excl n) S hI) hA hG hs⟩)
    sch (init (fun _ => none) (ambNProgs n srcs)) ⟨init_TInv_amb n srcs, init_AG _ _⟩
  exact ⟨h.2.1.1, h.2.2.1⟩

/-! The hypothesis is necessary — this is the defect of the unfixed `zip` / `combine_latest` /
`with_latest_from` / `merge`: thread 0 delivers `on_next` under the lock, thread 1 calls `on_error`
without it. -/

def unlockedDemo : Nat → TProg Unit Nat
  | 0 => .crit (.step id (fun _ => some (.next 1)) (fun _ => .done)) .halt
  | 1 => .ucall (fun _ => some (.error "x")) .halt
  | _ => .halt

/-- **unlocked_call_overlaps.** Two threads inside the downstream observer at once. -/
theorem unlocked_call_overlaps :
    (runSched (init () unlockedDemo) [0, 0, 0, 1, 1]).maxActive = 2 := by decide

/-- **unlocked_call_breaks_grammar.** Thread 0 has passed the `is_stopped` test, thread 1 delivers the
error, thread 0 then delivers its element: the subscriber sees `error, next`. -/
theorem unlocked_call_breaks_grammar :
    (runSched (init () unlockedDemo) [0, 0, 1, 1, 1, 0]).delivered = [.error "x", .next 1] ∧
      ¬ Grammar (runSched (init () unlockedDemo) [0, 0, 1, 1, 1, 0]).delivered := by decide

/-- **locks_table_ok.** On the working tree: for every listed combinator the regenerated table
exercises downstream `on_next`, `on_error` and `on_completed`, and one lock is held at every
downstream call and every write to operator state of every handler path (for `amb`: the choice is
written under the lock and every call is made by the chosen side). -/
theorem locks_table_ok : tableOk RxGen.Locks.table = true := by decide

/-! Non-vacuity. -/

-- a locked two-thread system: the hypotheses of `locked_calls_exclusive` / `locked_paths_serialize` hold
def lockedDemo : Nat → TProg Nat Nat
  | 0 => .crit (.step (· + 1) (fun s => some (.next s)) (fun _ => .done)) .halt
  | 1 => .crit (.step (· + 10) (fun s => some (.next s)) (fun _ => .step id (fun _ => some .completed) (fun _ => .done))) .halt
  | _ => .halt

example : ∀ i, AllLocked (lockedDemo i) := by
  intro i; match i with
  | 0 => exact .crit .halt
  | 1 => exact .crit .halt
  | _ + 2 => exact .halt
example : ∀ i, NoUCall (lockedDemo i) := by
  intro i; match i with
  | 0 => exact .crit .halt
  | 1 => exact .crit .halt
  | _ + 2 => exact .halt
-- thread 1 wins the lock while thread 0 tries in between: 0 is blocked, then runs after the release
example : (runSched (init 0 lockedDemo) [1, 1, 0, 1, 0, 1, 1, 1, 1, 1, 0, 0, 0, 0, 0]).delivered
    = [.next 0, .completed] := by decide
example : (runSched (init 0 lockedDemo) [1, 1, 0, 1, 0, 1, 1, 1, 1, 1, 0, 0, 0, 0, 0]).calls
    = [.next 0, .completed, .next 10] := by decide
example : (runSched (init 0 lockedDemo) [1, 1, 0, 1, 0, 1, 1, 1, 1, 1, 0, 0, 0, 0, 0]).acq = [1, 0] := by decide
-- amb: both sides race; the right side is chosen, the left is silenced
example : (runSched (init none (ambProgs [Notif.next 1, .completed] [Notif.next 2, .error "e"]))
    [1, 0, 1, 1, 0, 0, 0, 1, 1, 1, 1, 1, 1, 1, 1, 1, 0, 0, 0, 0, 0]).delivered = [.next 2, .error "e"] := by decide

-- merge_all: the outer emits inner 0 and completes, inner 0 emits and completes on its own thread:
-- `completed` is called by the inner's handler (the last subscription leaving the group), once
example : (runSched (init ({} : MS) (mergeProgs [.inner 0, .comp] (fun _ => [Notif.next 7, .completed])))
    [0, 1, 1, 1, 1, 1, 1, 0, 0, 0, 1, 1, 1, 1, 1, 1]).calls = [.next 7, .completed] := by decide
-- an inner that completed BEFORE it was subscribed: its completion is replayed inside the outer on_next
example : (runSched (init ({} : MS) (mergeProgs [.comp] (fun _ => [])))
    [0, 0, 0, 0, 0, 0]).calls = [Notif.completed (α := Nat)] := by decide
-- three-way amb: source 1 wins its own stage and stage 2; sources 0 and 2 are silenced
example : (runSched (init (fun _ => none) (ambNProgs 3 (fun i => [Notif.next i, .completed])))
    [1, 1, 0, 2, 0, 1, 1, 1, 1, 1, 1, 1, 1, 2, 0]).delivered = [.next 1, .completed] := by decide

end C43

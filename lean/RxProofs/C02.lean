import RxProofs.Lemmas.PipeHeap
import RxProofs.C01
/-!
# C02 — termination releases every source subscription  (and the heap half of C03)

The pipeline's disposables form a heap (`RxModel/PipeHeap.lean`); operator code, handlers and
disposable actions perform an arbitrary sequence of direct calls (`Pipe.Op`) on it.  The theorems
hold for **every** such sequence (every pipeline, every timeline, every interleaving of events):

* `closed_always` — after every direct call the heap is *closed*: whatever a disposed container
  owns (held when it was disposed, or attached afterwards) has been disposed, and a RefCountDisposable
  whose primary was disposed and which has no live dependent has released its resource.
* `graph_dispose_transitive` / `pipeline_release` — once the root was disposed (C01:
  a terminal notification disposes the root in the same call, `ado_terminal_disposes`; or the user's
  `dispose()`), every node reachable from it through owning edges — through a RefCountDisposable only
  once all its dependents (group / window subscribers) are released — is disposed.
* `late_attach_disposed` — a subscription attached to an already disposed container is disposed at once.
* `disposed_forever` — nothing is ever un-disposed.

What is *not* proved here: that each operator attaches every source subscription it opens beneath the
disposable it returns (ownership, "K2").  That is checked per run (a) statically by the regenerated
ownership table `RxGen/Ownership.lean` (`ownership_ok`, by `decide`), (b) dynamically by replaying the
recorded container calls of real pipelines through this model and comparing all flags, and by the
release oracle on the test sources' subscription logs.  Hence `pipeline_release` is *partial by
catalogue* in the sense of DESIGN.md §5 C02.
-/

namespace C02
open Pipe

/-- closed heap: disposal has been propagated along every owning edge. -/
def Closed (h : Heap) : Prop :=
  (∀ (x y : Nat) (nx ny : Node), h[x]? = some nx → nx.fires = true → y ∈ nx.owned → h[y]? = some ny → ny.done = true) ∧
  (∀ (r : Nat) (nr : Node), h[r]? = some nr → nr.kind = .refcount → nr.done = true → liveInners h r = 0 → nr.released = true)

/-- `z` is owned, transitively, by `x`; an edge out of a RefCountDisposable counts only when none of
its dependents is still live. -/
inductive Reach (h : Heap) : Nat → Nat → Prop
  | refl (x : Nat) : Reach h x x
  | step (x y z : Nat) (nx : Node) : h[x]? = some nx → y ∈ nx.owned →
      (nx.kind = .refcount → liveInners h x = 0) → Reach h y z → Reach h x z

theorem fix_closed (h : Heap) (hfix : propagate h = h) : Closed h := by
  refine ⟨?_, ?_⟩
  · intro x y nx ny hx hf hy hny
    apply propagate_fix_done h hfix y ny hny
    simp only [ownedByFiring, List.any_eq_true, Bool.and_eq_true]
    exact ⟨nx, List.mem_of_getElem? hx, hf, by simpa using hy⟩
  · intro r nr hr hk hd hl
    exact propagate_fix_released h hfix r nr hr hk hd hl

/-- **settle_closed.** Running disposal to quiescence yields a closed heap. -/
theorem settle_closed (h : Heap) : Closed (settle h) := fix_closed _ (settle_fix h)

/-- **closed_always.** After any direct call, on any heap, the heap is closed. -/
theorem closed_always (h : Heap) (op : Op) : Closed (apply h op).1 := by
  unfold Pipe.apply; exact settle_closed _

theorem run_closed (h : Heap) (hc : Closed h) (ops : List Op) : Closed (run h ops) := by
  induction ops generalizing h with
  | nil => exact hc
  | cons op ops ih => exact ih _ (closed_always h op)

/-- **graph_dispose_transitive.** In a closed heap, everything reachable from a disposed node is disposed. -/
theorem graph_dispose_transitive (h : Heap) (hc : Closed h) (x z : Nat) (nx nz : Node)
    (hx : h[x]? = some nx) (hd : nx.done = true) (hr : Reach h x z) (hz : h[z]? = some nz) :
    nz.done = true := by
  revert nx
  induction hr with
  | refl x => intro nx hx hd; rw [hx] at hz; cases hz; exact hd
  | step x y z nx' hx' hy hrc hyz ih =>
    intro nx hx hd
    have e : nx = nx' := Option.some.inj (hx.symm.trans hx')
    subst e
    have hf : nx.fires = true := by
      unfold Node.fires
      by_cases hk : nx.kind = .refcount
      · simp [hk]; exact hc.2 x nx hx hk hd (hrc hk)
      · simp [hk, hd]
    cases hny : h[y]? with
    | none =>
      cases hyz with
      | refl => rw [hny] at hz; cases hz
      | step _ _ _ n hn => rw [hny] at hn; cases hn
    | some ny => exact ih hz ny hny (hc.1 x y nx ny hx hf hy hny)

theorem markDone_get (h : Heap) (ids : List Nat) (i : Nat) :
    (markDone h ids)[i]? = (h[i]?).map (fun n => if ids.contains i then { n with done := true } else n) := by
  unfold markDone; rw [getElem?_zipIdx_map]

/-- **pipeline_release.** Whatever calls built and changed the heap, after `dispose(root)` every node
reachable from the root is disposed: no source subscription owned by the pipeline outlives it. -/
theorem pipeline_release (h0 : Heap) (ops : List Op) (root z : Nat) (nz : Node) :
    let h := (apply (run h0 ops) (.dispose root)).1
    Reach h root z → h[z]? = some nz → nz.done = true := by
  intro h hr hz
  have hc : Closed h := closed_always _ _
  cases hroot : h[root]? with
  | none =>
    cases hr with
    | refl => rw [hroot] at hz; cases hz
    | step _ _ _ n hn => rw [hroot] at hn; cases hn
  | some nr =>
    refine graph_dispose_transitive h hc root z nr nz hroot ?_ hr hz
    -- the root itself is done: markDone set the flag, settle never clears it
    obtain ⟨a, ha, hext⟩ := (settle_ext (applyRaw (run h0 ops) (.dispose root)).1).get' hroot
    apply hext.done
    simp only [applyRaw, effect, applyEff] at ha
    rw [markDone_get] at ha
    cases hg : (run h0 ops)[root]? with
    | none => rw [hg] at ha; cases ha
    | some b => rw [hg] at ha; simp at ha; rw [← ha]

theorem setNode_get (h : Heap) (i j : Nat) (f : Node → Node) :
    (setNode h i f)[j]? = (h[j]?).map (fun n => if j == i then f n else n) := by
  unfold setNode; rw [getElem?_zipIdx_map]

/-- **late_attach_disposed.** Adding to an already disposed CompositeDisposable disposes the item at once. -/
theorem late_attach_disposed (h : Heap) (c x : Nat) (nc nx : Node)
    (hcn : h[c]? = some nc) (hk : nc.kind = .comp) (hd : nc.done = true)
    (hx : (apply h (.add c x)).1[x]? = some nx) : nx.done = true := by
  have hcl := closed_always h (.add c x)
  have heff : effect h (.add c x) = { upd := some (c, nc.owned ++ [x]) } := by
    simp [effect, hcn, hk]
  have hraw : (applyRaw h (.add c x)).1[c]? = some { nc with owned := nc.owned ++ [x] } := by
    simp only [applyRaw, heff, applyEff]
    rw [markDone_get, setNode_get, hcn]; simp
  obtain ⟨b, hb, hext⟩ := (settle_ext (applyRaw h (.add c x)).1).get hraw
  have hbf : b.fires = true := by
    unfold Node.fires
    have hk' : b.kind = .comp := by rw [hext.kind]; exact hk
    have hd' : b.done = true := hext.done hd
    simp [hk', hd']
    try exact Or.inl rfl
  have hmem : x ∈ b.owned := by rw [hext.owned]; simp
  exact hcl.1 c x b nx hb hbf hmem hx

/-- done-monotonicity of one raw call (any effect). -/
theorem applyEff_done_mono (h : Heap) (e : Eff) (i : Nat) (a : Node) (ha : h[i]? = some a) (hd : a.done = true) :
    ∃ b, (applyEff h e)[i]? = some b ∧ b.done = true := by
  unfold applyEff
  -- step 1: owned update
  have h1 : ∃ b, (match e.upd with
      | some (i, o) => setNode h i (fun n => { n with owned := o })
      | none => h)[i]? = some b ∧ b.done = true := by
    cases e.upd with
    | none => exact ⟨a, ha, hd⟩
    | some p =>
      obtain ⟨j, o⟩ := p
      simp only
      rw [setNode_get, ha]; simp only [Option.map_some]
      by_cases hij : (i == j) = true
      · simp [hij]; exact hd
      · simp [hij]; exact hd
  obtain ⟨b, hb, hbd⟩ := h1
  -- step 2: marks
  have h2 : ∃ c, (markDone (match e.upd with
      | some (i, o) => setNode h i (fun n => { n with owned := o })
      | none => h) e.marks)[i]? = some c ∧ c.done = true := by
    rw [markDone_get, hb]; simp only [Option.map_some]
    by_cases hc : i ∈ e.marks
    · simp [hc]
    · simp [hc]; exact hbd
  obtain ⟨c, hc, hcd⟩ := h2
  -- step 3: allocation
  cases e.push with
  | none => exact ⟨c, hc, hcd⟩
  | some n =>
    refine ⟨c, ?_, hcd⟩
    simp only
    rw [List.getElem?_append_left]; exact hc
    exact (List.getElem?_eq_some_iff.mp hc).1

theorem applyRaw_done_mono (h : Heap) (op : Op) (i : Nat) (a : Node) (ha : h[i]? = some a) (hd : a.done = true) :
    ∃ b, (applyRaw h op).1[i]? = some b ∧ b.done = true :=
  applyEff_done_mono h (effect h op) i a ha hd

/-- **disposed_forever.** No sequence of calls ever un-disposes a node. -/
theorem disposed_forever (h : Heap) (ops : List Op) (i : Nat) (a : Node) (ha : h[i]? = some a) (hd : a.done = true) :
    ∃ b, (run h ops)[i]? = some b ∧ b.done = true := by
  induction ops generalizing h a with
  | nil => exact ⟨a, ha, hd⟩
  | cons op ops ih =>
    obtain ⟨b, hb, hbd⟩ := applyRaw_done_mono h op i a ha hd
    obtain ⟨c, hc, hext⟩ := (settle_ext (applyRaw h op).1).get hb
    exact ih (apply h op).1 c (by unfold Pipe.apply; exact hc) (hext.done hbd)

/-- **terminal_disposes_root** (link to C01): a terminal notification that reaches the subscriber
disposes the root subscription in the same call, so `pipeline_release` applies from that call on. -/
theorem terminal_disposes_root {α} (raises : Nat → Bool) (s : Ado) (c : ObsCall α) (n : Notif α)
    (hc : c = .error (match n with | .error e => e | _ => "") ∨ c = .completed)
    (hd : (Ado.step raises s c).2.delivered = some n) : (Ado.step raises s c).2.disposes = 1 :=
  (C01.ado_terminal_disposes raises s c n hc hd).1

/-! Non-vacuity: a merge-like plumbing — root composite, two SingleAssignment slots each holding a
source subscription, one attached late, one behind a RefCountDisposable with a dependent. -/
def demoOps : List Op :=
  [.new .comp [], .new .single [], .add 0 1, .new .leaf [], .assign 1 2,      -- 0 group{ 1 sad{ 2 src } }
   .new .leaf [], .new .refcount [3], .add 0 4, .getInner 4]                  -- 0 group{ 4 refcount(3 src) }, dependent 5
example : ((run [] (demoOps ++ [.dispose 0])).map (·.done)) = [true, true, true, false, true, false] := by decide +kernel
example : ((run [] (demoOps ++ [.dispose 0, .dispose 5])).map (·.done)) = [true, true, true, true, true, true] := by decide +kernel
/-- the hypotheses of `pipeline_release` are met by a real path: root composite → slot → source subscription. -/
example : (run [] (demoOps ++ [.dispose 0]))[0]? = some { kind := .comp, done := true, owned := [1, 4] } ∧
    (run [] (demoOps ++ [.dispose 0]))[1]? = some { kind := .single, done := true, owned := [2] } := by decide +kernel

end C02

import RxProofs.Lemmas.Thr2Timer
/-!
# C34 — real-time schedulers never run an action early or after cancellation; ImmediateScheduler

Property theorems only (model `RxModel/Thr2Timer.lean`).  Schedules are arbitrary lists of actions
(scheduler-thread step / the user's dispose / the clock reaching the due time), of any length.
"Starts" = the scheduler thread's read of `finished` (Timer) / `is_cancelled()` (event loop) — DESIGN.md §8.
-/

namespace C34
open Thr2Timer

/-- **never_before_due.** Timer-based (`TimeoutScheduler`) and event-loop-based (`NewThread`, `ThreadPool`,
`EventLoop`) schedulers, immediate or delayed, any interleaving of the scheduler thread, the disposing thread
and the clock: the action never starts before its due time. -/
theorem never_before_due (c : Cfg) (sch : List Nat) : (run c (init c) sch).early = false := by
  have h := all_safe c sch
  simp only [safe, Bool.and_eq_true, Bool.not_eq_true'] at h
  exact h.1

/-- **disposed_before_due_never_starts.** If `dispose()` happened before the due time, the action never starts —
whatever the scheduler thread was doing at that moment (still waiting, already woken, between the clock read and
the cancellation read). -/
theorem disposed_before_due_never_starts (c : Cfg) (sch : List Nat) : (run c (init c) sch).bad = false := by
  have h := all_safe c sch
  simp only [safe, Bool.and_eq_true, Bool.not_eq_true'] at h
  exact h.2

/-- `bad` and `early` mean what they say: `start` sets `early` when the due time has not been reached and `bad`
when a dispose happened before the due time; `dispose` records whether it came before the due time. -/
theorem start_flags (s : St) :
    (start s).started = true ∧ (s.due = false → (start s).early = true) ∧ (s.disposedEarly = true → (start s).bad = true) := by
  refine ⟨rfl, fun h => ?_, fun h => ?_⟩ <;> simp [start, h]

/-- **immediate_sync_or_wouldblock.** `ImmediateScheduler`: `schedule` runs the action synchronously;
`schedule_relative` runs it synchronously iff the delay is not positive and raises `WouldBlockException`
otherwise (nothing runs); `schedule_absolute` is `schedule_relative(duetime - now)`. -/
theorem immediate_sync_or_wouldblock (delay due now : Int) :
    immSchedule = .ranSync ∧
    (immRelative delay = .wouldBlock ↔ delay > 0) ∧ (immRelative delay = .ranSync ↔ delay ≤ 0) ∧
    (immAbsolute due now = .wouldBlock ↔ due > now) ∧ (immAbsolute due now = .ranSync ↔ due ≤ now) := by
  refine ⟨rfl, ?_, ?_, ?_, ?_⟩ <;> simp only [immAbsolute, immRelative] <;> split <;> simp_all <;> omega

/-- **shared_loop_safe.** Any number of actions sharing ONE event-loop thread (`EventLoopScheduler`; items in
any heap order, with any due times), any interleaving of the loop thread with the disposing threads and the
clock: no action starts before its due time, and no action disposed before its due time ever starts.  (The
loop reads each item's own `is_cancelled()` after dequeuing it; `dispose()` flags the item itself.) -/
theorem shared_loop_safe (order : List Nat) (rank : Nat → Nat) (sch : List Thr2LoopN.Act) :
    (Thr2LoopN.run ⟨order, rank, .flag⟩ Thr2LoopN.init sch).tooEarly = false ∧
    (Thr2LoopN.run ⟨order, rank, .flag⟩ Thr2LoopN.init sch).bad = false := by
  have h := Thr2LoopN.run_J ⟨order, rank, .flag⟩ rfl sch Thr2LoopN.init Thr2LoopN.init_J
  exact ⟨h.2.2.1, h.2.2.2⟩

/-- **remove_by_due_time_disposes_wrong_item.** Why `dispose()` must flag the item rather than remove it from
the queue by `PriorityQueue.remove`: with two items of equal due time, disposing item 1 before the due time
removes item 0 (the first heap entry `==` to it); item 1 stays queued, unflagged, and starts at its due time. -/
theorem remove_by_due_time_disposes_wrong_item :
    (Thr2LoopN.run ⟨[0, 1], fun _ => 5, .removeByDue⟩ Thr2LoopN.init
      [.loop, .loop, .loop, .dispose 1, .loop, .tick 5, .loop, .loop]).bad = true ∧
    (Thr2LoopN.run ⟨[0, 1], fun _ => 5, .removeByDue⟩ Thr2LoopN.init
      [.loop, .loop, .loop, .dispose 1, .loop, .tick 5, .loop, .loop]).started 0 = false := by decide

/-- **periodic_no_tick_after_dispose.** `NewThreadScheduler.schedule_periodic` (also ThreadPoolScheduler): whatever
the period (zero included), however long each tick takes (within or beyond its period) and wherever `dispose()`
lands (while waiting, while a tick runs): no tick starts after `dispose()` — the flag is read before every
tick, whether or not a wait preceded it. -/
theorem periodic_no_tick_after_dispose (period0 : Bool) (sch : List Nat) :
    (Thr2Periodic.run (Thr2Periodic.init period0) sch).bad = false :=
  Thr2Periodic.never_bad period0 sch

/-! Non-vacuity: actions do start when due and not disposed; a dispose after the wake-up but before the
`finished` read still prevents the start; a late dispose does not un-start. -/
example : (run ⟨.timer, false⟩ (init ⟨.timer, false⟩) [2, 0, 0]).started = true := by decide
example : (run ⟨.timer, false⟩ (init ⟨.timer, false⟩) [1, 0, 2, 0]).started = false := by decide
example : (run ⟨.evloop, false⟩ (init ⟨.evloop, false⟩) [0, 0, 2, 0, 0, 0]).started = true := by decide
example : (run ⟨.evloop, false⟩ (init ⟨.evloop, false⟩) [0, 0, 1, 2, 0, 0, 0]).started = false := by decide
example : (run ⟨.evloop, true⟩ (init ⟨.evloop, true⟩) [0, 1, 0]).started = false ∧
    (run ⟨.evloop, true⟩ (init ⟨.evloop, true⟩) [0, 1, 0]).bad = false := by decide

-- shared loop: item 1 (due 3) is disposed at time 2, item 0 (due 2) runs, item 1 is skipped
example : (Thr2LoopN.run ⟨[0, 1], fun i => if i = 0 then 2 else 3, .flag⟩ Thr2LoopN.init
    [.loop, .loop, .loop, .tick 2, .dispose 1, .loop, .loop, .loop, .loop, .loop, .tick 3, .loop, .loop, .loop]).started 0 = true ∧
    (Thr2LoopN.run ⟨[0, 1], fun i => if i = 0 then 2 else 3, .flag⟩ Thr2LoopN.init
    [.loop, .loop, .loop, .tick 2, .dispose 1, .loop, .loop, .loop, .loop, .loop, .tick 3, .loop, .loop, .loop]).started 1 = false := by
  decide

-- periodic: two ticks, the second overruns; dispose arrives during it; the thread returns without a third tick
example : (Thr2Periodic.runLabels (Thr2Periodic.init false) [0, 2, 0, 0, 4, 0, 2, 0, 0, 1, 5, 0, 0]).1 =
    ["wait", "elapse", "waitret", "tick-start", "tick-end", "wait", "elapse", "waitret", "tick-start", "dispose",
     "tick-end-slow", "nowait", "return"] := by decide
-- the event loop's wait returns early (scheduler clock stepped back): it re-reads the clock and waits again
example : (runLabels ⟨.evloop, false⟩ (init ⟨.evloop, false⟩) [0, 0, 3, 0, 0, 2, 0, 0, 0]).1 =
    ["top-notdue", "bottom-wait", "timeout-early", "top-notdue", "bottom-wait", "tick", "timeout", "top-due", "check-run"] := by
  decide

end C34

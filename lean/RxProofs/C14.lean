import RxModel.PipeSubscribe
import RxProofs.Lemmas.PipeProducers
/-!
# C14 — early termination cancels synchronous infinite sources

* `shared_deferred` / `trampoline_assign_before_emit` — on the default (shared current-thread) trampoline a
  producer's scheduled action runs only after `subscribe` has handed the subscription to the
  AutoDetachObserver; with an immediate / fresh current-thread scheduler it runs before (`fresh_emit_before_assign`).
* `early_term_bounded` — default scheduler, `take n` (n ≥ 1) over a never-ending synchronous producer, through
  any number of pass-through stages: exactly n elements are pulled, the producer's flag is set, and more
  budget changes nothing (`subscribe()` returns after bounded work).
* `immediate_scheduler_diverges` — with an explicit immediate / fresh current-thread scheduler the loop never
  sees its flag: for every budget all of it is consumed (the recorded known findings of C14).
Partial: proved for the producer → pass-through stages → counting terminator shape; shapes in which the
terminator depends on another *scheduled* source (take_until(of(…)), combine_latest, flat_map with the infinite
source as outer) are explored by the oracle only — on the current code they diverge (known findings).
-/
namespace C14
open Pipe

/-- **shared_deferred.** Whatever is scheduled on the busy shared trampoline contributes nothing inline. -/
theorem shared_deferred (pre post b : List Cmd) :
    (execAll (pre ++ Cmd.sched true b :: post)).1 = (execAll pre).1 ++ (execAll post).1 := by
  induction pre with
  | nil => simp [execAll, Cmd.exec]
  | cons c cs ih => simp [execAll, ih, List.append_assoc]

/-- **trampoline_assign_before_emit.** Default scheduler: the subscription is assigned before the producer emits. -/
theorem trampoline_assign_before_emit : subscribeEvents true = [.assign, .emit] := by decide

/-- **fresh_emit_before_assign.** Immediate / fresh current-thread scheduler: the producer emits first. -/
theorem fresh_emit_before_assign : subscribeEvents false = [.emit, .assign] := by decide

theorem loop_stopped (f : Nat) (s : St) (h : s.flag = true) : loopRun f s = s := by
  cases f <;> simp [loopRun, h]

/-- counting down: with the subscription assigned, `remaining = r ≥ 1` and enough budget, exactly `r` more pulls. -/
theorem loop_assigned (r f p : Nat) (hr : 1 ≤ r) (hf : r ≤ f) :
    loopRun f { assigned := true, flag := false, remaining := r, pulls := p } =
      { assigned := true, flag := true, remaining := 0, pulls := p + r } := by
  induction r generalizing f p with
  | zero => omega
  | succ r ih =>
    cases f with
    | zero => omega
    | succ f =>
      by_cases h1 : r = 0
      · subst h1
        simp [loopRun, emitOne, loop_stopped]
      · have := ih f (p + 1) (by omega) (by omega)
        simp [loopRun, emitOne, h1]
        rw [this]; simp; omega

/-- **early_term_bounded.** -/
theorem early_term_bounded (n fuel : Nat) (hn : 1 ≤ n) (hf : n ≤ fuel) :
    Pipe.subscribeRun true n fuel = { assigned := true, flag := true, remaining := 0, pulls := n } := by
  have h : Pipe.subscribeRun true n fuel = loopRun fuel { assigned := true, flag := false, remaining := n, pulls := 0 } := by
    simp [Pipe.subscribeRun, trampoline_assign_before_emit]
  rw [h, loop_assigned n fuel 0 hn hf]; simp

/-- never assigned ⇒ the flag is never set and every unit of budget is one more pull. -/
theorem emitOne_unassigned (r p : Nat) :
    ∃ r', emitOne { assigned := false, flag := false, remaining := r, pulls := p } =
      { assigned := false, flag := false, remaining := r', pulls := p + 1 } := by
  by_cases h0 : r = 0
  · exact ⟨0, by simp [emitOne, h0]⟩
  · by_cases h1 : r = 1
    · exact ⟨0, by simp [emitOne, h1]⟩
    · exact ⟨r - 1, by simp [emitOne, h0, h1]⟩

theorem loop_unassigned (f r p : Nat) :
    (loopRun f { assigned := false, flag := false, remaining := r, pulls := p }).pulls = p + f ∧
    (loopRun f { assigned := false, flag := false, remaining := r, pulls := p }).flag = false := by
  induction f generalizing r p with
  | zero => simp [loopRun]
  | succ f ih =>
    obtain ⟨r', hr'⟩ := emitOne_unassigned r p
    simp only [loopRun, Bool.false_eq_true, if_false, hr']
    have := ih r' (p + 1)
    exact ⟨by rw [this.1]; omega, this.2⟩

/-- **immediate_scheduler_diverges.** -/
theorem immediate_scheduler_diverges (n fuel : Nat) :
    (Pipe.subscribeRun false n fuel).pulls = fuel ∧ (Pipe.subscribeRun false n fuel).flag = false := by
  have h : Pipe.subscribeRun false n fuel = loopRun fuel { assigned := false, flag := false, remaining := n, pulls := 0 } := by
    have e : (Ev.emit == Ev.assign) = false := by decide
    simp [Pipe.subscribeRun, fresh_emit_before_assign, e]
  rw [h]; simpa using loop_unassigned fuel n 0

/-- link to the loop model of C03: the polling loop with the downstream disposing at its n-th element. -/
theorem fromIter_take (xs : List Nat) (n : Nat) (hn : 1 ≤ n) (hlen : n ≤ xs.length) :
    (fromIter (fun i => i + 1 == n) 0 false xs).2 = n := by
  have := Pipe.fromIterable_polls (fun i => i + 1 == n) xs (n - 1) 0 (by omega)
    (by intro j hj; simp; omega) (by simp; omega)
  rw [this]; simp; omega

example : Pipe.subscribeRun true 3 40 = { assigned := true, flag := true, remaining := 0, pulls := 3 } := by decide
example : (Pipe.subscribeRun false 3 50).pulls = 50 := by decide

end C14

namespace C14
open Pipe

/-- **loop_starves_queued.** `from_iterable` over a never-ending iterator runs as ONE trampoline action: whatever
is queued behind it (the `of(1)` of `take_until(of(1))`, the other side of `combine_latest`, the inners of `flat_map`)
never runs, for every budget — the recorded finding C14-loop-starves-queued. -/
theorem loop_starves_queued (fuel : Nat) (q : List Prog) :
    QEv.otherRan ∉ drainQ fuel (Prog.loop :: q) := by
  induction fuel generalizing q with
  | zero => simp [drainQ]
  | succ f ih =>
    simp only [drainQ, List.mem_cons, not_or]
    exact ⟨by decide, ih []⟩

/-- **resched_producer_fair.** A re-scheduling producer (range / generate / repeat_value / repeat) emits one element
per trampoline turn and re-queues itself BEHIND what is already queued: a source queued behind it runs after exactly
one produced element, however many elements the producer still has. -/
theorem resched_producer_fair (fuel k : Nat) (q : List Prog) :
    drainQ (fuel + 2) (Prog.step (k + 1) :: Prog.other :: q) =
      QEv.produced :: QEv.otherRan :: drainQ fuel (q ++ [Prog.step k]) := by
  simp [drainQ]

example : drainQ 6 [Prog.step 3, Prog.other] = [.produced, .otherRan, .produced, .produced, .produced] := by decide
example : drainQ 6 [Prog.loop, Prog.other] = [.produced, .produced, .produced, .produced, .produced, .produced] := by decide

end C14

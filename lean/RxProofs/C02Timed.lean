import RxModel.TimedSim
import RxProofs.Lemmas.TimedMap
import RxProofs.Lemmas.TimedDelay
import RxProofs.Lemmas.TimedSim
/-!
# C02/C03 support for the timed operators — a terminal or a dispose leaves nothing live

Subject: the small-step scheduler simulation `simStep` of `RxModel/TimedSim.lean` (queue of scheduled items, the
operators' own handler functions) with the resources explicit: `srcLive` (the source subscription), `timersOf queue`
(scheduled, not cancelled actions), `otherLive` (timeout's fallback subscription).  `SimSt.dispose held` is the dispose
of what `subscribe` returned — `CompositeDisposable(source subscription, timer container)` in debounce, timeout,
take/skip(_until)_with_time —: it releases the source, the fallback and the action *held by the container*.

* `owned_step`: in every reachable state there is at most one scheduled action and it is the one the container holds
  (`SimSt.Owned`), for every operator whose handlers satisfy `HeldLaws` (instances below).
* `terminal_releases_all`: the step that sends a terminal downstream leaves no live resource.
* `dispose_cancels_timers`: dispose at any reachable state leaves no live resource …
* `released_is_silent`: … and afterwards nothing is ever emitted.

For the trace machines (`*_with_mapper`) "released" is `done`: `machine_done_silent`, `*_terminal_sets_done`.
For delay: `delay_drained_no_timer`.
-/

namespace C02Timed
open Timed

variable {σ α β P : Type}

theorem timersOf_cons_src (t : Nat) (n : Notif α) (q : SQueue α P) : timersOf ((t, SItem.src n) :: q) = timersOf q := rfl
theorem timersOf_cons_timer (t : Nat) (p : P) (q : SQueue α P) : timersOf ((t, SItem.timer p) :: q) = p :: timersOf q := rfl

theorem timersOf_cancel (q : SQueue α P) : timersOf (cancelTimers q) = [] := by
  induction q with
  | nil => rfl
  | cons a q ih =>
    obtain ⟨t, it⟩ := a
    cases it with
    | src n => rw [cancelTimers_cons_src, timersOf_cons_src, ih]
    | timer p => rw [cancelTimers_cons_timer, ih]

theorem timersOf_insert (due : Nat) (p : P) (q : SQueue α P) (h : timersOf q = []) :
    timersOf (insertEv (due, SItem.timer p) q) = [p] := by
  induction q with
  | nil => rfl
  | cons a q ih =>
    obtain ⟨t, it⟩ := a
    cases it with
    | src n =>
      rw [timersOf_cons_src] at h
      by_cases hlt : due < t
      · simp only [insertEv, hlt, if_true, timersOf_cons_timer, timersOf_cons_src, h]
      · simp only [insertEv, hlt, if_false, timersOf_cons_src, ih h]
    | timer p' => rw [timersOf_cons_timer] at h; cases h

theorem timersOf_applyEff (eff : TEff P) (q : SQueue α P) :
    timersOf (applyEff eff q) =
      match eff with
      | .keep => timersOf q
      | .cancel => []
      | .arm _ p => [p] := by
  cases eff with
  | keep => rfl
  | cancel => exact timersOf_cancel q
  | arm due p => exact timersOf_insert due p _ (timersOf_cancel q)

theorem timersOf_dispose [DecidableEq P] (held : σ → Option P) (x : SimSt σ α P)
    (h : ∀ p ∈ timersOf x.queue, held x.st = some p) : timersOf (x.dispose held).queue = [] := by
  unfold SimSt.dispose
  simp only
  generalize held x.st = hv at h ⊢
  generalize x.queue = q at h
  induction q with
  | nil => rfl
  | cons a q ih =>
    obtain ⟨t, it⟩ := a
    cases it with
    | src n =>
      simp only [List.filter_cons, if_true, timersOf_cons_src]
      exact ih h
    | timer p =>
      have hp : hv = some p := h p (by rw [timersOf_cons_timer]; exact List.mem_cons_self ..)
      have hd : decide (hv = some p) = true := by simp [hp]
      simp only [List.filter_cons, hd, Bool.not_true, Bool.false_eq_true, if_false]
      exact ih (fun p' hp' => h p' (by rw [timersOf_cons_timer]; exact List.mem_cons_of_mem _ hp'))

theorem liveCount_dispose [DecidableEq P] (held : σ → Option P) (x : SimSt σ α P) (h : x.Owned held) :
    (x.dispose held).liveCount = 0 := by
  have := timersOf_dispose held x h.2
  unfold SimSt.liveCount
  rw [this]
  simp [SimSt.dispose]

theorem owned_dispose [DecidableEq P] (held : σ → Option P) (x : SimSt σ α P) (h : x.Owned held) :
    (x.dispose held).Owned held := by
  have := timersOf_dispose held x h.2
  exact ⟨by rw [this]; simp, by rw [this]; intro p hp; cases hp⟩

/-- **dispose_cancels_timers.**  Disposing the disposable returned by `subscribe`, in any reachable state, leaves no
source subscription, no fallback subscription and no scheduled action. -/
theorem dispose_cancels_timers [DecidableEq P] (held : σ → Option P) (x : SimSt σ α P) (h : x.Owned held) :
    (x.dispose held).liveCount = 0 := liveCount_dispose held x h

/-- the state after one item, before the terminal check -/
theorem owned_step [DecidableEq P] (op : SimOp σ α β P) (held : σ → Option P) (laws : HeldLaws op held)
    (x x' : SimSt σ α P) (out : TL β) (h : x.Owned held) (hs : simStep op held x = some (x', out)) : x'.Owned held := by
  obtain ⟨hlen, hheld⟩ := h
  unfold simStep at hs
  cases hq : x.queue with
  | nil => rw [hq] at hs; cases hs
  | cons a q =>
    obtain ⟨due, it⟩ := a
    rw [hq] at hs hlen hheld
    cases it with
    | src n =>
      rw [timersOf_cons_src] at hlen hheld
      simp only at hs
      cases hl : x.srcLive with
      | false =>
        simp only [hl, Bool.false_eq_true, if_false, Option.some.injEq, Prod.mk.injEq] at hs
        obtain ⟨rfl, _⟩ := hs
        exact ⟨hlen, hheld⟩
      | true =>
        simp only [hl, if_true, Option.some.injEq, Prod.mk.injEq] at hs
        obtain ⟨hx, _⟩ := hs
        -- ownership right after the handler
        have base : (timersOf (applyEff (op.onSrc (max x.clk due) x.st n).2.2 q)).length ≤ 1 ∧
            ∀ p ∈ timersOf (applyEff (op.onSrc (max x.clk due) x.st n).2.2 q), held (op.onSrc (max x.clk due) x.st n).1 = some p := by
          rw [timersOf_applyEff]
          cases heff : (op.onSrc (max x.clk due) x.st n).2.2 with
          | keep => exact ⟨hlen, fun p hp => laws.keep _ _ _ p heff (hheld p hp)⟩
          | cancel => exact ⟨by simp, by intro p hp; cases hp⟩
          | arm d p =>
            refine ⟨by simp, ?_⟩
            intro p' hp'
            rw [List.mem_singleton] at hp'
            subst hp'
            exact laws.arm _ _ _ d p' heff
        rw [← hx]
        split
        · exact owned_dispose held _ base
        · exact base
    | timer p =>
      rw [timersOf_cons_timer] at hlen hheld
      have hnil : timersOf q = [] := by
        cases hq' : timersOf q with
        | nil => rfl
        | cons b l => rw [hq'] at hlen; simp at hlen
      simp only [Option.some.injEq, Prod.mk.injEq] at hs
      obtain ⟨hx, _⟩ := hs
      have base : (timersOf q).length ≤ 1 ∧ ∀ p' ∈ timersOf q, held (op.onTimer (max x.clk due) x.st p).1 = some p' := by
        rw [hnil]; exact ⟨by simp, by intro p hp; cases hp⟩
      rw [← hx]
      split
      · exact owned_dispose held _ base
      · exact base

theorem hasTerm_at (t : Nat) (l : List (Notif β)) : hasTerm ((at_ t l).map (·.2)) = hasTerm l := by
  simp [at_, hasTerm, Function.comp_def]

/-- **terminal_releases_all.**  The step in which the operator sends a terminal downstream (so that the subscriber's
`AutoDetachObserver` disposes what `subscribe` returned) leaves no live source subscription, no fallback subscription and
no scheduled action. -/
theorem terminal_releases_all [DecidableEq P] (op : SimOp σ α β P) (held : σ → Option P) (laws : HeldLaws op held)
    (x x' : SimSt σ α P) (out : TL β) (h : x.Owned held) (hs : simStep op held x = some (x', out))
    (hterm : hasTerm (out.map (·.2)) = true) : x'.liveCount = 0 := by
  obtain ⟨hlen, hheld⟩ := h
  unfold simStep at hs
  cases hq : x.queue with
  | nil => rw [hq] at hs; cases hs
  | cons a q =>
    obtain ⟨due, it⟩ := a
    rw [hq] at hs hlen hheld
    cases it with
    | src n =>
      rw [timersOf_cons_src] at hlen hheld
      simp only at hs
      cases hl : x.srcLive with
      | false =>
        simp only [hl, Bool.false_eq_true, if_false, Option.some.injEq, Prod.mk.injEq] at hs
        obtain ⟨_, rfl⟩ := hs
        simp [hasTerm] at hterm
      | true =>
        simp only [hl, if_true, Option.some.injEq, Prod.mk.injEq] at hs
        obtain ⟨hx, ho⟩ := hs
        rw [← ho, hasTerm_at] at hterm
        rw [← hx, hterm]
        simp only [if_true]
        apply liveCount_dispose
        show (timersOf (applyEff (op.onSrc (max x.clk due) x.st n).2.2 q)).length ≤ 1 ∧
            ∀ p ∈ timersOf (applyEff (op.onSrc (max x.clk due) x.st n).2.2 q), held (op.onSrc (max x.clk due) x.st n).1 = some p
        rw [timersOf_applyEff]
        cases heff : (op.onSrc (max x.clk due) x.st n).2.2 with
        | keep => exact ⟨hlen, fun p hp => laws.keep _ _ _ p heff (hheld p hp)⟩
        | cancel => exact ⟨by simp, by intro p hp; cases hp⟩
        | arm d p =>
          refine ⟨by simp, ?_⟩
          intro p' hp'
          rw [List.mem_singleton] at hp'
          subst hp'
          exact laws.arm _ _ _ d p' heff
    | timer p =>
      rw [timersOf_cons_timer] at hlen hheld
      have hnil : timersOf q = [] := by
        cases hq' : timersOf q with
        | nil => rfl
        | cons b l => rw [hq'] at hlen; simp at hlen
      simp only [Option.some.injEq, Prod.mk.injEq] at hs
      obtain ⟨hx, ho⟩ := hs
      rw [← ho, hasTerm_at] at hterm
      rw [← hx, hterm]
      simp only [if_true]
      apply liveCount_dispose
      show (timersOf q).length ≤ 1 ∧ ∀ p' ∈ timersOf q, held (op.onTimer (max x.clk due) x.st p).1 = some p'
      rw [hnil]; exact ⟨by simp, by intro p hp; cases hp⟩

/-- **released_is_silent.**  Once nothing is live, whatever is still in the queue (the hot source's remaining messages)
produces no output and nothing becomes live again. -/
theorem released_is_silent [DecidableEq P] (op : SimOp σ α β P) (held : σ → Option P) (x x' : SimSt σ α P) (out : TL β)
    (h : x.liveCount = 0) (hs : simStep op held x = some (x', out)) : out = [] ∧ x'.liveCount = 0 := by
  unfold SimSt.liveCount at h
  have hsrc : x.srcLive = false := by cases hh : x.srcLive <;> simp [hh] at h ⊢
  have hoth : x.otherLive = false := by cases hh : x.otherLive <;> simp [hh] at h ⊢
  have htm : timersOf x.queue = [] := by
    cases hh : timersOf x.queue with
    | nil => rfl
    | cons b l => rw [hh] at h; simp at h
  unfold simStep at hs
  cases hq : x.queue with
  | nil => rw [hq] at hs; cases hs
  | cons a q =>
    obtain ⟨due, it⟩ := a
    rw [hq] at hs htm
    cases it with
    | src n =>
      rw [timersOf_cons_src] at htm
      simp only [hsrc, Bool.false_eq_true, if_false, Option.some.injEq, Prod.mk.injEq] at hs
      obtain ⟨rfl, rfl⟩ := hs
      exact ⟨rfl, by simp [SimSt.liveCount, hsrc, hoth, htm]⟩
    | timer p => rw [timersOf_cons_timer] at htm; cases htm

/-! ## Instances: the handlers of the operators satisfy `HeldLaws` -/

theorem debounce_held_laws (d : Nat) : HeldLaws (debOp (α := α) d) debHeld where
  arm now s n due p h := by
    cases n with
    | next x =>
      have e : ((debOp d).onSrc now s (Notif.next x)).2.2 = TEff.arm (now + d) (s.id + 1) := rfl
      rw [e] at h
      cases h
      rfl
    | error e => cases h
    | completed => cases h
  keep now s n p h := by
    cases n with
    | next x =>
      have e : ((debOp d).onSrc now s (Notif.next x)).2.2 = TEff.arm (now + d) (s.id + 1) := rfl
      rw [e] at h; cases h
    | error e => cases h
    | completed => cases h

theorem timeout_held_laws (mode : Due) : HeldLaws (toOp (α := α) mode) toHeld where
  arm now s n due p h := by
    cases n with
    | next v =>
      cases hsw : s.switched
      · have e : ((toOp mode).onSrc now s (Notif.next v)).2.2
            = TEff.arm (mode.at now) { due := mode.at now, fireAt := max (mode.at now) now, myId := s.id + 1, first := false } := by
          simp [toOp, toHandle, toOnNext, hsw, toCreateTimer]
        rw [e] at h
        cases h
        simp [toOp, toHandle, toOnNext, hsw, toCreateTimer, toHeld]
      · have e : ((toOp mode).onSrc now s (Notif.next v)).2.2 = TEff.keep := by
          simp [toOp, toHandle, toOnNext, hsw]
          cases s.timer <;> rfl
        rw [e] at h; cases h
    | error e => cases h
    | completed => cases h
  keep now s n p h hp := by
    cases n with
    | next v =>
      cases hsw : s.switched
      · have e : ((toOp mode).onSrc now s (Notif.next v)).2.2
            = TEff.arm (mode.at now) { due := mode.at now, fireAt := max (mode.at now) now, myId := s.id + 1, first := false } := by
          simp [toOp, toHandle, toOnNext, hsw, toCreateTimer]
        rw [e] at h; cases h
      · simpa [toOp, toHandle, toOnNext, hsw, toHeld] using hp
    | error e => cases hsw : s.switched <;> simpa [toOp, toHandle, toOnTerminal, hsw, toHeld] using hp
    | completed => cases hsw : s.switched <;> simpa [toOp, toHandle, toOnTerminal, hsw, toHeld] using hp

/-- take/skip(_until)_with_time: the one timer is a member of the returned CompositeDisposable itself -/
theorem take_with_time_held_laws : HeldLaws (twtOp (α := α)) (fun _ => some ()) where
  arm now s n due p h := rfl
  keep now s n p h hp := rfl

theorem skip_with_time_held_laws : HeldLaws (swtOp (α := α)) (fun _ => some ()) where
  arm now s n due p h := rfl
  keep now s n p h hp := rfl

/-- the initial states are owned: only the source's messages and (timeout, take/skip) the one initial timer -/
theorem initial_owned (held : σ → Option P) (clk : Nat) (msgs : TL α) (s : σ) (tm : Option (Nat × P))
    (h : ∀ due p, tm = some (due, p) → held s = some p) :
    SimSt.Owned held ({ clk := clk, queue := simQueue msgs tm, st := s } : SimSt σ α P) := by
  have hsrc : timersOf (srcItems (P := P) msgs) = [] := by
    induction msgs with
    | nil => rfl
    | cons a r ih => exact ih
  cases tm with
  | none => exact ⟨by simp [simQueue, hsrc], by simp [simQueue, hsrc]⟩
  | some dp =>
    obtain ⟨due, p⟩ := dp
    have := timersOf_insert due p _ hsrc
    refine ⟨by simp [simQueue, this], ?_⟩
    intro p' hp'
    simp only [simQueue, this, List.mem_singleton] at hp'
    subst hp'
    exact h due p' rfl

/-! ## The trace machines (`*_with_mapper`) and delay -/

/-- a machine that is `done` (a terminal went downstream, or it was disposed) reacts to no event: every subscription it
made — source, inner observables, subscription delay — is released in the sense of the trace semantics -/
theorem machine_done_silent {τ} (step : τ → MEv α → Step τ β) (isDone : τ → Bool) (other : Nat → TL β) (s : τ)
    (h : isDone s = true) (tr : List (Nat × MEv α)) : runTrace step isDone other s tr = [] := by
  cases tr with
  | nil => rfl
  | cons e r => obtain ⟨t, ev⟩ := e; simp [runTrace, h]

theorem twm_terminal_sets_done (raises : Nat → α → Option Err) (s : TwmSt α) (ev : MEv α)
    (h : hasTerm (twmStep raises s ev).out = true) : (twmStep raises s ev).st.done = true := by
  cases ev with
  | src n =>
    cases n with
    | next x => cases hr : raises s.count x <;> simp [twmStep, hr, hasTerm, isNext] at h ⊢
    | error e => simp [twmStep]
    | completed => simp [twmStep]
  | inner k sig =>
    cases hl : s.live with
    | none => simp [twmStep, hl, hasTerm] at h
    | some kc =>
      obtain ⟨k', cur⟩ := kc
      by_cases hk : k' = k
      · cases sig with
        | error e => simp [twmStep, hl, hk]
        | next =>
          simp only [twmStep, hl, hk, if_true] at h
          cases hv : s.value <;> cases hb : (s.hasValue && s.id == cur) <;> simp [hasTerm, twmEmit, hv, hb, isNext] at h
        | completed =>
          simp only [twmStep, hl, hk, if_true] at h
          cases hv : s.value <;> cases hb : (s.hasValue && s.id == cur) <;> simp [hasTerm, twmEmit, hv, hb, isNext] at h
      · simp [twmStep, hl, hk, hasTerm] at h
  | sub sg => simp [twmStep, hasTerm] at h

theorem dwm_terminal_sets_done (raises : Nat → α → Option Err) (s : DwmSt α) (ev : MEv α)
    (h : hasTerm (dwmStep raises s ev).out = true) : (dwmStep raises s ev).st.done = true := by
  have fin : ∀ (s' : DwmSt α) (o : List (Notif α)), hasTerm o = false → hasTerm (dwmFinish s' o).out = true →
      (dwmFinish s' o).st.done = true := by
    intro s' o ho hh
    simp only [dwmFinish, hasTerm, List.any_append, Bool.or_eq_true] at hh ⊢
    rcases hh with hh | hh
    · rw [hasTerm] at ho; rw [ho] at hh; cases hh
    · cases hd : dwmDone s' with
      | nil => rw [hd] at hh; simp at hh
      | cons b l => simp
  cases ev with
  | sub sg => cases hl : s.subLive <;> cases sg <;> simp [dwmStep, hl, hasTerm, isNext] at h ⊢
  | src n =>
    cases hl : s.srcLive
    · simp [dwmStep, hl, hasTerm] at h
    · cases n with
      | next x => cases hr : raises s.count x <;> simp [dwmStep, hl, hr, hasTerm, isNext] at h ⊢
      | error e => simp [dwmStep, hl]
      | completed =>
        simp only [dwmStep, hl, if_true] at h ⊢
        exact fin _ [] (by simp [hasTerm]) h
  | inner k sig =>
    cases hf : s.delays.find? (fun p => p.1 == k) with
    | none => simp [dwmStep, hf, hasTerm] at h
    | some kx =>
      obtain ⟨k', x⟩ := kx
      cases sig with
      | error e => simp [dwmStep, hf]
      | next => simp only [dwmStep, hf] at h ⊢; exact fin _ _ (by simp [hasTerm, isNext]) h
      | completed => simp only [dwmStep, hf] at h ⊢; exact fin _ _ (by simp [hasTerm, isNext]) h

/-- delay: when the scheduled action has delivered everything that was queued (in particular the completion, which is
the last entry) no action is pending and `active` is off -/
theorem delay_drained_no_timer (s : DelaySt α) (now : Nat) (hexc : s.exc = none)
    (h : s.queue.dropWhile (fun q => decide (q.1 ≤ now)) = []) :
    (delayAction now s).1.timer = none ∧ (delayAction now s).1.active = false ∧ (delayAction now s).1.queue = [] := by
  rw [delayAction_nil s now hexc h]
  exact ⟨rfl, rfl, rfl⟩

end C02Timed

import RxProofs.C28
/-!
# VtsOrder — the virtual-time scheduler's order rule, packaged for other families (Timed bridge, Sim)

Not a property file: re-statements of C28 results in the shape in which operator models use them.

**The rule.**  On `VirtualTimeScheduler`/`TestScheduler`/`HistoricalScheduler`, when no action schedules before
the clock (`schedule`, `schedule_relative(t ≥ 0)` only; absolute times are fine for the calls made before the
run), the actions executed by `start()`/`advance_to()` are run in strictly increasing order of
`(due time, scheduling number)`, the scheduling number being the position of the `schedule*` call among all
such calls on that scheduler (`St.nsched` at the moment of the call):

* `run_order` — the executed log is strictly sorted by `(due, seq)`;
* `before_rule` — for two executed items `a ≠ b`: `a` runs before `b` iff
  `if a was scheduled first then a.due ≤ b.due else a.due < b.due` (this is `TimedBase.timerBefore`);
* `scheduled_gets_last_number` / `scheduled_inside_runs_after_queued` — an item scheduled now (from inside an
  action or from outside) gets a scheduling number larger than everything pending, so at its own due time it
  runs after everything already queued for that instant (in particular: scheduled at the current clock ⇒
  after all items already queued for the current instant), and before everything queued for a later instant.
-/

namespace VtsOrder
open Vts C28

/-- `(due, seq)` strict lexicographic order on executed entries -/
def Before (a b : Ran) : Prop := a.due < b.due ∨ (a.due = b.due ∧ a.seq < b.seq)

/-- **run_order.** The whole executed log of `start()` (`tgt = none`) / `advance_to(T)` (`tgt = some T`) is
strictly sorted by `(due, scheduling number)`.  `SortInv s` holds e.g. for any scheduler on which nothing
has run yet, after any top-level scheduling calls (`C28.sortInv_fresh`), and is preserved by runs. -/
theorem run_order (cfg : Cfg) (hb : 0 ≤ cfg.bump) (tgt : Option Int) (s : St) (h : SortInv s) (hq : QAll nonPast s) :
    (loop cfg tgt s).1.log.Pairwise Before :=
  sorted_if_no_past_scheduling cfg hb tgt s h hq

/-- … and the invariant survives the run, so the next run (after more scheduling that is not in the past of
the clock) continues the same sorted log. -/
theorem run_order_inv (cfg : Cfg) (hb : 0 ≤ cfg.bump) (tgt : Option Int) (s : St) (h : SortInv s) (hq : QAll nonPast s) :
    SortInv (loop cfg tgt s).1 ∧ QAll nonPast (loop cfg tgt s).1 :=
  loop_inv2 (sortInv_iter cfg hb tgt) s h hq

/-- **before_rule.** The tie rule in the form used by the timed operators: between two items with different
scheduling numbers, `a` is before `b` in `(due, seq)` order iff — `a` scheduled first: `a.due ≤ b.due`;
`a` scheduled second: `a.due < b.due`. -/
theorem before_rule (a b : Ran) (_hne : a.seq ≠ b.seq) :
    Before a b ↔ (if a.seq < b.seq then a.due ≤ b.due else a.due < b.due) := by
  simp only [Before]
  split <;> omega

/-- for entries of a sorted log, the one that comes first is `Before` the other; with `before_rule` this
decides every tie -/
theorem earlier_in_log_before {l : List Ran} (h : l.Pairwise Before) (l1 l2 l3 : List Ran) (a b : Ran)
    (hl : l = l1 ++ a :: l2 ++ b :: l3) : Before a b := by
  subst hl
  exact (List.pairwise_append.1 h).2.2 a (by simp) b (by simp)

/-- **scheduled_gets_last_number.** A `schedule*` call (from inside an action or from outside) gives the new
item the scheduling number `s.nsched`, larger than that of every pending item and of every executed one. -/
theorem scheduled_gets_last_number (s : St) (h : SortInv s) (id : Nat) (due : Int) (body : Act) (w : Bool) :
    (∀ e ∈ s.queue.items, e.1.seq < s.nsched) ∧ (∀ r ∈ s.log, r.seq < s.nsched) ∧
    (s.enqueue id due body w).queue.items = s.queue.items ++ [({ id, due, body, wrapped := w, cancelled := false, seq := s.nsched }, s.queue.count)] :=
  ⟨h.2.2.2.2.2, fun r hr => (h.2.2.2.1 r hr).2, rfl⟩

/-- **scheduled_inside_runs_after_queued.** Hence, in `(due, seq)` order (the order in which they will run,
`run_order`), an item scheduled now for due time `d` comes after every pending item due at or before `d` —
scheduled at the current clock it runs after everything already queued for the current instant — and before
every pending item due later than `d`. -/
theorem scheduled_inside_runs_after_queued (s : St) (h : SortInv s) (d : Int) :
    (∀ e ∈ s.queue.items, e.1.due ≤ d → e.1.due < d ∨ (e.1.due = d ∧ e.1.seq < s.nsched)) ∧
    (∀ e ∈ s.queue.items, d < e.1.due → d < e.1.due ∨ (d = e.1.due ∧ s.nsched < e.1.seq)) := by
  refine ⟨fun e he hle => ?_, fun e _ hlt => Or.inl hlt⟩
  have := h.2.2.2.2.2 e he
  omega

/-! Non-vacuity: two items due at 5 (a timer armed first, id 1; a source message scheduled second, id 2) and a
child scheduled at the current clock from inside the first: order 1, 2, then the child 3. -/
private def demo : St :=
  (({ clock := 0 } : St).enqueue 1 5 (.sched .handed .imm 0 3 .done .done) false).enqueue 2 5 .done false

example : (start {} demo).1.log.map (fun r => (r.id, r.due, r.seq)) = [(1, 5, 0), (2, 5, 1), (3, 5, 2)] := by
  rw [start_eq_fuel {} 20 demo (by decide)]
  decide

end VtsOrder

import RxProofs.Lemmas.CombN
import RxProofs.Lemmas.CombSeq
/-!
# C02 / C03 support — release statements for every L2 trace machine of the Comb family

`Plumb.live` is the list of source subscriptions the operator currently holds, in the order in which the disposable it
returned disposes them.  Two facts hold for EVERY machine of the frame (`RxModel/Comb.lean`), every state with well-formed
plumbing (all reachable states are) and every event:

* `terminal_releases_all` — in the step in which a terminal goes out downstream the live set becomes empty, and every
  subscription that was open before that step or opened during it gets its `unsub` effect in that very step (at the
  emission the live ones are closed in container order: `Plumb.act`);
* `dispose_releases_all` — a `dispose` event closes every live subscription in container order, and from then on the
  live set stays empty, nothing is emitted and (when the operator's scheduled action does nothing once cancelled —
  true of all machines here) nothing is subscribed.

The per-machine instances quantify over every event list from the machine's subscription state.
-/
open Comb

namespace C02Comb

/-! ### generic: one handler action list -/

theorem act_keeps_or_unsubs {β} (p : Plumb) (a : Act β) (k : Nat) (hk : k ∈ p.live) :
    k ∈ (p.act a).1.live ∨ Eff.unsub k ∈ (p.act a).2 := by
  cases a with
  | emit n =>
    simp only [Plumb.act]
    split
    · exact Or.inl hk
    · split
      · right; simp [hk]
      · exact Or.inl hk
  | sub j =>
    simp only [Plumb.act]
    split
    · exact Or.inl hk
    · left; simp [hk]
  | unsub j =>
    simp only [Plumb.act]
    split
    · by_cases hkj : k = j
      · right; simp [hkj]
      · left; exact (List.mem_erase_of_ne hkj).mpr hk
    · exact Or.inl hk

theorem act_sub_live_or_unsub {β} (p : Plumb) (a : Act β) (k : Nat) (hs : Eff.sub k ∈ (p.act a).2) :
    k ∈ (p.act a).1.live ∨ Eff.unsub k ∈ (p.act a).2 := by
  cases a with
  | emit n =>
    simp only [Plumb.act] at hs
    split at hs
    · simp at hs
    · split at hs <;> simp at hs
  | sub j =>
    simp only [Plumb.act] at hs ⊢
    split
    · rename_i hd; simp [hd] at hs; right; simp [hs]
    · rename_i hd; simp [hd] at hs; left; simp [hs]
  | unsub j =>
    simp only [Plumb.act] at hs
    split at hs <;> simp at hs

/-- if the downstream observer is stopped when the handler returns, everything that was live or was subscribed by the
handler has been unsubscribed by it -/
theorem acts_release {β} (as : List (Act β)) : ∀ (p : Plumb), p.WF → (p.acts as).1.done = true →
    ∀ k, (k ∈ p.live ∨ Eff.sub k ∈ (p.acts as).2) → Eff.unsub k ∈ (p.acts as).2 := by
  induction as with
  | nil =>
    intro p hwf hd k hk
    simp only [Plumb.acts] at hd hk ⊢
    rcases hk with hk | hk
    · rw [hwf hd] at hk; cases hk
    · cases hk
  | cons a as ih =>
    intro p hwf hd k hk
    simp only [Plumb.acts] at hd hk ⊢
    have ih' := ih (p.act a).1 (act_WF p a hwf) hd k
    rw [List.mem_append]
    have hlive : k ∈ (p.act a).1.live → Eff.unsub k ∈ ((p.act a).1.acts as).2 := fun h => ih' (Or.inl h)
    rcases hk with hk | hk
    · rcases act_keeps_or_unsubs p a k hk with h | h
      · exact Or.inr (hlive h)
      · exact Or.inl h
    · rcases List.mem_append.mp hk with hk | hk
      · rcases act_sub_live_or_unsub p a k hk with h | h
        · exact Or.inr (hlive h)
        · exact Or.inl h
      · exact Or.inr (ih' (Or.inr hk))

theorem done_of_terminal_emitted {β} (p : Plumb) (as : List (Act β))
    (ht : (emits (p.acts as).2).any Notif.isTerminal = true) : (p.acts as).1.done = true := by
  cases hd : p.done
  · rw [emits_acts _ _ hd] at ht
    obtain ⟨x, hx, hxt⟩ := List.any_eq_true.mp ht
    rw [done_acts]
    simp only [hd, Bool.false_or]
    exact List.any_eq_true.mpr ⟨x, mem_of_mem_cut _ _ hx, hxt⟩
  · rw [emits_acts_done _ _ hd] at ht; simp at ht

/-- what a handler's actions produce once the downstream observer is stopped (the returned disposable is disposed):
nothing is emitted, nothing is live any more, and every subscription is opened and closed on the spot -/
def lateEffs {β} : List (Act β) → List (Eff β)
  | [] => []
  | .sub k :: r => Eff.sub k :: Eff.unsub k :: lateEffs r
  | _ :: r => lateEffs r

/-- **late_subscriptions_closed.** After the terminal (or a dispose) every subscription the operator still opens is closed
immediately: the effects of any further handler actions are exactly `sub k, unsub k` pairs, in program order. (In the frame
this is `Plumb.act (.sub k)` on a stopped plumbing: the holder is disposed when it is added to the disposed container /
assigned to the disposed SerialDisposable, the subscription when it is assigned to the holder.) -/
theorem late_subscriptions_closed {β} (as : List (Act β)) : ∀ (p : Plumb), p.WF → p.done = true →
    (p.acts as).2 = lateEffs as ∧ (p.acts as).1 = p := by
  induction as with
  | nil => intro p _ _; exact ⟨rfl, rfl⟩
  | cons a as ih =>
    intro p hwf hd
    have hl := hwf hd
    cases a with
    | emit n =>
      have : p.act (.emit n) = (p, []) := by simp [Plumb.act, hd]
      simp only [Plumb.acts, this, lateEffs, List.nil_append]; exact ih p hwf hd
    | sub k =>
      have : p.act (β := β) (.sub k) = (p, [Eff.sub k, Eff.unsub k]) := by simp [Plumb.act, hd]
      simp only [Plumb.acts, this, lateEffs]
      have := ih p hwf hd
      exact ⟨by rw [this.1]; rfl, this.2⟩
    | unsub k =>
      have : p.act (β := β) (.unsub k) = (p, []) := by simp [Plumb.act, hl]
      simp only [Plumb.acts, this, lateEffs, List.nil_append]; exact ih p hwf hd

/-- within the step that emits the terminal: once the terminal went out, the rest of the handler's subscriptions are
subscribe+unsubscribe pairs (`pre` = the actions up to and including the terminal emission) -/
theorem subscriptions_after_terminal_closed {β} (p : Plumb) (hwf : p.WF) (pre post : List (Act β))
    (hd : (p.acts pre).1.done = true) :
    (p.acts (pre ++ post)).2 = (p.acts pre).2 ++ lateEffs post := by
  have h : ∀ (a b : List (Act β)) (q : Plumb), q.acts (a ++ b) = (((q.acts a).1.acts b).1, (q.acts a).2 ++ ((q.acts a).1.acts b).2) := by
    intro a
    induction a with
    | nil => intro b q; simp [Plumb.acts]
    | cons x xs ih => intro b q; simp [Plumb.acts, ih, List.append_assoc]
  rw [h]
  simp only
  rw [(late_subscriptions_closed post _ (acts_WF p pre hwf) hd).1]

/-! ### generic: one step -/

/-- **terminal_releases_all** (any machine, any well-formed state, any event). -/
theorem terminal_releases_all {σ ι β} (m : Machine σ ι β) (st : St σ) (e : Ev ι) (h : st.p.WF)
    (ht : (emits (step m st e).2).any Notif.isTerminal = true) :
    (step m st e).1.p.live = [] ∧ (step m st e).1.p.done = true ∧
    ∀ k, (k ∈ st.p.live ∨ Eff.sub k ∈ (step m st e).2) → Eff.unsub k ∈ (step m st e).2 := by
  have hwf := step_WF m st e h
  cases e with
  | dispose => simp [emits_step_dispose] at ht
  | tick =>
    simp only [step] at ht ⊢
    have hd := done_of_terminal_emitted _ _ ht
    exact ⟨hwf hd, hd, acts_release _ st.p h hd⟩
  | src k n =>
    by_cases hk : k ∈ st.p.live
    · simp only [step, hk, if_true] at ht hwf ⊢
      split at ht
      · -- terminal input: handler effects ++ the source's own unsubscribe
        rename_i hn
        simp only [hn, if_true] at hwf ⊢
        have ht' : (emits (st.p.acts (m.handler st.s k n).2).2).any Notif.isTerminal = true := by
          rw [emits_append] at ht
          have : emits ((st.p.acts (m.handler st.s k n).2).1.act (β := β) (.unsub k)).2 = [] := by
            simp only [Plumb.act]; split <;> simp [emits]
          rw [this, List.append_nil] at ht; exact ht
        have hd := done_of_terminal_emitted _ _ ht'
        have hd2 := act_done_mono (β := β) _ (.unsub k) hd
        refine ⟨hwf hd2, hd2, ?_⟩
        intro j hj
        rw [List.mem_append]
        rcases hj with hj | hj
        · exact Or.inl (acts_release _ st.p h hd j (Or.inl hj))
        · rcases List.mem_append.mp hj with hj | hj
          · exact Or.inl (acts_release _ st.p h hd j (Or.inr hj))
          · simp only [Plumb.act] at hj; split at hj <;> simp at hj
      · rename_i hn
        simp only [hn] at hwf ⊢
        have hd := done_of_terminal_emitted _ _ ht
        exact ⟨hwf hd, hd, acts_release _ st.p h hd⟩
    · rw [step_src_not_live _ _ _ _ hk] at ht; simp at ht

/-- the unsubscribe effects of a downstream terminal are issued in container order: the emitting action closes exactly the
subscriptions live at that moment, in the order of the returned disposable -/
theorem terminal_container_order {β} (p : Plumb) (n : Notif β) (hd : p.done = false) (hn : n.isTerminal = true) :
    (p.act (.emit n)).2 = Eff.emit n :: p.live.map Eff.unsub ∧ (p.act (.emit n)).1.live = [] := by
  simp [Plumb.act, hd, hn]

/-- **dispose_releases_all**, the dispose step itself: every live subscription is closed, in container order, nothing is emitted. -/
theorem dispose_step {σ ι β} (m : Machine σ ι β) (st : St σ) :
    (step m st .dispose).2 = st.p.live.map Eff.unsub ∧ (step m st .dispose).1.p.live = [] ∧
    (step m st .dispose).1.p.done = true ∧ (step m st .dispose).1.s = st.s := by
  simp [step, Plumb.dispose]

theorem live_done_run {σ ι β} (m : Machine σ ι β) (es : List (Ev ι)) : ∀ st : St σ, st.p.WF → st.p.done = true →
    (final m st es).p.live = [] ∧ (final m st es).p.done = true := by
  induction es with
  | nil => intro st h hd; exact ⟨h hd, hd⟩
  | cons e es ih => intro st h hd; exact ih _ (step_WF m st e h) (step_done m st e h hd)

theorem subs_done_run {σ ι β} (m : Machine σ ι β) (htick : ∀ s, (m.tick s true).2 = []) (es : List (Ev ι)) :
    ∀ st : St σ, st.p.WF → st.p.done = true → subsOf (run m st es) = [] ∧ unsubsOf (run m st es) = [] := by
  induction es with
  | nil => intro _ _ _; exact ⟨rfl, rfl⟩
  | cons e es ih =>
    intro st h hd
    have ih' := ih _ (step_WF m st e h) (step_done m st e h hd)
    rw [run_cons, subsOf_append, unsubsOf_append, ih'.1, ih'.2]
    cases e with
    | src k n => rw [step_done_src m st k n h hd]; exact ⟨rfl, rfl⟩
    | tick => simp [step, hd, htick, Plumb.acts]
    | dispose => simp [step, Plumb.dispose, h hd]

/-- **dispose_releases_all** (any machine, any well-formed state): after a `dispose` the live set is empty and stays empty
whatever follows, nothing is emitted, and — if the machine's scheduled action does nothing once cancelled — no source is
subscribed or unsubscribed any more. -/
theorem dispose_releases_all {σ ι β} (m : Machine σ ι β) (st : St σ) (h : st.p.WF) (post : List (Ev ι)) :
    (step m st .dispose).2 = st.p.live.map Eff.unsub ∧
    (final m (step m st .dispose).1 post).p.live = [] ∧
    emits (run m st (.dispose :: post)) = [] ∧
    ((∀ s, (m.tick s true).2 = []) →
      subsOf (run m (step m st .dispose).1 post) = [] ∧ unsubsOf (run m (step m st .dispose).1 post) = []) := by
  have hs := dispose_step m st
  have hwf := step_WF m st .dispose h
  refine ⟨hs.1, (live_done_run m post _ hwf hs.2.2.1).1, ?_, fun htick => subs_done_run m htick post _ hwf hs.2.2.1⟩
  rw [run_cons, emits_append, emits_step_dispose, emits_run_done m post _ hwf hs.2.2.1]; rfl

/-! ### reachable states: every event list from a well-formed start -/

theorem terminal_releases_all_run {σ ι β} (m : Machine σ ι β) (init : St σ) (hi : init.p.WF) (es : List (Ev ι)) (e : Ev ι)
    (ht : (emits (step m (final m init es) e).2).any Notif.isTerminal = true) :
    (step m (final m init es) e).1.p.live = [] ∧
    ∀ k, (k ∈ (final m init es).p.live ∨ Eff.sub k ∈ (step m (final m init es) e).2) →
      Eff.unsub k ∈ (step m (final m init es) e).2 :=
  let r := terminal_releases_all m _ e (final_WF m init es hi) ht
  ⟨r.1, r.2.2⟩

theorem dispose_releases_all_run {σ ι β} (m : Machine σ ι β) (init : St σ) (hi : init.p.WF)
    (htick : ∀ s, (m.tick s true).2 = []) (pre post : List (Ev ι)) :
    (step m (final m init pre) .dispose).2 = (final m init pre).p.live.map Eff.unsub ∧
    (final m init (pre ++ .dispose :: post)).p.live = [] ∧
    emits (run m init (pre ++ .dispose :: post)) = emits (run m init pre) ∧
    subsOf (run m init (pre ++ .dispose :: post)) = subsOf (run m init pre) := by
  have hwf := final_WF m init pre hi
  have r := dispose_releases_all m (final m init pre) hwf post
  refine ⟨r.1, ?_, ?_, ?_⟩
  · rw [final_append]; exact r.2.1
  · rw [run_append, emits_append, r.2.2.1, List.append_nil]
  · rw [run_append, run_cons, subsOf_append, subsOf_append, (r.2.2.2 htick).1, r.1]; simp

/-- the statement of `terminal_releases_all` for one machine, over every event list from its start state -/
def TerminalReleases {σ ι β} (m : Machine σ ι β) (init : St σ) : Prop :=
  ∀ (es : List (Ev ι)) (e : Ev ι), (emits (step m (final m init es) e).2).any Notif.isTerminal = true →
    (step m (final m init es) e).1.p.live = [] ∧
    ∀ k, (k ∈ (final m init es).p.live ∨ Eff.sub k ∈ (step m (final m init es) e).2) →
      Eff.unsub k ∈ (step m (final m init es) e).2

/-- the statement of `dispose_releases_all` for one machine: a dispose anywhere in any event list closes the live
subscriptions in container order; afterwards nothing is live, emitted or subscribed -/
def DisposeReleases {σ ι β} (m : Machine σ ι β) (init : St σ) : Prop :=
  ∀ (pre post : List (Ev ι)),
    (step m (final m init pre) .dispose).2 = (final m init pre).p.live.map Eff.unsub ∧
    (final m init (pre ++ .dispose :: post)).p.live = [] ∧
    emits (run m init (pre ++ .dispose :: post)) = emits (run m init pre) ∧
    subsOf (run m init (pre ++ .dispose :: post)) = subsOf (run m init pre)

/-! ### per-machine instances (every event list from the subscription state) -/

theorem startAll_WF {σ} (s : σ) (n : Nat) : (startAll s n).p.WF := by intro h; simp [startAll] at h
theorem seqTick_done {α} (kind : SeqKind) (items : Nat → Item) (s : SeqSt) : (seqTick (α := α) kind items s true).2 = [] := by
  simp only [seqTick]; split <;> simp

section
variable {α : Type}

/-! `seq` = concat / catch / on_error_resume_next and every derived form (`items` arbitrary: repeat(n), retry(n), while_do,
for_in, …); the `subsOf` clause of its dispose theorem is the cancellation of the pending scheduled action. -/

theorem terminal_releases_all_zip (n : Nat) : TerminalReleases (zipM (α := α) n) (zipInit n) :=
  fun es e => terminal_releases_all_run (zipM (α := α) n) (zipInit n) (startAll_WF _ n) es e
theorem dispose_releases_all_zip (n : Nat) : DisposeReleases (zipM (α := α) n) (zipInit n) :=
  fun pre post => dispose_releases_all_run (zipM (α := α) n) (zipInit n) (startAll_WF _ n) (fun _ => rfl) pre post

theorem terminal_releases_all_combine_latest (n : Nat) : TerminalReleases (clM (α := α) n) (clInit n) :=
  fun es e => terminal_releases_all_run (clM (α := α) n) (clInit n) (startAll_WF _ n) es e
theorem dispose_releases_all_combine_latest (n : Nat) : DisposeReleases (clM (α := α) n) (clInit n) :=
  fun pre post => dispose_releases_all_run (clM (α := α) n) (clInit n) (startAll_WF _ n) (fun _ => rfl) pre post

theorem terminal_releases_all_with_latest_from (m : Nat) : TerminalReleases (wlfM (α := α) m) (wlfInit m) :=
  fun es e => terminal_releases_all_run (wlfM (α := α) m) (wlfInit m) (wlfInit_WF m) es e
theorem dispose_releases_all_with_latest_from (m : Nat) : DisposeReleases (wlfM (α := α) m) (wlfInit m) :=
  fun pre post => dispose_releases_all_run (wlfM (α := α) m) (wlfInit m) (wlfInit_WF m) (fun _ => rfl) pre post

theorem terminal_releases_all_fork_join (n : Nat) : TerminalReleases (fjM (α := α) n) (fjInit n) :=
  fun es e => terminal_releases_all_run (fjM (α := α) n) (fjInit n) (startAll_WF _ n) es e
theorem dispose_releases_all_fork_join (n : Nat) : DisposeReleases (fjM (α := α) n) (fjInit n) :=
  fun pre post => dispose_releases_all_run (fjM (α := α) n) (fjInit n) (startAll_WF _ n) (fun _ => rfl) pre post

theorem terminal_releases_all_amb (n : Nat) : TerminalReleases (ambM (α := α) n) (ambInit n) :=
  fun es e => terminal_releases_all_run (ambM (α := α) n) (ambInit n) (amb_init_inv n).wf es e
theorem dispose_releases_all_amb (n : Nat) : DisposeReleases (ambM (α := α) n) (ambInit n) :=
  fun pre post => dispose_releases_all_run (ambM (α := α) n) (ambInit n) (amb_init_inv n).wf (fun _ => rfl) pre post

theorem terminal_releases_all_amb2 : TerminalReleases (ambM (α := α) 2) amb2Init :=
  fun es e => terminal_releases_all_run (ambM (α := α) 2) amb2Init amb2_init_inv.wf es e
theorem dispose_releases_all_amb2 : DisposeReleases (ambM (α := α) 2) amb2Init :=
  fun pre post => dispose_releases_all_run (ambM (α := α) 2) amb2Init amb2_init_inv.wf (fun _ => rfl) pre post

theorem terminal_releases_all_merge_all : TerminalReleases (maM (α := α)) (hoInit {}) :=
  fun es e => terminal_releases_all_run (maM (α := α)) (hoInit {}) (hoInit_WF _) es e
theorem dispose_releases_all_merge_all : DisposeReleases (maM (α := α)) (hoInit {}) :=
  fun pre post => dispose_releases_all_run (maM (α := α)) (hoInit {}) (hoInit_WF _) (fun _ => rfl) pre post

theorem terminal_releases_all_merge_maxc (maxc : Nat) : TerminalReleases (mcM (α := α) maxc) (hoInit {}) :=
  fun es e => terminal_releases_all_run (mcM (α := α) maxc) (hoInit {}) (hoInit_WF _) es e
theorem dispose_releases_all_merge_maxc (maxc : Nat) : DisposeReleases (mcM (α := α) maxc) (hoInit {}) :=
  fun pre post => dispose_releases_all_run (mcM (α := α) maxc) (hoInit {}) (hoInit_WF _) (fun _ => rfl) pre post

theorem terminal_releases_all_switch : TerminalReleases (swM (α := α)) (hoInit {}) :=
  fun es e => terminal_releases_all_run (swM (α := α)) (hoInit {}) (hoInit_WF _) es e
theorem dispose_releases_all_switch : DisposeReleases (swM (α := α)) (hoInit {}) :=
  fun pre post => dispose_releases_all_run (swM (α := α)) (hoInit {}) (hoInit_WF _) (fun _ => rfl) pre post

theorem terminal_releases_all_seq (kind : SeqKind) (items : Nat → Item) : TerminalReleases (seqM (α := α) kind items) seqInit :=
  fun es e => terminal_releases_all_run (seqM (α := α) kind items) seqInit seq_init_inv.wf es e
theorem dispose_releases_all_seq (kind : SeqKind) (items : Nat → Item) : DisposeReleases (seqM (α := α) kind items) seqInit :=
  fun pre post => dispose_releases_all_run (seqM (α := α) kind items) seqInit seq_init_inv.wf (seqTick_done kind items) pre post

theorem terminal_releases_all_seq_inline (kind : SeqKind) (items : Nat → Item) : TerminalReleases (seqInlineM (α := α) kind items) seqInit :=
  fun es e => terminal_releases_all_run (seqInlineM (α := α) kind items) seqInit seq_init_inv.wf es e
theorem dispose_releases_all_seq_inline (kind : SeqKind) (items : Nat → Item) : DisposeReleases (seqInlineM (α := α) kind items) seqInit :=
  fun pre post => dispose_releases_all_run (seqInlineM (α := α) kind items) seqInit seq_init_inv.wf (seqTick_done kind items) pre post

theorem terminal_releases_all_catch_handler (res : Except Err Unit) : TerminalReleases (chM (α := α) res) chInit :=
  fun es e => terminal_releases_all_run (chM (α := α) res) chInit ch_init_inv.wf es e
theorem dispose_releases_all_catch_handler (res : Except Err Unit) : DisposeReleases (chM (α := α) res) chInit :=
  fun pre post => dispose_releases_all_run (chM (α := α) res) chInit ch_init_inv.wf (fun _ => rfl) pre post

end

/-- non-vacuity: zip of 3, source 1 errors: the error goes out and 0, 1, 2 are closed in container order in that step -/
example : (step (zipM (α := Nat) 3) (zipInit 3) (.src 1 (.error "e"))).2
    = [.emit (.error "e"), .unsub 0, .unsub 1, .unsub 2] := by decide
/-- non-vacuity: merge(max_concurrent=1) with a queued inner, disposed: outer and the live inner closed, the queued one never starts -/
example : run (mcM (α := Nat) 1) (hoInit {})
    [.src 0 (.next (.obs 0)), .src 0 (.next (.obs 1)), .dispose, .src 1 .completed, .src 0 .completed]
    = [.sub 1, .unsub 0, .unsub 1] := by decide

end C02Comb

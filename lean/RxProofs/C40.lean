import RxModel.WinFin
import RxProofs.Lemmas.WinFin
/-!
# C40 — resources and finally-actions are released exactly once

Property theorems only (helper lemmas: `RxProofs/Lemmas/WinFin.lean`; model: `RxModel/WinFin.lean`).
A *history* of one subscription is `(sp, evs)`: what the source does inside its `subscribe` body
(`sp : SyncPhase`: inline emissions, then return or raise; adversarial or ordinary emitter) followed by any
list `evs` of source notifications (conforming or not) and `dispose` calls on the returned handle, at any
position and any number of times.  User callbacks raise at arbitrary invocation indices
(`c.subRaises`, `c.actRaises`).  All theorems are for every history — no bound.
-/

namespace C40
open WinFin

/-! ## using -/

/-- **using_resource_at_most_once.** Whatever the history and whichever callbacks raise, `using` calls
`dispose()` on the resource it created at most once; with no resource (factory returned `None` or raised)
it never does. -/
theorem using_resource_at_most_once {α} (c : Cfg) (hc : c.oper = .using) (hsd : c.srcDisposeRaises = false) (sp : SyncPhase α) (evs : List (Ev α)) :
    resCount (run c sp evs).log ≤ 1 ∧ (c.resf ≠ .some → resCount (run c sp evs).log = 0) := by
  haveI : NoSrcFault c := ⟨hsd⟩
  rcases using_subscribePhase (α := α) c hc sp with h | ⟨hf, h0⟩
  · have h := using_run_inv c hc evs _ _ h
    simp only [run]
    rw [h.cnt]
    constructor
    · cases (runFrom c (subscribePhase c sp) evs).o.rDisposed <;> cases c.hasRes <;> simp
    · intro hne
      have : c.hasRes = false := by cases hr : c.resf <;> simp_all [Cfg.hasRes]
      simp [this]
  · simp only [run, frozen_run c _ evs hf, h0]; simp

/-- **using_resource_once.** If `subscribe` returned (did not raise — see `using_leaks_when_subscribe_raises`)
and a resource was created, then after *any* history the resource has been disposed exactly once iff a
terminal notification was delivered to the subscriber or the history contains a `dispose` — and zero times
otherwise.  Since this holds for every history it holds for every prefix of one: the disposal happens at
the first such event ("whichever comes first", `using_released_at_first_trigger`).  The observable-factory
failure path is included: there the subscribed source is `throw(exception)` (`c.obsfRaises`). -/
theorem using_resource_once {α} (c : Cfg) (hc : c.oper = .using) (hsd : c.srcDisposeRaises = false) (sp : SyncPhase α) (evs : List (Ev α))
    (hres : c.resf = .some) (hh : (subscribePhase c sp : St α).d.handle = true) :
    (resCount (run c sp evs).log = 1 ↔ (hasTerm (run c sp evs).log = true ∨ hasDispose evs = true)) ∧
    (resCount (run c sp evs).log = 0 ↔ ¬ (hasTerm (run c sp evs).log = true ∨ hasDispose evs = true)) := by
  haveI : NoSrcFault c := ⟨hsd⟩
  rcases using_subscribePhase (α := α) c hc sp with h | ⟨hf, _⟩
  · have h := using_run_inv c hc evs _ _ h
    simp only [run]
    have hr : c.hasRes = true := by simp [Cfg.hasRes, hres]
    rw [h.cnt, ← h.sad, h.trg, h.ret, hr]
    cases hasTerm (runFrom c (subscribePhase c sp) evs).log <;> cases hasDispose evs <;> simp
  · rw [hf.hdl] at hh; cases hh

/-- **using_released_on_source_terminal.** Syntactic sufficient condition: if the history contains a
terminal notification of the source or a `dispose`, the resource has been disposed exactly once. -/
theorem using_released_on_source_terminal {α} (c : Cfg) (hc : c.oper = .using) (hsd : c.srcDisposeRaises = false) (sp : SyncPhase α)
    (evs : List (Ev α)) (hres : c.resf = .some) (hh : (subscribePhase c sp : St α).d.handle = true)
    (ht : hasSrcTerminal evs = true ∨ hasDispose evs = true) :
    resCount (run c sp evs).log = 1 := by
  haveI : NoSrcFault c := ⟨hsd⟩
  rcases using_subscribePhase (α := α) c hc sp with h | ⟨hf, _⟩
  · have hs := using_run_sad c hc evs _ _ h (Or.inr ht)
    have h := using_run_inv c hc evs _ _ h
    simp only [run]
    have hr : c.hasRes = true := by simp [Cfg.hasRes, hres]
    rw [h.cnt, ← h.sad, hs, hr]; rfl
  · rw [hf.hdl] at hh; cases hh

theorem run_append {α} (c : Cfg) (sp : SyncPhase α) (a b : List (Ev α)) :
    run c sp (a ++ b) = runFrom c (run c sp a) b := by
  simp only [run]
  generalize subscribePhase c sp = s
  induction a generalizing s with
  | nil => rfl
  | cons e es ih => simp [runFrom, ih]

/-- **using_released_at_first_trigger.** "Whichever comes first": if after the prefix `pre` the resource is
still held, and the next event is a `dispose` or a terminal notification of the source, then right after that
event it has been disposed (once), and nothing later changes that. -/
theorem using_released_at_first_trigger {α} (c : Cfg) (hc : c.oper = .using) (hsd : c.srcDisposeRaises = false) (sp : SyncPhase α)
    (pre post : List (Ev α)) (e : Ev α) (hres : c.resf = .some)
    (hh : (subscribePhase c sp : St α).d.handle = true)
    (he : (match e with | .src n => n.isTerminal | .dispose => true) = true) :
    resCount (run c sp (pre ++ [e])).log = 1 ∧ resCount (run c sp (pre ++ e :: post)).log = 1 := by
  haveI : NoSrcFault c := ⟨hsd⟩
  have key : ∀ l : List (Ev α), resCount (run c sp (pre ++ e :: l)).log = 1 := by
    intro l
    apply using_released_on_source_terminal c hc hsd sp _ hres hh
    cases e with
    | src n => left; simp [hasSrcTerminal]; exact Or.inr (Or.inl he)
    | dispose => right; simp [hasDispose]
  exact ⟨key [], key post⟩

/-- The hypothesis `handle = true` of `using_resource_once` is needed: when `source.subscribe` itself raises
(here: the source completes inside `subscribe` and its body then raises) `using_`'s `subscribe` raises
before the `CompositeDisposable` holding the resource exists — the resource is never disposed. -/
theorem using_leaks_when_subscribe_raises :
    let r := run (α := Nat) { oper := .using } { emits := [.completed], exn := some "boom" } [.dispose]
    r.d.handle = false ∧ hasTerm r.log = true ∧ resCount r.log = 0 := by decide

/-! non-vacuity -/
example : (run (α := Nat) { oper := .using } {} [.src (.next 1), .src .completed, .dispose, .src (.next 2)]).log =
    [.act .resf none false, .act .obsf none false, .emit (.next 1) false, .emit .completed false, .srcDispose, .resDispose] := by decide
example : (run (α := Nat) { oper := .using } {} [.src (.next 1), .dispose, .dispose, .src .completed]).log =
    [.act .resf none false, .act .obsf none false, .emit (.next 1) false, .srcDispose, .resDispose] := by decide
example : (run (α := Nat) { oper := .using, obsfRaises := true } { emits := [.error "obsf"], propagate := true } [.dispose]).log =
    [.act .resf none false, .act .obsf none true, .emit (.error "obsf") false, .srcDispose, .resDispose] := by decide
example : (subscribePhase (α := Nat) { oper := .using, subRaises := fun k => k == 1 } { emits := [.next 1, .completed] }).d.handle = true := by decide
example : (run (α := Nat) { oper := .using, resf := .none } {} [.src .completed]).log =
    [.act .resf none false, .act .obsf none false, .emit .completed false, .srcDispose] := by decide


/-! ## finally_action / do_finally -/

/-- **finally_action_exactly_once_after.** `finally_action`: for every history and whichever callbacks raise
(the action itself included), the action is invoked at most once; exactly once iff a terminal notification was
delivered to the subscriber or the history contains a `dispose`, zero times otherwise; and no downstream callback
runs after it (so it runs *after* the terminal callback).  Includes termination inside `subscribe`, the
`except: action(); raise` path, and the fault "`dispose()` of the inner subscription raises"
(`c.srcDisposeRaises` arbitrary: `try: subscription.dispose() finally: action()`). -/
theorem finally_action_exactly_once_after {α} (c : Cfg) (hc : c.oper = .finallyAction) (sp : SyncPhase α)
    (evs : List (Ev α)) :
    actCount .fin (run c sp evs).log ≤ 1 ∧
    (actCount .fin (run c sp evs).log = 1 ↔ (hasTerm (run c sp evs).log = true ∨ hasDispose evs = true)) ∧
    noEmitAfterAct .fin (run c sp evs).log = true := by
  rcases fin_subscribePhase (α := α) c hc sp with h | hf
  · have h := fin_run_inv c hc evs _ _ h
    obtain ⟨cnt, sad, cur, dst, ust, trg, ret, nh, ord⟩ := h
    simp only [run]
    refine ⟨?_, ?_, ord⟩
    · rw [cnt]; cases (runFrom c (subscribePhase c sp) evs).o.rDisposed <;> simp
    · rw [cnt, ← sad, trg, ret]
      cases hh : (runFrom c (subscribePhase c sp) evs).d.handle
      · have := nh hh
        rw [trg, ret, hh] at this
        simp_all
      · cases hasTerm (runFrom c (subscribePhase c sp) evs).log <;> cases hasDispose evs <;> simp
  · simp only [run, frozen_run c _ evs hf.frz, hf.cnt, hf.trm, hf.ord]; simp

/-- **do_finally_exactly_once_after.** `do_finally` (with `fix: do_finally marks its action as invoked before calling
it`), `subscribe` having returned a handle: for every history and whichever callbacks raise — the finally action
itself included — the action is invoked at most once; exactly once iff a terminal notification was delivered to the
subscriber or the history contains a `dispose`, zero times otherwise; and no downstream callback runs after it. -/
theorem do_finally_exactly_once_after {α} (c : Cfg) (hc : c.oper = .doFinally) (hfx : c.doFinallyAsIs = false)
    (hsd : c.srcDisposeRaises = false)
    (sp : SyncPhase α) (evs : List (Ev α)) (hh : (subscribePhase c sp : St α).d.handle = true) :
    actCount .fin (run c sp evs).log ≤ 1 ∧
    (actCount .fin (run c sp evs).log = 1 ↔ (hasTerm (run c sp evs).log = true ∨ hasDispose evs = true)) ∧
    noEmitAfterAct .fin (run c sp evs).log = true := by
  haveI : NoSrcFault c := ⟨hsd⟩
  rcases dofin_subscribePhase (α := α) c hc hfx sp with h | hf
  · have h := dofin_run_inv c hc hfx evs _ _ h
    obtain ⟨cnt, wi, sad, cur, dst, ust, trg, ret, nh, ord⟩ := h
    simp only [run]
    refine ⟨?_, ?_, ord⟩
    · rw [cnt]; cases (runFrom c (subscribePhase c sp) evs).o.wasInvoked <;> simp
    · rw [cnt, wi, ← sad, trg, ret]
      cases hx : (runFrom c (subscribePhase c sp) evs).d.handle
      · have := nh hx
        rw [trg, ret, hx] at this
        simp_all
      · cases hasTerm (runFrom c (subscribePhase c sp) evs).log <;> cases hasDispose evs <;> simp
  · rw [hf.frz.hdl] at hh; cases hh

/-- **do_finally_at_most_once.** `do_finally` (fixed), also when `subscribe` itself raised and whichever callbacks
raise: at most one invocation, after every downstream callback. -/
theorem do_finally_at_most_once {α} (c : Cfg) (hc : c.oper = .doFinally) (hfx : c.doFinallyAsIs = false)
    (hsd : c.srcDisposeRaises = false)
    (sp : SyncPhase α) (evs : List (Ev α)) :
    actCount .fin (run c sp evs).log ≤ 1 ∧ noEmitAfterAct .fin (run c sp evs).log = true := by
  haveI : NoSrcFault c := ⟨hsd⟩
  rcases dofin_subscribePhase (α := α) c hc hfx sp with h | hf
  · have h := dofin_run_inv c hc hfx evs _ _ h
    simp only [run]
    refine ⟨?_, h.ord⟩
    rw [h.cnt]; cases (runFrom c (subscribePhase c sp) evs).o.wasInvoked <;> simp
  · simp only [run, frozen_run c _ evs hf.frz]; exact ⟨hf.cnt, hf.ord⟩

/-- **finally_exactly_once_after** (the DESIGN.md statement, both operators). -/
theorem finally_exactly_once_after {α} (c : Cfg) (sp : SyncPhase α) (evs : List (Ev α))
    (hc : c.oper = .finallyAction ∨
      (c.oper = .doFinally ∧ c.doFinallyAsIs = false ∧ c.srcDisposeRaises = false ∧
        (subscribePhase c sp : St α).d.handle = true)) :
    (actCount .fin (run c sp evs).log = 1 ↔ (hasTerm (run c sp evs).log = true ∨ hasDispose evs = true)) ∧
    (actCount .fin (run c sp evs).log = 0 ↔ ¬ (hasTerm (run c sp evs).log = true ∨ hasDispose evs = true)) ∧
    (∀ pre post e, (run c sp evs).log = pre ++ e :: post → e.isAct .fin = true → ∀ x ∈ post, x.isEmit = false) := by
  have key : actCount .fin (run c sp evs).log ≤ 1 ∧
      (actCount .fin (run c sp evs).log = 1 ↔ (hasTerm (run c sp evs).log = true ∨ hasDispose evs = true)) ∧
      noEmitAfterAct .fin (run c sp evs).log = true := by
    rcases hc with hc | ⟨hc, hfx, hsd, hh⟩
    · exact finally_action_exactly_once_after c hc sp evs
    · exact do_finally_exactly_once_after c hc hfx hsd sp evs hh
  obtain ⟨h1, h2, h3⟩ := key
  refine ⟨h2, ?_, fun pre post e hl he => noEmitAfterAct_spec .fin _ pre post e h3 hl he⟩
  rw [← h2]; omega

/-! ### AsIs: the handler of the pinned tree before the fix -/

/-- The defect repaired by `fix: do_finally marks its action as invoked before calling it`: in the handler as it
was (`Cfg.doFinallyAsIs := true`, `WinFin.finGuardAsIs`) `was_invoked[0] = True` is only reached when the action
returned, so an action that raises on its first invocation (here from the terminal handler, the source having
completed inside `subscribe`) is invoked a second time by the `OnDispose` hook.  Same history, fixed handler: once. -/
theorem do_finally_twice_when_action_raises :
    actCount .fin (run (α := Nat) { oper := .doFinally, doFinallyAsIs := true, actRaises := fun k => k == 0 }
      { emits := [.completed] } []).log = 2 ∧
    actCount .fin (run (α := Nat) { oper := .doFinally, actRaises := fun k => k == 0 }
      { emits := [.completed] } []).log = 1 := by
  decide

/-- Why `do_finally` needs "`subscribe` returned": if the source fails inside `subscribe` and the subscriber's
`on_error` raises, `do_finally`'s `subscribe` raises before its `CompositeDisposable` is returned — the
action never runs although a terminal notification was delivered. -/
theorem do_finally_lost_when_subscribe_raises :
    let r := run (α := Nat) { oper := .doFinally, subRaises := fun k => k == 0 } { exn := some "boom" } [.dispose]
    r.d.handle = false ∧ hasTerm r.log = true ∧ actCount .fin r.log = 0 := by decide

/-! non-vacuity -/
example : (run (α := Nat) { oper := .doFinally } {} [.src (.next 1), .src .completed, .dispose]).log =
    [.emit (.next 1) false, .emit .completed false, .act .fin none false, .srcDispose] := by decide
example : (run (α := Nat) { oper := .doFinally } { emits := [.next 1, .completed] } [.dispose]).log =
    [.emit (.next 1) false, .emit .completed false, .act .fin none false, .srcDispose] := by decide
example : (run (α := Nat) { oper := .finallyAction } {} [.src (.next 1), .dispose, .src .completed, .dispose]).log =
    [.emit (.next 1) false, .srcDispose, .act .fin none false] := by decide
example : (run (α := Nat) { oper := .finallyAction } { emits := [.completed], exn := some "boom" } []).log =
    [.emit .completed false, .act .fin none false, .escape "boom"] := by decide
example : (subscribePhase (α := Nat) { oper := .doFinally } { emits := [.completed] }).d.handle = true := by decide
/-- the inner subscription's `dispose()` raises: the action still runs, the exception reaches the disposer -/
example : (run (α := Nat) { oper := .finallyAction, srcDisposeRaises := true } {} [.src (.next 1), .dispose]).log =
    [.emit (.next 1) false, .srcDispose, .act .fin none false, .escape "srcd"] := by decide
example : (run (α := Nat) { oper := .finallyAction, srcDisposeRaises := true } {} [.src .completed]).log =
    [.emit .completed false, .srcDispose, .act .fin none false, .escape "srcd"] := by decide


/-! ## do_action and the do_* variants -/

/-- **do_transparent_unless_raise.** For every operator of the family (`do_action` with any subset of callbacks,
`do(observer)`, `do_after_next`, `do_on_subscribe`, `do_on_dispose`, `do_on_terminate`, `do_after_terminate`,
and also `do_finally`, `finally_action`, `using` with succeeding factories), if no callback of the operator raises
(`Quiet c`), then for every history the run with the operator and the run of the same history *without* it
(`c.ident`: source → subscriber) agree on everything they have in common, in order: every delivery to the subscriber
with its value and whether the subscriber's callback raised, every disposal of the source subscription, every
exception that escapes to the emitter or to the caller of `subscribe`/`dispose`; and `subscribe` raises in one iff
it raises in the other.  The subscriber's callbacks may raise arbitrarily. -/
theorem do_transparent_unless_raise {α} (c : Cfg) (q : Quiet c) (sp : SyncPhase α) (evs : List (Ev α)) :
    view (run c sp evs).log = view (run c.ident sp evs).log ∧
    delivered (run c sp evs).log = delivered (run c.ident sp evs).log ∧
    (run c sp evs).d = (run c.ident sp evs).d := by
  haveI : NoSrcFault c := ⟨q.sd⟩
  have h := sim_run c q sp evs
  refine ⟨h.v, ?_, h.d⟩
  rw [← delivered_view, h.v, delivered_view]

/-- **do_callbacks_once_in_order.** `do_action` (any subset of callbacks) / `do(observer)`, `do_after_next`,
`do_on_terminate`, `do_after_terminate`, `do_on_subscribe`, no callback raising (`Quiet c`): for every history the
deliveries and callback invocations in the log are exactly, in order, each delivery accompanied by the invocation
of the corresponding callback with the same notification (`expect c`: immediately before the delivery for
`do_action`/`do_on_terminate`, immediately after it for `do_after_next`/`do_after_terminate`, there only if the
subscriber's callback returned) — every callback sees every corresponding notification once, in order, and nothing
else.  `do_on_subscribe`'s action runs exactly once, before everything else. -/
theorem do_callbacks_once_in_order {α} (c : Cfg) (hp : Plain c) (q : Quiet c) (sp : SyncPhase α) (evs : List (Ev α)) :
    cbShape c (run c sp evs).log ∧
    (c.oper = .doOnSubscribe → actCount .subscribe (run c sp evs).log = 1 ∧
      (run c sp evs).log.head? = some (.act .subscribe none false)) := by
  haveI : NoSrcFault c := ⟨q.sd⟩
  obtain ⟨_, shp, cnt, hd⟩ := ok_run c hp q sp evs
  refine ⟨shp, fun hop => ?_⟩
  have hk : kOf c = 1 := by simp [kOf, hop]
  exact ⟨by rw [cnt, hk], hd hk⟩

/-- **do_on_dispose_exactly_once.** `do_on_dispose` with a non-raising action, `subscribe` having returned: the
action runs exactly once iff a terminal notification was delivered or the history contains a `dispose`, zero times
otherwise, after every downstream callback. -/
theorem do_on_dispose_exactly_once {α} (c : Cfg) (hc : c.oper = .doOnDispose) (hnr : ∀ k, c.actRaises k = false)
    (hsd : c.srcDisposeRaises = false)
    (sp : SyncPhase α) (evs : List (Ev α)) (hh : (subscribePhase c sp : St α).d.handle = true) :
    actCount .dispose (run c sp evs).log ≤ 1 ∧
    (actCount .dispose (run c sp evs).log = 1 ↔ (hasTerm (run c sp evs).log = true ∨ hasDispose evs = true)) ∧
    noEmitAfterAct .dispose (run c sp evs).log = true := by
  haveI : NoSrcFault c := ⟨hsd⟩
  rcases dod_subscribePhase (α := α) c hc hnr sp with h | ⟨hf, _⟩
  · have h := dod_run_inv c hc hnr evs _ _ h
    obtain ⟨cnt, sad, cur, dst, ust, trg, hdl, ret, ord⟩ := h
    simp only [run]
    refine ⟨?_, ?_, ord⟩
    · rw [cnt]; cases (runFrom c (subscribePhase c sp) evs).o.rDisposed <;> simp
    · rw [cnt, ← sad, trg, ret]
      cases hasTerm (runFrom c (subscribePhase c sp) evs).log <;> cases hasDispose evs <;> simp
  · rw [hf.hdl] at hh; cases hh

/-- behaviour when a callback *does* raise (`do_action`'s `on_next`): the exception is delivered as `on_error`,
nothing else is delivered afterwards, and the callback keeps being invoked for elements the source pushes before
it is unsubscribed (here: inside `subscribe`). -/
theorem do_action_raise_becomes_error :
    (run (α := Nat) { oper := .doAction, actRaises := fun k => k == 1, actErr := fun _ => "boom" }
      { emits := [.next 1, .next 2, .next 3, .completed] } []).log =
    [.act .next (some (.next 1)) false, .emit (.next 1) false, .act .next (some (.next 2)) true, .emit (.error "boom") false,
     .act .next (some (.next 3)) false, .act .completed none false, .srcDispose] := by decide

/-! non-vacuity: `Quiet` and `Plain` are satisfiable and the runs are non-trivial -/
example : Plain { oper := .doAfterTerminate } := by simp [Plain]
example : (run (α := Nat) { oper := .doAfterTerminate } {} [.src (.next 1), .src .completed]).log =
    [.emit (.next 1) false, .emit .completed false, .srcDispose, .act .afterTerminate none false] := by decide
example : (run (α := Nat) { oper := .doOnDispose } {} [.src (.next 1), .dispose, .src .completed]).log =
    [.emit (.next 1) false, .act .dispose none false, .srcDispose] := by decide
example : Quiet { oper := .doAction } := ⟨fun _ => rfl, fun h => (by cases h), fun h => (by cases h), rfl⟩
example : (run (α := Nat) { oper := .doAction, subRaises := fun k => k == 1 } { emits := [.next 1] }
      [.src (.next 2), .src (.next 3), .dispose, .src (.next 4)]).log =
    [.act .next (some (.next 1)) false, .emit (.next 1) false, .act .next (some (.next 2)) false, .emit (.next 2) true,
     .escape "cb", .act .next (some (.next 3)) false, .emit (.next 3) false, .srcDispose] := by decide
example : view (run (α := Nat) ({ oper := .doAction, subRaises := fun k => k == 1 } : Cfg).ident { emits := [.next 1] }
      [.src (.next 2), .src (.next 3), .dispose, .src (.next 4)]).log =
    [.emit (.next 1) false, .emit (.next 2) true, .escape "cb", .emit (.next 3) false, .srcDispose] := by decide

end C40

import RxProofs.Lemmas.PureBridges
/-!
# C41 — future, callback and blocking bridges keep their contracts

Property theorems only.  The models (`RxModel/PureBridges.lean`) are the callback logic of the
bridges over ARBITRARY histories of the external events; threads and event loops are runtime glue
covered by the correspondence harness.
-/
open Pure.Bridges

namespace C41

/-- **from_future_maps_outcome.** A pending future that is resolved before the subscriber unsubscribes:
its result is emitted and the sequence completes; its exception — cancellation included — arrives as
`on_error`; whatever happens afterwards (more resolutions, dispose) changes nothing. -/
theorem from_future_maps_outcome {α} (o : FromFuture.Outcome α) (rest : List (FromFuture.Event α)) :
    (FromFuture.run .pending (.resolve o :: rest)).out =
      (match o with
       | .result v => [.next v, .completed]
       | .exception e => [.error e]
       | .cancel => [.error cancelledError]) ∧
    (FromFuture.run .pending (.resolve o :: rest)).fut = o.fut := by
  have := FromFuture.resolve_first o rest
  cases o <;> exact this

/-- **from_future_unsubscribe_first_cancels.** Unsubscribing while the future is pending cancels the
future and the subscriber receives nothing, whatever the owner does later. -/
theorem from_future_unsubscribe_first_cancels {α} (rest : List (FromFuture.Event α)) :
    (FromFuture.run (α := α) .pending (.dispose :: rest)).out = [] ∧
    (FromFuture.run (α := α) .pending (.dispose :: rest)).fut = .cancelled :=
  FromFuture.dispose_first rest

/-- **from_future_done_before_subscribe.** A future that is already done at subscription time delivers
its outcome the same way, for every later history. -/
theorem from_future_done_before_subscribe {α} (f : Fut α) (h : f.isDone = true) (evs : List (FromFuture.Event α)) :
    (FromFuture.run f evs).out = FromFuture.doneNotifs f ∧ (FromFuture.run f evs).fut = f :=
  FromFuture.done_before f h evs

/-- **start_async_raise_is_throw.** `start_async(fn)`: `fn` raising gives the error sequence; otherwise it is
`from_future` of the returned future. -/
theorem start_async_raise_is_throw {α} (e : Err) (f : Fut α) (evs : List (FromFuture.Event α)) :
    FromFuture.startAsync (α := α) (.error e) evs = [.error e] ∧
    FromFuture.startAsync (.ok f) evs = (FromFuture.run f evs).out := ⟨rfl, rfl⟩

/-- **to_future_last_or_error.** For EVERY raw call sequence of the source (also calls after its
terminal), the future ends up with: the last element before the first terminal if that terminal is
a completion, the error if it is an error, `SequenceContainsNoElementsError` if the completion comes
before any element; and stays pending while there is no terminal. -/
theorem to_future_last_or_error {α} (xs : List (Notif α)) :
    (ToFuture.run (xs.map .src)).fut = ToFuture.expected xs :=
  ToFuture.run_eq_expected xs

/-- **empty_raises_no_elements.** An empty sequence: `to_future`/`await` fail with
SequenceContainsNoElementsError, and so does `run()`. -/
theorem empty_raises_no_elements {α} (rest : List (Notif α)) :
    (ToFuture.run ((Notif.completed :: rest).map .src)).fut = .exception noElements ∧
    ToFuture.runBlocking (Notif.completed :: rest) = .raises noElements := by
  constructor
  · rw [to_future_last_or_error]; rfl
  · have := ToFuture.runBlocking_aux (α := α) none (Notif.completed :: rest)
    simp only [Option.isSome_none] at this
    exact this

/-- **to_future_cancel_is_final.** Cancelling the pending future disposes the source subscription: the
future stays cancelled whatever the source emits afterwards. -/
theorem to_future_cancel_is_final {α} (s : ToFuture.State α) (hp : s.fut = .pending) (post : List (ToFuture.Event α)) :
    (post.foldl ToFuture.step (ToFuture.step s .cancel)).fut = .cancelled := by
  have h : ToFuture.step s .cancel = { s with fut := .cancelled, stopped := true } := by
    simp [ToFuture.step, hp]
  rw [h, ToFuture.frozen _ rfl rfl]

/-- **to_future_done_disposes_source.** In every history, as soon as the future is done (result, error or
cancellation) the subscription to the source has been disposed. -/
theorem to_future_done_disposes_source {α} (evs : List (ToFuture.Event α)) :
    (ToFuture.run evs).fut.isDone = true → (ToFuture.run evs).stopped = true := by
  suffices h : ∀ (s : ToFuture.State α), (s.fut.isDone = true → s.stopped = true) →
      ((evs.foldl ToFuture.step s).fut.isDone = true → (evs.foldl ToFuture.step s).stopped = true) from
    h {} (by intro h; cases h)
  induction evs with
  | nil => intro s hs; exact hs
  | cons e r ih =>
    intro s hs
    simp only [List.foldl_cons]
    apply ih
    obtain ⟨hv, last, fut, stopped⟩ := s
    cases e with
    | src n =>
      cases stopped with
      | true => simp [ToFuture.step]
      | false => cases n <;> simp_all [ToFuture.step]
    | cancel => cases fut <;> simp_all [ToFuture.step, Fut.isDone]

/-- **run_eq_to_future.** `run()` returns / raises exactly what the future of `to_future` holds, and
blocks exactly when that future stays pending. -/
theorem run_eq_to_future {α} (xs : List (Notif α)) :
    ToFuture.runBlocking xs =
      (match (ToFuture.run (xs.map .src)).fut with
       | .result v => .returns v
       | .exception e => .raises e
       | _ => .blocks) := by
  have h1 := ToFuture.runBlocking_aux (α := α) none xs
  have h2 := ToFuture.run_aux (α := α) none xs
  simp only [Option.isSome_none] at h1 h2
  simp only [ToFuture.runBlocking, ToFuture.run]
  rw [h2]
  exact h1

/-- **run_latch_all_interleavings.** `run()` with the source emitting from another thread: for EVERY
interleaving of the producer thread's atomic steps (writes of `result`, `has_result`, `exception`,
`done`, `latch.set()` in program order) with the waiting thread's (`while not done: latch.wait()`,
then the three reads), whenever `run()` returns or raises it returns the last element before the
first terminal, raises the sequence's error, or raises SequenceContainsNoElementsError — exactly
the sequential reading `runBlocking` (hence, by `run_eq_to_future`, what `to_future` holds) —
and it can only finish if the sequence has a terminal. -/
theorem run_latch_all_interleavings {α} (xs : List (Notif α)) (sched : List Bool) (r : ToFuture.RunResult α)
    (h : (RunLatch.run xs sched).w = .finished r) :
    r = ToFuture.runBlocking xs ∧ ToFuture.runBlocking xs ≠ .blocks :=
  ⟨RunLatch.finished_correct xs sched r h, RunLatch.finished_not_blocks xs sched r h⟩

/-- **run_latch_no_lost_wakeup.** Whatever the interleaving so far: once the producer thread has
delivered a terminating sequence completely, the waiting thread is never stuck in `latch.wait()` —
five more of its own steps and `run()` has returned or raised. -/
theorem run_latch_no_lost_wakeup {α} (xs : List (Notif α)) (sched : List Bool)
    (ht : xs.any Notif.isTerminal = true) (hrem : (RunLatch.run xs sched).rem = []) :
    ∃ r, (RunLatch.wstep (RunLatch.wstep (RunLatch.wstep (RunLatch.wstep (RunLatch.wstep
      (RunLatch.run xs sched)))))).w = .finished r := by
  obtain ⟨⟨pre, hc, hs⟩, _⟩ := RunLatch.inv_run xs sched
  rw [hrem, List.append_nil] at hc
  have := RunLatch.final_done_latch xs ({} : RunLatch.Shared α) ht
  rw [hc, ← hs] at this
  exact RunLatch.waiter_finishes _ this.1 this.2

/-- **to_async_single_then_complete.** For every history of the scheduler running the action and of
observers subscribing (before or after it, any number, the same observer several times): each
subscription of observer `i` receives exactly the function's single result then completion — or
its exception — once the action has run, and nothing before. -/
theorem to_async_single_then_complete {α} (func : Except Err α) (evs : List ToAsync.Event) (i : Nat) :
    ToAsync.received (ToAsync.run func evs) i =
      (if ToAsync.Event.run ∈ evs then
        (List.replicate (evs.count (.subscribe i))
          (match func with | .ok r => [Notif.next r, .completed] | .error e => [.error e])).flatten
       else []) := by
  have := (ToAsync.before_done func {} ⟨rfl, rfl, rfl⟩ evs i).1
  simp only [ToAsync.received_eq, ToAsync.run]
  rw [this]
  simp only [ToAsync.recvOf, List.filterMap_nil, List.nil_append, List.count_nil, Nat.zero_add, ToAsync.reps,
    ToAsync.resultNotifs]
  cases func <;> rfl

/-- **to_async_invoked_once.** The function is invoked exactly once per call of the wrapper, when the
scheduler runs the action — never per subscriber. -/
theorem to_async_invoked_once {α} (func : Except Err α) (evs : List ToAsync.Event) :
    (ToAsync.run func evs).invocations = (if ToAsync.Event.run ∈ evs then 1 else 0) :=
  (ToAsync.before_done func {} ⟨rfl, rfl, rfl⟩ evs 0).2

/-- **from_callback_one_then_complete.** (repaired code) However often and with whatever arguments the
user function invokes the handler, the subscriber gets exactly the first invocation's single value
(the mapper's result; the argument; the list of arguments; None for none) followed by completion,
or the mapper's exception as `on_error`. -/
theorem from_callback_one_then_complete {α} (cfg : FromCallback.Cfg α) (c : List α) (cs : List (List α)) :
    FromCallback.subscribeRun cfg false (c :: cs) = FromCallback.handler cfg c ∧
    ((∃ v, FromCallback.handler cfg c = [.next v, .completed]) ∨ (∃ e, FromCallback.handler cfg c = [.error e])) :=
  ⟨FromCallback.subscribeRun_first cfg c cs, FromCallback.handler_shape cfg c⟩

/-- which value: without a mapper -/
theorem from_callback_value_no_mapper {α} (cfg : FromCallback.Cfg α) (h : cfg.mapper = none) (x y : α) (r : List α) :
    FromCallback.handler cfg [x] = [.next x, .completed] ∧
    FromCallback.handler cfg (x :: y :: r) = [.next (cfg.listOf (x :: y :: r)), .completed] ∧
    FromCallback.handler cfg [] = [.next cfg.none, .completed] := by
  simp [FromCallback.handler, h]

/-- **from_callback_passes_own_handler.** Every subscription calls the function with exactly the
original arguments followed by its own handler. -/
theorem from_callback_passes_own_handler {α} (args : List α) (k : Nat) :
    FromCallback.passed args k = args.map .val ++ [.handler k] ∧
    (FromCallback.passed args k).length = args.length + 1 := by
  simp [FromCallback.passed]

/-! ## AS-IS section: the defects of the pinned tree (DEFECTS, not part of the claimed behaviour) -/

def cfgMap : FromCallback.Cfg Nat := { mapper := some (fun xs => .ok xs.length), listOf := fun xs => xs.length, none := 0 }
def cfgNoMap : FromCallback.Cfg Nat := { mapper := none, listOf := fun xs => xs.length, none := 0 }

/-- with a mapper the as-is handler never completes -/
theorem from_callback_asis_mapper_never_completes :
    FromCallback.handlerAsIs cfgMap [7, 8] = some [.next 2] ∧
    FromCallback.handler cfgMap [7, 8] = [.next 2, .completed] := by decide

/-- the second subscription passes two handlers (the captured argument list was mutated) -/
theorem from_callback_asis_second_subscription_two_handlers :
    FromCallback.passedAsIs [5] 1 = [.val 5, .handler 0, .handler 1] ∧
    FromCallback.passed [5] 1 = [.val 5, .handler 1] := by decide

/-- a callback invoked without arguments (no mapper): `observer.on_next(*[])` raises TypeError -/
theorem from_callback_asis_no_args_raises :
    FromCallback.handlerAsIs cfgNoMap [] = none ∧
    FromCallback.handler cfgNoMap [] = [.next 0, .completed] := by decide

/-! ## non-vacuity -/
example : (FromFuture.run (Fut.pending : Fut Nat) [.resolve (.result 3), .dispose, .resolve (.exception "late")]).out
    = [.next 3, .completed] := by decide
example : (FromFuture.run (Fut.pending : Fut Nat) [.dispose, .resolve (.result 3)]).invalid = 1 := by decide
example : (ToFuture.run ([Notif.next 1, .next 2, .completed, .next 9, .error "late"].map ToFuture.Event.src)).fut
    = Fut.result 2 := by decide
example : ToFuture.expected [Notif.next 1, .next 2, .completed, .next 9] = Fut.result 2 := by decide
example : ToFuture.runBlocking [Notif.next (1 : Nat), .next 2] = .blocks := by decide
/-- an interleaving in which the waiter first blocks, the producer then completes, the waiter wakes up -/
example : (RunLatch.run [Notif.next (1 : Nat), .next 2, .completed]
    [false, false, true, true, false, true, true, true, true, false, false, false, false, false]).w
    = .finished (.returns 2) := by decide
example : ToAsync.received (ToAsync.run (.ok 5 : Except Err Nat) [.subscribe 0, .run, .subscribe 1]) 1
    = [.next 5, .completed] := by decide
example : FromCallback.subscribeRun cfgMap false [[1, 2, 3], [4]] = [.next 3, .completed] := by decide

end C41

import RxProofs.Lemmas.Thr2Aio
/-!
# C33 — cancelling an asyncio-scheduled action is effective from any thread

Property theorems only (model: `RxModel/Thr2Aio.lean`, soundness of the reachable-set argument:
`RxProofs/Lemmas/Thr2Aio.lean`).  Every theorem quantifies over ALL schedules: any list of actions
(loop-thread step / user-thread step / the clock reaching the due time / the loop being started or
stopped / the loop moving a due timer to its ready queue), of
any length; an action that is not enabled is skipped.  The state space of one scheduled action is
finite, so the invariant is established by computing the reachable set and checking (by `decide`, in
the kernel) that it is closed under every action and contains only safe states.

"Starts" means: the loop pops the `interval` handle and reads `_cancelled = False` (DESIGN.md §8).
-/

namespace C33
open Thr2Aio

/-- **runs_on_loop_not_early.** Whatever the scheduler flavour, the kind of schedule, the disposing mode
and the schedule: the action is started only by a step of the loop thread, and a relative action is
never started before the loop clock has reached its due time. -/
theorem runs_on_loop_not_early (c : Cfg) (hc : c.test = .fixed) (sch : List Nat) :
    (run c (init c) sch).early = false ∧
    (∀ (s : St) (a : Nat) (t : St), step c s a = some t → t.started ≠ s.started → a = 0) := by
  refine ⟨?_, ?_⟩
  · have h := fixed_safe c hc sch
    simp only [safe, Bool.and_eq_true, Bool.not_eq_true'] at h
    exact h.2
  · intro s a t hs hne
    match a with
    | 0 => rfl
    | 1 =>
      exfalso; apply hne
      simp only [step, stepL, Option.map_eq_some_iff] at hs
      obtain ⟨⟨t', l⟩, h1, h2⟩ := hs
      simp only at h2; subst h2
      exact userStep_started c s t' l h1
    | 2 =>
      exfalso; apply hne
      simp only [step, stepL, Option.map_eq_some_iff] at hs
      obtain ⟨⟨t', l⟩, h1, h2⟩ := hs
      simp only at h2; subst h2
      split at h1 <;> cases h1; rfl
    | 3 =>
      exfalso; apply hne
      simp only [step, stepL, Option.map_eq_some_iff] at hs
      obtain ⟨⟨t', l⟩, h1, h2⟩ := hs
      simp only at h2; subst h2
      split at h1 <;> cases h1; rfl
    | 4 =>
      exfalso; apply hne
      simp only [step, stepL, Option.map_eq_some_iff] at hs
      obtain ⟨⟨t', l⟩, h1, h2⟩ := hs
      simp only at h2; subst h2
      exact collectStep_started c s t' l h1
    | 5 =>
      exfalso; apply hne
      simp only [step, stepL, Option.map_eq_some_iff] at hs
      obtain ⟨⟨t', l⟩, h1, h2⟩ := hs
      simp only at h2; subst h2
      split at h1 <;> cases h1; rfl
    | a + 6 => simp [step, stepL] at hs

theorem late_false (c : Cfg) (hc : c.test = .fixed) (sch : List Nat) : (run c (init c) sch).late = false := by
  have h := fixed_safe c hc sch
  simp only [safe, Bool.and_eq_true, Bool.not_eq_true'] at h
  exact h.1

/-- **disposed_then_never_starts (on the loop thread).** `dispose()` called from a callback running on the
loop thread — either scheduler, immediate or relative, however the action was scheduled (on the loop, from
another thread, before the loop started): once it has returned the action never starts (`late` is set
exactly when the action starts while `returned` holds). -/
theorem disposed_then_never_starts_on_loop (fl : Flavour) (kind : Kind) (sm : SMode) (sch : List Nat) :
    (run ⟨fl, kind, sm, .onLoop, .fixed⟩ (init ⟨fl, kind, sm, .onLoop, .fixed⟩) sch).late = false :=
  late_false _ rfl sch

/-- **disposed_then_never_starts (another thread, loop running, thread-safe scheduler).** With the
cancellation marshalled onto the loop and awaited (the repaired `_on_self_loop_or_not_running`, evaluated
at dispose time), whatever the interleaving of the disposing thread with the loop thread — in particular
inside the two-stage registration of a relative schedule — and wherever the action was scheduled: once
`dispose()` has returned the action never starts. -/
theorem disposed_then_never_starts_foreign (kind : Kind) (sm : SMode) (sch : List Nat) :
    (run ⟨.ts, kind, sm, .foreign, .fixed⟩ (init ⟨.ts, kind, sm, .foreign, .fixed⟩) sch).late = false :=
  late_false _ rfl sch

/-- **disposed_then_never_starts (loop not running).** The loop is not running when `dispose()` is called —
never started, or stopped after having run for a while (so that stage2 may or may not have registered the
timer) — and is not (re)started before it has returned (the only schedules the model admits in this mode):
the action never starts, either scheduler, immediate or relative. -/
theorem disposed_then_never_starts_not_running (fl : Flavour) (kind : Kind) (sm : SMode) (sch : List Nat) :
    (run ⟨fl, kind, sm, .notRunning, .fixed⟩ (init ⟨fl, kind, sm, .notRunning, .fixed⟩) sch).late = false :=
  late_false _ rfl sch

/-- `late` means what it says: starting the action (`start`, used by the loop when it pops an uncancelled
`interval` handle) while `returned` holds sets it. -/
theorem start_after_return_is_late (c : Cfg) (s : St) :
    (start c s).started = true ∧ (s.returned = true → (start c s).late = true) := by
  simp only [start, Bool.or_eq_true, true_and]
  intro h; exact Or.inr h

/-- **foreign_direct_cancel_leaks.** The pinned tree answers "cancel directly" on a foreign thread while the
loop runs (`except RuntimeError: return True`).  Then: the loop has popped `stage2` (1 step), the foreign
thread disposes (pops the only handle, finds the list empty, returns), `stage2` registers the timer, the
clock reaches the due time, the loop runs the action — after `dispose()` returned. -/
theorem foreign_direct_cancel_leaks :
    (run ⟨.ts, .rel, .foreign, .foreign, .asIs⟩ (init ⟨.ts, .rel, .foreign, .foreign, .asIs⟩)
      [1, 1, 0, 1, 1, 1, 0, 0, 2, 4, 0]).late = true := by decide

/-! Non-vacuity: the action does run when nobody disposes it in time, and a timely dispose prevents it. -/
example : (run ⟨.ts, .rel, .foreign, .foreign, .fixed⟩ (init ⟨.ts, .rel, .foreign, .foreign, .fixed⟩) [1, 1, 0, 0, 0, 2, 4, 0]).started = true := by
  decide
example : (run ⟨.ts, .rel, .foreign, .foreign, .fixed⟩ (init ⟨.ts, .rel, .foreign, .foreign, .fixed⟩)
    [1, 1, 0, 1, 1, 0, 0, 0, 1, 2, 4, 0, 0]).returned = true ∧
    (run ⟨.ts, .rel, .foreign, .foreign, .fixed⟩ (init ⟨.ts, .rel, .foreign, .foreign, .fixed⟩)
    [1, 1, 0, 1, 1, 0, 0, 0, 1, 2, 4, 0, 0]).started = false := by decide
example : (run ⟨.plain, .soon, .pre, .notRunning, .fixed⟩ (init ⟨.plain, .soon, .pre, .notRunning, .fixed⟩) [1, 1, 3, 0]).started = false ∧
    (run ⟨.plain, .soon, .pre, .notRunning, .fixed⟩ (init ⟨.plain, .soon, .pre, .notRunning, .fixed⟩) [1, 1, 3, 0]).returned = true := by
  decide

-- stop / restart: scheduled from another thread, the loop turns once (stage2 registers the timer) and is
-- stopped; dispose while stopped cancels both handles; after the restart the due timer is skipped
example : (run ⟨.ts, .rel, .foreign, .notRunning, .fixed⟩ (init ⟨.ts, .rel, .foreign, .notRunning, .fixed⟩)
    [1, 1, 0, 0, 0, 5, 1, 1, 1, 1, 3, 2, 4, 0]).returned = true ∧
    (run ⟨.ts, .rel, .foreign, .notRunning, .fixed⟩ (init ⟨.ts, .rel, .foreign, .notRunning, .fixed⟩)
    [1, 1, 0, 0, 0, 5, 1, 1, 1, 1, 3, 2, 4, 0]).started = false ∧
    (run ⟨.ts, .rel, .foreign, .notRunning, .fixed⟩ (init ⟨.ts, .rel, .foreign, .notRunning, .fixed⟩)
    [1, 1, 0, 0, 0, 5, 1, 1, 1, 1, 3, 2, 4, 0]).c2 = true := by decide

end C33

import RxModel.StructCaptures
import RxModel.StructOps
import RxGen.Captures
import RxProofs.Lemmas.StructFrame
/-!
# C04 — cold observables can be subscribed again with identical results

* `captures_cold_ok` — kernel `decide` over the capture table regenerated from `/repo/reactivex` on
  this run: no mutable object created above the subscription level is mutated/consumed at or below it,
  nor escapes into an observable/operator constructor (multicasting files excluded as the property
  says; explicit, justified allow-list in `Struct.Captures.coldAllow`, none of it stale).
* `resubscribe_same` — the frame theorem: if the built-time state `Σ` is never written, then under
  any interleaving of any number of subscriptions (sequential or overlapping) every subscription
  emits exactly what a single subscription alone emits from its own events (which are relative to its
  subscription instant); hence any two subscriptions that see the same relative events emit the same.
* `opdef_resubscribe_same` — instantiated for the catalogue of operators with per-subscription
  state (`take`, `skip`, `scan`, `map_indexed`, `zip_with_iterable`, `distinct_until_changed`,
  `take_while`, `pairwise`), whose models are run against the real operators by the correspondence.
* `zip_asis_not_resubscribable` — the witness that the hypothesis is needed: `zip_with_iterable`
  as it was before the fix (iterator in `Σ`) gives the second subscriber different elements.
-/

namespace C04
open Struct.Captures Struct.Frame Struct.Ops

/-- **captures_cold_ok.** -/
theorem captures_cold_ok :
    (RxGen.Captures.table.all coldOk && (staleAllow RxGen.Captures.table coldAllow coldBad).isEmpty) = true := by
  decide +kernel

/-- **resubscribe_same.** `s` is an observable: shared built-time state `G`, per-subscription state
`L`; `acts` is any global schedule of subscriptions (`create i`) and per-subscription events. -/
theorem resubscribe_same {G L A O : Type} (s : Sys G L A O) (h : Framed s) (g : G)
    (acts : List (Act A)) (i : Nat) :
    outputsOf i (runG s g [] acts) = runI s g none (restrict i acts) :=
  frame_local s h i acts g []

/-- two subscriptions — of one run or of two different runs (sequential, overlapping, with any
other subscribers in between) — that receive the same events relative to their subscription emit
the same notifications -/
theorem resubscribe_same_pair {G L A O : Type} (s : Sys G L A O) (h : Framed s) (g : G)
    (acts acts' : List (Act A)) (i j : Nat) (hv : restrict i acts = restrict j acts') :
    outputsOf i (runG s g [] acts) = outputsOf j (runG s g [] acts') :=
  frame_same s h i j acts acts' g hv

/-- every `OpDef` (state allocated in `subscribe`, parameters only read) satisfies the frame condition -/
theorem opdef_framed {P σ α β : Type} (d : OpDef P σ α β) : Framed d.sys := by
  refine ⟨fun g => rfl, fun g l a => ?_⟩
  simp only [OpDef.sys]
  split
  · rfl
  · cases a <;> rfl

theorem opdef_resubscribe_same {P σ α β : Type} (d : OpDef P σ α β) (p : P)
    (acts : List (Act (Notif α))) (i : Nat) :
    outputsOf i (runG d.sys p [] acts) = runI d.sys p none (restrict i acts) :=
  resubscribe_same d.sys (opdef_framed d) p acts i

/-! Non-vacuity of the hypotheses, and necessity of the frame condition. -/

/-- two overlapping subscriptions to `zip_with_iterable([10,20,30])` (fixed): both start at 10 -/
example :
    runG (zipIter (α := Nat) (γ := Nat)).sys [10, 20, 30] []
      [.create 0, .act 0 (.next 1), .create 1, .act 1 (.next 1), .act 0 (.next 2), .act 1 (.next 2)]
    = [(0, .next (1, 10)), (1, .next (1, 10)), (0, .next (2, 20)), (1, .next (2, 20))] := by decide

/-- **zip_asis_not_resubscribable.** Before the fix the second subscriber continues where the
first one stopped (replayed on the real code by the oracle: `of(1,2).zip_with_iterable([10,20,30,40])`
subscribed twice gives `(1,10),(2,20)` then `(1,30),(2,40)`). -/
theorem zip_asis_not_resubscribable :
    let acts : List (Act (Notif Nat)) :=
      [.create 0, .act 0 (.next 1), .act 0 (.next 2), .act 0 .completed,
       .create 1, .act 1 (.next 1), .act 1 (.next 2), .act 1 .completed]
    restrict 0 acts = restrict 1 acts ∧
    outputsOf 0 (runG (zipIterAsIs (α := Nat) (γ := Nat)) [10, 20, 30, 40] [] acts) = [.next (1, 10), .next (2, 20), .completed] ∧
    outputsOf 1 (runG (zipIterAsIs (α := Nat) (γ := Nat)) [10, 20, 30, 40] [] acts) = [.next (1, 30), .next (2, 40), .completed] := by
  decide

/-- the as-is model indeed violates the frame condition -/
theorem zip_asis_not_framed : ¬ Framed (zipIterAsIs (α := Nat) (γ := Nat)) := by
  intro h
  have := h.2 [1] false (.next 0)
  simp [zipIterAsIs] at this

/-! The row check is not vacuous: it rejects the shapes it is meant to reject. -/
example : coldOk ⟨"operators/_x.py", "x_", "x_", "it", .oneshot, 1, some 3, false, true⟩ = false := by decide
example : coldOk ⟨"operators/_x.py", "x_", "x_", "it", .oneshot, 0, none, true, true⟩ = false := by decide
example : coldOk ⟨"operators/_x.py", "x_", "x_/subscribe", "it", .oneshot, 2, some 3, false, true⟩ = true := by decide
example : coldOk ⟨"operators/_x.py", "x_", "x_", "n", .cell, 1, some 1, false, true⟩ = true := by decide

end C04

import RxModel.StructCaptures
import RxModel.StructOps
import RxGen.Captures
import RxProofs.Lemmas.StructFrame
import RxProofs.Lemmas.StructCatalogue
/-!
# C04 — cold observables can be subscribed again with identical results

* `captures_cold_ok` — kernel `decide` over the capture table regenerated from `/repo/reactivex` on
  this run: no mutable object created above the subscription level is mutated/consumed at or below it,
  nor escapes into an observable/operator constructor (multicasting files excluded as the property
  says; explicit, justified allow-list in `Struct.Captures.coldAllow`, none of it stale).
* `resubscribe_same` — the frame theorem: if the built-time state `Σ` is never written, then under
  any interleaving of any number of subscriptions (sequential or overlapping) every subscription
  emits exactly what a single subscription alone emits from its own events (which are relative to its
  subscription instant); hence any two subscriptions that see the same relative events emit the same.
* `opdef_resubscribe_same` — instantiated for the catalogue of operators with per-subscription
  state (`take`, `skip`, `scan`, `map_indexed`, `zip_with_iterable`, `distinct_until_changed`,
  `take_while`, `pairwise`), whose models are run against the real operators by the correspondence.
* `zip_asis_not_resubscribable` — the witness that the hypothesis is needed: `zip_with_iterable`
  as it was before the fix (iterator in `Σ`) gives the second subscriber different elements.
-/

namespace C04
open Struct.Captures Struct.Frame Struct.Ops

/-- **captures_cold_ok.** -/
theorem captures_cold_ok :
    (RxGen.Captures.table.all coldOk && (staleAllow RxGen.Captures.table coldAllow coldBad).isEmpty) = true := by
  decide +kernel

/-- **resubscribe_same.** `s` is an observable: shared built-time state `G`, per-subscription state
`L`; `acts` is any global schedule of subscriptions (`create i`) and per-subscription events. -/
theorem resubscribe_same {G L A O : Type} (s : Sys G L A O) (h : Framed s) (g : G)
    (acts : List (Act A)) (i : Nat) :
    outputsOf i (runG s g [] acts) = runI s g none (restrict i acts) :=
  frame_local s h i acts g []

/-- two subscriptions — of one run or of two different runs (sequential, overlapping, with any
other subscribers in between) — that receive the same events relative to their subscription emit
the same notifications -/
theorem resubscribe_same_pair {G L A O : Type} (s : Sys G L A O) (h : Framed s) (g : G)
    (acts acts' : List (Act A)) (i j : Nat) (hv : restrict i acts = restrict j acts') :
    outputsOf i (runG s g [] acts) = outputsOf j (runG s g [] acts') :=
  frame_same s h i j acts acts' g hv

/-- every `OpDef` (state allocated in `subscribe`, parameters only read) satisfies the frame condition -/
theorem opdef_framed {P σ α β : Type} (d : OpDef P σ α β) : Framed d.sys := by
  refine ⟨fun g => rfl, fun g l a => ?_⟩
  simp only [OpDef.sys]
  split
  · rfl
  · cases a <;> rfl

theorem opdef_resubscribe_same {P σ α β : Type} (d : OpDef P σ α β) (p : P)
    (acts : List (Act (Notif α))) (i : Nat) :
    outputsOf i (runG d.sys p [] acts) = runI d.sys p none (restrict i acts) :=
  resubscribe_same d.sys (opdef_framed d) p acts i

/-! Non-vacuity of the hypotheses, and necessity of the frame condition. -/

/-- two overlapping subscriptions to `zip_with_iterable([10,20,30])` (fixed): both start at 10 -/
example :
    runG (zipIter (α := Nat) (γ := Nat)).sys [10, 20, 30] []
      [.create 0, .act 0 (.next 1), .create 1, .act 1 (.next 1), .act 0 (.next 2), .act 1 (.next 2)]
    = [(0, .next (1, 10)), (1, .next (1, 10)), (0, .next (2, 20)), (1, .next (2, 20))] := by decide

/-- **zip_asis_not_resubscribable.** Before the fix the second subscriber continues where the
first one stopped (replayed on the real code by the oracle: `of(1,2).zip_with_iterable([10,20,30,40])`
subscribed twice gives `(1,10),(2,20)` then `(1,30),(2,40)`). -/
theorem zip_asis_not_resubscribable :
    let acts : List (Act (Notif Nat)) :=
      [.create 0, .act 0 (.next 1), .act 0 (.next 2), .act 0 .completed,
       .create 1, .act 1 (.next 1), .act 1 (.next 2), .act 1 .completed]
    restrict 0 acts = restrict 1 acts ∧
    outputsOf 0 (runG (zipIterAsIs (α := Nat) (γ := Nat)) [10, 20, 30, 40] [] acts) = [.next (1, 10), .next (2, 20), .completed] ∧
    outputsOf 1 (runG (zipIterAsIs (α := Nat) (γ := Nat)) [10, 20, 30, 40] [] acts) = [.next (1, 30), .next (2, 40), .completed] := by
  decide

/-- the as-is model indeed violates the frame condition -/
theorem zip_asis_not_framed : ¬ Framed (zipIterAsIs (α := Nat) (γ := Nat)) := by
  intro h
  have := h.2 [1] false (.next 0)
  simp [zipIterAsIs] at this

/-! ### Per-subscription budgets -/

theorem retry_framed {α} : Framed (retry (α := α)) := by
  refine ⟨fun _ => rfl, fun g l a => ?_⟩
  simp only [retry]
  split
  · rfl
  · cases a with
    | next v => rfl
    | completed => rfl
    | error e => cases hl : l.left with
      | none => simp
      | some k => cases k <;> simp

theorem repeat_framed {α} : Framed (repeat_ (α := α)) := by
  refine ⟨fun _ => rfl, fun g l a => ?_⟩
  simp only [repeat_]
  split
  · rfl
  · cases a with
    | next v => rfl
    | error e => rfl
    | completed => cases hl : l.left with
      | none => simp
      | some k => cases k <;> simp

theorem retry_step_done {α} (n : Option Nat) (l : Option Nat) (x : Notif α) :
    (retry (α := α)).step n ⟨l, true⟩ x = (n, ⟨l, true⟩, []) := rfl
theorem retry_step_next {α} (n : Option Nat) (l : Option Nat) (v : α) :
    (retry (α := α)).step n ⟨l, false⟩ (.next v) = (n, ⟨l, false⟩, [.emit (.next v)]) := rfl
theorem retry_step_completed {α} (n : Option Nat) (l : Option Nat) :
    (retry (α := α)).step n ⟨l, false⟩ .completed = (n, ⟨l, true⟩, [.emit .completed]) := rfl
theorem retry_step_error_last {α} (n : Option Nat) (e : Err) :
    (retry (α := α)).step n ⟨some 0, false⟩ (.error e) = (n, ⟨some 0, true⟩, [.emit (.error e)]) := rfl
theorem retry_step_error_more {α} (n : Option Nat) (k : Nat) (e : Err) :
    (retry (α := α)).step n ⟨some (k + 1), false⟩ (.error e) = (n, ⟨some k, false⟩, [.resubscribe]) := rfl

/-- one subscription alone, with `k` further attempts available, resubscribes at most `k` times -/
theorem retry_budget_local {α} (n : Option Nat) : ∀ (evs : List (Option (Notif α))) (k : Nat) (d : Bool),
    (∀ e ∈ evs, e.isSome) →
    countResub (runI (retry (α := α)) n (some ⟨some k, d⟩) evs) ≤ k := by
  intro evs
  induction evs with
  | nil => intro k d _; simp [runI, countResub]
  | cons e rest ih =>
    intro k d hs
    have hrest : ∀ e ∈ rest, e.isSome := fun e he => hs e (by simp [he])
    cases e with
    | none => have := hs none (by simp); simp at this
    | some x =>
      simp only [runI]
      cases d with
      | true =>
        rw [retry_step_done]
        simpa [countResub] using ih k true hrest
      | false =>
        cases x with
        | next v =>
          rw [retry_step_next]
          simpa [countResub, BOut.isResub] using ih k false hrest
        | completed =>
          rw [retry_step_completed]
          simpa [countResub, BOut.isResub] using ih k true hrest
        | error e =>
          cases k with
          | zero =>
            rw [retry_step_error_last]
            simpa [countResub, BOut.isResub] using ih 0 true hrest
          | succ k' =>
            rw [retry_step_error_more]
            have := ih k' false hrest
            simp only [countResub, List.singleton_append] at this ⊢
            rw [List.countP_cons_of_pos (by rfl)]
            omega

/-- **retry_fresh.** `retry(n)` (`n ≥ 1`) subscribed any number of times, sequentially or
overlapping, in any interleaving: every subscription behaves as if it were alone, and in particular
resubscribes to the source at most `n - 1` times — its budget is its own. -/
theorem retry_fresh {α} (n : Nat) (acts : List (Act (Notif α))) (i : Nat)
    (once : (restrict i acts).head? = some none ∧ ∀ e ∈ (restrict i acts).tail, e.isSome) :
    outputsOf i (runG (retry (α := α)) (some n) [] acts) = runI retry (some n) none (restrict i acts) ∧
    countResub (outputsOf i (runG (retry (α := α)) (some n) [] acts)) ≤ n - 1 := by
  have h1 := resubscribe_same (retry (α := α)) retry_framed (some n) acts i
  refine ⟨h1, ?_⟩
  rw [h1]
  cases hr : restrict i acts with
  | nil => simp [runI, countResub]
  | cons e rest =>
    rw [hr] at once
    simp only [List.head?_cons, Option.some.injEq, List.tail_cons] at once
    rw [once.1]
    simp only [runI]
    exact retry_budget_local (some n) rest (n - 1) false once.2

/-- **repeat_fresh.** Same for `repeat(n)`: each subscription gets its own rounds. -/
theorem repeat_fresh {α} (n : Option Nat) (acts : List (Act (Notif α))) (i : Nat) :
    outputsOf i (runG (repeat_ (α := α)) n [] acts) = runI repeat_ n none (restrict i acts) :=
  resubscribe_same (repeat_ (α := α)) repeat_framed n acts i

/-- two overlapping subscriptions to `retry(2)`: each gets its one retry -/
example :
    runG (retry (α := Nat)) (some 2) []
      [.create 0, .create 1, .act 0 (.error "a"), .act 1 (.error "b"), .act 0 (.error "c"), .act 1 (.next 5), .act 1 (.error "d")]
    = [(0, .resubscribe), (1, .resubscribe), (0, .emit (.error "c")), (1, .emit (.next 5)), (1, .emit (.error "d"))] := by
  decide

/-! ### The catalogue: every operator-handler record of the element-wise and aggregating families

`Ops.Op` records (RxModel/OpsElem.lean, OpsSlice.lean — C05/C07/C08): empty, map, filter,
filter_indexed, take, skip, take_while, take_while_indexed, skip_while, skip_while_indexed,
zip_with_iterable, map_indexed, distinct, distinct_until_changed, pairwise, start_with,
default_if_empty, ignore_elements, take_last, skip_last, take_last_buffer, element_at(_or_default),
find, find_index, materialize, dematerialize, scan(seed), slice (stage pipelines), and any
composition built from them.  `Agg.Op` records (RxModel/AggOps.lean — C06): map, filter, scan,
reduce, count, sum, average, min, max, min_by, max_by, first(_or_default), last(_or_default),
single(_or_default), some, all, contains, is_empty, to_list, to_set, to_dict and `⨾`-compositions.
The theorems quantify over **every** record of these types. -/
section catalogue
open Struct.Catalogue

/-- **catalogue_resubscribe_same (element-wise family).** For every `Ops.Op` record, prompt or lagging
disposal, any number of subscriptions under any interleaving: a subscription created once and fed
`evs` emits exactly what the family's own single-subscription semantics `Ops.Op.run` says. -/
theorem catalogue_ops_resubscribe_same {α β : Type} (lag : Bool) (op : Ops.Op α β)
    (acts : List (Act (Notif α))) (i : Nat) (evs : List (Notif α))
    (hv : restrict i acts = none :: evs.map some) :
    outputsOf i (runG (ofOps lag op) () [] acts) = Ops.visible (op.run lag evs) := by
  rw [resubscribe_same (ofOps lag op) (ofOps_framed lag op) () acts i, hv]
  exact ofOps_runI lag op evs

/-- **catalogue_resubscribe_same (aggregating family).** Same for every `Agg.Op` record. -/
theorem catalogue_agg_resubscribe_same {α β : Type} (lag : Bool) (op : Agg.Op α β)
    (acts : List (Act (Notif α))) (i : Nat) (evs : List (Notif α))
    (hv : restrict i acts = none :: evs.map some) :
    outputsOf i (runG (ofAgg lag op) () [] acts) = op.out lag evs := by
  rw [resubscribe_same (ofAgg lag op) (ofAgg_framed lag op) () acts i, hv]
  exact ofAgg_runI lag op evs

/-- the hypotheses are satisfiable and the statement is about real records: two overlapping
subscriptions to `take(2)` and to `count()` -/
example :
    outputsOf 1 (runG (ofOps false (Ops.takeOp (α := Nat) 2)) () []
      [.create 0, .act 0 (.next 7), .create 1, .act 1 (.next 1), .act 0 (.next 8), .act 1 (.next 2), .act 1 (.next 3)])
    = [.next 1, .next 2, .completed] := by decide
example :
    outputsOf 0 (runG (ofAgg false (Agg.countAllO (α := Nat))) () []
      [.create 0, .create 1, .act 0 (.next 7), .act 1 (.next 1), .act 0 (.next 8), .act 0 .completed])
    = [.next 2, .completed] := by decide
end catalogue

/-! The row check is not vacuous: it rejects the shapes it is meant to reject. -/
example : coldOk ⟨"operators/_x.py", "x_", "x_", "it", .oneshot, 1, some 3, false, true⟩ = false := by decide
example : coldOk ⟨"operators/_x.py", "x_", "x_", "it", .oneshot, 0, none, true, true⟩ = false := by decide
example : coldOk ⟨"operators/_x.py", "x_", "x_/subscribe", "it", .oneshot, 2, some 3, false, true⟩ = true := by decide
example : coldOk ⟨"operators/_x.py", "x_", "x_", "n", .cell, 1, some 1, false, true⟩ = true := by decide

end C04

import RxProofs.Lemmas.SubjThm
import RxProofs.Lemmas.SubjNat
import RxProofs.Lemmas.SubjLate
/-!
# C23 — an AsyncSubject delivers only the final value

Model: `RxModel/Subj.lean` with `kind = .async` (the machine of C20 plus `value` / `has_value`).
Quantification as in C20: every configuration reachable by any history and any reaction scripts.
`lastNext tr` is the value of the last `on_next` the subject accepted (if any).
-/

namespace C23
open Subj
variable {α : Type}

/-- **async_nothing_before_end.**  As long as the subject has neither terminated nor been disposed, no
observer has been handed anything, no delivery is pending, and `on_next` queues nothing. -/
theorem async_nothing_before_end {cfg : Cfg} {v : Option α} (hv : InitOK cfg v) {st : St α} {ag : List (Subj.Task α)}
    (hk : cfg.kind = .async) (h : Reachable cfg v st ag) (hs : st.stopped = false) :
    (∀ i, st.log i = []) ∧ (∀ i, recvs i st.tr = []) ∧ (∀ t ∈ ag, Subj.Task.isDeliver t = false) ∧
    (∀ x, (emit cfg st (.next x)).2 = []) := by
  have hq := async_quiet hk h hs
  have hV := reachable_vinv hv h
  have hd : st.disposed = false := by
    have := (reachable_inv h).1.dispStop
    cases hdd : st.disposed with
    | false => rfl
    | true => rw [this hdd] at hs; exact absurd hs (by simp)
  refine ⟨fun i => by rw [hV.log i, hq.1 i]; rfl, hq.1, hq.2, (async_emit_terminal hv hk h hd hs).2.2.2⟩

/-- **async_last_then_completed** (current subscribers).  On completion with a last value `x`, exactly
the members at that time are queued, in order, each for `x` immediately followed by completion; each of
the two is handed on iff the observer has not been detached when its turn comes (`deliver_turn`). -/
theorem async_last_then_completed {cfg : Cfg} {v : Option α} (hv : InitOK cfg v) {st : St α} {ag : List (Subj.Task α)}
    (hk : cfg.kind = .async) (h : Reachable cfg v st ag) (hd : st.disposed = false) (hs : st.stopped = false)
    (x : α) (hx : lastNext st.tr = some x) :
    (emit cfg st .completed).2 =
        (members st.tr).flatMap (fun i => [Subj.Task.deliver i (.next x), Subj.Task.deliver i .completed]) ∧
    (∀ (st' : St α) (ag' : List (Subj.Task α)) i n, Reachable cfg v st' ag' →
      (detached i st'.tr = true → deliver cfg st' i n = (st', [], false)) ∧
      (detached i st'.tr = false →
        (deliver cfg st' i n).1.log i = if userSees cfg i n then st'.log i ++ [n] else st'.log i)) :=
  ⟨(async_emit_terminal hv hk h hd hs).1 x hx,
   fun _ _ i n h' => ⟨(deliver_turn h' i n).1, fun hdet => ((deliver_turn h' i n).2.1 hdet).2⟩⟩

/-- **async_last_then_completed** (later subscribers).  A subscriber arriving after completion, when a
last value `x` exists, is queued for `x` then completion (then `subscribe` returns); a fresh observer
is handed `x` first. -/
theorem async_late_last_then_completed {cfg : Cfg} {v : Option α} (hv : InitOK cfg v) {st : St α}
    {rest : List (Subj.Task α)} (hk : cfg.kind = .async) (who : Option Id) (j : Id) (x : α)
    (h : Reachable cfg v st (.act who (.sub j) :: rest))
    (hs : st.stopped = true) (hd : st.disposed = false) (hj : st.seen j = false)
    (hx : lastNext st.tr = some x) (hc : terminated st.tr = some .completed) :
    let r1 := step1 cfg st (.act who (.sub j))
    let r2 := step1 cfg r1.1 (.deliver j (.next x))
    r1.2.1 = [.deliver j (.next x), .deliver j .completed, .finish j (some .noop)] ∧ r1.2.2 = false ∧
    r1.1.log j = [] ∧ r2.1.log j = [.next x] ∧
    Reachable cfg v r2.1 (nextAgenda r2 (.deliver j .completed :: .finish j (some .noop) :: rest)) :=
  async_late_value hv hk who j x h hs hd hj hx hc

/-- **async_late_gets_both.**  …and the completion always follows: whatever the reactions of the late
subscriber's own callback to the value do (they run to completion inside `subscribe`, `RunsTo`), they cannot
detach it — it holds no handle before `subscribe` returns — so it is then handed `completed`: its log is
exactly `[x, completed]`. -/
theorem async_late_gets_both {cfg : Cfg} {v : Option α} (hv : InitOK cfg v) {st : St α}
    {rest : List (Subj.Task α)} (hk : cfg.kind = .async) (who : Option Id) (j : Id) (x : α)
    (h : Reachable cfg v st (.act who (.sub j) :: rest))
    (hs : st.stopped = true) (hd : st.disposed = false) (hj : st.seen j = false)
    (hx : lastNext st.tr = some x) (hc : terminated st.tr = some .completed) :
    let r1 := step1 cfg st (.act who (.sub j))
    let r2 := step1 cfg r1.1 (.deliver j (.next x))
    r2.2.2 = false ∧
    ∀ st', RunsTo cfg r2.1 r2.2.1 st' →
      (step1 cfg st' (.deliver j .completed)).1.log j = [.next x, .completed] ∧
      Reachable cfg v st' (.deliver j .completed :: .finish j (some .noop) :: rest) :=
  async_late_both hv hk who j x h hs hd hj hx hc

/-- **async_error_only.**  On error exactly the members are queued for the error and nothing else (no
value, even if one exists); a later subscriber (with a handler) gets only the error, forever. -/
theorem async_error_only {cfg : Cfg} {v : Option α} (hv : InitOK cfg v) {st : St α} {ag : List (Subj.Task α)}
    (hk : cfg.kind = .async) (h : Reachable cfg v st ag) :
    (st.disposed = false → st.stopped = false →
      ∀ e, (emit cfg st (.error e)).2 = (members st.tr).map (Subj.Task.deliver · (.error e))) ∧
    (∀ who j rest e, ag = .act who (.sub j) :: rest → st.stopped = true → st.disposed = false →
      st.seen j = false → st.exception = some e → cfg.hasErr j = true →
      let r1 := step1 cfg st (.act who (.sub j))
      let r2 := step1 cfg r1.1 (.deliver j (.error e))
      terminated st.tr = some (.error e) ∧
      r1.2.1 = [.deliver j (.error e), .finish j (some .noop)] ∧ r2.1.log j = [.error e] ∧
      ∀ st' ag', Reach cfg r2.1 (nextAgenda r2 (.finish j (some .noop) :: rest)) st' ag' → st'.log j = [.error e]) := by
  refine ⟨fun hd hs => (async_emit_terminal hv hk h hd hs).2.2.1, ?_⟩
  intro who j rest e hag hs hd hj hx he
  subst hag
  have := late_terminal hv (fun _ => Or.inr (by simp [hx])) who j h hs hd hj (Or.inl he)
  simp only [termOf, hx] at this
  exact ⟨this.1, this.2.1, this.2.2.2.2.1, this.2.2.2.2.2⟩

/-- **async_empty_completes.**  With no value at all, completion queues exactly the members for
`completed` only; a later subscriber gets only `completed`, forever. -/
theorem async_empty_completes {cfg : Cfg} {v : Option α} (hv : InitOK cfg v) {st : St α} {ag : List (Subj.Task α)}
    (hk : cfg.kind = .async) (h : Reachable cfg v st ag) (hd : st.disposed = false) (hn : lastNext st.tr = none) :
    (st.stopped = false →
      (emit cfg st .completed).2 = (members st.tr).map (Subj.Task.deliver · .completed)) ∧
    (∀ who j rest, ag = .act who (.sub j) :: rest → st.stopped = true → st.seen j = false → st.exception = none →
      let r1 := step1 cfg st (.act who (.sub j))
      let r2 := step1 cfg r1.1 (.deliver j .completed)
      r1.2.1 = [.deliver j .completed, .finish j (some .noop)] ∧ r2.1.log j = [.completed] ∧
      ∀ st' ag', Reach cfg r2.1 (nextAgenda r2 (.finish j (some .noop) :: rest)) st' ag' → st'.log j = [.completed]) := by
  refine ⟨fun hs => (async_emit_terminal hv hk h hd hs).2.1 hn, ?_⟩
  intro who j rest hag hs hj hx
  subst hag
  have hV := reachable_vinv hv h
  have hhv : st.hasValue = false := by rw [(hV.asy hk hd).2, hn]; rfl
  have := late_terminal hv (fun _ => Or.inl hhv) who j h hs hd hj (Or.inr hx)
  simp only [termOf, hx] at this
  exact ⟨this.2.1, this.2.2.2.2.1, this.2.2.2.2.2⟩

/-- **async_natural** (C08 for this subject: no value is special).  Renaming every value of a history (and the
initial value) with an arbitrary function `g` renames the notifications every observer sees and changes nothing
else: same exceptions per call, same exceptions caught by reacting callbacks, same observers.  AsyncSubject. -/
theorem async_natural {β : Type} (cfg : Cfg) (g : α → β) (fuel : Nat) (v : Option α) (calls : List (Call α)) (i : Id) :
    (run cfg fuel (init cfg (v.map g)) (calls.map (Call.map g))).1.log i =
      ((run cfg fuel (init cfg v) calls).1.log i).map (Notif.map g) ∧
    (run cfg fuel (init cfg (v.map g)) (calls.map (Call.map g))).2 = (run cfg fuel (init cfg v) calls).2 ∧
    (run cfg fuel (init cfg (v.map g)) (calls.map (Call.map g))).1.xlog = (run cfg fuel (init cfg v) calls).1.xlog ∧
    (run cfg fuel (init cfg (v.map g)) (calls.map (Call.map g))).1.observers = (run cfg fuel (init cfg v) calls).1.observers :=
  run_natural_log cfg g fuel v calls i

theorem run_reachable (cfg : Cfg) (v : Option α) (fuel : Nat) (calls : List (Call α)) :
    Reachable cfg v (run cfg fuel (init cfg v) calls).1 [] :=
  run_reach fuel calls Reach.init

/-! ### Non-vacuity.  Values None-like `0`; observer 1 unsubscribes itself when handed the value (so it does
not see the completion); 2 arrives after completion; 3 on an errored subject. -/
def exCfg : Cfg :=
  { kind := .async
    hasErr := fun _ => true
    react := fun i k => if i = 1 ∧ k = 0 then [.unsub 1] else [] }

def exRun := run exCfg 100 (init exCfg (none : Option Nat)) [.sub 0, .sub 1, .next 4, .next 0, .completed, .sub 2, .next 9]
def exRunErr := run exCfg 100 (init exCfg (none : Option Nat)) [.sub 0, .next 4, .error "boom", .sub 3]
def exRunEmpty := run exCfg 100 (init exCfg (none : Option Nat)) [.sub 0, .completed, .sub 3]

example : exRun.1.log 0 = [.next 0, .completed] := by decide
example : exRun.1.log 1 = [.next 0] := by decide
example : exRun.1.log 2 = [.next 0, .completed] := by decide
example : (run exCfg 100 (init exCfg (none : Option Nat)) [.sub 0, .sub 1, .next 4, .next 0]).1.log 0 = [] := by decide
example : exRunErr.1.log 0 = [.error "boom"] ∧ exRunErr.1.log 3 = [.error "boom"] := by decide
example : exRunEmpty.1.log 0 = [.completed] ∧ exRunEmpty.1.log 3 = [.completed] := by decide

end C23

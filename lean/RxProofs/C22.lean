import RxProofs.Lemmas.SubjReplayLive
import RxProofs.Lemmas.SubjReplayNat
import RxProofs.Lemmas.SubjReplaySpec
/-!
# C22 — a ReplaySubject replays exactly its retained values, in order

Model: `RxModel/SubjReplay.lean` — `ReplaySubject` (`queue` of `(time, value)`, `_trim`), one
`ScheduledObserver` + `AutoDetachObserver` per subscriber, the virtual-time scheduler's queue, clock and
spin counter; a history is any list of timed calls scheduled up front; reaction scripts as in C20.
All theorems are about every state `Reach`able by `start()` from any such history (any length, any times,
any buffer size incl. `0` and `None`, any window incl. `None`), by induction over the scheduler's steps.

Ghost vocabulary (fields of the model state, written only, never read):
`allVals` — every `(now, value)` the subject accepted; `enq i` — everything that was to be handed to
observer `i` (queued on its ScheduledObserver); `fed i` — what has been handed to its AutoDetachObserver so
far; `log i` — what its user has seen, with the virtual time of each callback.
-/

namespace C22
open SubjReplay
open Subj (Call)
variable {α : Type}

/-- **replay_retained_spec.**  In every reachable state of an undisposed subject the queue is exactly the
retained part of everything ever accepted — the *longest* suffix of `allVals` with at most `buffer_size`
items all of whose ages (at the last `now` the subject read) are within the window — and trimming it at
any later instant `now` (what `subscribe` does) again yields exactly the part retained at `now`.
Values dropped once never come back, because the clock (`allVals` is time-sorted, `lastNow ≤ clock`) only
moves forward.  Age exactly equal to the window is *retained* (the code drops on `>`; `Good` is `≤`). -/
theorem replay_retained_spec {cfg : Cfg α} {calls : List (Nat × Call α)} {st : St α} (h : Reach cfg calls st)
    (hd : st.disposed = false) :
    Sorted st.allVals ∧ st.lastNow ≤ st.clock ∧
    IsRetained cfg st.lastNow st.allVals st.queue ∧
    ∀ now, st.lastNow ≤ now → IsRetained cfg now st.allVals (trim cfg now st.queue) := by
  have hI := reach_inv h
  exact ⟨hI.sorted, hI.lastNow_le, hI.retained hd, fun now hn => trim_of_retained hI.sorted (hI.retained hd) hn⟩

/-- `IsRetained` pins the list down: there is only one. -/
theorem retained_unique {cfg : Cfg α} {now : Nat} {all r1 r2 : List (Nat × α)}
    (h1 : IsRetained cfg now all r1) (h2 : IsRetained cfg now all r2) : r1 = r2 :=
  h1.unique h2

/-- **replay_prefix_then_live** (1: the replayed prefix).  A new subscriber `j` of an undisposed subject
(subscribing at top level or from inside a callback, at virtual time `clock`) is queued — in order — the
values retained at `clock`, followed by the terminal notification if the subject has terminated; it is
appended to the observers; and no user code runs inside `subscribe`. -/
theorem replay_prefix {cfg : Cfg α} {calls : List (Nat × Call α)} {st : St α} (h : Reach cfg calls st)
    (who : Option Id) (j : Id) (hj : st.seen j = false) (hd : st.disposed = false) :
    IsRetained cfg st.clock st.allVals (trim cfg st.clock st.queue) ∧
    (doSub cfg st who j).1.enq j =
      (trim cfg st.clock st.queue).map (fun it => Notif.next it.2) ++ terminalOf st ∧
    (doSub cfg st who j).1.observers = st.observers ++ [j] ∧
    (doSub cfg st who j).2 = [] ∧
    (∀ k, k ≠ j → (doSub cfg st who j).1.enq k = st.enq k) := by
  have hI := reach_inv h
  have hs := doSub_enq cfg hI who j hj hd
  exact ⟨trim_of_retained hI.sorted (hI.retained hd) hI.lastNow_le, hs.1, hs.2.1, hs.2.2,
    fun k hk => doSub_enq_other cfg st who j k hk⟩

/-- **replay_prefix_then_live** (2: live notifications).  A notification accepted by the subject — from a
history call (`who = none`) or re-entrantly from inside a subscriber's own callback (`who = some i`, a
feedback loop) — is queued exactly once for exactly the current observers, and for nobody else; nothing else
ever queues anything (`run` actions, unsubscriptions, disposals, the scheduler's own bookkeeping). -/
theorem replay_live {cfg : Cfg α} {calls : List (Nat × Call α)} {st : St α} (h : Reach cfg calls st) :
    (∀ who n, st.disposed = false → st.stopped = false →
      ∀ k, (emit cfg st who n).enq k = if k ∈ st.observers then st.enq k ++ [n] else st.enq k) ∧
    (∀ i, (soRun cfg st i).enq = st.enq) ∧
    (∀ t, (∀ who j, t ≠ Task.act who (.base (.sub j))) → (∀ who n, t ≠ Task.act who (.emit n)) →
      (doTask cfg st t).enq = st.enq) :=
  ⟨fun who n hd hs k => emit_enq cfg (reach_inv h) who n hd hs k, fun i => soRun_enq cfg st i,
   fun t ht he => doTask_enq cfg st t ht he⟩

/-- **replay_prefix_then_live** (3: nothing duplicated or reordered on the way to the user).
The ScheduledObserver is a FIFO: what has been handed to the AutoDetachObserver, followed by what is
still queued, is what was queued (unless the observer's own callback raised); the user has seen exactly
what was handed over as long as the observer is live, and a prefix of it afterwards. -/
theorem replay_fifo {cfg : Cfg α} {calls : List (Nat × Call α)} {st : St α} (h : Reach cfg calls st) (i : Id) :
    (st.faulted i = false → st.fed i ++ st.soQueue i = st.enq i) ∧
    (st.adoStopped i = false → notifs (st.log i) = st.fed i) ∧
    notifs (st.log i) <+: st.fed i :=
  ⟨(reach_inv h).fifo i, (reach_uinv h).all i, (reach_uinv h).pre i⟩

/-- **replay_prefix_then_live** (4: everything arrives).  When `start()` has returned normally, every
observer whose ScheduledObserver was not disposed has been handed everything queued for it; if it is
still live its user has seen exactly that sequence: retained values, terminal-if-any, later notifications. -/
theorem replay_all_delivered {cfg : Cfg α} {calls : List (Nat × Call α)} {st : St α} (h : Reach cfg calls st)
    (hidle : st.agenda = [] ∧ st.pending = []) (hc : st.crashed = none) (i : Id) (hd : st.serDisposed i = false) :
    st.soQueue i = [] ∧ st.fed i = st.enq i ∧ (st.adoStopped i = false → notifs (st.log i) = st.enq i) := by
  have hq := quiescent_drained h hidle hc i hd
  exact ⟨hq.1, hq.2, fun ha => by rw [← hq.2]; exact (reach_uinv h).all i ha⟩

/-- **replay_prefix_then_live** (one formula).  `specOf cfg st.evs` is computed from the *observable* event
order alone (the history calls with their contents and times, re-entrant emissions, subscription attempts,
unsubscriptions, disposals — the very list the correspondence check compares with the real code), by the
property text: `exp i` = at `i`'s subscription the values retained at that instant (`trim` of everything
accepted so far) ++ the terminal if the subject has terminated ++ every notification accepted afterwards
while `i` stays subscribed (cut at its unsubscription / at termination / at `dispose`).
In every reachable state: what was queued for `i` is exactly `exp i`; what `i`'s user has seen is a prefix of
it, in order, nothing twice; and when `start()` has returned normally a live, never-unsubscribed observer
has seen exactly `exp i`. -/
theorem replay_one_formula {cfg : Cfg α} {calls : List (Nat × Call α)} {st : St α} (h : Reach cfg calls st) (i : Id) :
    st.enq i = (specOf cfg st.evs).exp i ∧
    (st.faulted i = false → notifs (st.log i) <+: (specOf cfg st.evs).exp i) ∧
    (st.agenda = [] ∧ st.pending = [] → st.crashed = none → st.serDisposed i = false → st.adoStopped i = false →
      notifs (st.log i) = (specOf cfg st.evs).exp i) := by
  have hS := reach_specinv h
  have hI := reach_inv h
  have hU := reach_uinv h
  refine ⟨hS.e i, ?_, ?_⟩
  · intro hf
    rw [← hS.e i, ← hI.fifo i hf]
    exact (hU.pre i).trans (List.prefix_append _ _)
  · intro hidle hc hd ha
    rw [← hS.e i]
    exact (replay_all_delivered h hidle hc i hd).2.2 ha

/-- The specification's reading of a subscription, spelled out: on an undisposed subject the expected
sequence of a new subscriber starts with `trim` (= the retained part, `replay_retained_spec`) of all values
accepted so far, then the accepted terminal if any; it is subscribed for later notifications iff the subject
has not terminated. -/
theorem spec_subscription (cfg : Cfg α) (s : Spec α) (j now : Nat) (hd : s.disp = false) :
    (Spec.step cfg s (.sub j now)).exp j =
      (trim cfg now s.vals).map (fun it => Notif.next it.2) ++ s.term.toList ∧
    (Spec.step cfg s (.sub j now)).subs = if s.term.isNone then s.subs ++ [j] else s.subs := by
  simp [Spec.step, hd]

/-- …and of an emission: an accepted notification is appended to the expected sequence of exactly the
currently subscribed observers. -/
theorem spec_emission (s : Spec α) (now : Nat) (n : Notif α) (hd : s.disp = false) (ht : s.term = none) (i : Id) :
    (s.emit now n).exp i = if i ∈ s.subs then s.exp i ++ [n] else s.exp i := by
  cases n <;> simp [Spec.emit, hd, ht]

/-- **replay_dispose_stops.**  Once an observer's subscription has been disposed (or it was handed a
terminal) its user sees nothing more — not even replayed values still queued in its ScheduledObserver —
whatever the rest of the run does; and a disposed subject raises `DisposedException` on emission. -/
theorem replay_dispose_stops {cfg : Cfg α} {calls : List (Nat × Call α)} {st : St α} (h : Reach cfg calls st) :
    (∀ j, st.handle j = true → (doUnsub st j).adoStopped j = true) ∧
    (∀ i, st.adoStopped i = true → ∀ f, (steps cfg f st).log i = st.log i ∧ (steps cfg f st).adoStopped i = true) ∧
    (st.disposed = true → ∀ who n, emit cfg st who n = SubjReplay.raiseTo who Subj.disposedExn st) := by
  refine ⟨?_, fun i hs f => reach_silent h i hs f, fun hd who n => by simp [emit, hd]⟩
  intro j hj
  have f := sadDispose_uframe { st with adoStopped := Subj.upd st.adoStopped j true, evs := st.evs ++ [EvR.unsub j] } j
  simp only [doUnsub, hj, if_true]
  rw [f.2.2]
  simp

/-- **replay_natural** (C08 for ReplaySubject: no value is special).  Renaming every value of a timed
history — and of the re-entrant emissions in the reaction scripts — with an arbitrary function `g` renames the
(timed) notifications every observer sees and the retained queue, and changes nothing else: same times, same
exceptions per call, same caught exceptions, same crash status.  `_trim` looks at times and counts only. -/
theorem replay_natural {β : Type} (cfg : Cfg α) (g : α → β) (fuel : Nat) (calls : List (Nat × Call α)) (i : Id) :
    (run (cfg.map g) fuel (calls.map (tc g))).log i = ((run cfg fuel calls).log i).map (tn g) ∧
    (run (cfg.map g) fuel (calls.map (tc g))).raised = (run cfg fuel calls).raised ∧
    (run (cfg.map g) fuel (calls.map (tc g))).xlog = (run cfg fuel calls).xlog ∧
    (run (cfg.map g) fuel (calls.map (tc g))).crashed = (run cfg fuel calls).crashed ∧
    (run (cfg.map g) fuel (calls.map (tc g))).queue = (run cfg fuel calls).queue.map (tv g) :=
  run_natural_log cfg g fuel calls i

/-- What the correspondence check executes (`SubjReplay.run`, any fuel, any history) is reachable. -/
theorem run_reachable (cfg : Cfg α) (fuel : Nat) (calls : List (Nat × Call α)) : Reach cfg calls (run cfg fuel calls) :=
  run_reach cfg fuel calls

/-! ### Non-vacuity: buffer 2, window 10.  Values at t=1,2,3 (the falsy `0` among them); observer 0
subscribes at t=12: only the last two are candidates and `(2, _)` has age exactly 10 = window: retained;
observer 1 subscribes at t=13: age 11 > 10: dropped, only `(3, _)` is replayed, then completion. -/
def exCfg : Cfg Nat := { bufferSize := some 2, window := some 10, hasErr := fun _ => true, react := fun _ _ => [] }

def exRun := run exCfg 200 [(1, Call.next 5), (2, .next 0), (3, .next 7), (12, .sub 0), (12, .completed), (13, .sub 1), (14, .next 9)]

example : exRun.log 0 = [(12, .next 0), (12, .next 7), (12, .completed)] := by decide
example : exRun.log 1 = [(13, .next 7), (13, .completed)] := by decide
example : exRun.enq 0 = [.next 0, .next 7, .completed] ∧ exRun.fed 0 = exRun.enq 0 := by decide
example : idle exRun = true ∧ exRun.crashed = none := by decide
example : exRun.allVals = [(1, 5), (2, 0), (3, 7)] ∧ exRun.queue = [(3, 7)] := by decide

/-- `buffer_size = 0` retains nothing; `None`/`None` retains everything; unsubscribing with replay pending. -/
example : (run { exCfg with bufferSize := some 0, window := none } 200 [(1, Call.next 5), (2, .sub 0), (3, .next 6)]).log 0
    = [(3, .next 6)] := by decide
example : (run { exCfg with bufferSize := none, window := none } 200 [(1, Call.next 5), (1, .next 6), (2, .sub 0), (2, .unsub 0)]).log 0
    = [] := by decide
example : (run { exCfg with bufferSize := none, window := none } 200 [(1, Call.next 5), (1, .next 6), (2, .sub 0), (2, .unsub 0)]).enq 0
    = [.next 5, .next 6] := by decide

/-- Feedback (re-entrant emission): observer 0 answers the value `1` by pushing `2` into the subject from
inside its callback — while it is processing the last item queued for it — and answers `2` by completing
the subject.  Everybody (the producer itself, the passive observer 1, the late observer 2) sees all of it. -/
def fbCfg : Cfg Nat :=
  { bufferSize := none, window := none, hasErr := fun _ => true
    react := fun i k => if i = 0 ∧ k = 0 then [.emit (.next 2)] else if i = 0 ∧ k = 1 then [.emit .completed] else [] }

def fbRun := run fbCfg 200 [(210, Call.sub 0), (215, .sub 1), (220, .next 1), (300, .sub 2)]

example : fbRun.log 0 = [(220, .next 1), (220, .next 2), (220, .completed)] := by decide
example : fbRun.log 1 = [(220, .next 1), (220, .next 2), (220, .completed)] := by decide
example : fbRun.log 2 = [(300, .next 1), (300, .next 2), (300, .completed)] := by decide
/-- the one-formula specification evaluated on the observable event order of these runs -/
example : (specOf fbCfg fbRun.evs).exp 1 = [.next 1, .next 2, .completed] := by decide
example : (specOf exCfg exRun.evs).exp 0 = [.next 0, .next 7, .completed] ∧ (specOf exCfg exRun.evs).exp 1 = [.next 7, .completed] := by decide

end C22

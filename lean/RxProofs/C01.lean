import RxModel.Core
/-!
# C01 — every subscriber sees a well-formed notification sequence

Property theorems only.  The upstream pipeline is an arbitrary caller: any finite list of
`next/error/completed/dispose/fail` calls (after terminals, twice, re-entrant — a re-entrant call is
just the next call in the list because every method decides on `is_stopped` at entry and sets it
before calling out), with user callbacks raising at arbitrary invocation indices (`raises`).
-/

namespace C01

theorem stopped_silent {α} (raises : Nat → Bool) (n : Nat) (cs : List (ObsCall α)) :
    Ado.delivered raises { stopped := true, cbs := n } cs = [] := by
  induction cs with
  | nil => rfl
  | cons c cs ih =>
    cases c <;> simpa [Ado.delivered, Ado.runOuts, Ado.step] using ih

/-- **ado_grammar.** Whatever is called on an `AutoDetachObserver`, in whatever order, and whichever
user callbacks raise, the user callbacks are invoked as `next* (error|completed)?`. -/
theorem ado_grammar {α} (raises : Nat → Bool) (s : Ado) (cs : List (ObsCall α)) :
    Grammar (Ado.delivered raises s cs) := by
  induction cs generalizing s with
  | nil => simp [Ado.delivered, Ado.runOuts, Grammar]
  | cons c cs ih =>
    obtain ⟨st, n⟩ := s
    cases st
    · cases c with
      | next v =>
        have h := ih { stopped := false, cbs := n + 1 }
        simp only [Ado.delivered, Ado.runOuts, Ado.step, Bool.false_eq_true, if_false,
          List.filterMap_cons] at h ⊢
        generalize List.filterMap (fun x => x.delivered) (Ado.runOuts raises { stopped := false, cbs := n + 1 } cs) = r at *
        cases r <;> simp_all [Grammar, Notif.isTerminal]
      | error e =>
        have h := stopped_silent raises (n + 1) cs
        simp only [Ado.delivered] at h
        simp [Ado.delivered, Ado.runOuts, Ado.step, h, Grammar]
      | completed =>
        have h := stopped_silent raises (n + 1) cs
        simp only [Ado.delivered] at h
        simp [Ado.delivered, Ado.runOuts, Ado.step, h, Grammar]
      | dispose =>
        have h := stopped_silent raises n cs
        simp only [Ado.delivered] at h
        simp [Ado.delivered, Ado.runOuts, Ado.step, h, Grammar]
      | fail e =>
        have h := stopped_silent raises (n + 1) cs
        simp only [Ado.delivered] at h
        simp [Ado.delivered, Ado.runOuts, Ado.step, h, Grammar]
    · rw [stopped_silent]; trivial

/-- **ado_after_dispose_silent.** Once `dispose()` was called nothing is ever delivered. -/
theorem ado_after_dispose_silent {α} (raises : Nat → Bool) (s : Ado) (pre post : List (ObsCall α)) :
    Ado.delivered raises s (pre ++ ObsCall.dispose :: post) = Ado.delivered raises s pre := by
  induction pre generalizing s with
  | nil =>
    have h := stopped_silent raises s.cbs post
    simp only [Ado.delivered] at h
    simp [Ado.delivered, Ado.runOuts, Ado.step, h]
  | cons c cs ih =>
    have := ih (Ado.step raises s c).1
    simp only [Ado.delivered, List.cons_append, Ado.runOuts, List.filterMap_cons] at this ⊢
    rw [this]

/-- **ado_terminal_disposes.** A terminal notification that reaches the subscriber through
`on_error`/`on_completed` disposes the subscription in the same call (`finally: self.dispose()`),
also when the user callback raises. -/
theorem ado_terminal_disposes {α} (raises : Nat → Bool) (s : Ado) (c : ObsCall α) (n : Notif α)
    (hc : c = .error (match n with | .error e => e | _ => "") ∨ c = .completed)
    (hd : (Ado.step raises s c).2.delivered = some n) :
    (Ado.step raises s c).2.disposes = 1 ∧ (Ado.step raises s c).1.stopped = true := by
  rcases hc with h | h <;> subst h <;> cases hs : s.stopped <;> simp_all [Ado.step]

theorem obsbase_stopped_silent {α} (raises : Nat → Bool) (n : Nat) (cs : List (ObsCall α)) :
    ObsBase.delivered raises { stopped := true, cbs := n } cs = [] := by
  induction cs with
  | nil => rfl
  | cons c cs ih =>
    cases c <;> simpa [ObsBase.delivered, ObsBase.runOuts, ObsBase.step] using ih

/-- **observer_grammar.** Same for the `Observer` base class (used by subjects, scheduled observers). -/
theorem observer_grammar {α} (raises : Nat → Bool) (s : ObsBase) (cs : List (ObsCall α)) :
    Grammar (ObsBase.delivered raises s cs) := by
  induction cs generalizing s with
  | nil => simp [ObsBase.delivered, ObsBase.runOuts, Grammar]
  | cons c cs ih =>
    obtain ⟨st, n⟩ := s
    cases st
    · cases c with
      | next v =>
        have h := ih { stopped := false, cbs := n + 1 }
        simp only [ObsBase.delivered, ObsBase.runOuts, ObsBase.step, Bool.false_eq_true, if_false,
          List.filterMap_cons] at h ⊢
        generalize List.filterMap (fun x => x.delivered) (ObsBase.runOuts raises { stopped := false, cbs := n + 1 } cs) = r at *
        cases r <;> simp_all [Grammar, Notif.isTerminal]
      | error e =>
        have h := obsbase_stopped_silent raises (n + 1) cs
        simp only [ObsBase.delivered] at h
        simp [ObsBase.delivered, ObsBase.runOuts, ObsBase.step, h, Grammar]
      | completed =>
        have h := obsbase_stopped_silent raises (n + 1) cs
        simp only [ObsBase.delivered] at h
        simp [ObsBase.delivered, ObsBase.runOuts, ObsBase.step, h, Grammar]
      | dispose =>
        have h := obsbase_stopped_silent raises n cs
        simp only [ObsBase.delivered] at h
        simp [ObsBase.delivered, ObsBase.runOuts, ObsBase.step, h, Grammar]
      | fail e =>
        have h := obsbase_stopped_silent raises (n + 1) cs
        simp only [ObsBase.delivered] at h
        simp [ObsBase.delivered, ObsBase.runOuts, ObsBase.step, h, Grammar]
    · rw [obsbase_stopped_silent]; trivial

/-- **subscribe_grammar.** `Observable.subscribe` with an arbitrary subscriber body (any calls, then
return or raise) and arbitrary later calls through a saved reference: the subscriber sees a
well-formed sequence. -/
theorem subscribe_grammar {α} (raises : Nat → Bool) (body later : List (ObsCall α)) (exn : Option Err) :
    Grammar (subscribeRun raises body exn later).1 := by
  simp only [subscribeRun]; exact ado_grammar _ _ _

theorem final_delivered_append {α} (raises : Nat → Bool) (s : Ado) (a b : List (ObsCall α)) :
    Ado.delivered raises s (a ++ b) = Ado.delivered raises s a ++ Ado.delivered raises (Ado.final raises s a) b := by
  induction a generalizing s with
  | nil => simp [Ado.delivered, Ado.runOuts, Ado.final]
  | cons c cs ih =>
    have := ih (Ado.step raises s c).1
    simp only [Ado.delivered, List.cons_append, Ado.runOuts, List.filterMap_cons, Ado.final] at this ⊢
    rw [this]; cases (Ado.step raises s c).2.delivered <;> simp

/-- **subscribe_fail_routes.** An exception escaping the subscriber body becomes exactly one
`on_error` when the observer is not yet stopped (and `subscribe` does not raise); when it is already
stopped nothing more is delivered and `subscribe` re-raises.  (`subscribe` also raises when the
user's own `on_error` raises inside `fail`.) -/
theorem subscribe_fail_routes {α} (raises : Nat → Bool) (body later : List (ObsCall α)) (e : Err) :
    let r := subscribeRun raises body (some e) later
    ((Ado.final raises {} body).stopped = false →
        r.1 = Ado.delivered raises {} body ++ [Notif.error e] ∧
          r.2 = raises (Ado.final raises {} body).cbs) ∧
    ((Ado.final raises {} body).stopped = true →
        r.1 = Ado.delivered raises {} body ∧ r.2 = true) := by
  intro r
  have key : r.1 = Ado.delivered raises {} body ++
      Ado.delivered raises (Ado.final raises {} body) (ObsCall.fail e :: later) := by
    simp only [r, subscribeRun, List.append_assoc, List.singleton_append]
    exact final_delivered_append raises {} body _
  generalize hf : Ado.final raises {} body = f at *
  obtain ⟨st, n⟩ := f
  refine ⟨fun h => ?_, fun h => ?_⟩
  · simp only at h; subst h
    have hs := stopped_silent raises (n + 1) later
    simp only [Ado.delivered] at hs
    refine ⟨?_, by simp [r, subscribeRun, hf]⟩
    rw [key]; simp [Ado.delivered, Ado.runOuts, Ado.step, hs]
  · simp only at h; subst h
    refine ⟨?_, by simp [r, subscribeRun, hf]⟩
    rw [key, stopped_silent]; simp

/-! Non-vacuity: a concrete adversarial call list (emission after `completed`, a second terminal,
a raising `on_next`) is cut to a well-formed sequence, and the premises of `subscribe_fail_routes`
are satisfiable both ways. -/
example : Ado.delivered (fun k => k == 1) {} [ObsCall.next 1, .next 2, .completed, .next 3, .error "x", .completed]
    = [Notif.next 1, .next 2, .completed] := by decide
example : (subscribeRun (fun _ => false) [ObsCall.next (1 : Nat)] (some "boom") [.next 2]) =
    ([Notif.next 1, .error "boom"], false) := by decide
example : (subscribeRun (fun _ => false) [ObsCall.next (1 : Nat), .completed] (some "boom") [.next 2]) =
    ([Notif.next 1, .completed], true) := by decide

end C01

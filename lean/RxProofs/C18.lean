import RxProofs.Lemmas.WinCount
import RxProofs.Lemmas.WinEnd
import RxProofs.Lemmas.WinChain
import RxProofs.Lemmas.WinBufView
import RxProofs.Lemmas.WinClosed
import RxProofs.Lemmas.WinBufRun
import RxProofs.Lemmas.WinTimeK
/-!
# C18 — windows and buffers partition the source correctly

Property theorems only (helpers: `RxProofs/Lemmas/Win*.lean`; models: `RxModel/Win*.lean`).
-/

namespace C18
open Win

variable {α : Type}

/-! ## window_with_count_ : index arithmetic

`Cnt.run count skip (Cnt.init t0) (Cnt.nexts tx)` is the operator after the source delivered the timed
elements `tx` (any times, any values, any length) and nothing else yet. -/

/-- **wwc_window_k.** For every `count ≥ 1`, `skip ≥ 1` (skip < count, = count, > count alike) and every
element sequence, window `k` exists as soon as `k·skip` elements arrived and holds exactly the elements
`k·skip … k·skip+count−1` that have arrived so far, in arrival order. -/
theorem wwc_window_k (count skip t0 : Nat) (hc : 0 < count) (hs : 0 < skip) (tx : List (Nat × α)) (k : Nat)
    (hk : k * skip ≤ tx.length) :
    let s := Cnt.run count skip (Cnt.init t0) (Cnt.nexts tx)
    k < s.b.wins.length ∧ s.b.pushedOf k = ((tx.map (·.2)).drop (k * skip)).take count := by
  obtain ⟨a, b, h⟩ := Cnt.cinv_run hc hs tx (Cnt.cinv_init count skip t0 hc hs) (Cnt.cinv_init_ctl t0)
  simp only [List.nil_append] at h
  have hlen : (tx.map (·.2)).length = tx.length := by simp
  have hka : k < a := by
    have := h.a_hi; rw [hlen] at this
    exact Nat.lt_of_mul_lt_mul_right (Nat.lt_of_le_of_lt hk this)
  exact ⟨by rw [h.len]; exact hka, h.pushed k hka⟩

/-- **wwc_window_count.** Exactly `⌊n/skip⌋ + 1` windows have been created after `n` elements. -/
theorem wwc_window_count (count skip t0 : Nat) (hc : 0 < count) (hs : 0 < skip) (tx : List (Nat × α)) :
    (Cnt.run count skip (Cnt.init t0) (Cnt.nexts tx)).b.wins.length = tx.length / skip + 1 := by
  obtain ⟨a, b, h⟩ := Cnt.cinv_run hc hs tx (Cnt.cinv_init count skip t0 hc hs) (Cnt.cinv_init_ctl t0)
  simp only [List.nil_append] at h
  have h1 := h.a_lo; have h2 := h.a_hi; have h3 := h.a_pos
  simp only [List.length_map] at h1 h2
  have : tx.length / skip = a - 1 :=
    Nat.div_eq_of_lt_le h1 (by have : a - 1 + 1 = a := by omega
                               rw [this]; exact h2)
  rw [h.len, this]; omega

/-- **wwc_closes_at_count.** Window `k` has been completed (and only completed, never errored) exactly
when its `count`-th element `k·skip+count−1` has arrived; until then it is open. -/
theorem wwc_closes_at_count (count skip t0 : Nat) (hc : 0 < count) (hs : 0 < skip) (tx : List (Nat × α)) (k : Nat)
    (hk : k * skip ≤ tx.length) :
    (Cnt.run count skip (Cnt.init t0) (Cnt.nexts tx)).b.endedOf k =
      if k * skip + count ≤ tx.length then some none else none := by
  obtain ⟨a, b, h⟩ := Cnt.cinv_run hc hs tx (Cnt.cinv_init count skip t0 hc hs) (Cnt.cinv_init_ctl t0)
  simp only [List.nil_append] at h
  have h2 := h.a_hi; have hb1 := h.b_lo; have hb2 := h.b_hi
  simp only [List.length_map] at h2 hb1 hb2
  have hka : k < a := Nat.lt_of_mul_lt_mul_right (Nat.lt_of_le_of_lt hk h2)
  rw [h.ended k hka]
  by_cases hkb : k < b
  · have : k * skip ≤ (b - 1) * skip := Nat.mul_le_mul_right skip (by omega)
    rw [if_pos hkb, if_pos (by omega)]
  · have : b * skip ≤ k * skip := Nat.mul_le_mul_right skip (by omega)
    rw [if_neg hkb, if_neg (by omega)]

/-- **wwc_ends_with_source.** The complete picture for count windows: the source delivers the elements `tx`
and then terminates with `e` (`none` = completed, `some err` = error).  Every window `k` that was ever created
has ended: by completion if its `count`-th element arrived, otherwise with exactly the source's terminal. -/
theorem wwc_ends_with_source (count skip t0 : Nat) (hc : 0 < count) (hs : 0 < skip) (tx : List (Nat × α)) (t : Nat)
    (e : Option Err) (k : Nat) (hk : k * skip ≤ tx.length) :
    (Cnt.run count skip (Cnt.init t0) (Cnt.nexts tx ++ [(t, .src 0 (endNotif e))])).b.endedOf k =
      if k * skip + count ≤ tx.length then some none else some e := by
  rw [Cnt.run_append]
  obtain ⟨a, b, h⟩ := Cnt.cinv_run hc hs tx (Cnt.cinv_init count skip t0 hc hs) (Cnt.cinv_init_ctl t0)
  have hctl := Cnt.ctl_run_nexts count skip tx (Cnt.init (α := α) t0) (by
    have := Cnt.cinv_init_ctl (α := α) t0; simp only [Base.ctl, Prod.mk.injEq] at this; exact this.1)
  rw [Cnt.cinv_init_ctl] at hctl
  simp only [List.nil_append] at h
  generalize Cnt.run count skip (Cnt.init t0) (Cnt.nexts tx) = s at h hctl
  have hl : s.b.live.contains 0 = true := by
    simp only [Base.ctl, Prod.mk.injEq] at hctl; simp [hctl.2.2]
  have h2 := h.a_hi; have hb1 := h.b_lo; have hb2 := h.b_hi
  simp only [List.length_map] at h2 hb1 hb2
  have hka : k < a := Nat.lt_of_mul_lt_mul_right (Nat.lt_of_le_of_lt hk h2)
  show ((Cnt.mach count skip).step s t (.src 0 (endNotif e))).b.endedOf k = _
  by_cases hkb : k < b
  · have : k * skip ≤ (b - 1) * skip := Nat.mul_le_mul_right skip (by omega)
    have hend : s.b.endedOf k = some none := by rw [h.ended k hka, if_pos hkb]
    rw [Cnt.ended_kept count skip s t e hl k (by rw [hend]; rfl), hend, if_pos (by omega)]
  · have : b * skip ≤ k * skip := Nat.mul_le_mul_right skip (by omega)
    have hend : s.b.endedOf k = none := by rw [h.ended k hka, if_neg hkb]
    have hq : k ∈ s.q := by rw [h.q_eq, List.mem_range'_1]; have := h.ba; omega
    rw [(Cnt.ends count skip s t _ e rfl hl).1 k hq (by rw [h.len]; exact hka) hend, if_neg (by omega)]

/-! non-vacuity: skip < count (overlap), skip > count (gaps) on concrete inputs -/
example : (Cnt.run 3 2 (Cnt.init 200) (Cnt.nexts [(210, 'a'), (220, 'b'), (230, 'c'), (240, 'd'), (250, 'e')])).b.wins.map (·.pushed)
    = [['a', 'b', 'c'], ['c', 'd', 'e'], ['e']] := by decide
example : (Cnt.run 1 3 (Cnt.init 200) (Cnt.nexts [(210, 'a'), (220, 'b'), (230, 'c'), (240, 'd'), (250, 'e')])).b.wins.map (fun w => (w.pushed, w.ended))
    = [(['a'], some none), (['d'], some none)] := by decide

/-! ## window_partition : every element goes to exactly the windows open at its arrival, in arrival order

`Win.routed m base openOf s evs id` (RxModel/WinBuf.lean) is the specification: the source elements of the trace
`evs` that arrive while the operator still listens to the source and window `id` is in the operator's open set
(`q` / the current window / `left_map` / `queue`) and not terminated.  The theorems hold for EVERY tagged event
trace: any interleaving of the source with boundaries / closings / openings, non-conforming sources, `dispose`
anywhere, and — for the timed operators — timer firings anywhere (a superset of the schedules the virtual-time
scheduler can produce; `Mach.run_eq_fold` shows `Mach.run` follows one of them). -/

theorem window_partition_count (count skip t0 : Nat) (evs : List (Nat × Ev α)) (id : Nat) :
    (Cnt.run count skip (Cnt.init t0) evs).b.pushedOf id =
      routed (Cnt.mach count skip) (·.b) (·.q) (Cnt.init t0) evs id := by
  rw [Cnt.run_eq_fold]
  have h := partition_of_step (Cnt.mach count skip) (·.b) (·.q) Cnt.Good
    (fun s t e hg => Cnt.good_step count skip s t e hg) (fun s t e id hg => Cnt.delta_step count skip s t e id hg)
    evs (Cnt.init t0) id ⟨by simp [Cnt.init, Cnt.createWindow, Base.newWin], by simp [Cnt.init, Cnt.createWindow, Base.newWin]⟩
  rw [h]
  have : (Cnt.init (α := α) t0).b.pushedOf id = [] := by
    simp only [Cnt.init, Base.pushedOf_subscribe, Cnt.createWindow_pushedOf]; simp [Base.pushedOf]
  rw [this, List.nil_append]

theorem window_partition_boundaries (t0 : Nat) (bsync : Option (Notif Unit)) (evs : List (Nat × Ev α)) (id : Nat) :
    (Bnd.run (Bnd.init t0 bsync) evs).b.pushedOf id = routed Bnd.mach (·.b) (fun s => [s.cur]) (Bnd.init t0 bsync) evs id := by
  rw [Bnd.run_eq_fold]
  have h := partition_of_step Bnd.mach (·.b) (fun s : Bnd α => [s.cur]) (fun _ => True)
    (fun _ _ _ _ => trivial) (fun s t e id _ => Bnd.delta_step s t e id) evs (Bnd.init t0 bsync) id trivial
  rw [h]
  have : (Bnd.init (α := α) t0 bsync).b.pushedOf id = [] := by
    have h0 : ∀ j, (({ now := t0 } : Base α).newWin.1.outerNext ({ now := t0 } : Base α).newWin.2).pushedOf j = [] := by
      intro j; simp only [Base.pushedOf_outerNext, Base.pushedOf_newWin]; simp [Base.pushedOf]
    cases bsync with
    | none => simp only [Bnd.init, Base.pushedOf_subscribe]; exact h0 id
    | some n =>
      cases n <;> simp only [Bnd.init, Bnd.onBoundary, Bnd.onEnd, Base.pushedOf_subscribe, Base.pushedOf_outerNext,
        Base.pushedOf_newWin, Base.pushedOf_winEnd, Base.pushedOf_outerEnd] <;> simp [Base.pushedOf]
  rw [this, List.nil_append]

theorem window_partition_when (raiseAt : Option Nat) (pool t0 : Nat) (sync : List (Option (Option Err))) (evs : List (Nat × Ev α)) (id : Nat) :
    (Whn.run raiseAt pool (Whn.init raiseAt pool t0 sync) evs).b.pushedOf id =
      routed (Whn.mach raiseAt pool) (·.b) (fun s => [s.cur]) (Whn.init raiseAt pool t0 sync) evs id := by
  rw [Whn.run_eq_fold]
  have h := partition_of_step (Whn.mach raiseAt pool) (·.b) (fun s : Whn α => [s.cur]) (fun _ => True)
    (fun _ _ _ _ => trivial) (fun s t e id _ => Whn.delta_step raiseAt pool s t e id) evs (Whn.init raiseAt pool t0 sync) id trivial
  rw [h]
  have : (Whn.init (α := α) raiseAt pool t0 sync).b.pushedOf id = [] := by
    simp only [Whn.init, Whn.createClosing_pushedOf, Base.pushedOf_subscribe, Base.pushedOf_outerNext, Base.pushedOf_newWin]
    simp [Base.pushedOf]
  rw [this, List.nil_append]

theorem window_partition_toggle (raiseAt : Option Nat) (pool t0 : Nat) (sync : List (Option (Option Err))) (evs : List (Nat × Ev α)) (id : Nat) :
    (Tgl.run raiseAt pool (Tgl.init t0 sync) evs).b.pushedOf id =
      routed (Tgl.mach raiseAt pool) (·.b) Tgl.openOf (Tgl.init t0 sync) evs id := by
  rw [Tgl.run_eq_fold]
  have h := partition_of_step (Tgl.mach raiseAt pool) (·.b) Tgl.openOf Tgl.Good
    (fun s t e hg => Tgl.good_step raiseAt pool s t e hg) (fun s t e id hg => Tgl.delta_step raiseAt pool s t e id hg)
    evs (Tgl.init t0 sync) id ⟨by simp [Tgl.init, Tgl.openOf], by simp [Tgl.init, Tgl.openOf]⟩
  rw [h]
  have : (Tgl.init (α := α) t0 sync).b.pushedOf id = [] := by simp [Tgl.init, Base.pushedOf]
  rw [this, List.nil_append]

/-- `window_with_time_`: along the schedule the machine follows (source events with the timer firings inserted,
the source winning ties), and in fact along every event list with `.tick`s anywhere. -/
theorem window_partition_time (span shift t0 horizon fuel : Nat) (evs : List (Nat × Ev α)) (id : Nat) :
    ((Tim.mach shift).run horizon fuel (Tim.init span shift t0) evs).b.pushedOf id =
      routed (Tim.mach shift) (·.b) (·.queue) (Tim.init span shift t0)
        ((Tim.mach shift).sched horizon fuel (Tim.init span shift t0) evs) id := by
  rw [Mach.run_eq_fold]
  have h := partition_of_step (Tim.mach shift) (·.b) (·.queue) Tim.Good
    (fun s t e hg => Tim.good_step shift s t e hg) (fun s t e id hg => Tim.delta_step shift s t e id hg)
    ((Tim.mach shift).sched horizon fuel (Tim.init span shift t0) evs) (Tim.init span shift t0) id
    ⟨by simp [Tim.init, Base.newWin], by simp [Tim.init, Base.newWin]⟩
  rw [h]
  have : (Tim.init (α := α) span shift t0).b.pushedOf id = [] := by
    simp only [Tim.init, Tim.createTimer_b, Base.pushedOf_subscribe, Base.pushedOf_outerNext, Base.pushedOf_newWin]; simp [Base.pushedOf]
  rw [this, List.nil_append]

theorem window_partition_time_or_count (span count t0 horizon fuel : Nat) (evs : List (Nat × Ev α)) (id : Nat) :
    ((Toc.mach span count).run horizon fuel (Toc.init span t0) evs).b.pushedOf id =
      routed (Toc.mach span count) (·.b) (fun s => [s.s]) (Toc.init span t0)
        ((Toc.mach span count).sched horizon fuel (Toc.init span t0) evs) id := by
  rw [Mach.run_eq_fold]
  have h := partition_of_step (Toc.mach span count) (·.b) (fun s : Toc α => [s.s]) (fun _ => True)
    (fun _ _ _ _ => trivial) (fun s t e id _ => Toc.delta_step span count s t e id)
    ((Toc.mach span count).sched horizon fuel (Toc.init span t0) evs) (Toc.init span t0) id trivial
  rw [h]
  have : (Toc.init (α := α) span t0).b.pushedOf id = [] := by
    simp only [Toc.init, Toc.createTimer_b, Base.pushedOf_subscribe, Base.pushedOf_outerNext, Base.pushedOf_newWin]; simp [Base.pushedOf]
  rw [this, List.nil_append]

/-! ## windows_end_with_source

In ANY state of the operator (reachable or not) in which it still listens to the source: when the source
terminates with `e` (`none` = completed, `some err` = error), every window of the operator's open set that has not
ended yet ends with exactly that terminal, and the outer observer is stopped (it got the terminal unless it was
stopped before). -/

theorem windows_end_with_source_count (count skip : Nat) (s : Cnt α) (t : Nat) (e : Option Err)
    (hl : s.b.live.contains 0 = true) :
    let s' := (Cnt.mach count skip).step s t (.src 0 (endNotif e))
    (∀ id ∈ s.q, id < s.b.wins.length → s.b.endedOf id = none → s'.b.endedOf id = some e) ∧ s'.b.outerStopped = true :=
  Cnt.ends count skip s t _ e rfl hl

theorem windows_end_with_source_boundaries (s : Bnd α) (t k : Nat) (hk : k = 0 ∨ k = 1) (e : Option Err)
    (hl : s.b.live.contains k = true) :
    let s' := Bnd.mach.step s t (.src k (endNotif e))
    (∀ id ∈ [s.cur], id < s.b.wins.length → s.b.endedOf id = none → s'.b.endedOf id = some e) ∧ s'.b.outerStopped = true :=
  Bnd.ends s t k _ e hk rfl hl

theorem windows_end_with_source_when (raiseAt : Option Nat) (pool : Nat) (s : Whn α) (t : Nat) (e : Option Err)
    (hl : s.b.live.contains 0 = true) :
    let s' := (Whn.mach raiseAt pool).step s t (.src 0 (endNotif e))
    (∀ id ∈ [s.cur], id < s.b.wins.length → s.b.endedOf id = none → s'.b.endedOf id = some e) ∧ s'.b.outerStopped = true :=
  Whn.ends raiseAt pool s t _ e rfl hl

/-- **windows_end_when_mapper_raises.** `window_when_`: when the closing mapper raises (its `s.calls`-th call), the
open window fails with that exception and the outer observer is stopped (shared `on_error`; repo fix c2c9edd). -/
theorem windows_end_when_mapper_raises (pool : Nat) (s : Whn α) :
    let s' := Whn.createClosing (some s.calls) pool s
    (∀ id ∈ [s.cur], id < s.b.wins.length → s.b.endedOf id = none →
        s'.b.endedOf id = some (some s!"cm{s.calls}")) ∧ s'.b.outerStopped = true := by
  simp only [Whn.createClosing, Whn.createClosingF, beq_self_eq_true, if_true, Whn.onEnd, Base.os_outerEnd, and_true]
  intro id hid hlt hnn
  rw [Base.endedOf_outerEnd]
  exact endsAll_single s.b s.cur (some s!"cm{s.calls}") id hid hlt hnn

/-- **when_mapper_raise_asis** (AsIs witness, the handler before repo fix c2c9edd): the raising mapper reached only
the outer observer — the open window stays open and the source stays subscribed. -/
theorem when_mapper_raise_asis :
    let s0 : Whn Nat := { b := (((({ now := 200 } : Base Nat).newWin.1).outerNext 0).subscribe 0), cur := 0 }
    let s := Whn.createClosingAsIs (some 0) s0
    s.b.endedOf 0 = none ∧ s.b.outerStopped = true ∧ s.b.live = [0] ∧
      (Whn.createClosing (some 0) 1 s0).b.endedOf 0 = some (some "cm0") ∧ (Whn.createClosing (some 0) 1 s0).b.live = [] := by
  decide

theorem windows_end_with_source_time (shift : Nat) (s : Tim α) (t : Nat) (e : Option Err)
    (hl : s.b.live.contains 0 = true) :
    let s' := (Tim.mach shift).step s t (.src 0 (endNotif e))
    (∀ id ∈ s.queue, id < s.b.wins.length → s.b.endedOf id = none → s'.b.endedOf id = some e) ∧ s'.b.outerStopped = true :=
  Tim.ends shift s t _ e rfl hl

theorem windows_end_with_source_time_or_count (span count : Nat) (s : Toc α) (t : Nat) (e : Option Err)
    (hl : s.b.live.contains 0 = true) :
    let s' := (Toc.mach span count).step s t (.src 0 (endNotif e))
    (∀ id ∈ [s.s], id < s.b.wins.length → s.b.endedOf id = none → s'.b.endedOf id = some e) ∧ s'.b.outerStopped = true :=
  Toc.ends span count s t _ e rfl hl

/-! ### closed windows have ended; hence after the source's terminal EVERY window has ended

`closed_windows_ended_*`: in every state of every run, each window ever created is in the operator's open set or has
already ended.  `all_windows_end_with_source_*`: in every reachable state in which the operator listens to the
source, the step of a source terminal leaves no window un-ended (count: `wwc_ends_with_source`). -/

theorem closed_windows_ended_boundaries (t0 : Nat) (bsync : Option (Notif Unit)) (evs : List (Nat × Ev α)) :
    let s := Bnd.run (Bnd.init t0 bsync) evs
    ∀ id, id < s.b.wins.length → id ∈ [s.cur] ∨ (s.b.endedOf id).isSome = true := by
  intro s; show ClosedB s.b [s.cur]
  simp only [s]; rw [Bnd.run_eq_fold]
  exact (fold_inv Bnd.mach Bnd.KInv (fun s t e h => Bnd.kinv_step s t e h) evs _ (Bnd.kinv_init t0 bsync)).2

theorem closed_windows_ended_when (raiseAt : Option Nat) (pool t0 : Nat) (sync : List (Option (Option Err))) (evs : List (Nat × Ev α)) :
    let s := Whn.run raiseAt pool (Whn.init raiseAt pool t0 sync) evs
    ∀ id, id < s.b.wins.length → id ∈ [s.cur] ∨ (s.b.endedOf id).isSome = true := by
  intro s; show ClosedB s.b [s.cur]
  simp only [s]; rw [Whn.run_eq_fold]
  exact (fold_inv (Whn.mach raiseAt pool) Whn.KInv (fun s t e h => Whn.kinv_step raiseAt pool s t e h) evs _
    (Whn.kinv_init raiseAt pool t0 sync)).2

theorem closed_windows_ended_time (span shift t0 : Nat) (evs : List (Nat × Ev α)) :
    let s := (Tim.mach shift).fold (Tim.init span shift t0) evs
    ∀ id, id < s.b.wins.length → id ∈ s.queue ∨ (s.b.endedOf id).isSome = true :=
  (fold_inv (Tim.mach shift) Tim.KInv (fun s t e h => Tim.kinv_step shift s t e h) evs _ (Tim.kinv_init span shift t0)).2

theorem closed_windows_ended_time_or_count (span count t0 : Nat) (evs : List (Nat × Ev α)) :
    let s := (Toc.mach span count).fold (Toc.init span t0) evs
    ∀ id, id < s.b.wins.length → id ∈ [s.s] ∨ (s.b.endedOf id).isSome = true :=
  (fold_inv (Toc.mach span count) Toc.KInv (fun s t e h => Toc.kinv_step span count s t e h) evs _ (Toc.kinv_init span t0)).2

theorem all_windows_end_with_source_boundaries (t0 : Nat) (bsync : Option (Notif Unit)) (evs : List (Nat × Ev α)) (t k : Nat) (hk : k = 0 ∨ k = 1)
    (e : Option Err) (hl : (Bnd.run (Bnd.init t0 bsync) evs).b.live.contains k = true) :
    let s' := Bnd.mach.step (Bnd.run (Bnd.init t0 bsync) evs) t (.src k (endNotif e))
    ∀ id, id < s'.b.wins.length → (s'.b.endedOf id).isSome = true := by
  rw [Bnd.run_eq_fold] at hl ⊢
  exact Bnd.all_ended _ t k hk e hl (fold_inv Bnd.mach Bnd.KInv (fun s t e h => Bnd.kinv_step s t e h) evs _ (Bnd.kinv_init t0 bsync))

theorem all_windows_end_with_source_when (raiseAt : Option Nat) (pool t0 : Nat) (sync : List (Option (Option Err))) (evs : List (Nat × Ev α)) (t : Nat)
    (e : Option Err) (hl : (Whn.run raiseAt pool (Whn.init raiseAt pool t0 sync) evs).b.live.contains 0 = true) :
    let s' := (Whn.mach raiseAt pool).step (Whn.run raiseAt pool (Whn.init raiseAt pool t0 sync) evs) t (.src 0 (endNotif e))
    ∀ id, id < s'.b.wins.length → (s'.b.endedOf id).isSome = true := by
  rw [Whn.run_eq_fold] at hl ⊢
  exact Whn.all_ended raiseAt pool _ t e hl (fold_inv (Whn.mach raiseAt pool) Whn.KInv
    (fun s t e h => Whn.kinv_step raiseAt pool s t e h) evs _ (Whn.kinv_init raiseAt pool t0 sync))

theorem all_windows_end_with_source_time (span shift t0 : Nat) (evs : List (Nat × Ev α)) (t : Nat) (e : Option Err)
    (hl : ((Tim.mach shift).fold (Tim.init span shift t0) evs).b.live.contains 0 = true) :
    let s' := (Tim.mach shift).step ((Tim.mach shift).fold (Tim.init span shift t0) evs) t (.src 0 (endNotif e))
    ∀ id, id < s'.b.wins.length → (s'.b.endedOf id).isSome = true :=
  Tim.all_ended shift _ t e hl (fold_inv (Tim.mach shift) Tim.KInv (fun s t e h => Tim.kinv_step shift s t e h) evs _
    (Tim.kinv_init span shift t0))

theorem all_windows_end_with_source_time_or_count (span count t0 : Nat) (evs : List (Nat × Ev α)) (t : Nat) (e : Option Err)
    (hl : ((Toc.mach span count).fold (Toc.init span t0) evs).b.live.contains 0 = true) :
    let s' := (Toc.mach span count).step ((Toc.mach span count).fold (Toc.init span t0) evs) t (.src 0 (endNotif e))
    ∀ id, id < s'.b.wins.length → (s'.b.endedOf id).isSome = true :=
  Toc.all_ended span count _ t e hl (fold_inv (Toc.mach span count) Toc.KInv (fun s t e h => Toc.kinv_step span count s t e h)
    evs _ (Toc.kinv_init span t0))

/-- **toggle_windows_end_partial.** `window_toggle_` (= `group_join_`): the full statement (as above, for every
terminal `e`) is FALSE of the code as written — see `toggle_completion_counter`.  Proved part: the source FAILS. The
excluded shape is exactly "toggle window open when the source COMPLETES" (known finding
C18-toggle-open-at-source-completion). -/
theorem toggle_windows_end_partial (raiseAt : Option Nat) (pool : Nat) (s : Tgl α) (t : Nat) (err : Err)
    (hl : s.b.live.contains 0 = true) :
    let s' := (Tgl.mach raiseAt pool).step s t (.src 0 (.error err))
    (∀ id ∈ Tgl.openOf s, id < s.b.wins.length → s.b.endedOf id = none → s'.b.endedOf id = some (some err)) ∧
      s'.b.outerStopped = true :=
  Tgl.ends_error raiseAt pool s t err hl

/-- **toggle_completion_counter.** The replayed defect on the as-is model: source 1@210, 2@250, 3@290, C@300;
openings @240, @280; closings never.  After the source completed both windows are still open (never end), and the
outer observer has not completed. -/
theorem toggle_completion_counter :
    let s := Tgl.run none 0 (Tgl.init 200)
      [(210, .src 0 (.next 1)), (240, .src 1 (.next 0)), (250, .src 0 (.next 2)), (280, .src 1 (.next 0)),
       (290, .src 0 (.next 3)), (300, .src 0 (.completed : Notif Nat))]
    s.b.wins.map (fun w => (w.pushed, w.ended)) = [([2, 3], none), ([3], none)] ∧ s.b.outerStopped = false ∧
      s.b.live = [1] := by decide

/-! ## buffer_eq_window : each buffer equals the contents of its window

Buffers are `window ∘ flat_map(to_list)`: `BufView` (RxModel/WinBuf.lean) consumes the window machine's log.
`buffer_is_items`: when the view consumes the completion of window `id` it emits exactly `itemsOf seen id` — the
elements the window's subscriber received so far (dropped by `buffer_with_count` when empty) — and `seen` is exactly
the log consumed so far (`buffer_view_seen`).  `buffer_eq_window_*`: in every state of every run of every window
machine (any event trace, dispose and ticks anywhere), for every window that still has its subscriber attached or
whose terminal was delivered to it, the elements that subscriber received are exactly the elements pushed into the
window (`pushed`) — hence every buffer equals the contents of its window. -/

theorem buffer_is_items (nonEmpty : Bool) (v : BufView α) (t id : Nat) (hs : v.stopped = false) :
    (BufView.feed nonEmpty v (t, .win id .completed)).out =
      v.out ++ (if nonEmpty && (itemsOf v.seen id).isEmpty then [] else [(t, BOut.outer (.next (itemsOf v.seen id)))])
        ++ (if v.outerDone && v.active - 1 == 0 then [(t, BOut.outer .completed)] else []) :=
  BufView.feed_completed nonEmpty v t id hs

theorem buffer_view_seen (nonEmpty : Bool) (l : List (Nat × Out α)) :
    (l.foldl (BufView.feed nonEmpty) {}).seen = l := by
  rw [BufView.seen_fold]; rfl

/-- the statement about one state. -/
def ItemsArePushed (b : Base α) : Prop :=
  ∀ id w, b.wins[id]? = some w → (w.attached = true ∨ endLogged b.log id) → itemsOf b.log id = w.pushed

theorem buffer_eq_window_count (count skip t0 : Nat) (evs : List (Nat × Ev α)) :
    ItemsArePushed (Cnt.run count skip (Cnt.init t0) evs).b := by
  rw [Cnt.run_eq_fold]
  exact (J_fold (Cnt.mach count skip) (·.b) (fun s t e h => Cnt.J_step count skip s t e h) evs _ (Cnt.J_init t0)).items

theorem buffer_eq_window_boundaries (t0 : Nat) (bsync : Option (Notif Unit)) (evs : List (Nat × Ev α)) :
    ItemsArePushed (Bnd.run (Bnd.init t0 bsync) evs).b := by
  rw [Bnd.run_eq_fold]
  exact (J_fold Bnd.mach (·.b) (fun s t e h => Bnd.J_step s t e h) evs _ (Bnd.J_init t0 bsync)).items

theorem buffer_eq_window_when (raiseAt : Option Nat) (pool t0 : Nat) (sync : List (Option (Option Err))) (evs : List (Nat × Ev α)) :
    ItemsArePushed (Whn.run raiseAt pool (Whn.init raiseAt pool t0 sync) evs).b := by
  rw [Whn.run_eq_fold]
  exact (J_fold (Whn.mach raiseAt pool) (·.b) (fun s t e h => Whn.J_step raiseAt pool s t e h) evs _
    (Whn.J_init raiseAt pool t0 sync)).items

theorem buffer_eq_window_toggle (raiseAt : Option Nat) (pool t0 : Nat) (sync : List (Option (Option Err))) (evs : List (Nat × Ev α)) :
    ItemsArePushed (Tgl.run raiseAt pool (Tgl.init t0 sync) evs).b := by
  rw [Tgl.run_eq_fold]
  exact (J_fold (Tgl.mach raiseAt pool) (·.b) (fun s t e h => Tgl.J_step raiseAt pool s t e h) evs _ (Tgl.J_init t0 sync)).items

theorem buffer_eq_window_time (span shift t0 horizon fuel : Nat) (evs : List (Nat × Ev α)) :
    ItemsArePushed ((Tim.mach shift).run horizon fuel (Tim.init span shift t0) evs).b := by
  rw [Mach.run_eq_fold]
  exact (J_fold (Tim.mach shift) (·.b) (fun s t e h => Tim.J_step shift s t e h) _ _ (Tim.J_init span shift t0)).items

theorem buffer_eq_window_time_or_count (span count t0 horizon fuel : Nat) (evs : List (Nat × Ev α)) :
    ItemsArePushed ((Toc.mach span count).run horizon fuel (Toc.init span t0) evs).b := by
  rw [Mach.run_eq_fold]
  exact (J_fold (Toc.mach span count) (·.b) (fun s t e h => Toc.J_step span count s t e h) _ _ (Toc.J_init span t0)).items

/-! ### buffer_x = window_x ∘ flat_map(to_list), at model level

`buffer_run_is_view_*`: what the buffer subscriber sees (`Mach.bufLog`, the thing the driver compares with the real
`buffer_*` operators) is exactly the `flat_map(to_list)` view (`viewOf`) of the log of a run of the SAME window machine
— the run `runBuf` performs: the input events, plus a `dispose` fed at the moment the view delivers a terminal
downstream (the downstream `AutoDetachObserver` disposing the chain).  `buffer_count_filter`: the view used for
`buffer_with_count` (`nonEmpty = true`) is the plain view followed by `filter(len > 0)`.  Together with
`buffer_eq_window_*` only the library's own composition `source.pipe(window_x, flat_map(to_list)[, filter])` is left
to the correspondence. -/

theorem buffer_count_filter (l : List (Nat × Out α)) :
    (viewOf true l).out = (viewOf false l).out.filter notEmptyBuf := view_filter l

theorem buffer_run_is_view_count (count skip horizon fuel t0 : Nat) (evs : List (Nat × Ev α)) :
    (Cnt.mach count skip).bufLog true horizon fuel t0 (Cnt.init t0) evs =
      (viewOf true ((Cnt.mach count skip).runBuf true horizon fuel
        ((Cnt.mach count skip).bufAfter true 0 t0 (Cnt.init t0) {}) evs).1.b.log).out :=
  Mach.bufLog_is_view (Cnt.mach count skip) (fun s t e => Cnt.Pre_step count skip s t e (Pre.refl s.b)) _ _ _ _ _ _

theorem buffer_run_is_view_boundaries (horizon fuel t0 : Nat) (bsync : Option (Notif Unit)) (evs : List (Nat × Ev α)) :
    Bnd.mach.bufLog false horizon fuel t0 (Bnd.init t0 bsync) evs =
      (viewOf false (Bnd.mach.runBuf false horizon fuel (Bnd.mach.bufAfter false 0 t0 (Bnd.init t0 bsync) {}) evs).1.b.log).out :=
  Mach.bufLog_is_view Bnd.mach (fun s t e => Bnd.Pre_step s t e (Pre.refl s.b)) _ _ _ _ _ _

theorem buffer_run_is_view_when (raiseAt : Option Nat) (pool horizon fuel t0 : Nat) (sync : List (Option (Option Err))) (evs : List (Nat × Ev α)) :
    (Whn.mach raiseAt pool).bufLog false horizon fuel t0 (Whn.init raiseAt pool t0 sync) evs =
      (viewOf false ((Whn.mach raiseAt pool).runBuf false horizon fuel
        ((Whn.mach raiseAt pool).bufAfter false 0 t0 (Whn.init raiseAt pool t0 sync) {}) evs).1.b.log).out :=
  Mach.bufLog_is_view (Whn.mach raiseAt pool) (fun s t e => Whn.Pre_step raiseAt pool s t e (Pre.refl s.b)) _ _ _ _ _ _

theorem buffer_run_is_view_toggle (raiseAt : Option Nat) (pool horizon fuel t0 : Nat) (sync : List (Option (Option Err))) (evs : List (Nat × Ev α)) :
    (Tgl.mach raiseAt pool).bufLog false horizon fuel t0 (Tgl.init t0 sync) evs =
      (viewOf false ((Tgl.mach raiseAt pool).runBuf false horizon fuel
        ((Tgl.mach raiseAt pool).bufAfter false 0 t0 (Tgl.init t0 sync) {}) evs).1.b.log).out :=
  Mach.bufLog_is_view (Tgl.mach raiseAt pool) (fun s t e => Tgl.Pre_step raiseAt pool s t e (Pre.refl s.b)) _ _ _ _ _ _

theorem buffer_run_is_view_time (span shift horizon fuel t0 : Nat) (evs : List (Nat × Ev α)) :
    (Tim.mach shift).bufLog false horizon fuel t0 (Tim.init span shift t0) evs =
      (viewOf false ((Tim.mach shift).runBuf false horizon fuel
        ((Tim.mach shift).bufAfter false 0 t0 (Tim.init span shift t0) {}) evs).1.b.log).out :=
  Mach.bufLog_is_view (Tim.mach shift) (fun s t e => Tim.Pre_step shift s t e (Pre.refl s.b)) _ _ _ _ _ _

theorem buffer_run_is_view_time_or_count (span count horizon fuel t0 : Nat) (evs : List (Nat × Ev α)) :
    (Toc.mach span count).bufLog false horizon fuel t0 (Toc.init span t0) evs =
      (viewOf false ((Toc.mach span count).runBuf false horizon fuel
        ((Toc.mach span count).bufAfter false 0 t0 (Toc.init span t0) {}) evs).1.b.log).out :=
  Mach.bufLog_is_view (Toc.mach span count) (fun s t e => Toc.Pre_step span count s t e (Pre.refl s.b)) _ _ _ _ _ _

/-! non-vacuity: a completed count window whose subscriber was attached; the view emits its contents -/
example : (((Cnt.mach 2 2).bufLog true 3000 100 200 (Cnt.init 200)
    [(210, .src 0 (.next 1)), (220, .src 0 (.next 2)), (230, .src 0 (.next (3 : Nat))), (240, .src 0 .completed)]).filterMap
      fun | (t, BOut.outer n) => some (t, n) | _ => none)
    = [(220, .next [1, 2]), (240, .next [3]), (240, .completed)] := by decide

/-! ## timer_chain : the create_timer sequence opens at k·shift and closes at k·shift+span -/

/-- **timer_chain.** For the first `n` timers armed by `create_timer` (any `n`, any span, any shift): the timers that
open a window (`is_shift`) are due at `shift, 2·shift, 3·shift, …` (the j-th one at `(j+1)·shift`), the timers that
close the oldest window (`is_span`) at `span, span+shift, span+2·shift, …` (the j-th one at `j·shift+span`), and the
due times never decrease.  Offsets are relative to the subscription instant. -/
theorem timer_chain (span shift n : Nat) :
    let tk := Chain.ticks shift n ⟨shift, span, 0⟩
    (∀ j, j < (tk.filter (·.isShift)).length → ((tk.filter (·.isShift)).map (·.at_))[j]? = some ((j + 1) * shift)) ∧
    (∀ j, j < (tk.filter (·.isSpan)).length → ((tk.filter (·.isSpan)).map (·.at_))[j]? = some (j * shift + span)) ∧
    (tk.map (·.at_)).Pairwise (· ≤ ·) := by
  refine ⟨fun j hj => ?_, fun j hj => ?_, Chain.ticks_sorted shift n _⟩
  · rw [Chain.shift_ticks, arithFrom_getElem? _ _ _ _ hj, Nat.succ_mul]; congr 1; simp; omega
  · rw [Chain.span_ticks, arithFrom_getElem? _ _ _ _ hj]; congr 1; simp; omega

/-- **wwt_window_k** (closed form of time windows). `window_with_time(span, shift)`, `shift ≥ 1`, subscribed at `t0`
to a hot source delivering the time-sorted elements `tx` (all after `t0`), nothing else yet.  `L` is the schedule
the machine follows (`Mach.run = fold` over it, `Mach.run_eq_fold`): the elements it gets to are a prefix of `tx`
(all of `tx` when the fuel suffices — fuel is a driver artefact), and every window `k` that exists holds exactly the
processed elements that arrived in `(t0 + k·shift, t0 + k·shift + span]` — the tie rule the code implements with
a hot source: an element arriving exactly when a window opens is not in it, one arriving exactly when it closes is. -/
theorem wwt_window_k (span shift t0 horizon fuel : Nat) (hs : 0 < shift) (tx : List (Nat × α))
    (hsorted : tx.Pairwise (fun p q => p.1 ≤ q.1)) (hpos : ∀ p ∈ tx, t0 < p.1) (k : Nat) :
    let L := (Tim.mach shift).sched horizon fuel (Tim.init span shift t0) (Cnt.nexts tx)
    let s := (Tim.mach shift).run horizon fuel (Tim.init span shift t0) (Cnt.nexts tx)
    (∃ rest, tx = elemsOf L ++ rest) ∧
    (k < s.b.wins.length → s.b.pushedOf k = ((elemsOf L).filter (inWin span shift t0 k)).map (·.2)) := by
  intro L s
  obtain ⟨hfair, rest, hpre⟩ := Mach.sched_fair (Tim.mach shift) horizon fuel (Tim.init span shift t0) tx hsorted
  refine ⟨⟨rest, hpre⟩, fun hk => ?_⟩
  obtain ⟨a', b', ρ', hinv⟩ := Tim.tinv_fair (span := span) (t0 := t0) hs L (Tim.init span shift t0) [] 0 0 0
    (Tim.tinv_init span shift t0) hfair
    (fun p hp => ⟨by have := hpos p (by rw [hpre]; exact List.mem_append_left _ hp); omega,
                  hpos p (by rw [hpre]; exact List.mem_append_left _ hp)⟩)
  have hs_eq : s = (Tim.mach shift).fold (Tim.init span shift t0) L := Mach.run_eq_fold _ _ _ _ _
  rw [hs_eq] at hk ⊢
  rw [hinv.len] at hk
  simpa using hinv.pushed k (by omega)

/-- **when_sync_closing_rotation.** `window_when_` with a closing observable that fires INSIDE its own subscribe for the
first window (`empty()`), followed by asynchronous closings @230, @250: the re-entrant rotation leaves the next live
closing subscription installed, so the later windows still close on their signals: `[[], [1, 2], [3], [4]]`, and the
subscription to the second closing (source id 2) lives from 200 to 230.  (Seeded change C18r2_1 — dropping the
intermediate SingleAssignmentDisposable — gives `[[], [1, 2, 3, 4]]` on the real code.) -/
theorem when_sync_closing_rotation :
    let s := Whn.run none 4 (Whn.init none 4 200 [some none])
      [(210, .src 0 (.next 1)), (220, .src 0 (.next 2)), (230, .src 2 (.next 0)), (240, .src 0 (.next 3)),
       (250, .src 3 (.next 0)), (260, .src 0 (.next 4)), (300, .src 0 (.completed : Notif Nat))]
    s.b.wins.map (fun w => (w.pushed, w.ended)) =
      [([], some none), ([1, 2], some none), ([3], some none), ([4], some none)] ∧
    s.b.log.filter (fun p => p.2 == .sub 2 || p.2 == .unsub 2) = [(200, .sub 2), (230, .unsub 2)] := by decide

/-! non-vacuity -/
example : (((Tim.mach 50).run 3000 100 (Tim.init 30 50 200)
    (Cnt.nexts [(210, 'a'), (230, 'b'), (250, 'c'), (260, 'd')])).b.wins.map (·.pushed) |>.take 2) = [['a', 'b'], ['d']] := by decide
example : Chain.ticks 50 4 ⟨50, 30, 0⟩ = [⟨30, false, true⟩, ⟨50, true, false⟩, ⟨80, false, true⟩, ⟨100, true, false⟩] := by decide
example : Chain.ticks 20 4 ⟨20, 50, 0⟩ = [⟨20, true, false⟩, ⟨40, true, false⟩, ⟨50, false, true⟩, ⟨60, true, false⟩] := by decide
example : Chain.ticks 10 2 ⟨10, 10, 0⟩ = [⟨10, true, true⟩, ⟨20, true, true⟩] := by decide
-- routing spec is not vacuous: boundaries at 240 splits [1 | 2]
example : (Bnd.run (Bnd.init 200) [(210, .src 0 (.next 1)), (240, .src 1 (.next 9)), (250, .src 0 (.next (2 : Nat)))]).b.wins.map (·.pushed)
    = [[1], [2]] := by decide
example : routed Bnd.mach (·.b) (fun s => [s.cur]) (Bnd.init 200)
    [(210, .src 0 (.next 1)), (240, .src 1 (.next 9)), (250, .src 0 (.next (2 : Nat)))] 1 = [2] := by decide
-- the premises of the end-with-source theorems are satisfiable: a live source with two open count windows
example : (Cnt.run 3 1 (Cnt.init 200) [(210, .src 0 (.next (1 : Nat)))]).q = [0, 1] ∧
    (Cnt.run 3 1 (Cnt.init 200) [(210, .src 0 (.next (1 : Nat)))]).b.live.contains 0 = true := by decide
example : ((Tgl.run none 0 (Tgl.init 200) [(240, .src 1 (.next 0)), (250, .src 0 (.next (2 : Nat))), (300, .src 0 (.error "x"))]).b.wins.map (·.ended))
    = [some (some "x")] := by decide

end C18

import RxProofs.Lemmas.ThrSO
/-!
# C32 — observe_on / ScheduledObserver: every notification once, in order, serially, no lost wake-up

Model: `RxModel/ThrSO.lean` (atomic-step model of `ScheduledObserver.ensure_active/run` and the
`ObserveOnObserver` producers).  Every theorem below is about `run raises (init progs nc nd) sched`:
ANY number of producer threads with ANY call lists `progs`, ANY number `nc` of scheduler threads
able to execute the scheduled `run` action, ANY behaviour `raises` of the downstream observer
(which deliveries raise) and ANY schedule `sched` (list of thread ids, unbounded).

"received" = the order of the (atomic, unlocked) `queue.append` steps; "delivered" = the order in
which the downstream callbacks are entered.
-/
namespace C32
open Thr Thr.SO

variable {α : Type}

/-- every state reached from an initial state satisfies the invariant -/
theorem reach_inv (raises : Nat → Bool) (progs : List (List (Call α))) (nc nd : Nat) (sched : List Tid) :
    SInv (run raises (init progs nc nd) sched) :=
  run_inv raises _ sched (init_inv progs nc nd)

/-- **In order**: at every moment of every interleaving the sequence handed to the downstream
observer is a prefix of the sequence received (so: no reordering, no duplication, no invention). -/
theorem delivered_is_prefix_in_order (raises : Nat → Bool) (progs : List (List (Call α))) (nc nd : Nat)
    (sched : List Tid) :
    (run raises (init progs nc nd) sched).delivered <+: (run raises (init progs nc nd) sched).received :=
  (reach_inv raises progs nc nd sched).pref

/-- **Conservation**: as long as no delivery has raised, every received notification is in exactly one
place — already delivered, popped and about to be delivered, or still queued — in received order. -/
theorem conservation (raises : Nat → Bool) (progs : List (List (Call α))) (nc nd : Nat) (sched : List Tid)
    (h : (run raises (init progs nc nd) sched).raisedG = false) :
    let s := run raises (init progs nc nd) sched
    s.delivered ++ s.cons.flatMap itemsC ++ s.queue = s.received :=
  (reach_inv raises progs nc nd sched).order h

theorem quiescent_facts (s : Sys α) (h : quiescent s = true) :
    sumBy appendedP s.prods = 0 ∧ sumBy owingP s.prods = 0 ∧ s.pendingRuns = 0 ∧ sumBy actC s.cons = 0 ∧
      s.cons.flatMap itemsC = [] := by
  simp only [quiescent, Bool.and_eq_true, List.all_eq_true, beq_iff_eq] at h
  obtain ⟨⟨⟨h1, h2⟩, h3⟩, _⟩ := h
  refine ⟨?_, ?_, h2, ?_, ?_⟩
  · apply sumBy_eq_zero_of_forall; intro p hp
    have := h1 p hp
    rcases p with ⟨calls, pc⟩
    cases calls <;> simp_all [prodDone]
  · apply sumBy_eq_zero_of_forall; intro p hp
    have := h1 p hp
    rcases p with ⟨calls, pc⟩
    cases calls <;> simp_all [prodDone]
  · apply sumBy_eq_zero_of_forall; intro c hc
    have := h3 c hc
    cases c <;> simp_all [CPc.isIdle, actC]
  · simp only [List.flatMap_eq_nil_iff]; intro c hc
    have := h3 c hc
    cases c <;> simp_all [CPc.isIdle, itemsC]

/-- **No lost wake-up**: in every reachable state in which nothing is left to run (all producers
returned, no `run` pending on the scheduler, no `run` executing) the queue is empty, unless the
observer has faulted — or `dispose()` cancelled the pending run (`lostToken`; only possible after the SerialDisposable was
disposed, `lostToken_only_after_dispose`). -/
theorem no_lost_wakeup (raises : Nat → Bool) (progs : List (List (Call α))) (nc nd : Nat) (sched : List Tid)
    (hq : quiescent (run raises (init progs nc nd) sched) = true) :
    (run raises (init progs nc nd) sched).queue = [] ∨ (run raises (init progs nc nd) sched).hasFaulted = true ∨
      (run raises (init progs nc nd) sched).lostToken = true := by
  have inv := reach_inv raises progs nc nd sched
  generalize run raises (init progs nc nd) sched = s at *
  obtain ⟨q1, q2, q3, q4, _⟩ := quiescent_facts s hq
  cases hf : s.hasFaulted
  · cases hl : s.lostToken
    · left
      by_cases hqe : s.queue = []
      · exact hqe
      · exfalso
        rcases inv.wake hqe hf with h | h
        · have := inv.tok; simp [h, hf, hl] at this; omega
        · omega
    · right; right; rfl
  · right; left; rfl

/-- **Exactly once**: when nothing is left to run and no delivery raised, the downstream observer has
been handed exactly the received sequence — every notification once, in order. -/
theorem exactly_once (raises : Nat → Bool) (progs : List (List (Call α))) (nc nd : Nat) (sched : List Tid)
    (hq : quiescent (run raises (init progs nc nd) sched) = true)
    (hf : (run raises (init progs nc nd) sched).hasFaulted = false)
    (hl : (run raises (init progs nc nd) sched).lostToken = false) :
    (run raises (init progs nc nd) sched).delivered = (run raises (init progs nc nd) sched).received := by
  have inv := reach_inv raises progs nc nd sched
  have nl := no_lost_wakeup raises progs nc nd sched hq
  generalize run raises (init progs nc nd) sched = s at *
  obtain ⟨q1, q2, q3, q4, q5⟩ := quiescent_facts s hq
  have hr : s.raisedG = false := by
    cases hr : s.raisedG
    · rfl
    · obtain ⟨_, _, _, d4⟩ := inv.dead hr
      have := inv.tok; simp [d4, hf, hl] at this; omega
  have ho := inv.order hr
  rcases nl with h | h | h
  · rw [q5, h] at ho; simpa using ho
  · simp [hf] at h
  · simp [hl] at h

/-- the ownership token is only ever lost through `dispose()`: without a dispose call (`nd = 0`, the observe_on path) or
before the SerialDisposable is disposed, `lostToken` is false. -/
theorem lostToken_only_after_dispose (raises : Nat → Bool) (progs : List (List (Call α))) (nc nd : Nat) (sched : List Tid)
    (h : (run raises (init progs nc nd) sched).lostToken = true) :
    (run raises (init progs nc nd) sched).serialDisposed = true :=
  (reach_inv raises progs nc nd sched).lt h

/-- **Serial**: at most one `run` is pending on the scheduler or executing, over all scheduler
threads, in every reachable state. -/
theorem at_most_one_run_active (raises : Nat → Bool) (progs : List (List (Call α))) (nc nd : Nat) (sched : List Tid) :
    (run raises (init progs nc nd) sched).pendingRuns + sumBy actC (run raises (init progs nc nd) sched).cons ≤ 1 := by
  have inv := reach_inv raises progs nc nd sched
  have := inv.tok
  have : (run raises (init progs nc nd) sched).isAcquired.toNat ≤ 1 := Bool.toNat_le _
  omega

/-- never two deliveries at once: at most one thread is inside a downstream callback. -/
theorem deliveries_never_overlap (raises : Nat → Bool) (progs : List (List (Call α))) (nc nd : Nat) (sched : List Tid) :
    sumBy delivC (run raises (init progs nc nd) sched).cons ≤ 1 := by
  have := at_most_one_run_active raises progs nc nd sched
  have := deliv_le_busy (run raises (init progs nc nd) sched).cons
  have := busy_le_act (run raises (init progs nc nd) sched).cons
  omega

theorem raised_step (raises : Nat → Bool) (s : Sys α) (t : Tid) (inv : SInv s) (hr : s.raisedG = true) :
    (step raises s t).delivered = s.delivered ∧ (step raises s t).raisedG = true := by
  obtain ⟨d1, d2, d3, d4⟩ := inv.dead hr
  unfold step stepL
  cases t with
  | prod i =>
    dsimp only
    split
    · exact ⟨rfl, hr⟩
    · rename_i p hp
      rcases p with ⟨calls, pc⟩
      cases calls with
      | nil => simp [prodStep, hr]
      | cons c rest =>
        cases pc <;> simp only [prodStep] <;> (repeat' split) <;> simp [hr]
  | cons j =>
    dsimp only
    split
    · exact ⟨rfl, hr⟩
    · rename_i pc hp
      have hb := sumBy_le_mem busyC _ j pc hp
      cases pc <;> simp only [consStep] <;> (repeat' split) <;> simp [hr] <;> simp [busyC] at hb <;> omega
  | disp k =>
    dsimp only
    split
    · exact ⟨rfl, hr⟩
    · rename_i pc hp
      cases pc <;> simp only [dispStep] <;> (repeat' split) <;> simp [hr]

/-- **After a fault, nothing**: once a delivery has raised, no schedule whatsoever makes the downstream
observer receive anything further. -/
theorem after_fault_nothing (raises : Nat → Bool) (progs : List (List (Call α))) (nc nd : Nat) (sched more : List Tid)
    (hr : (run raises (init progs nc nd) sched).raisedG = true) :
    (run raises (init progs nc nd) (sched ++ more)).delivered = (run raises (init progs nc nd) sched).delivered := by
  rw [run_append]
  have inv := reach_inv raises progs nc nd sched
  generalize run raises (init progs nc nd) sched = s at *
  induction more generalizing s with
  | nil => rfl
  | cons t ts ih =>
    have h := raised_step raises s t inv hr
    have := ih (step raises s t) h.2 (step_inv raises s t inv)
    simp only [run, List.foldl_cons] at this ⊢
    rw [this, h.1]

/-- the fault flag is only ever set after a delivery raised, and then the token is never released:
no further `run` is scheduled or started. -/
theorem after_fault_no_run (raises : Nat → Bool) (progs : List (List (Call α))) (nc nd : Nat) (sched : List Tid)
    (hr : (run raises (init progs nc nd) sched).raisedG = true) :
    (run raises (init progs nc nd) sched).pendingRuns = 0 ∧ sumBy busyC (run raises (init progs nc nd) sched).cons = 0 := by
  obtain ⟨d1, _, d3, _⟩ := (reach_inv raises progs nc nd sched).dead hr
  exact ⟨d1, d3⟩

/-! ## Non-vacuity: concrete interleavings -/

private def p1 : List (List (Call Nat)) := [[⟨1, false⟩, ⟨2, false⟩, ⟨3, true⟩, ⟨4, false⟩]]
open Tid in
/-- producer emits 1, the scheduler thread starts draining while the producer appends 2 between the
consumer's pop and delivery, the consumer releases the token exactly when 3 is being appended, the
4th call is dropped by `is_stopped`. Ends quiescent with everything delivered. -/
private def sch1 : List Tid :=
  [prod 0, prod 0, prod 0, prod 0, prod 0,   -- check, append 1, ea (owner), schedule(run), store its disposable
   cons 0, cons 0,                      -- run begins, pop 1
   prod 0, prod 0,                      -- check, append 2
   cons 0, cons 0, cons 0,              -- deliver 1 (start, end), re-schedule
   prod 0,                              -- ea: not owner
   cons 0, cons 0, cons 0, cons 0, cons 0,   -- run: pop 2, deliver, re-schedule
   prod 0, prod 0,                      -- check, mark (terminal)
   cons 0, cons 0,                      -- run: queue empty -> release
   prod 0, prod 0, prod 0, prod 0,      -- append 3, ea (owner again), schedule, store
   prod 0,                              -- 4th call skipped
   cons 0, cons 0, cons 0, cons 0, cons 0, cons 0, cons 0]
example : quiescent (run (fun _ => false) (init p1 1) sch1) = true := by decide
example : (run (fun _ => false) (init p1 1) sch1).delivered = [1, 2, 3] := by decide
example : (run (fun _ => false) (init p1 1) sch1).received = [1, 2, 3] := by decide
/-- the second delivery raises: the third notification is received but never delivered. -/
example : (run (fun k => k == 1) (init p1 1) sch1).hasFaulted = true ∧
    (run (fun k => k == 1) (init p1 1) sch1).delivered = [1, 2] ∧
    (run (fun k => k == 1) (init p1 1) sch1).received = [1, 2, 3] ∧
    quiescent (run (fun k => k == 1) (init p1 1) sch1) = true := by decide

/-- dispose() while the run scheduled by ensure_active is still pending: the run is cancelled, the received
notification is never delivered, and the state is quiescent with a non-empty queue — exactly the `lostToken` case. -/
private def schD : List Tid :=
  [Tid.prod 0, Tid.prod 0, Tid.prod 0, Tid.prod 0, Tid.prod 0, Tid.disp 0, Tid.disp 0, Tid.disp 0, Tid.cons 0]
example : let s := run (fun _ => false) (init ([[⟨1, false⟩]] : List (List (Call Nat))) 1 1) schD
    quiescent s = true ∧ s.queue = [1] ∧ s.delivered = [] ∧ s.lostToken = true ∧ s.serialDisposed = true := by decide

end C32

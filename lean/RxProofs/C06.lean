import RxProofs.Lemmas.AggFold
import RxProofs.Lemmas.AggSeqEq
import RxProofs.Lemmas.AggSeqOrient
import RxProofs.Lemmas.AggHash
/-!
# C06 — aggregating operators match their reference semantics

Property theorems only.  `op.out lag raw` is what the subscriber of the modelled operator sees when its source
delivers the *raw* notification list `raw` (conforming or not; `elems raw` / `ending raw` are the elements before
the first terminal and how the sequence ends — `open` = not terminated yet), with prompt (`lag = false`) or lagging
(`lag = true`) disposal.  Every theorem holds for unterminated inputs too, so together with `out_prefix` /
`outT_times` (outputs are produced synchronously, at the time of the input that causes them) each of them also says
*when* the operator emits: the value appears at the first prefix of the input on which the right-hand side is
non-empty.  User callbacks are arbitrary functions into `Except Err _` (they may raise at any element).
-/

namespace C06
open Agg

/-! ## Framework -/

/-- what the subscriber sees does not depend on how promptly the source is disposed -/
theorem out_lag_irrelevant {α β} (op : Op α β) (lag lag' : Bool) (raw : List (Notif α)) :
    op.out lag raw = op.out lag' raw := Op.out_lag_irrelevant op lag lag' raw

/-- `source.pipe(f, g)`: the subscriber sees what `g` produces from what `f` delivers -/
theorem out_comp {α β γ} (f : Op α β) (g : Op β γ) (lag lag₁ lag₂ : Bool) (raw : List (Notif α)) :
    (f ⨾ g).out lag raw = g.out lag₂ (f.out lag₁ raw) := Op.out_comp f g lag lag₁ lag₂ raw

/-- outputs only grow with the input: what was emitted after `a` stays emitted after `a ++ b` -/
theorem out_prefix {α β} (op : Op α β) (lag : Bool) (a b : List (Notif α)) :
    ∃ r, op.out lag (a ++ b) = op.out lag a ++ r := ⟨_, Op.out_prefix op lag a b⟩

/-- the timed run is the untimed run with time tags -/
theorem outT_untimed {α β τ} (op : Op α β) (lag : Bool) (raw : List (τ × Notif α)) :
    (op.outT lag raw).map (·.2) = op.out lag (raw.map (·.2)) := Op.outT_untimed op lag raw

/-- every output caused by the inputs `b` (after `a`) carries the time of one of the inputs in `b` -/
theorem outT_times {α β τ} (op : Op α β) (lag : Bool) (a b : List (τ × Notif α)) :
    ∃ r, op.outT lag (a ++ b) = op.outT lag a ++ r ∧ ∀ p ∈ r, p.1 ∈ b.map (·.1) := Op.outT_append op lag a b

/-- **the run is the C01 observer model around the handlers**: what the subscriber sees is what the downstream
`AutoDetachObserver` (`Core.Ado`, callbacks not raising) delivers of the handlers' calls over what the upstream
`AutoDetachObserver` delivers of the raw source notifications. -/
theorem out_through_ado {α β} (op : Op α β) (lag : Bool) (raw : List (Notif α)) :
    op.out lag raw
      = Ado.delivered (fun _ => false) {}
          ((op.feed op.init (Ado.delivered (fun _ => false) {} (raw.map toCall))).map toCall) := by
  rw [Op.out_eq, cut_eq_ado 0, cut_eq_ado 0]

example : (countO (none : Option (Nat → Except Err Bool))).outT false
    [(210, .next 5), (220, .next 7), (230, .completed), (240, .next 9)] = [(230, .next 2), (230, .completed)] := by decide

/-! ## scan, reduce, count, sum, average -/

/-- `scan` = `itertools.accumulate`, cut by the first raising accumulator call -/
theorem scan_eq {α β} (f : β → α → Except Err β) (seed : Option β) (inj : α → β) (lag : Bool) (raw : List (Notif α)) :
    (scanO f seed inj).out lag raw = (scanC f seed inj none (elems raw) (ending raw)).notifs :=
  scanO_out f seed inj lag raw

example : (scanO (fun a x => if x = 0 then .error "boom" else .ok (a + x)) (some 10) id).out true
    [.next 1, .next 2, .next 0, .next 4, .completed] = [.next 11, .next 13, .error "boom"] := by decide

/-- `reduce(acc, seed)` = `functools.reduce(acc, xs, seed)` at completion; the accumulator's exception at once -/
theorem reduce_eq {α β} (f : β → α → Except Err β) (sd : β) (inj : α → β) (lag : Bool) (raw : List (Notif α)) :
    (reduceO f (some sd) inj).out lag raw = foldRef ((elems raw).foldlM f sd) id (ending raw) := by
  simp only [reduceO]
  rw [Op.out_comp _ _ lag lag lag, lastOrDefaultO_out, scanO_out]
  simp only [elems_conf_notifs, ending_conf_notifs]
  rw [lastRef_scanC]
  cases h : elems raw with
  | nil => simp [foldRef, valueOrDefault, pure, Except.pure]
  | cons x xs => simp [scanProj, List.foldlM_cons, bind]

/-- `reduce(acc)` = `functools.reduce(acc, xs)`; empty input fails with `SequenceContainsNoElementsError` -/
theorem reduce_noseed_eq {α} (f : α → α → Except Err α) (lag : Bool) (raw : List (Notif α)) :
    (reduceO f none id).out lag raw =
      match elems raw with
      | [] => atEnd (ending raw) [.error errNoElements]
      | x :: xs => foldRef (xs.foldlM f x) id (ending raw) := by
  simp only [reduceO]
  rw [Op.out_comp _ _ lag lag lag, lastOrDefaultO_out, scanO_out]
  simp only [elems_conf_notifs, ending_conf_notifs]
  rw [lastRef_scanC]
  cases h : elems raw with
  | nil => simp [valueOrDefault]
  | cons x xs => simp [scanProj, Except.bind]

example : (reduceO (fun a x => .ok (a * x)) (some 1) id).out false [.next 2, .next 3, .next 4, .completed]
    = [.next 24, .completed] := by decide
example : (reduceO (fun (a x : Nat) => .ok (a + x)) none id).out false [.completed] = [.error errNoElements] := by decide

/-- `count()` = `len(xs)` -/
theorem count_eq {α} (lag : Bool) (raw : List (Notif α)) :
    (countO none).out lag raw = atEnd (ending raw) [.next (elems raw).length, .completed] := by
  simp only [countO, countAllO]
  rw [reduce_eq, foldlM_pure]
  have : ∀ (xs : List α) (n : Nat), xs.foldl (fun n _ => n + 1) n = n + xs.length := by
    intro xs; induction xs with
    | nil => simp
    | cons x xs ih => intro n; simp [ih]; omega
  simp [foldRef, this]

/-- `count(pred)` = `len([x for x in xs if pred(x)])`; the predicate's exception at the element where it is raised -/
theorem count_pred_eq {α} (p : α → Except Err Bool) (lag : Bool) (raw : List (Notif α)) :
    (countO (some p)).out lag raw =
      atEnd (filterC p (elems raw) (ending raw)).2 [.next (filterC p (elems raw) (ending raw)).1.length, .completed] := by
  simp only [countO]
  rw [Op.out_comp _ _ lag lag lag, filterO_out]
  have := count_eq (α := α) lag (filterC p (elems raw) (ending raw)).notifs
  simp only [countO, elems_conf_notifs, ending_conf_notifs] at this
  exact this

/-- for a total predicate: `len(list(filter(q, xs)))` -/
theorem count_pred_pure_eq {α} (q : α → Bool) (lag : Bool) (raw : List (Notif α)) :
    (countO (some (fun x => .ok (q x)))).out lag raw
      = atEnd (ending raw) [.next ((elems raw).filter q).length, .completed] := by
  rw [count_pred_eq, filterC_pure]

/-- `sum()` = `sum(xs)` (exact integers) -/
theorem sum_eq (lag : Bool) (raw : List (Notif Int)) :
    (sumPlainO (fun a b => .ok (a + b)) (0 : Int)).out lag raw = atEnd (ending raw) [.next (elems raw).sum, .completed] := by
  simp only [sumPlainO]
  rw [reduce_eq, foldlM_pure]
  have : ∀ (xs : List Int) (n : Int), xs.foldl (fun a b => a + b) n = n + xs.sum := by
    intro xs; induction xs with
    | nil => simp
    | cons x xs ih => intro n; simp [ih]; omega
  simp [foldRef, this]

/-- `sum(key)` = `sum(key(x) for x in xs)`; the key mapper's exception at the element where it is raised -/
theorem sum_by_eq {α} (key : α → Except Err Int) (lag : Bool) (raw : List (Notif α)) :
    (sumByO key (fun a b => .ok (a + b)) (0 : Int)).out lag raw =
      atEnd (mapC key (elems raw) (ending raw)).2 [.next (mapC key (elems raw) (ending raw)).1.sum, .completed] := by
  simp only [sumByO]
  rw [Op.out_comp _ _ lag lag lag, mapO_out]
  have := sum_eq lag (mapC key (elems raw) (ending raw)).notifs
  simp only [elems_conf_notifs, ending_conf_notifs] at this
  exact this

/-- `average(key)`: the exact rational `sum / count` (as the pair), `SequenceContainsNoElementsError` on empty input -/
theorem average_eq {α} (key : α → Except Err Int) (lag : Bool) (raw : List (Notif α)) :
    (averageO key).out lag raw =
      match (mapC key (elems raw) (ending raw)).1 with
      | [] => atEnd (mapC key (elems raw) (ending raw)).2 [.error errNoElements]
      | k :: ks => atEnd (mapC key (elems raw) (ending raw)).2 [.next ((k :: ks).sum, (k :: ks).length), .completed] := by
  simp only [averageO]
  rw [Op.out_comp _ _ lag lag lag, Op.out_comp _ _ lag lag lag, Op.out_comp _ _ lag lag lag,
    mapO_out (f := avgMapper), lastOrDefaultO_out, scanO_out, mapO_out]
  simp only [elems_conf_notifs, ending_conf_notifs]
  rw [lastRef_scanC]
  generalize (mapC key (elems raw) (ending raw)) = c
  obtain ⟨ks, t⟩ := c
  cases ks with
  | nil => cases t <;> simp [valueOrDefault, mapC, Conf.notifs, Ending.notifs]
  | cons k ks =>
    have hf : ∀ (xs : List Int) (a : Int × Nat),
        xs.foldlM avgAcc a = (.ok (a.1 + xs.sum, a.2 + xs.length) : Except Err (Int × Nat)) := by
      intro xs; induction xs with
      | nil => intro a; simp [pure, Except.pure]
      | cons x xs ih =>
        intro a; simp only [List.foldlM_cons, avgAcc, bind, Except.bind, ih]
        simp only [List.sum_cons, List.length_cons]; congr 2 <;> omega
    simp only [scanProj, avgAcc, Except.bind, hf, foldRef]
    cases t <;> simp [mapC, avgMapper, Conf.notifs, Ending.notifs] <;> omega

example : (averageO (fun (x : Int) => .ok x)).out false [.next 1, .next 2, .next 4, .completed]
    = [.next (7, 3), .completed] := by decide

/-! ## min_by / max_by / min / max -/

/-- **fold identity, arbitrary (possibly raising) key mapper and comparer**: `extrema_by` is the left fold of
`extremaStep`; an exception is delivered at the element whose key/comparison raised. -/
theorem extrema_eq_fold {α κ} (key : α → Except Err κ) (cmp : κ → κ → Except Err Int) (lag : Bool)
    (raw : List (Notif α)) :
    (maxByO key cmp).out lag raw = foldRef ((elems raw).foldlM (extremaStep key cmp) (none, [])) (·.2) (ending raw)
    ∧ (minByO key cmp).out lag raw
        = foldRef ((elems raw).foldlM (extremaStep key (fun x y => (cmp x y).map (fun c => -c))) (none, [])) (·.2) (ending raw) :=
  ⟨extremaByO_out key cmp lag raw, extremaByO_out key _ lag raw⟩

/-- `max_by` for a comparer induced by a total preorder `le` (`c a b > 0 ↔ ¬ a ≤ b`, `c a b ≥ 0 ↔ b ≤ a`):
all elements whose key is greatest, in arrival order, at completion. -/
theorem max_by_eq {α κ} (k : α → κ) (c : κ → κ → Int) (le : κ → κ → Bool)
    (hgt : ∀ a b, c a b > 0 ↔ le a b = false) (hge : ∀ a b, c a b ≥ 0 ↔ le b a = true)
    (htot : ∀ a b, le a b = true ∨ le b a = true) (htr : ∀ a b d, le a b = true → le b d = true → le a d = true)
    (lag : Bool) (raw : List (Notif α)) :
    (maxByO (fun x => .ok (k x)) (fun a b => .ok (c a b))).out lag raw
      = atEnd (ending raw)
          [.next ((elems raw).filter (fun x => (elems raw).all (fun y => le (k y) (k x)))), .completed] := by
  rw [(extrema_eq_fold _ _ lag raw).1]
  obtain ⟨m, hm⟩ := extrema_preorder k c le hgt hge htot htr (elems raw)
  rw [hm]; rfl

/-- `min_by` for the same kind of comparer: all elements whose key is least -/
theorem min_by_eq {α κ} (k : α → κ) (c : κ → κ → Int) (le : κ → κ → Bool)
    (hgt : ∀ a b, c a b > 0 ↔ le a b = false) (hge : ∀ a b, c a b ≥ 0 ↔ le b a = true)
    (htot : ∀ a b, le a b = true ∨ le b a = true) (htr : ∀ a b d, le a b = true → le b d = true → le a d = true)
    (lag : Bool) (raw : List (Notif α)) :
    (minByO (fun x => .ok (k x)) (fun a b => .ok (c a b))).out lag raw
      = atEnd (ending raw)
          [.next ((elems raw).filter (fun x => (elems raw).all (fun y => le (k x) (k y)))), .completed] := by
  rw [(extrema_eq_fold _ _ lag raw).2]
  have hgt' : ∀ a b, -(c a b) > 0 ↔ le b a = false := by
    intro a b
    have h1 := hge a b
    constructor
    · intro h; cases hb : le b a
      · rfl
      · have := h1.2 hb; omega
    · intro h
      have : ¬ c a b ≥ 0 := fun hc => by rw [h1.1 hc] at h; cases h
      omega
  have hge' : ∀ a b, -(c a b) ≥ 0 ↔ le a b = true := by
    intro a b
    have h1 := hgt a b
    constructor
    · intro h; cases hb : le a b
      · have := h1.2 hb; omega
      · rfl
    · intro h
      have : ¬ c a b > 0 := fun hc => by rw [h1.1 hc] at h; cases h
      omega
  obtain ⟨m, hm⟩ := extrema_preorder k (fun a b => -(c a b)) (fun a b => le b a) hgt' hge'
    (fun a b => (htot b a)) (fun a b d h1 h2 => htr d b a h2 h1) (elems raw)
  simp only [Except.map] at hm ⊢
  rw [hm]; rfl

/-- integer keys with the default comparer `x - y` -/
example (lag : Bool) (raw : List (Notif (String × Int))) :
    (minByO (fun x => .ok x.2) (fun a b => .ok (a - b))).out lag raw
      = atEnd (ending raw) [.next ((elems raw).filter (fun x => (elems raw).all (fun y => decide (x.2 ≤ y.2)))), .completed] :=
  min_by_eq (fun x => x.2) (fun a b => a - b) (fun a b => decide (a ≤ b))
    (by intro a b; simp) (by intro a b; simp) (by intro a b; simp; omega)
    (by intro a b d; simp; omega) lag raw

example : (minByO (fun (x : String × Int) => .ok x.2) (fun a b => .ok (a - b))).out false
    [.next ("a", 3), .next ("b", 1), .next ("c", 2), .next ("d", 1), .completed] = [.next [("b", 1), ("d", 1)], .completed] := by decide

/-- `max()`: the first greatest element at completion; `SequenceContainsNoElementsError` on empty input -/
theorem max_eq {α} (c : α → α → Int) (le : α → α → Bool)
    (hgt : ∀ a b, c a b > 0 ↔ le a b = false) (hge : ∀ a b, c a b ≥ 0 ↔ le b a = true)
    (htot : ∀ a b, le a b = true ∨ le b a = true) (htr : ∀ a b d, le a b = true → le b d = true → le a d = true)
    (lag : Bool) (raw : List (Notif α)) :
    (maxO (fun a b => .ok (c a b))).out lag raw
      = atEnd (ending raw)
          (match (elems raw).filter (fun x => (elems raw).all (fun y => le y x)) with
           | [] => [.error errNoElements]
           | m :: _ => [.next m, .completed]) := by
  simp only [maxO]
  rw [Op.out_comp _ _ lag lag lag, mapO_out, max_by_eq (fun x => x) c le hgt hge htot htr]
  cases ending raw <;> simp [mapC, Conf.notifs, Ending.notifs]
  · cases (elems raw).filter (fun x => (elems raw).all (fun y => le y x)) <;> simp [firstOnly]

/-- `min()`: the first least element at completion; `SequenceContainsNoElementsError` on empty input -/
theorem min_eq {α} (c : α → α → Int) (le : α → α → Bool)
    (hgt : ∀ a b, c a b > 0 ↔ le a b = false) (hge : ∀ a b, c a b ≥ 0 ↔ le b a = true)
    (htot : ∀ a b, le a b = true ∨ le b a = true) (htr : ∀ a b d, le a b = true → le b d = true → le a d = true)
    (lag : Bool) (raw : List (Notif α)) :
    (minO (fun a b => .ok (c a b))).out lag raw
      = atEnd (ending raw)
          (match (elems raw).filter (fun x => (elems raw).all (fun y => le x y)) with
           | [] => [.error errNoElements]
           | m :: _ => [.next m, .completed]) := by
  simp only [minO]
  rw [Op.out_comp _ _ lag lag lag, mapO_out, min_by_eq (fun x => x) c le hgt hge htot htr]
  cases ending raw <;> simp [mapC, Conf.notifs, Ending.notifs]
  · cases (elems raw).filter (fun x => (elems raw).all (fun y => le x y)) <;> simp [firstOnly]

example : (maxO (fun (a b : Int) => .ok (a - b))).out false [.next 3, .next 7, .next 7, .next 2, .completed] = [.next 7, .completed] := by decide

/-! ## to_list / to_set / to_dict -/

theorem to_list_eq {α} (lag : Bool) (raw : List (Notif α)) :
    (toListO : Op α (List α)).out lag raw = atEnd (ending raw) [.next (elems raw), .completed] := toListO_out lag raw

/-- `set(xs)` under Python equality `eq` (first of equal elements is kept) -/
theorem to_set_eq {α} (eq : α → α → Bool) (lag : Bool) (raw : List (Notif α)) :
    (toSetO eq).out lag raw = atEnd (ending raw) [.next ((elems raw).foldl (setAdd eq) []), .completed] :=
  toSetO_out eq lag raw

/-- **to_set with unhashable elements (as repaired)** = `set(xs)`, which raises `TypeError` at the first unhashable element:
the error is delivered as `on_error` at that element; on hashable input it is `to_set_eq`. -/
theorem to_set_hashing_eq {α} (h : α → Bool) (eq : α → α → Bool) (lag : Bool) (raw : List (Notif α)) :
    (toSetHO h eq).out lag raw = foldRef ((elems raw).foldlM (setStepH h eq) []) id (ending raw)
    ∧ ((∀ x ∈ elems raw, h x = true) → (toSetHO h eq).out lag raw = (toSetO eq).out lag raw)
    ∧ (∀ pre x post, elems raw = pre ++ x :: post → (∀ y ∈ pre, h y = true) → h x = false →
        (toSetHO h eq).out lag raw = [.error "TypeError"]) := by
  refine ⟨toSetHO_out h eq lag raw, ?_, ?_⟩
  · intro hh; rw [toSetHO_out, setStepH_hashable h eq _ _ hh, to_set_eq]; rfl
  · intro pre x post he hpre hx
    rw [toSetHO_out, he, setStepH_unhashable h eq pre x post [] hpre hx]; rfl

/-- **to_dict with unhashable keys (as repaired)** = the dict comprehension, raising `TypeError` at the first unhashable key
(after both mappers ran for that element) -/
theorem to_dict_hashing_eq {α κ ν} (h : κ → Bool) (eq : κ → κ → Bool) (key : α → Except Err κ) (elem : α → Except Err ν) (lag : Bool)
    (raw : List (Notif α)) :
    (toDictHO h eq key elem).out lag raw = foldRef ((elems raw).foldlM (dictStepH h eq key elem) []) id (ending raw) :=
  toDictHO_out h eq key elem lag raw

example : (toSetHO (fun (x : List Nat) => x.length < 2) (· == ·)).out false [.next [1], .next [2, 3], .next [4], .completed]
    = [.error "TypeError"] := by decide

/-- **AsIs witness (before `fixes/C06_toset_todict_unhashable.patch`)**: `s.add` was the handler itself / `m[key] = element`
sat outside the `try`s: an unhashable element raised `TypeError` into the emitter, was skipped, and the subscriber finally got
the set of the *hashable* elements — where the reference `set(xs)` raises. -/
theorem to_set_unhashable_asis {α} (h : α → Bool) (eq : α → α → Bool) (lag : Bool) (raw : List (Notif α)) :
    (toSetAsIsO h eq).out lag raw = atEnd (ending raw) [.next (((elems raw).filter h).foldl (setAdd eq) []), .completed]
    ∧ (∀ s x, h x = false → (toSetAsIsO h eq).handle s (.next x) = ⟨s, [], some "TypeError"⟩)
    ∧ (∀ {κ ν} (hk : κ → Bool) (eqk : κ → κ → Bool) (key : α → Except Err κ) (elem : α → Except Err ν) s x k v,
        key x = .ok k → elem x = .ok v → hk k = false →
        (toDictAsIsO hk eqk key elem).handle s (.next x) = ⟨s, [], some "TypeError"⟩) := by
  refine ⟨?_, ?_, ?_⟩
  · rw [toSetAsIsO_out, to_set_eq, elems_filter_keep, ending_filter_keep]
  · intro s x hx; simp [Op.handle, toSetAsIsO, hx]
  · intro κ ν hk eqk key elem s x k v h1 h2 h3; simp [Op.handle, toDictAsIsO, h1, h2, h3]

example : (toSetAsIsO (fun (x : List Nat) => x.length < 2) (· == ·)).escapes false [.next [1], .next [2, 3], .next [4], .completed]
    = ["TypeError"] := by decide

/-- `{key(x): elem(x) for x in xs}` as the fold of `d[k] = v`; a mapper's exception at the element where it is raised -/
theorem to_dict_eq {α κ ν} (eq : κ → κ → Bool) (key : α → Except Err κ) (elem : α → Except Err ν) (lag : Bool)
    (raw : List (Notif α)) :
    (toDictO eq key elem).out lag raw = foldRef ((elems raw).foldlM (dictStep eq key elem) []) id (ending raw) :=
  toDictO_out eq key elem lag raw

/-- **last wins**: for total mappers and an equality that is symmetric and transitive, looking a key up in the
emitted dict gives the value of the *last* element with that key. -/
theorem to_dict_last_wins {α κ ν} (eq : κ → κ → Bool)
    (hsymm : ∀ a b, eq a b = true → eq b a = true) (htr : ∀ a b d, eq a b = true → eq b d = true → eq a d = true)
    (k : α → κ) (v : α → ν) (lag : Bool) (raw : List (Notif α)) :
    ∃ m, (toDictO eq (fun x => .ok (k x)) (fun x => .ok (v x))).out lag raw = atEnd (ending raw) [.next m, .completed]
      ∧ ∀ q, dictGet eq m q = ((elems raw).reverse.find? (fun x => eq (k x) q)).map v := by
  refine ⟨dictOf eq ((elems raw).map (fun x => (k x, v x))), ?_, ?_⟩
  · rw [to_dict_eq, dictStep_pure]; rfl
  · intro q
    rw [dictOf_last_wins eq hsymm htr, ← List.map_reverse, List.find?_map]
    simp [Function.comp_def]

example : (toDictO (fun (a b : Nat) => a == b) (fun (x : Nat × String) => .ok x.1) (fun x => .ok x.2)).out false
    [.next (1, "a"), .next (2, "b"), .next (1, "c"), .completed] = [.next [(1, "c"), (2, "b")], .completed] := by decide

/-! ## first / last / single (+ _or_default, + predicate as `filter ∘ …`) -/

theorem first_eq {α} (pred : Option (α → Except Err Bool)) (lag : Bool) (raw : List (Notif α)) :
    (firstO pred).out lag raw = firstRef none (afterFilter pred raw).1 (afterFilter pred raw).2 := by
  cases pred with
  | none => exact firstOrDefaultO_out none lag raw
  | some p =>
    simp only [firstO, afterFilter]
    rw [Op.out_comp _ _ lag lag lag, filterO_out, firstOrDefaultO_out]; simp

theorem first_or_default_eq {α} (pred : Option (α → Except Err Bool)) (d : α) (lag : Bool) (raw : List (Notif α)) :
    (firstOrDefaultPO pred d).out lag raw = firstRef (some d) (afterFilter pred raw).1 (afterFilter pred raw).2 := by
  cases pred with
  | none => exact firstOrDefaultO_out (some d) lag raw
  | some p =>
    simp only [firstOrDefaultPO, afterFilter]
    rw [Op.out_comp _ _ lag lag lag, filterO_out, firstOrDefaultO_out]; simp

theorem last_eq {α} (pred : Option (α → Except Err Bool)) (lag : Bool) (raw : List (Notif α)) :
    (lastO pred).out lag raw = lastRef none (afterFilter pred raw).1 (afterFilter pred raw).2 := by
  cases pred with
  | none => exact lastOrDefaultO_out none lag raw
  | some p =>
    simp only [lastO, afterFilter]
    rw [Op.out_comp _ _ lag lag lag, filterO_out, lastOrDefaultO_out]; simp

theorem last_or_default_eq {α} (pred : Option (α → Except Err Bool)) (d : α) (lag : Bool) (raw : List (Notif α)) :
    (lastOrDefaultPO pred d).out lag raw = lastRef (some d) (afterFilter pred raw).1 (afterFilter pred raw).2 := by
  cases pred with
  | none => exact lastOrDefaultO_out (some d) lag raw
  | some p =>
    simp only [lastOrDefaultPO, afterFilter]
    rw [Op.out_comp _ _ lag lag lag, filterO_out, lastOrDefaultO_out]; simp

theorem single_eq {α} (pred : Option (α → Except Err Bool)) (lag : Bool) (raw : List (Notif α)) :
    (singleO pred).out lag raw = singleRef none (afterFilter pred raw).1 (afterFilter pred raw).2 := by
  cases pred with
  | none => exact singleOrDefaultO_out none lag raw
  | some p =>
    simp only [singleO, afterFilter]
    rw [Op.out_comp _ _ lag lag lag, filterO_out, singleOrDefaultO_out]; simp

theorem single_or_default_eq {α} (pred : Option (α → Except Err Bool)) (d : α) (lag : Bool) (raw : List (Notif α)) :
    (singleOrDefaultPO pred d).out lag raw = singleRef (some d) (afterFilter pred raw).1 (afterFilter pred raw).2 := by
  cases pred with
  | none => exact singleOrDefaultO_out (some d) lag raw
  | some p =>
    simp only [singleOrDefaultPO, afterFilter]
    rw [Op.out_comp _ _ lag lag lag, filterO_out, singleOrDefaultO_out]; simp

/-- **single fails on the second element, at that element**: with the second element (time `t₂`) the subscriber
gets the error — stamped `t₂` — and nothing else ever, whatever follows. -/
theorem single_fails_at_second {α τ} (lag : Bool) (t₁ t₂ : τ) (x y : α) (post : List (τ × Notif α)) :
    (singleO none).outT lag ((t₁, .next x) :: (t₂, .next y) :: post) = [(t₂, .error errException)] := by
  obtain ⟨r, hr, hrt⟩ := Op.outT_append (singleO none) lag [(t₁, .next x), (t₂, .next y)] post
  have h0 : (singleO (none : Option (α → Except Err Bool))).outT lag [(t₁, .next x), (t₂, .next y)]
      = [(t₂, .error errException)] := by
    cases lag <;> rfl
  have hu := Op.outT_untimed (singleO none) lag ((t₁, Notif.next x) :: (t₂, .next y) :: post)
  rw [single_eq] at hu
  have hrw : (t₁, Notif.next x) :: (t₂, Notif.next y) :: post = [(t₁, .next x), (t₂, .next y)] ++ post := rfl
  rw [hrw, hr, h0] at hu ⊢
  simp [afterFilter, singleRef] at hu
  simp [hu]

/-- empty input ⇒ `SequenceContainsNoElementsError` exactly where no default applies (and the default otherwise) -/
theorem empty_no_default_fails {α} (lag : Bool) (raw : List (Notif α)) (h : elems raw = []) (hd : ending raw = .done) (d : α) :
    (firstO none).out lag raw = [.error errNoElements] ∧ (lastO none).out lag raw = [.error errNoElements]
    ∧ (singleO none).out lag raw = [.error errNoElements]
    ∧ (firstOrDefaultPO none d).out lag raw = [.next d, .completed]
    ∧ (lastOrDefaultPO none d).out lag raw = [.next d, .completed]
    ∧ (singleOrDefaultPO none d).out lag raw = [.next d, .completed]
    ∧ (∀ f : α → α → Except Err α, (reduceO f none id).out lag raw = [.error errNoElements])
    ∧ (∀ c : α → α → Except Err Int, (minO c).out lag raw = [.error errNoElements] ∧ (maxO c).out lag raw = [.error errNoElements])
    ∧ (∀ key : α → Except Err Int, (averageO key).out lag raw = [.error errNoElements]) := by
  refine ⟨?_, ?_, ?_, ?_, ?_, ?_, ?_, ?_, ?_⟩
  · simp [first_eq, afterFilter, h, hd, firstRef, valueOrDefault]
  · simp [last_eq, afterFilter, h, hd, lastRef, valueOrDefault]
  · simp [single_eq, afterFilter, h, hd, singleRef, valueOrDefault]
  · simp [first_or_default_eq, afterFilter, h, hd, firstRef, valueOrDefault]
  · simp [last_or_default_eq, afterFilter, h, hd, lastRef, valueOrDefault]
  · simp [single_or_default_eq, afterFilter, h, hd, singleRef, valueOrDefault]
  · intro f; simp [reduce_noseed_eq, h, hd]
  · intro c
    constructor
    · simp only [minO]
      rw [Op.out_comp _ _ lag lag lag, mapO_out, (extrema_eq_fold _ _ lag raw).2]
      simp [h, hd, foldRef, pure, Except.pure, mapC, firstOnly, Conf.notifs, Ending.notifs]
    · simp only [maxO]
      rw [Op.out_comp _ _ lag lag lag, mapO_out, (extrema_eq_fold _ _ lag raw).1]
      simp [h, hd, foldRef, pure, Except.pure, mapC, firstOnly, Conf.notifs, Ending.notifs]
  · intro key; simp [average_eq, h, hd, mapC]

example : (lastOrDefaultPO (some (fun x => .ok (x > 5))) 0).out false [.next 3, .next 9, .next 7, .next 1, .completed]
    = [.next 7, .completed] := by decide

/-! ## some / all / contains / is_empty -/

theorem some_eq {α} (pred : Option (α → Except Err Bool)) (lag : Bool) (raw : List (Notif α)) :
    (someO pred).out lag raw = someRef (afterFilter pred raw).1 (afterFilter pred raw).2 := by
  cases pred with
  | none => exact someOp_out lag raw
  | some p =>
    simp only [someO, afterFilter]
    rw [Op.out_comp _ _ lag lag lag, filterO_out, someOp_out]; simp

/-- **some emits at the first satisfying element**: after elements `ys` on which the predicate is false and an
element `x` (time `t`) on which it is true, the subscriber has `true` and completion stamped `t`, whatever follows;
before `x` it has nothing. -/
theorem some_at_first {α τ} (p : α → Except Err Bool) (lag : Bool) (pre : List (τ × α)) (t : τ) (x : α)
    (post : List (τ × Notif α)) (hpre : ∀ y ∈ pre, p y.2 = .ok false) (hx : p x = .ok true) :
    (someO (some p)).outT lag (pre.map (fun y => (y.1, .next y.2)) ++ (t, .next x) :: post)
      = [(t, .next true), (t, .completed)]
    ∧ (someO (some p)).outT lag (pre.map (fun y => (y.1, Notif.next y.2))) = [] := by
  have hf : ∀ (rest : List α) (e : Ending), filterC p (pre.map (·.2) ++ rest) e = filterC p rest e := by
    intro rest e
    induction pre with
    | nil => rfl
    | cons y ys ih =>
      simp only [List.map_cons, List.cons_append, filterC, hpre y List.mem_cons_self]
      exact ih (fun z hz => hpre z (List.mem_cons_of_mem _ hz))
  have hnil : (someO (some p)).outT lag (pre.map (fun y => (y.1, Notif.next y.2))) = [] := by
    have := Op.outT_untimed (someO (some p)) lag (pre.map (fun y => (y.1, Notif.next y.2)))
    rw [some_eq] at this
    simp only [afterFilter, List.map_map, Function.comp_def] at this
    have h2 : (List.map (fun (y : τ × α) => Notif.next y.2) pre) = (pre.map (·.2)).map Notif.next ++ [] := by simp
    rw [h2] at this
    simp only [elems_map_next_append, ending_map_next_append, elems_nil, ending_nil] at this
    have h3 := hf [] .open
    simp only [List.append_nil] at h3 this
    rw [h3] at this
    simpa [filterC, someRef] using this
  refine ⟨?_, hnil⟩
  have hsplit : pre.map (fun y => (y.1, Notif.next y.2)) ++ (t, .next x) :: post
      = (pre.map (fun y => (y.1, Notif.next y.2)) ++ [(t, .next x)]) ++ post := by simp
  obtain ⟨r2, hr2, _⟩ := Op.outT_append (someO (some p)) lag (pre.map (fun y => (y.1, Notif.next y.2)) ++ [(t, .next x)]) post
  obtain ⟨r1, hr1, hr1t⟩ := Op.outT_append (someO (some p)) lag (pre.map (fun y => (y.1, Notif.next y.2))) [(t, .next x)]
  have hu := Op.outT_untimed (someO (some p)) lag (pre.map (fun y => (y.1, Notif.next y.2)) ++ (t, .next x) :: post)
  rw [some_eq] at hu
  have hel : ∀ rest : List (Notif α), List.map (fun (q : τ × Notif α) => q.2) (pre.map (fun y => (y.1, Notif.next y.2))) ++ rest
      = (pre.map (·.2)).map Notif.next ++ rest := by
    intro rest; simp [List.map_map, Function.comp_def]
  simp only [afterFilter, List.map_append, List.map_cons, hel, elems_map_next_append, ending_map_next_append,
    elems_next, ending_next, hf] at hu
  simp only [filterC, hx, someRef] at hu
  rw [hsplit, hr2, hr1, hnil] at hu ⊢
  simp only [List.nil_append, List.map_append] at hu ⊢
  -- r1 ++ r2 has the untimed image [true, completed]; r1's stamps are t; r1 is already [true, completed]
  have hu1 := Op.outT_untimed (someO (some p)) lag (pre.map (fun y => (y.1, Notif.next y.2)) ++ [(t, .next x)])
  rw [some_eq, hr1, hnil] at hu1
  simp only [afterFilter, List.map_append, List.map_cons, List.map_nil, hel, elems_map_next_append, ending_map_next_append,
    elems_next, ending_next, hf, List.nil_append] at hu1
  simp only [filterC, hx, someRef, elems_nil, ending_nil] at hu1
  have hr1' : r1 = [(t, .next true), (t, .completed)] :=
    stamped_eq r1 t _ hu1 (fun q hq => by simpa using hr1t q hq)
  rw [hr1'] at hu ⊢
  simp only [List.map_cons, List.map_nil, List.cons_append, List.nil_append, List.cons.injEq, true_and] at hu
  have : r2 = [] := by simpa using hu
  simp [this]

/-- `all(pred)`: `false` at the first element on which the predicate is false; `true` at completion otherwise -/
theorem all_eq {α} (p : α → Except Err Bool) (lag : Bool) (raw : List (Notif α)) :
    (allO p).out lag raw =
      match (filterC (fun v => (p v).map (fun b => !b)) (elems raw) (ending raw)).1 with
      | _ :: _ => [.next false, .completed]
      | [] => atEnd (filterC (fun v => (p v).map (fun b => !b)) (elems raw) (ending raw)).2 [.next true, .completed] := by
  simp only [allO]
  rw [Op.out_comp _ _ lag lag lag, Op.out_comp _ _ lag lag lag, mapO_out, someOp_out, filterO_out]
  simp only [elems_conf_notifs, ending_conf_notifs]
  generalize filterC (fun v => (p v).map (fun b => !b)) (elems raw) (ending raw) = c
  obtain ⟨ys, t⟩ := c
  cases ys with
  | nil => cases t <;> simp [someRef, mapC, notB, Conf.notifs, Ending.notifs]
  | cons y ys => simp [someRef, mapC, notB, Conf.notifs, Ending.notifs]

/-- for a total predicate: `all(q(x) for x in xs)` -/
theorem all_pure_eq {α} (q : α → Bool) (lag : Bool) (raw : List (Notif α)) :
    (allO (fun x => .ok (q x))).out lag raw =
      if (elems raw).all q then atEnd (ending raw) [.next true, .completed] else [.next false, .completed] := by
  rw [all_eq]
  have : (fun v => ((.ok (q v) : Except Err Bool)).map (fun b => !b)) = fun v => .ok (!q v) := rfl
  rw [this, filterC_pure]
  simp only
  cases h : (elems raw).filter (fun v => !q v) with
  | nil =>
    have : (elems raw).all q = true := by
      rw [List.all_eq_true]; intro x hx
      have := List.filter_eq_nil_iff.1 h x hx
      simpa using this
    simp [this]
  | cons y ys =>
    have hy : y ∈ (elems raw).filter (fun v => !q v) := by rw [h]; simp
    have : (elems raw).all q = false := by
      rw [List.all_eq_false]
      exact ⟨y, (List.mem_filter.1 hy).1, by simpa using (List.mem_filter.1 hy).2⟩
    simp [this]

/-- `contains(value, comparer)`: `any(comparer(x, value) for x in xs)` -/
theorem contains_eq {α} (v : α) (cmp : α → α → Except Err Bool) (lag : Bool) (raw : List (Notif α)) :
    (containsO v cmp).out lag raw
      = someRef (filterC (fun x => cmp x v) (elems raw) (ending raw)).1 (filterC (fun x => cmp x v) (elems raw) (ending raw)).2 := by
  simp only [containsO]
  rw [Op.out_comp _ _ lag lag lag, filterO_out, someOp_out]; simp

/-- **contains emits at the first match** (consequence of `some_at_first`: `contains` is `filter(cmp(·, v)) | some()`) -/
theorem contains_at_first_match {α τ} (v : α) (cmp : α → α → Except Err Bool) (lag : Bool) (pre : List (τ × α)) (t : τ) (x : α)
    (post : List (τ × Notif α)) (hpre : ∀ y ∈ pre, cmp y.2 v = .ok false) (hx : cmp x v = .ok true) :
    (containsO v cmp).outT lag (pre.map (fun y => (y.1, .next y.2)) ++ (t, .next x) :: post)
      = [(t, .next true), (t, .completed)]
    ∧ (containsO v cmp).outT lag (pre.map (fun y => (y.1, Notif.next y.2))) = [] :=
  some_at_first (fun x => cmp x v) lag pre t x post hpre hx

/-- `is_empty()`: `false` at the first element, `true` at completion of an empty source -/
theorem is_empty_eq {α} (lag : Bool) (raw : List (Notif α)) :
    (isEmptyO : Op α Bool).out lag raw =
      match elems raw with
      | _ :: _ => [.next false, .completed]
      | [] => atEnd (ending raw) [.next true, .completed] := by
  simp only [isEmptyO]
  rw [Op.out_comp _ _ lag lag lag, mapO_out, someOp_out]
  cases h : elems raw with
  | nil => cases ending raw <;> simp [someRef, mapC, notB, Conf.notifs, Ending.notifs]
  | cons y ys => simp [someRef, mapC, notB, Conf.notifs, Ending.notifs]

example : (containsO 3 (fun a b => .ok (a == b))).outT false [(210, .next 1), (220, .next 3), (230, .next 3), (240, .completed)]
    = [(220, .next true), (220, .completed)] := by decide
example : (allO (fun (x : Nat) => if x = 9 then .error "p" else .ok (x < 5))).out false [.next 1, .next 9, .next 7]
    = [.error "p"] := by decide

/-! ## sequence_equal -/

/-- **For every interleaving** of the two sides' events (error-free trace, total symmetric comparer), what the
subscriber sees is the declarative decision `seqSpec` of what each side has delivered and whether it has
completed — independent of the interleaving and of the disposal timing. -/
theorem seqeq_eq_spec {α} (eq : α → α → Bool) (hsym : ∀ a b, eq a b = eq b a) (lag : Bool)
    (tr : List (Side × Notif α)) (hne : ∀ ev ∈ tr, ∀ e, ev.2 ≠ .error e) :
    seqOut (fun a b => .ok (eq a b)) lag tr
      = specOut (seqSpec eq (elems (sideOf .L tr)) (elems (sideOf .R tr)) (isDone (sideOf .L tr)) (isDone (sideOf .R tr))) := by
  have := seqOutFrom_spec eq hsym lag tr hne false false [] [] (Or.inl rfl) (by simp) (by simp) (by simp)
  simpa [seqOut] using this

/-- **sequence_equal_correct**: when both sides complete, for *every* interleaving the result is `true` iff the two
conforming sequences are equal under the comparer (`len` equal and pairwise equal). -/
theorem sequence_equal_correct {α} (eq : α → α → Bool) (hsym : ∀ a b, eq a b = eq b a) (lag : Bool)
    (tr : List (Side × Notif α)) (hne : ∀ ev ∈ tr, ∀ e, ev.2 ≠ .error e)
    (hl : ending (sideOf .L tr) = .done) (hr : ending (sideOf .R tr) = .done) :
    seqOut (fun a b => .ok (eq a b)) lag tr
      = [.next (listEq eq (elems (sideOf .L tr)) (elems (sideOf .R tr))), .completed] := by
  rw [seqeq_eq_spec eq hsym lag tr hne]
  simp [isDone, hl, hr, seqSpec_done, specOut, decided]

/-- it is emitted by the event that completes the later side: before that event nothing has been decided unless
`false` already was (so `true` can only appear with the last completion). -/
theorem seqeq_true_only_when_both_done {α} (eq : α → α → Bool) (hsym : ∀ a b, eq a b = eq b a) (lag : Bool)
    (tr : List (Side × Notif α)) (hne : ∀ ev ∈ tr, ∀ e, ev.2 ≠ .error e)
    (h : seqOut (fun a b => .ok (eq a b)) lag tr = [.next true, .completed]) :
    isDone (sideOf .L tr) = true ∧ isDone (sideOf .R tr) = true := by
  rw [seqeq_eq_spec eq hsym lag tr hne] at h
  generalize elems (sideOf .L tr) = ls at h
  generalize elems (sideOf .R tr) = rs at h
  generalize isDone (sideOf .L tr) = dl at h ⊢
  generalize isDone (sideOf .R tr) = dr at h ⊢
  induction ls generalizing rs with
  | nil =>
    cases rs with
    | nil => cases dl <;> cases dr <;> simp_all [specOut, decided]
    | cons y rs => cases dl <;> simp_all [specOut, decided, seqSpec]
  | cons x ls ih =>
    cases rs with
    | nil => cases dr <;> simp_all [specOut, decided, seqSpec]
    | cons y rs =>
      simp only [seqSpec_cons_cons] at h
      cases hxy : eq x y
      · simp [hxy, specOut, decided] at h
      · simp only [hxy, if_true] at h; exact ih rs h

/-- **seqeq_false_at_mismatch**: as soon as both sides have delivered their k-th elements and these differ
(all earlier pairs being equal), `false` and completion have been emitted — whatever the interleaving, before
either side completes, and whatever follows. -/
theorem seqeq_false_at_mismatch {α} (eq : α → α → Bool) (hsym : ∀ a b, eq a b = eq b a) (lag : Bool)
    (tr : List (Side × Notif α)) (hne : ∀ ev ∈ tr, ∀ e, ev.2 ≠ .error e)
    (pl pr : List α) (x y : α) (ls rs : List α)
    (hL : elems (sideOf .L tr) = pl ++ x :: ls) (hR : elems (sideOf .R tr) = pr ++ y :: rs)
    (hp : listEq eq pl pr = true) (hxy : eq x y = false) :
    seqOut (fun a b => .ok (eq a b)) lag tr = [.next false, .completed] := by
  rw [seqeq_eq_spec eq hsym lag tr hne, hL, hR, seqSpec_mismatch eq pl pr x y ls rs _ _ hp hxy]; rfl

/-- **error forwarding**: after an error-free prefix `pre`, an `on_error` from a side that has not completed is what the
subscriber gets — unless the comparison was already decided during `pre`, in which case it keeps that decision;
nothing follows in either case (`post` arbitrary). -/
theorem seqeq_error {α} (eq : α → α → Bool) (hsym : ∀ a b, eq a b = eq b a) (lag : Bool) (sd : Side) (e : Err)
    (pre post : List (Side × Notif α)) (hne : ∀ ev ∈ pre, ∀ e, ev.2 ≠ .error e) (hnc : ∀ ev ∈ pre, ev ≠ (sd, .completed)) :
    seqOut (fun a b => .ok (eq a b)) lag (pre ++ (sd, .error e) :: post)
      = match seqSpec eq (elems (sideOf .L pre)) (elems (sideOf .R pre)) (isDone (sideOf .L pre)) (isDone (sideOf .R pre)) with
        | some b => [.next b, .completed]
        | none => [.error e] := by
  have := seqOutFrom_error eq hsym lag sd e post pre hne hnc false false [] [] (Or.inl rfl) (by simp) (by simp) (by simp)
    (by simp) (by simp)
  simp only [List.nil_append, restE_false, Bool.false_or] at this
  rw [seqOut, this]
  cases seqSpec eq (elems (sideOf .L pre)) (elems (sideOf .R pre)) (isDone (sideOf .L pre)) (isDone (sideOf .R pre)) <;> rfl

/-- **arbitrary (asymmetric) comparer — what the code computes.**  The code always calls `comparer(queued, arriving)`:
on both sides the element that **arrived first** is the first argument.  With every event tagged by its position in the trace
(`tagFrom 0 tr`) and `orient c p q` = `c` applied with the earlier-tagged value first, the output for *every* interleaving is the
declarative decision `seqSpec (orient c)` on the tagged sequences.  (For a symmetric `c` this is `seqeq_eq_spec`; for an
asymmetric one the verdict on a pair genuinely depends on which side delivered it first.) -/
theorem seqeq_asymmetric_spec {α} (c : α → α → Bool) (lag : Bool) (tr : List (Side × Notif α))
    (hne : ∀ ev ∈ tr, ∀ e, ev.2 ≠ .error e) :
    seqOut (fun a b => .ok (c a b)) lag tr
      = specOut (seqSpec (orient c) (elems (sideOf .L (tagFrom 0 tr))) (elems (sideOf .R (tagFrom 0 tr)))
          (isDone (sideOf .L (tagFrom 0 tr))) (isDone (sideOf .R (tagFrom 0 tr)))) := by
  have h := seqOutFrom_sim c lag tr 0 {} (by intro q hq; simp at hq)
  have h0 : untagRun ({} : SeqRun (Nat × α)) = {} := rfl
  rw [h0] at h
  rw [seqOut, h]
  exact seqeq_eq_spec (orient c) (orient_symm c) lag (tagFrom 0 tr) (tagFrom_noerr 0 tr hne)

example : seqOut (fun (a b : Nat) => .ok (decide (a ≤ b))) false [(.L, .next 1), (.R, .next 2), (.L, .completed), (.R, .completed)]
    = [.next true, .completed] := by decide
example : seqOut (fun (a b : Nat) => .ok (decide (a ≤ b))) false [(.R, .next 2), (.L, .next 1), (.L, .completed), (.R, .completed)]
    = [.next false, .completed] := by decide

/-- for every event trace and every (possibly raising, asymmetric) comparer the output does not depend on how promptly
the two source subscriptions are disposed -/
theorem seqeq_lag_irrelevant {α} (cmp : α → α → Except Err Bool) (tr : List (Side × Notif α)) :
    seqOut cmp true tr = seqOut cmp false tr :=
  seqOutFrom_lag cmp tr {} {} rfl rfl (fun _ => ⟨rfl, rfl⟩)

example : seqOut (fun (a b : Nat) => .ok (a == b)) false [(.L, .next 1), (.R, .next 1), (.R, .error "r"), (.L, .next 2)]
    = [.error "r"] := by decide

example : seqOutT (fun (a b : Nat) => .ok (a == b)) false
    [(210, .L, .next 1), (215, .R, .next 1), (220, .R, .next 2), (230, .L, .next 3), (240, .L, .completed), (250, .R, .completed)]
    = [(230, .next false), (230, .completed)] := by decide
example : seqOut (fun (a b : Nat) => .ok (a == b)) true
    [(.R, .next 1), (.R, .next 2), (.R, .completed), (.L, .next 1), (.L, .next 2), (.L, .completed), (.L, .next 9)]
    = [.next true, .completed] := by decide

end C06

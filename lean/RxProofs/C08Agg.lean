import RxProofs.Lemmas.AggNatural
/-!
# C08 (aggregating family) — falsy values are ordinary elements: naturality of the Agg operators

Support for `RxProofs/C08.lean` (owned by the `ops` family).  `op'.out lag (mapN ρ raw) = mapN σ (op.out lag raw)`: renaming
the elements by **any** `ρ` (so also sending `None, 0, 0.0, False, '', (), [], {}` to arbitrary values), with the callbacks
composed accordingly, renames the output — for every raw input and disposal timing.  No model of this family inspects an
element except through its callbacks and (to_set / contains / sequence_equal) the supplied equality.
-/
namespace C08Agg
open Agg
variable {α α' β β' κ κ' ν ν' : Type} (ρ : α → α') (lag : Bool) (raw : List (Notif α))

theorem scan_natural (σ : β → β') (f : β → α → Except Err β) (f' : β' → α' → Except Err β') (seed : Option β) (inj : α → β) (inj' : α' → β')
    (hf : ∀ a x, f' (σ a) (ρ x) = (f a x).map σ) (hinj : ∀ x, inj' (ρ x) = σ (inj x)) :
    (scanO f' (seed.map σ) inj').out lag (mapN ρ raw) = mapN σ ((scanO f seed inj).out lag raw) :=
  (scanO_nat ρ σ f f' seed inj inj' hf hinj).out lag raw

theorem reduce_natural (σ : β → β') (f : β → α → Except Err β) (f' : β' → α' → Except Err β') (seed : Option β) (inj : α → β) (inj' : α' → β')
    (hf : ∀ a x, f' (σ a) (ρ x) = (f a x).map σ) (hinj : ∀ x, inj' (ρ x) = σ (inj x)) :
    (reduceO f' (seed.map σ) inj').out lag (mapN ρ raw) = mapN σ ((reduceO f seed inj).out lag raw) := by
  cases seed with
  | none =>
    show (scanO f' none inj' ⨾ lastOrDefaultO none).out lag (mapN ρ raw) = mapN σ ((scanO f none inj ⨾ lastOrDefaultO none).out lag raw)
    exact natural_comp (fun l r => (scanO_nat ρ σ f f' none inj inj' hf hinj).out l r)
      (fun l r => (lastOrDefaultO_nat σ none).out l r) lag raw
  | some sd =>
    show (scanO f' (some (σ sd)) inj' ⨾ lastOrDefaultO (some (σ sd))).out lag (mapN ρ raw)
      = mapN σ ((scanO f (some sd) inj ⨾ lastOrDefaultO (some sd)).out lag raw)
    exact natural_comp (fun l r => (scanO_nat ρ σ f f' (some sd) inj inj' hf hinj).out l r)
      (fun l r => (lastOrDefaultO_nat σ (some sd)).out l r) lag raw

/-- `count` does not look at the elements at all -/
theorem count_natural (p : Option (α → Except Err Bool)) (p' : Option (α' → Except Err Bool))
    (hp : match p, p' with | none, none => True | some q, some q' => ∀ x, q' (ρ x) = q x | _, _ => False) :
    (countO p').out lag (mapN ρ raw) = (countO p).out lag raw := by
  have hc : ∀ {γ γ'} (τ : γ → γ') l (r : List (Notif γ)), (countAllO : Op γ' Nat).out l (mapN τ r) = mapN id ((countAllO : Op γ Nat).out l r) :=
    fun τ l r => reduce_natural τ l r id _ _ (some 0) _ _ (fun a x => rfl) (fun x => rfl)
  have hid : ∀ (l : List (Notif Nat)), mapN id l = l := mapN_id
  cases p <;> cases p' <;> simp only at hp
  · simpa [countO, hid] using hc ρ lag raw
  · rename_i q q'
    have := natural_comp (fun l r => (filterO_nat ρ q q' hp).out l r) (fun l r => hc ρ l r) lag raw
    simpa [countO, hid] using this

theorem sum_by_natural (key : α → Except Err β) (key' : α' → Except Err β) (add : β → β → Except Err β) (zero : β)
    (hkey : ∀ x, key' (ρ x) = key x) :
    (sumByO key' add zero).out lag (mapN ρ raw) = (sumByO key add zero).out lag raw := by
  simp only [sumByO]
  rw [Op.out_comp _ _ lag lag lag, Op.out_comp _ _ lag lag lag]
  congr 1
  have := (mapO_nat ρ id key key' (fun x => by rw [hkey]; cases key x <;> rfl)).out lag raw
  rw [this, mapN_id]

theorem average_natural (key : α → Except Err Int) (key' : α' → Except Err Int) (hkey : ∀ x, key' (ρ x) = key x) :
    (averageO key').out lag (mapN ρ raw) = (averageO key).out lag raw := by
  simp only [averageO]
  rw [Op.out_comp _ _ lag lag lag, Op.out_comp _ _ lag lag lag, Op.out_comp _ _ lag lag lag,
    Op.out_comp (mapO key ⨾ _ ⨾ _) _ lag lag lag, Op.out_comp (mapO key ⨾ _) _ lag lag lag, Op.out_comp (mapO key) _ lag lag lag]
  congr 3
  have := (mapO_nat ρ id key key' (fun x => by rw [hkey]; cases key x <;> rfl)).out lag raw
  rw [this, mapN_id]

theorem max_by_natural (κρ : κ → κ') (key : α → Except Err κ) (key' : α' → Except Err κ') (cmp : κ → κ → Except Err Int)
    (cmp' : κ' → κ' → Except Err Int) (hkey : ∀ x, key' (ρ x) = (key x).map κρ) (hcmp : ∀ a b, cmp' (κρ a) (κρ b) = cmp a b) :
    (maxByO key' cmp').out lag (mapN ρ raw) = mapN (List.map ρ) ((maxByO key cmp).out lag raw) :=
  (extremaByO_nat ρ κρ key key' cmp cmp' hkey hcmp).out lag raw

theorem min_by_natural (κρ : κ → κ') (key : α → Except Err κ) (key' : α' → Except Err κ') (cmp : κ → κ → Except Err Int)
    (cmp' : κ' → κ' → Except Err Int) (hkey : ∀ x, key' (ρ x) = (key x).map κρ) (hcmp : ∀ a b, cmp' (κρ a) (κρ b) = cmp a b) :
    (minByO key' cmp').out lag (mapN ρ raw) = mapN (List.map ρ) ((minByO key cmp).out lag raw) :=
  (extremaByO_nat ρ κρ key key' _ _ hkey (fun a b => by rw [hcmp])).out lag raw

theorem firstOnly_map (l : List α) : firstOnly (l.map ρ) = (firstOnly l).map ρ := by cases l <;> rfl

theorem max_natural (cmp : α → α → Except Err Int) (cmp' : α' → α' → Except Err Int) (hcmp : ∀ a b, cmp' (ρ a) (ρ b) = cmp a b) :
    (maxO cmp').out lag (mapN ρ raw) = mapN ρ ((maxO cmp).out lag raw) :=
  natural_comp (fun l r => (extremaByO_nat ρ ρ _ _ cmp cmp' (fun x => rfl) hcmp).out l r)
    (fun l r => (mapO_nat (List.map ρ) ρ firstOnly firstOnly (firstOnly_map ρ)).out l r) lag raw

theorem min_natural (cmp : α → α → Except Err Int) (cmp' : α' → α' → Except Err Int) (hcmp : ∀ a b, cmp' (ρ a) (ρ b) = cmp a b) :
    (minO cmp').out lag (mapN ρ raw) = mapN ρ ((minO cmp).out lag raw) :=
  natural_comp (fun l r => (extremaByO_nat ρ ρ _ _ _ _ (fun x => rfl) (fun a b => by rw [hcmp])).out l r)
    (fun l r => (mapO_nat (List.map ρ) ρ firstOnly firstOnly (firstOnly_map ρ)).out l r) lag raw

theorem to_list_natural : (toListO : Op α' (List α')).out lag (mapN ρ raw) = mapN (List.map ρ) ((toListO : Op α (List α)).out lag raw) :=
  (toListO_nat ρ).out lag raw

theorem to_set_natural (eq : α → α → Bool) (eq' : α' → α' → Bool) (heq : ∀ a b, eq' (ρ a) (ρ b) = eq a b) :
    (toSetO eq').out lag (mapN ρ raw) = mapN (List.map ρ) ((toSetO eq).out lag raw) :=
  (toSetO_nat ρ eq eq' heq).out lag raw

theorem to_dict_natural (eq : κ → κ → Bool) (τ : ν → ν') (key : α → Except Err κ) (key' : α' → Except Err κ)
    (elem : α → Except Err ν) (elem' : α' → Except Err ν') (hkey : ∀ x, key' (ρ x) = key x) (helem : ∀ x, elem' (ρ x) = (elem x).map τ) :
    (toDictO eq key' elem').out lag (mapN ρ raw)
      = mapN (List.map (fun p => (p.1, τ p.2))) ((toDictO eq key elem).out lag raw) :=
  (toDictO_nat ρ eq τ key key' elem elem' hkey helem).out lag raw

/-- first / last / single, with or without default (a default `d` is renamed too — `None` as default is like any other) -/
theorem first_last_single_natural (d : Option α) :
    (firstOrDefaultO (d.map ρ)).out lag (mapN ρ raw) = mapN ρ ((firstOrDefaultO d).out lag raw)
    ∧ (lastOrDefaultO (d.map ρ)).out lag (mapN ρ raw) = mapN ρ ((lastOrDefaultO d).out lag raw)
    ∧ (singleOrDefaultO (d.map ρ)).out lag (mapN ρ raw) = mapN ρ ((singleOrDefaultO d).out lag raw) :=
  ⟨(firstOrDefaultO_nat ρ d).out lag raw, (lastOrDefaultO_nat ρ d).out lag raw, (singleOrDefaultO_nat ρ d).out lag raw⟩

/-- the predicate forms `filter(pred) | …` -/
theorem predicate_forms_natural (p : α → Except Err Bool) (p' : α' → Except Err Bool) (hp : ∀ x, p' (ρ x) = p x) (d : Option α) :
    (filterO p' ⨾ firstOrDefaultO (d.map ρ)).out lag (mapN ρ raw) = mapN ρ ((filterO p ⨾ firstOrDefaultO d).out lag raw)
    ∧ (filterO p' ⨾ lastOrDefaultO (d.map ρ)).out lag (mapN ρ raw) = mapN ρ ((filterO p ⨾ lastOrDefaultO d).out lag raw)
    ∧ (filterO p' ⨾ singleOrDefaultO (d.map ρ)).out lag (mapN ρ raw) = mapN ρ ((filterO p ⨾ singleOrDefaultO d).out lag raw)
    ∧ (filterO p' ⨾ someOp).out lag (mapN ρ raw) = mapN id ((filterO p ⨾ someOp).out lag raw) := by
  have hf := fun l r => (filterO_nat ρ p p' hp).out l r
  exact ⟨natural_comp hf (fun l r => (firstOrDefaultO_nat ρ d).out l r) lag raw,
    natural_comp hf (fun l r => (lastOrDefaultO_nat ρ d).out l r) lag raw,
    natural_comp hf (fun l r => (singleOrDefaultO_nat ρ d).out l r) lag raw,
    natural_comp hf (fun l r => (someOp_nat ρ).out l r) lag raw⟩

theorem mapN_id_bool (l : List (Notif Bool)) : mapN id l = l := mapN_id l

/-- some / is_empty / all / contains: the Boolean result does not depend on the renaming -/
theorem some_natural : (someOp : Op α' Bool).out lag (mapN ρ raw) = (someOp : Op α Bool).out lag raw := by
  rw [(someOp_nat ρ).out lag raw, mapN_id_bool]

theorem is_empty_natural : (isEmptyO : Op α' Bool).out lag (mapN ρ raw) = (isEmptyO : Op α Bool).out lag raw := by
  simp only [isEmptyO]
  rw [Op.out_comp _ _ lag lag lag, Op.out_comp _ _ lag lag lag, some_natural]

theorem all_natural (p : α → Except Err Bool) (p' : α' → Except Err Bool) (hp : ∀ x, p' (ρ x) = p x) :
    (allO p').out lag (mapN ρ raw) = (allO p).out lag raw := by
  simp only [allO]
  rw [Op.out_comp _ _ lag lag lag, Op.out_comp _ _ lag lag lag, Op.out_comp (filterO _ ⨾ _) _ lag lag lag, Op.out_comp (filterO _) _ lag lag lag]
  congr 1
  rw [(filterO_nat ρ _ _ (fun x => by rw [hp])).out lag raw, some_natural]

theorem contains_natural (v : α) (cmp : α → α → Except Err Bool) (cmp' : α' → α' → Except Err Bool)
    (hcmp : ∀ a b, cmp' (ρ a) (ρ b) = cmp a b) :
    (containsO (ρ v) cmp').out lag (mapN ρ raw) = (containsO v cmp).out lag raw := by
  simp only [containsO]
  rw [Op.out_comp _ _ lag lag lag, Op.out_comp _ _ lag lag lag,
    (filterO_nat ρ (fun x => cmp x v) (fun x => cmp' x (ρ v)) (fun x => hcmp x v)).out lag raw, some_natural]

/-- a concrete renaming of the falsy values: the result is the renamed result -/
example : (lastOrDefaultO (some (0 : Nat))).out false (mapN (fun n => n + 7) [.next 0, .next 3, .next 0, .completed])
    = mapN (fun n => n + 7) ((lastOrDefaultO (some 0)).out false [.next 0, .next 3, .next 0, .completed]) := by decide

end C08Agg

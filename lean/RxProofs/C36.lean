import RxProofs.Lemmas.PureTimeConv
import RxProofs.Lemmas.PureRd
/-!
# C36 — time values convert consistently between representations

Property theorems only.  `timedelta` and aware `datetime` are exact integer microsecond counts; a
float is the exact rational value of the double.  The float legs are stated for ANY rounding
function `rn` with the properties of IEEE-754 round-to-nearest in the normal range
(`Pure.TimeConv.Rounding`: monotone, exact on integers up to 2^53, relative error ≤ 2^-53); the
executable `rd` of the driver is tied to CPython's doubles by the exact differential check.
-/
open Pure.TimeConv

namespace C36

/-- **td_dt_roundtrip.** `to_timedelta(to_datetime(td)) == td`, exactly, for every timedelta. -/
theorem td_dt_roundtrip (rn : Rat → Rat) (us : Int) :
    toTimedelta rn (.dt (toDatetime rn (.td us))) = us := by
  simp [toTimedelta, toDatetime]

/-- **dt_td_roundtrip.** `to_datetime(to_timedelta(dt)) == dt`, exactly, for every aware datetime. -/
theorem dt_td_roundtrip (rn : Rat → Rat) (us : Int) :
    toDatetime rn (.td (toTimedelta rn (.dt us))) = us := by
  simp [toTimedelta, toDatetime]

/-- **int_legs_exact.** Values already in the target representation come back unchanged; int seconds
convert exactly. -/
theorem int_legs_exact (rn : Rat → Rat) (us k : Int) (x : Rat) :
    toTimedelta rn (.td us) = us ∧ toDatetime rn (.dt us) = us ∧ toSeconds rn (.flt x) = .flt x ∧
    toSeconds rn (.int k) = .int k ∧ toTimedelta rn (.int k) = k * 1000000 ∧ toDatetime rn (.int k) = k * 1000000 :=
  ⟨rfl, rfl, rfl, rfl, rfl, rfl⟩

/-- **to_seconds_monotone.** Order of timedeltas / datetimes is preserved by `to_seconds`. -/
theorem to_seconds_monotone {rn} (R : Rounding rn) {a b : Int} (h : a ≤ b) :
    (toSeconds rn (.td a)).val ≤ (toSeconds rn (.td b)).val ∧
    (toSeconds rn (.dt a)).val ≤ (toSeconds rn (.dt b)).val := by
  have hab : (a : Rat) ≤ (b : Rat) := Rat.intCast_le_intCast.2 h
  have : (a : Rat) / e6 ≤ (b : Rat) / e6 := by simp only [e6]; grind
  refine ⟨R.mono _ _ this, ?_⟩
  simp only [toSeconds, Secs.val, Int.sub_zero]
  exact R.mono _ _ this

/-- **to_timedelta_monotone.** Order is preserved by `to_timedelta` on floats, datetimes and ints. -/
theorem to_timedelta_monotone {rn} (R : Rounding rn) :
    (∀ x y : Rat, x ≤ y → toTimedelta rn (.flt x) ≤ toTimedelta rn (.flt y)) ∧
    (∀ a b : Int, a ≤ b → toTimedelta rn (.dt a) ≤ toTimedelta rn (.dt b)) ∧
    (∀ a b : Int, a ≤ b → toTimedelta rn (.int a) ≤ toTimedelta rn (.int b)) := by
  refine ⟨fun x y h => usOfFloat_mono R h, fun a b h => by simp [toTimedelta]; omega,
    fun a b h => by simp [toTimedelta]; omega⟩

/-- **fromTimestamp_eq_usOfFloat.** `datetime.fromtimestamp(x, tz=utc)` lands on the same microsecond as
`timedelta(seconds=x)`, with its microsecond field normalised into `[0, 10^6)`. -/
theorem fromTimestamp_eq_usOfFloat {rn} (R : Rounding rn) (x : Rat) :
    toDatetime rn (.flt x) = toTimedelta rn (.flt x) ∧
    0 ≤ (fromTimestamp rn x).2 ∧ (fromTimestamp rn x).2 < 1000000 := by
  refine ⟨?_, fromTimestamp_field R x⟩
  simp only [toDatetime, toTimedelta]
  exact fromTimestamp_total rn x

/-- **to_datetime_monotone.** Order is preserved by `to_datetime` on floats, timedeltas and ints. -/
theorem to_datetime_monotone {rn} (R : Rounding rn) :
    (∀ x y : Rat, x ≤ y → toDatetime rn (.flt x) ≤ toDatetime rn (.flt y)) ∧
    (∀ a b : Int, a ≤ b → toDatetime rn (.td a) ≤ toDatetime rn (.td b)) ∧
    (∀ a b : Int, a ≤ b → toDatetime rn (.int a) ≤ toDatetime rn (.int b)) := by
  refine ⟨fun x y h => ?_, fun a b h => by simp [toDatetime]; omega, fun a b h => by simp [toDatetime]; omega⟩
  rw [(fromTimestamp_eq_usOfFloat R x).1, (fromTimestamp_eq_usOfFloat R y).1]
  exact usOfFloat_mono R h

/-- **float_roundtrip_us.** For every microsecond count with `|us| ≤ 2^52 − 2^20`, going to float seconds
and back — as a timedelta or as a datetime — returns exactly `us` (error budget:
`|us|·2^-53 + 1/2 + 10^6·2^-53 < 1`). -/
theorem float_roundtrip_us {rn} (R : Rounding rn) (us : Int)
    (hlo : -(4503599627370496 - 1048576) ≤ us) (hhi : us ≤ 4503599627370496 - 1048576) :
    toTimedelta rn (.flt (toSeconds rn (.td us)).val) = us ∧
    toDatetime rn (.flt (toSeconds rn (.dt us)).val) = us := by
  have h := float_roundtrip R us hlo hhi
  constructor
  · exact h
  · rw [(fromTimestamp_eq_usOfFloat R _).1]
    simpa [toSeconds, Secs.val, toTimedelta] using h

/-- **rd_is_rounding.** The executable IEEE-754 binary64 round-to-nearest-even used by the driver (and
compared exactly with CPython's doubles on every run) IS a `Rounding`: monotone, exact on the
integers up to 2^53, relative error at most 2^-53 — for every rational (normal range model). -/
theorem rd_is_rounding : Rounding rd := rd_rounding

/-- the float-leg theorems instantiated with the executable rounding -/
theorem float_legs_rd :
    (∀ a b : Int, a ≤ b → (toSeconds rd (.td a)).val ≤ (toSeconds rd (.td b)).val) ∧
    (∀ x y : Rat, x ≤ y → toTimedelta rd (.flt x) ≤ toTimedelta rd (.flt y)) ∧
    (∀ x y : Rat, x ≤ y → toDatetime rd (.flt x) ≤ toDatetime rd (.flt y)) ∧
    (∀ us : Int, -(4503599627370496 - 1048576) ≤ us → us ≤ 4503599627370496 - 1048576 →
      toTimedelta rd (.flt (toSeconds rd (.td us)).val) = us ∧ toDatetime rd (.flt (toSeconds rd (.dt us)).val) = us) :=
  ⟨fun _ _ h => (to_seconds_monotone rd_rounding h).1, (to_timedelta_monotone rd_rounding).1,
   (to_datetime_monotone rd_rounding).1, fun us h1 h2 => float_roundtrip_us rd_rounding us h1 h2⟩

/-! ## non-vacuity: the hypotheses are satisfiable (exact arithmetic is a `Rounding`), and the bounds are met -/
theorem rounding_id : Rounding (fun x => x) where
  mono := fun _ _ h => h
  fixInt := fun _ _ _ => rfl
  errPos := fun x h => by constructor <;> grind
  errNeg := fun x h => by constructor <;> grind

example : toTimedelta (fun x => x) (.flt (toSeconds (fun x => x) (.td 1700000000123457)).val) = 1700000000123457 :=
  (float_roundtrip_us rounding_id 1700000000123457 (by decide) (by decide)).1
example : toTimedelta (fun x : Rat => x) (.dt (toDatetime (fun x => x) (.td (-5)))) = -5 := td_dt_roundtrip _ _

end C36

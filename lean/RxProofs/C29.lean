import RxProofs.Lemmas.VtsC29
/-!
# C29 — virtual-time runs always finish

Property theorems only.  Model: `RxModel/Vts.lean`.  `Vts.loop` (the `while True:` loop of `start` and
`advance_to`) is defined by well-founded recursion on the number of pending action-tree nodes; Lean's
acceptance of that definition is the termination proof, for every finite set of scheduled action trees,
however many share a due time, on both clock flavours.  The model is of the REPAIRED code
(`fix: … self._clock += …`); the behaviour of the unfixed tree is kept as `Cfg.spinDeadlock` and shown to
block in the clearly separated section at the end.
-/

namespace C29
open Vts

/-- **start_terminates.** `start()` and `advance_to()` are total functions of the scheduler state — Lean
accepted `Vts.loop` by well-founded recursion on the number of pending action-tree nodes
(`Vts.iter_next_nodes`: every iteration that continues strictly decreases it), however many actions share
a due time and whichever clock flavour (`cfg.bump`).  Explicitly: the loop returns after at most
`nodes + 1` evaluations of its body (it equals the fuel-bounded loop), and on the repaired code
(`spinDeadlock = false`) the calling thread never blocks. -/
theorem start_terminates (cfg : Cfg) (hfix : cfg.spinDeadlock = false) (s : St) :
    (∀ tgt, loop cfg tgt s = loopFuel cfg tgt (s.queue.nodes + 1) s) ∧
    (start cfg s).2 ≠ .stuck ∧ (∀ T, (advanceTo cfg T s).2 ≠ .stuck) ∧
    (∀ tgt x s', iter cfg tgt s = .next x s' → s'.queue.nodes < s.queue.nodes) := by
  refine ⟨fun tgt => loop_eq_loopFuel cfg tgt _ s (by omega), ?_, ?_, fun tgt x s' h => iter_next_nodes h⟩
  · simp only [start]
    split
    · simp
    · have := loop_not_stuck cfg hfix none { s with enabled := true, spin := 0 }
      split
      · simp
      · exact this
  · intro T
    simp only [advanceTo]
    split
    · simp
    · split
      · simp
      · have := loop_not_stuck cfg hfix (some T) { s with enabled := true }
        split
        · simp
        · exact this

/-- `CountInv` holds in every state reachable from a fresh scheduler by any script of calls -/
theorem countInv_reachable (cfg : Cfg) (ops : List Op) (c0 : Int) :
    CountInv (runOps cfg { clock := c0 } ops).1 :=
  (runOps_inv (φ := anyStep) (top := fun _ _ _ => True) (R := fun _ _ => CountInv) (fun tgt => countInv_iter cfg tgt anyStep)
    (fun _ _ _ h => h)
    (fun s id m t b w _ _ h => by
      simp only [CountInv, St.enqueue, PQ.enqueue, List.length_append, List.length_singleton] at h ⊢; omega)
    (fun _ _ h => by simpa [CountInv, St.cancel] using h)
    (Or.inl (fun _ _ h => h)) ops _
    (fun op _ => by cases op <;> simp [Op.AllT, all_any])
    (by simp [CountInv]) (qall_any _)).1

/-- **start_runs_all_uncancelled.** If `start()` on a scheduler that is not running returns normally and no
action called `stop()`, then the queue is drained, the scheduler is stopped, and every action ever
scheduled — before the call or by actions during it, at whatever due time — has been executed, except
those dequeued while cancelled: `#executed + #skipped-cancelled = #scheduled`.  (`CountInv` holds in every
reachable state: `countInv_reachable`.) -/
theorem start_runs_all_uncancelled (cfg : Cfg) (s s' : St) (hq : QAll noStop s) (hen : s.enabled = false)
    (hc : CountInv s) (h : start cfg s = (s', .ok)) :
    s'.queue.items = [] ∧ s'.enabled = false ∧ s'.log.length + s'.skipped.length = s'.nsched := by
  obtain ⟨s'', hl, rfl⟩ := start_ok hen h
  let P : St → Prop := fun st => st.enabled = true ∧ CountInv st
  have I : IterInv cfg none noStop P (fun _ => P) := {
    skip := by intro st x q' sp ⟨h1, h2⟩ a b hd c d; exact ⟨h1, (countInv_iter cfg none noStop).skip st x q' sp h2 a b hd c d⟩
    begin := by intro st x q' sp ⟨h1, h2⟩ a b hd c d; exact ⟨h1, (countInv_iter cfg none noStop).begin st x q' sp h2 a b hd c d⟩
    enq := by intro x st via m t cid child a b ⟨h1, h2⟩; exact ⟨h1, (countInv_iter cfg none noStop).enq x st via m t cid child a b h2⟩
    cancel := by intro x st id ⟨h1, h2⟩; exact ⟨h1, (countInv_iter cfg none noStop).cancel x st id h2⟩
    link := by intro x s l h; exact h
    stop := by intro x st hs _; exact absurd hs (by simp [noStop])
    sleep := by intro x st t _ _ h; exact h
    handled := by intro x st e _ _ h; exact h
    finish := by intro x st sp h; exact h }
  have hP := (loop_inv2 I { s with enabled := true, spin := 0 } ⟨rfl, hc⟩ hq).1
  rw [hl] at hP
  obtain ⟨hen'', hc''⟩ := hP
  have hexit := loop_ok_exit _ _ hl
  have hempty : s''.queue.items = [] := by
    rcases iter_cases cfg none s'' with ⟨_, h1 | h1 | ⟨x, q', hd, hpt⟩⟩ | ⟨x, q', _, _, _, ⟨_, hst⟩ | ⟨s2, _, hf⟩⟩
    · rw [hen''] at h1; cases h1
    · exact h1
    · simp [pastTarget] at hpt
    · rw [hst] at hexit; simp at hexit
    · rw [hf] at hexit
      rcases fin_cases cfg none s2 x with ⟨_, h2⟩ | ⟨_, ⟨_, _, h2⟩ | ⟨_, _, _, h2⟩⟩ <;> rw [h2] at hexit <;> simp at hexit
  refine ⟨hempty, rfl, ?_⟩
  simp only [CountInv, hempty, List.length_nil] at hc''
  simpa using hc''

/-- **restart_after_drain.** A scheduler whose queue drained can be started again: after a `start()` that
returned normally the scheduler is not enabled (so the next `start()` is not the `if self._is_enabled:
return` no-op), and after any further scheduling calls `more` a second `start()` that returns normally has
again executed everything that was not cancelled. -/
theorem restart_after_drain (cfg : Cfg) (s s1 s2 : St) (more : List (Nat × Int × Act × Bool))
    (hq : QAll noStop s) (hmore : ∀ p ∈ more, p.2.2.1.All noStop) (hen : s.enabled = false) (hc : CountInv s)
    (h1 : start cfg s = (s1, .ok))
    (h2 : start cfg (more.foldl (fun st p => st.enqueue p.1 p.2.1 p.2.2.1 p.2.2.2) s1) = (s2, .ok)) :
    s1.enabled = false ∧ s1.queue.items = [] ∧ s2.queue.items = [] ∧ s2.enabled = false ∧
    s2.log.length + s2.skipped.length = s2.nsched ∧ s1.nsched + more.length ≤ s2.nsched := by
  obtain ⟨he1, hen1, hc1⟩ := start_runs_all_uncancelled cfg s s1 hq hen hc h1
  -- the state after the extra scheduling calls
  have key : ∀ (l : List (Nat × Int × Act × Bool)) (st : St), (∀ p ∈ l, p.2.2.1.All noStop) →
      QAll noStop st → st.enabled = false → CountInv st →
      let st' := l.foldl (fun st p => st.enqueue p.1 p.2.1 p.2.2.1 p.2.2.2) st
      QAll noStop st' ∧ st'.enabled = false ∧ CountInv st' ∧ st'.nsched = st.nsched + l.length := by
    intro l
    induction l with
    | nil => intro st _ a b c; exact ⟨a, b, c, by simp⟩
    | cons p l ih =>
      intro st hl a b c
      have := ih (st.enqueue p.1 p.2.1 p.2.2.1 p.2.2.2) (fun q hq => hl q (by simp [hq]))
        (qall_enqueue a _ _ _ _ (hl p (by simp))) (by simpa [St.enqueue] using b)
        (by simp only [CountInv, St.enqueue, PQ.enqueue, List.length_append, List.length_singleton] at c ⊢; omega)
      obtain ⟨r1, r2, r3, r4⟩ := this
      refine ⟨r1, r2, r3, ?_⟩
      simp only [List.foldl_cons, List.length_cons]
      rw [r4]; simp only [St.enqueue]; omega
  have hq1 : QAll noStop s1 := by intro e he; rw [he1] at he; simp at he
  have hc1' : CountInv s1 := by simp only [CountInv, he1, List.length_nil]; omega
  obtain ⟨r1, r2, r3, r4⟩ := key more s1 hmore hq1 hen1 hc1'
  obtain ⟨a, b, c⟩ := start_runs_all_uncancelled cfg _ s2 r1 r2 r3 h2
  -- `nsched` never decreases during a run
  have hmono : (more.foldl (fun st p => st.enqueue p.1 p.2.1 p.2.2.1 p.2.2.2) s1).nsched ≤ s2.nsched := by
    obtain ⟨s'', hl, rfl⟩ := start_ok r2 h2
    have I : IterInv cfg none anyStep (fun st => s1.nsched + more.length ≤ st.nsched)
        (fun _ st => s1.nsched + more.length ≤ st.nsched) := {
      skip := by intro st x q' sp h _ _ _ _ _; exact h
      begin := by intro st x q' sp h _ _ _ _ _; exact h
      enq := by intro x st via m t cid child _ _ h; simp only [St.enqueue]; omega
      cancel := by intro x st id h; exact h
      link := by intro x s l h; exact h
      stop := by intro x st _ h; exact h
      sleep := by intro x st t _ _ h; exact h
      handled := by intro x st e _ _ h; exact h
      finish := by intro x st sp h; exact h }
    have := (loop_inv2 I { (more.foldl (fun st p => st.enqueue p.1 p.2.1 p.2.2.1 p.2.2.2) s1) with enabled := true, spin := 0 }
      (by show s1.nsched + more.length ≤ (more.foldl (fun st p => st.enqueue p.1 p.2.1 p.2.2.1 p.2.2.2) s1).nsched; omega)
      (qall_any _)).1
    rw [hl] at this
    have this' : s1.nsched + more.length ≤ s''.nsched := this
    have r4' : (more.foldl (fun st p => st.enqueue p.1 p.2.1 p.2.2.1 p.2.2.2) s1).nsched = s1.nsched + more.length := r4
    show (more.foldl (fun st p => st.enqueue p.1 p.2.1 p.2.2.1 p.2.2.2) s1).nsched ≤ s''.nsched
    omega
  exact ⟨hen1, he1, a, b, c, by omega⟩

/-! ## Non-vacuity -/

private def demo : St :=
  (({ clock := 0 } : St).enqueue 1 0 (.sched .handed .imm 0 3 (.sched .handed .imm 0 4 .done .done) .done) false).enqueue 2 0 .done false

/-- self-rescheduling at the current time (1 → 3 → 4), all at time 0: everything runs, queue drained -/
example : (start {} demo).2 = .ok ∧ (start {} demo).1.log.map (·.id) = [1, 2, 3, 4] ∧
    (start {} demo).1.queue.items = [] ∧ (start {} demo).1.nsched = 4 := by
  rw [start_eq_fuel {} 20 demo (by decide)]
  decide

/-- re-entrant control calls from inside a running action — `advance_to(later)`, `advance_by(0)`, `start()`, an
out-of-range `advance_to` caught by the action — return at once and change nothing: the outer run still
executes everything queued behind the action (`start_runs_all_uncancelled` applies: `noStop` allows them) -/
private def reent : St :=
  ((({ clock := 3 } : St).enqueue 1 3 (.ctl (.advTo 9 false) (.ctl (.advBy 0 false) (.ctl .start (.ctl (.advTo 1 true) .done)))) false).enqueue 2 3 .done false).enqueue 3 4 .done false

example : (start {} reent).2 = .ok ∧ (start {} reent).1.log.map (fun r => (r.id, r.at_)) = [(1, 3), (2, 3), (3, 4)] ∧
    (start {} reent).1.queue.items = [] := by
  rw [start_eq_fuel {} 20 reent (by decide)]
  decide

example : QAll noStop reent := by
  intro e he
  simp [reent, St.enqueue, PQ.enqueue] at he
  rcases he with rfl | rfl | rfl <;> simp [Act.All, noStop]

example : QAll noStop demo ∧ demo.enabled = false ∧ CountInv demo := by
  refine ⟨?_, rfl, by simp [CountInv, demo, St.enqueue, PQ.enqueue]⟩
  intro e he
  simp [demo, St.enqueue, PQ.enqueue] at he
  rcases he with rfl | rfl <;> simp [Act.All, noStop]

/-! ## AS-IS behaviour of the unfixed tree (defect #1 of DESIGN §6, repaired by `fix:` C29_historical_spin_deadlock)

On a datetime clock the spin branch of `start` executed `self.clock += timedelta(microseconds=1000)` while
holding the non-reentrant `self._lock`; reading the `clock` property re-acquires that lock, so the thread
blocks forever.  `histAsIs` is that behaviour (`spinDeadlock := true`), `histFixed` the repaired one.
Witness: 102 actions scheduled at the same time — 101 run, then the call never returns.  Replayed on the
real code by `./check C29` (watchdog). -/

set_option maxRecDepth 100000 in
theorem historical_spin_stuck :
    (start histAsIs (sameTime 102)).2 = .stuck ∧ (start histAsIs (sameTime 102)).1.log.length = 101 := by
  rw [start_eq_fuel histAsIs 200 (sameTime 102) (by decide)]
  decide


set_option maxRecDepth 100000 in
theorem historical_spin_fixed :
    (start histFixed (sameTime 102)).2 = .ok ∧ (start histFixed (sameTime 102)).1.log.length = 102 ∧
    (start histFixed (sameTime 102)).1.clock = 1000 := by
  rw [start_eq_fuel histFixed 200 (sameTime 102) (by decide)]
  decide

end C29

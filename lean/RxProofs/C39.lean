import RxModel.StructFluent
import RxGen.Fluent
import RxProofs.Lemmas.StructFluent
/-!
# C39 — fluent operator methods equal their piped operators

`RxGen.Fluent.table` is regenerated from `reactivex/observable/mixins/*.py` and
`reactivex/operators/__init__.py` on every run.  `fluent_forwarding_ok` re-checks the row check
on it in the kernel; `fluent_eq_pipe` is the (table-independent) soundness theorem of that check;
`fluent_eq_pipe_table` is their combination: the statement about the code that exists.
-/

namespace C39
open Struct.Fluent

/-- **fluent_forwarding_ok.** Every public mixin method of the current tree forwards to the operator
of the same name (or its documented alias `do→do_action`, `to_list→to_iterable`), on `self`,
with every argument going to the operator parameter at the same position / of the same keyword
name, arguments dropped only under a guard `p is d` where `d` is the operator's own default,
and equal defaults on both sides; no method is shadowed along Observable's MRO. -/
theorem fluent_forwarding_ok : tableOk RxGen.Fluent.table = true := by decide +kernel

/-- **fluent_eq_pipe.** Soundness of the row check, for *any* table: if row `m` passes, then for
every value type `V`, every interpretation `const` of default expressions and every assignment
`env` of actual arguments to `m`'s parameters, the operator application that the body of `m`
builds and pipes onto `self` is the operator application obtained by calling
`ops.<aliasOf m.name>` directly with the same arguments (whenever both calls are valid calls). -/
theorem fluent_eq_pipe (t : Table) (m : Method) (hok : ok t m = true)
    {V : Type} [DecidableEq V] (const : String → V) (env : String → Option V)
    (sig : OpSig) (hsig : t.ops.find? (fun s => s.name == aliasOf m.name) = some sig)
    (a a' : App V) (hf : fluentApp const t m env = some a)
    (hp : pipedApp const sig m.params env = some a') : a = a' := by
  unfold fluentApp at hf
  by_cases hc : (m.recvSelf && m.params.all (fun p => (p.resolve const env).isSome)) = true
  case neg => simp [hc] at hf
  case pos =>
    simp only [hc, if_true] at hf
    cases hsel : selectBranch const m.params env m.branches with
    | none => simp [hsel] at hf
    | some b =>
      simp only [hsel] at hf
      have hbmem : b ∈ m.branches := List.mem_of_find?_eq_some hsel
      unfold ok at hok
      split at hok
      · -- delegation `self.n(...)`
        rename_i n pos kw hbr
        rw [hbr] at hbmem
        simp only [List.mem_singleton] at hbmem
        subst hbmem
        simp only at hf
        cases hfm : t.methods.find? (fun m' => m'.name == n) with
        | none => simp [hfm] at hf
        | some m' =>
          simp only [hfm] at hf hok
          simp only [Bool.and_eq_true] at hok
          obtain ⟨_, ⟨⟨⟨hpar, _⟩, _⟩, hd⟩⟩ := hok
          have hpe : m'.params = m.params := by simpa using hpar
          split at hf
          case isFalse => cases hf
          case isTrue =>
            have := direct_sound const t.ops (aliasOf m.name) m.name m' hd sig hsig env a a' hf
              (by rw [hpe]; exact hp)
            exact this
      · -- direct `ops.NAME(...)`
        simp only [Bool.and_eq_true, Bool.not_eq_true'] at hok
        obtain ⟨hns, hd⟩ := hok
        have hnb : isSelfBranch b = false := by
          have := List.any_eq_false.mp hns b hbmem
          simpa using this
        cases htgt : b.call.target with
        | op n' =>
          simp only [htgt] at hf
          exact direct_sound const t.ops (aliasOf m.name) m.name m hd sig hsig env a a' hf hp
        | self n' => simp [isSelfBranch, htgt] at hnb
        | unknown s => simp [htgt] at hf

/-- **fluent_op_name.** A passing row applies the operator named like the method (or its alias). -/
theorem fluent_op_name (t : Table) (m : Method) (hok : ok t m = true)
    {V : Type} [DecidableEq V] (const : String → V) (env : String → Option V)
    (a : App V) (hf : fluentApp const t m env = some a) : a.op = aliasOf m.name := by
  unfold fluentApp at hf
  by_cases hc : (m.recvSelf && m.params.all (fun p => (p.resolve const env).isSome)) = true
  case neg => simp [hc] at hf
  case pos =>
    simp only [hc, if_true] at hf
    cases hsel : selectBranch const m.params env m.branches with
    | none => simp [hsel] at hf
    | some b =>
      simp only [hsel] at hf
      have hbmem : b ∈ m.branches := List.mem_of_find?_eq_some hsel
      unfold ok at hok
      split at hok
      · rename_i n pos kw hbr
        rw [hbr] at hbmem
        simp only [List.mem_singleton] at hbmem
        subst hbmem
        simp only at hf
        cases hfm : t.methods.find? (fun m' => m'.name == n) with
        | none => simp [hfm] at hf
        | some m' =>
          simp only [hfm] at hf hok
          simp only [Bool.and_eq_true] at hok
          obtain ⟨_, ⟨_, hd⟩⟩ := hok
          split at hf
          case isFalse => cases hf
          case isTrue => exact direct_op_name const t.ops (aliasOf m.name) m.name m' hd env a hf
      · simp only [Bool.and_eq_true, Bool.not_eq_true'] at hok
        obtain ⟨hns, hd⟩ := hok
        have hnb : isSelfBranch b = false := by
          have := List.any_eq_false.mp hns b hbmem
          simpa using this
        cases htgt : b.call.target with
        | op n' =>
          simp only [htgt] at hf
          exact direct_op_name const t.ops (aliasOf m.name) m.name m hd env a hf
        | self n' => simp [isSelfBranch, htgt] at hnb
        | unknown s => simp [htgt] at hf

/-- **fluent_eq_pipe_table.** The statement about the current tree: for every fluent method of
`Observable`, every value type and every argument environment, the fluent call pipes onto `self`
exactly the operator application `ops.NAME(same arguments)`. -/
theorem fluent_eq_pipe_table (m : Method) (hm : m ∈ RxGen.Fluent.table.methods)
    {V : Type} [DecidableEq V] (const : String → V) (env : String → Option V)
    (a : App V) (hf : fluentApp const RxGen.Fluent.table m env = some a) :
    a.op = aliasOf m.name ∧
    ∀ sig, RxGen.Fluent.table.ops.find? (fun s => s.name == aliasOf m.name) = some sig →
      ∀ a', pipedApp const sig m.params env = some a' → a = a' := by
  have hall := fluent_forwarding_ok
  unfold tableOk at hall
  simp only [Bool.and_eq_true] at hall
  have hok := List.all_eq_true.mp hall.1.1 m hm
  exact ⟨fluent_op_name _ m hok const env a hf,
    fun sig hsig a' hp => fluent_eq_pipe _ m hok const env sig hsig a a' hf hp⟩

/-! Non-vacuity: concrete calls on concrete rows of the current table evaluate to applications
(so the hypotheses `fluentApp … = some a`, `pipedApp … = some a'` are satisfiable), including a
guarded method in both branches, a keyword-only parameter and a delegating alias. -/
section examples
private def envOf (l : List (String × String)) : String → Option String := fun n => l.lookup n

private def methodNamed (n : String) : Option Method := RxGen.Fluent.table.methods.find? (fun m => m.name == n)
private def sigNamed (n : String) : Option OpSig := RxGen.Fluent.table.ops.find? (fun s => s.name == n)

example : (methodNamed "take_while").bind (fun m => fluentApp id RxGen.Fluent.table m (envOf [("predicate", "$p")]))
    = some ⟨"take_while", [("predicate", "$p"), ("inclusive", "False")]⟩ := by decide +kernel
example : (methodNamed "publish").bind (fun m => fluentApp id RxGen.Fluent.table m (envOf []))
    = some ⟨"publish", [("mapper", "None")]⟩ := by decide +kernel
example : (methodNamed "publish").bind (fun m => fluentApp id RxGen.Fluent.table m (envOf [("mapper", "$f")]))
    = some ⟨"publish", [("mapper", "$f")]⟩ := by decide +kernel
example : (methodNamed "do").bind (fun m => fluentApp id RxGen.Fluent.table m (envOf [("on_error", "$h")]))
    = some ⟨"do_action", [("on_next", "None"), ("on_error", "$h"), ("on_completed", "None")]⟩ := by decide +kernel
example : (methodNamed "take_while").bind (fun m => (sigNamed "take_while").bind fun s =>
      pipedApp id s m.params (envOf [("predicate", "$p")]))
    = some ⟨"take_while", [("predicate", "$p"), ("inclusive", "False")]⟩ := by decide +kernel
end examples

/-! The check is not vacuous either: it rejects a method that forwards to another operator, swaps
two arguments, or changes a default. -/
section negative
private def opsT : List OpSig :=
  [⟨"take_while", [⟨"predicate", .pos, none⟩, ⟨"inclusive", .pos, some "False"⟩]⟩,
   ⟨"skip_while", [⟨"predicate", .pos, none⟩]⟩]
private def mk (br : Call) (dflt : String) : Method :=
  ⟨"take_while", "X", [⟨"predicate", .pos, none⟩, ⟨"inclusive", .pos, some dflt⟩], [⟨[], br⟩], true⟩
private def tT (m : Method) : Table := ⟨[m], opsT, [], []⟩

example : let m := mk ⟨.op "take_while", [.param "predicate", .param "inclusive"], []⟩ "False"
    ok (tT m) m = true := by decide
example : let m := mk ⟨.op "skip_while", [.param "predicate"], []⟩ "False"
    ok (tT m) m = false := by decide
example : let m := mk ⟨.op "take_while", [.param "inclusive", .param "predicate"], []⟩ "False"
    ok (tT m) m = false := by decide
example : let m := mk ⟨.op "take_while", [.param "predicate", .param "inclusive"], []⟩ "True"
    ok (tT m) m = false := by decide
example : let m := mk ⟨.op "take_while", [.param "predicate"], []⟩ "False"
    ok (tT m) m = false := by decide
end negative

end C39

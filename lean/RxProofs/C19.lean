import RxProofs.Lemmas.WinGrp
import RxProofs.Lemmas.WinGrpRelease
/-!
# C19 — grouping routes each element to exactly one live group; partition

Property theorems only (helper lemmas: `RxProofs/Lemmas/WinGrp.lean`, model: `RxModel/WinGrp.lean`).

`group_by_until` / `group_by` are the trace machine `WinGrp.step` over tagged events
(source notification, notification of the duration observable of group #g, disposal of the outer
subscription, late subscription to / disposal of a group's subscriber).  All theorems quantify over
**every** finite event list `evs` (any interleaving, non-conforming sources, disposals anywhere), every
key / element / subject / duration mapper (arbitrary functions that may raise) and every choice of
immediate / late / absent group subscribers; the key equality `cfg.keyEq` (Python `==`/hash in the
driver) is only assumed to be an equivalence relation.  Proof: the invariant `WinGrp.Inv`
(`writers` = the non-expired groups in creation order with pairwise different keys; reference count =
number of subscribers holding a reference; while the source is subscribed the stopped writers are
exactly the expired ones; a live duration subscription belongs to a non-expired group) is preserved
by every step (`WinGrp.inv_step`), by induction over the event list (`WinGrp.inv_reach`).

`r.wlog` is the list of notifications accepted by the writer `Subject` of a group — what an observer
attached at creation sees; the correspondence check compares it (and the timed effect log) with taps
on the real subjects.  `LiveFor cfg s k j` : group #j exists, its key equals `k`, it has not expired.
-/
namespace C19
open WinGrp
variable {α κ β : Type}

/-- **expire_never_keyerror.** `expire()` evaluates `writers[key]`; whenever a duration subscription is live
(the only way `expire` of that group can still be invoked) the key is present, so the lookup cannot raise. -/
theorem expire_never_keyerror (cfg : Cfg α κ β) (hrefl : ∀ k, cfg.keyEq k k = true) (evs : List (Ev α))
    (g : Nat) (r : Grp κ β) :
    let s := run cfg (init : St κ β) evs
    s.groups[g]? = some r → r.dur = .live →
      (s.writers.find? (fun p => cfg.keyEq p.1 r.key)).isSome = true := by
  intro s hg hl
  have hi := inv_reach hrefl (cfg := cfg) (β := β) evs
  have he := hi.dl g r hg hl
  exact find?_isSome_of_mem hrefl _ _ g ((mem_writers_iff hi.wf (r.key, g)).mpr ⟨r, hg, he, rfl⟩)

/-- **group_new_iff_unseen_or_expired.** When an element with key `k` arrives (source subscribed, key mapper
succeeds), a new group is created — index = number of groups so far, key `k` — iff no live group has a
key equal to `k` (never seen, or every earlier group of that key has expired) and `subject_mapper` does not
raise; otherwise the set of groups is unchanged. -/
theorem group_new_iff_unseen_or_expired (cfg : Cfg α κ β) (hrefl : ∀ k, cfg.keyEq k k = true)
    (evs : List (Ev α)) (x : α) (k : κ) (hk : cfg.keyMapper x = .ok k) :
    let s := run cfg (init : St κ β) evs
    let s' := step cfg s (.src (.next x))
    s.srcStopped = false →
      (keys s' = keys s ++ [k] ↔ (¬ ∃ j, LiveFor cfg s k j) ∧ cfg.subjMapper s.groups.length = .ok ()) ∧
      (keys s' = keys s ++ [k] ∨ keys s' = keys s) := by
  intro s s' hs
  have hi := inv_reach hrefl (cfg := cfg) (β := β) evs
  have hne : keys s ++ [k] ≠ keys s := by
    intro h; have := congrArg List.length h; simp at this
  have hs' : s' = srcNext cfg s x := step_src_next cfg s x hs
  rw [hs']
  rcases srcNext_cases cfg s x k hk with ⟨p, hf, e⟩ | ⟨hf, ⟨e, hsm, e'⟩ | ⟨hsm, ⟨e, hdm, e'⟩ | ⟨hdm, e'⟩⟩⟩
  · have hl : ∃ j, LiveFor cfg s k j := ⟨p.2, find_some_live hi.wf k p hf⟩
    rw [e, keys_pushElem]
    exact ⟨⟨fun h => absurd h.symm hne, fun h => absurd hl h.1⟩, Or.inr rfl⟩
  · rw [e', keys_errorAll]
    exact ⟨⟨fun h => absurd h.symm hne, fun h => by rw [hsm] at h; cases h.2⟩, Or.inr rfl⟩
  · have hl : ¬ ∃ j, LiveFor cfg s k j := (find_none_iff hi.wf k).mp hf
    have : keys (errorAll (addGroup s k) e) = keys s ++ [k] := by rw [keys_errorAll, keys_addGroup]
    rw [e']
    exact ⟨⟨fun _ => ⟨hl, hsm⟩, fun _ => this⟩, Or.inl this⟩
  · have hl : ¬ ∃ j, LiveFor cfg s k j := (find_none_iff hi.wf k).mp hf
    have : keys (pushElem cfg (announce cfg (addGroup s k) s.groups.length k) s.groups.length x) = keys s ++ [k] := by
      rw [keys_pushElem, keys_announce, keys_addGroup]
    rw [e']
    exact ⟨⟨fun _ => ⟨hl, hsm⟩, fun _ => this⟩, Or.inl this⟩

/-- **new_group_announced.** In the situation where `group_new_iff_unseen_or_expired` creates a group, and
`duration_mapper` does not raise and the outer subscriber is not stopped, the outer subscriber is handed the new
group (index = number of groups so far, key `k`) during that very step. -/
theorem new_group_announced (cfg : Cfg α κ β) (hrefl : ∀ k, cfg.keyEq k k = true)
    (evs : List (Ev α)) (x : α) (k : κ) (hk : cfg.keyMapper x = .ok k) :
    let s := run cfg (init : St κ β) evs
    let s' := step cfg s (.src (.next x))
    s.srcStopped = false → (¬ ∃ j, LiveFor cfg s k j) →
    cfg.subjMapper s.groups.length = .ok () → cfg.durMapper s.groups.length = .ok () → s.outStopped = false →
      Eff.outer (.next (s.groups.length, k)) ∈ s'.out := by
  intro s s' hs hl hsm hdm ho
  have hi := inv_reach hrefl (cfg := cfg) (β := β) evs
  have hs' : s' = srcNext cfg s x := step_src_next cfg s x hs
  rw [hs']
  rcases srcNext_cases cfg s x k hk with ⟨p, hf, _⟩ | ⟨_, ⟨e, h, _⟩ | ⟨_, ⟨e, h, _⟩ | ⟨_, e'⟩⟩⟩
  · exact absurd ⟨p.2, find_some_live hi.wf k p hf⟩ hl
  · rw [hsm] at h; cases h
  · rw [hdm] at h; cases h
  · rw [e']
    exact (OutExt_pushElem cfg _ _ x).mem (announce_mem cfg (addGroup s k) s.groups.length k ho)

/- FULL STATEMENT (DESIGN.md `C19.group_routes_to_key`) — **false of the code as written**, see the known finding
   `C19-sync-duration-drops-element` and the decided counter-example `sync_duration_drops_element` below:

     for every arriving element x (source subscribed) with key k and mapped value v (mappers not raising):
       ∃ g, LiveFor cfg s' k g ∧ (∀ j, LiveFor cfg s' k j → j = g) ∧
            wlogOf s' g = wlogOf s g ++ [.next v] ∧ (∀ j, j ≠ g → wlogOf s' j = wlogOf s j)

   What is missing in the proved `_partial` version: the case where the group is *created by this element* and its
   duration observable fires synchronously inside its own subscribe call (`cfg.dsync g ≠ none`, e.g. `rx.empty()`):
   `_groupbyuntil.py` subscribes the duration before `writer.on_next(element)`, the group expires first and the
   element reaches no group.  Everything else (existing groups, new groups with asynchronous durations — including
   durations firing later in the same instant —, all tie orders, disposals, re-created groups) is covered. -/
/-- **group_routes_to_key_partial.** An arriving element `x` (source subscribed) with key `k` and mapped value `v`
is appended (`next v`, at the end = arrival order) to the writer log of exactly one group `g`; that group is
the unique live group whose key equals `k` (the existing one, or the one created for this element); no other
group's log changes.  Hypotheses: the mappers involved do not raise, and — only when the group has to be
created for this element — its duration does not fire synchronously inside its own subscription
(`sync_duration_drops_element` below shows that the hypothesis is necessary). -/
theorem group_routes_to_key_partial (cfg : Cfg α κ β) (hrefl : ∀ k, cfg.keyEq k k = true)
    (hsymm : ∀ a b, cfg.keyEq a b = true → cfg.keyEq b a = true)
    (htrans : ∀ a b c, cfg.keyEq a b = true → cfg.keyEq b c = true → cfg.keyEq a c = true)
    (evs : List (Ev α)) (x : α) (k : κ) (v : β) (hk : cfg.keyMapper x = .ok k) (hv : cfg.elemMapper x = .ok v) :
    let s := run cfg (init : St κ β) evs
    let s' := step cfg s (.src (.next x))
    s.srcStopped = false →
    ((¬ ∃ j, LiveFor cfg s k j) →
      cfg.subjMapper s.groups.length = .ok () ∧ cfg.durMapper s.groups.length = .ok () ∧ cfg.dsync s.groups.length = none) →
    ∃ g, LiveFor cfg s' k g ∧ (∀ j, LiveFor cfg s' k j → j = g) ∧
      wlogOf s' g = wlogOf s g ++ [.next v] ∧ (∀ j, j ≠ g → wlogOf s' j = wlogOf s j) ∧
      ((∃ j, LiveFor cfg s k j) → LiveFor cfg s k g) := by
  intro s s' hs hnew
  have hi := inv_reach hrefl (cfg := cfg) (β := β) evs
  have hi' : Inv cfg s' := inv_step hrefl hi _
  have hs' : s' = srcNext cfg s x := step_src_next cfg s x hs
  have huniq : ∀ g, LiveFor cfg s' k g → ∀ j, LiveFor cfg s' k j → j = g :=
    fun g hg j hj => live_unique hsymm htrans hi'.wf k j g hj hg
  rcases srcNext_cases cfg s x k hk with ⟨p, hf, e⟩ | ⟨hf, hrest⟩
  · -- an existing live group
    have hl := find_some_live hi.wf k p hf
    obtain ⟨r, hr, hkr, her⟩ := hl
    have hst : r.stopped = false := by
      cases h : r.stopped with
      | false => rfl
      | true =>
        have := hi.lo hs (tg r) (List.mem_map.mpr ⟨r, mem_of_getElem? hr, rfl⟩) h
        simp only [tg] at this; rw [her] at this; cases this
    have ht : trk s' = (trk s).modify p.2 (pushT (.next v)) := by
      rw [hs', e]; unfold pushElem; rw [hv]; exact trk_writerNext s p.2 v
    have hg0 : (trk s)[p.2]? = some (tg r) := by rw [trk_getElem?, hr]; rfl
    have hg1 : (trk s')[p.2]? = some { tg r with wlog := r.wlog ++ [.next v] } := by
      rw [ht, List.getElem?_modify, hg0]; simp [pushT, tg, hst]
    have hlive' : LiveFor cfg s' k p.2 := (liveFor_trk cfg s' k p.2).mpr ⟨_, hg1, hkr, her⟩
    refine ⟨p.2, hlive', huniq _ hlive', ?_, ?_, fun _ => ⟨r, hr, hkr, her⟩⟩
    · rw [wlogOf_trk, hg1, wlogOf_trk, hg0]; rfl
    · intro j hj
      rw [wlogOf_trk, wlogOf_trk, ht, List.getElem?_modify]
      have : ¬ p.2 = j := fun e => hj e.symm
      cases (trk s)[j]? <;> simp [this]
  · -- a new group
    have hl : ¬ ∃ j, LiveFor cfg s k j := (find_none_iff hi.wf k).mp hf
    obtain ⟨hsm, hdm, hds⟩ := hnew hl
    have e : srcNext cfg s x = pushElem cfg (announce cfg (addGroup s k) s.groups.length k) s.groups.length x := by
      rcases hrest with ⟨e, h, _⟩ | ⟨_, ⟨e, h, _⟩ | ⟨_, h⟩⟩
      · rw [hsm] at h; cases h
      · rw [hdm] at h; cases h
      · exact h
    have ht : trk s' = (trk s ++ [(⟨k, false, false, []⟩ : TG κ β)]).modify s.groups.length (pushT (.next v)) := by
      rw [hs', e]; unfold pushElem; rw [hv, trk_writerNext, trk_announce_nosync _ _ _ _ hds]
      congr 1; simp [trk, addGroup, tg]
    have hlen : (trk s).length = s.groups.length := length_trk s
    have hg1 : (trk s')[s.groups.length]? = some (⟨k, false, false, [.next v]⟩ : TG κ β) := by
      rw [ht, List.getElem?_modify, List.getElem?_append_right (by omega)]
      simp [hlen, pushT]
    have hlive' : LiveFor cfg s' k s.groups.length := (liveFor_trk cfg s' k _).mpr ⟨_, hg1, hrefl k, rfl⟩
    refine ⟨s.groups.length, hlive', huniq _ hlive', ?_, ?_, fun h => absurd h hl⟩
    · rw [wlogOf_trk, hg1]
      have : wlogOf s s.groups.length = [] := by simp [wlogOf]
      rw [this]; rfl
    · intro j hj
      rw [wlogOf_trk, wlogOf_trk, ht, List.getElem?_modify]
      have hne : ¬ s.groups.length = j := fun e => hj e.symm
      by_cases hjl : j < s.groups.length
      · rw [List.getElem?_append_left (by omega)]
        cases (trk s)[j]? <;> simp [hne]
      · have h1 : (trk s ++ [(⟨k, false, false, []⟩ : TG κ β)])[j]? = none := by
          rw [List.getElem?_eq_none]; simp; omega
        have h2 : (trk s)[j]? = none := by rw [List.getElem?_eq_none]; omega
        rw [h1, h2]; rfl

/-! ### groups end with the source -/
/-- **groups_end_with_source.** When the source terminates (error `e` / completion) while subscribed, every group
whose writer is still open receives exactly that terminal as the last entry of its log and is stopped, every
other group is untouched, no group is created, and — unless the outer subscriber has already been stopped — the
outer subscriber receives the same terminal *after* all of that: only unsubscriptions follow it in the effect log. -/
theorem groups_end_with_source (cfg : Cfg α κ β) (hrefl : ∀ k, cfg.keyEq k k = true) (evs : List (Ev α))
    (n : Notif α) (hn : n.isTerminal = true) :
    let s := run cfg (init : St κ β) evs
    let s' := step cfg s (.src n)
    let nb : Notif β := match n with | .error e => .error e | _ => .completed
    let no : Notif (Nat × κ) := match n with | .error e => .error e | _ => .completed
    s.srcStopped = false →
      (∀ (j : Nat) (r : Grp κ β), s.groups[j]? = some r → ∃ r' : Grp κ β, s'.groups[j]? = some r' ∧ r'.stopped = true ∧ r'.key = r.key ∧
          r'.wlog = if r.stopped then r.wlog else r.wlog ++ [nb]) ∧
      s'.groups.length = s.groups.length ∧
      (s.outStopped = false → ∃ pre post, s'.out = pre ++ Eff.outer no :: post ∧ ∀ e ∈ post, Eff.isUnsub e = true) := by
  intro s s' nb no hs
  have hi := inv_reach hrefl (cfg := cfg) (β := β) evs
  have hcommon : ∃ d f, s' = closeSrc (outerTerm (termAll { s with srcStopped := true, srcDone := d, failed := f } nb) no) := by
    cases n with
    | next v => cases hn
    | error e => exact ⟨true, true, by simp [s', step, hs, errorAll, nb, no]⟩
    | completed => exact ⟨true, s.failed, by simp [s', step, hs, nb, no]⟩
  obtain ⟨d, f, hcommon⟩ := hcommon
  obtain ⟨ht, hout⟩ := term_common cfg s hi nb no d f
  rw [← hcommon] at ht hout
  refine ⟨?_, ?_, hout⟩
  · intro j r hr
    have h1 : (trk s')[j]? = some (termT nb (tg r)) := by
      rw [ht, List.getElem?_map, trk_getElem?, hr]; rfl
    rw [trk_getElem?] at h1
    cases hg : s'.groups[j]? with
    | none => simp [hg] at h1
    | some r' =>
      simp only [hg, Option.map_some, Option.some.injEq] at h1
      refine ⟨r', rfl, ?_, ?_, ?_⟩
      · have := congrArg TG.stopped h1; simpa [tg, termT_stopped] using this
      · have := congrArg TG.key h1; simpa [tg, termT_key] using this
      · have := congrArg TG.wlog h1
        simp only [tg, termT] at this
        rw [this]; by_cases h : r.stopped = true <;> simp [h]
  · have := congrArg List.length ht
    simpa [length_trk] using this

/-! ### extras: shape of every group's log -/
/-- **group_log_wellformed.** In every reachable state every group's log is `next* (error|completed)?`
(nothing is ever delivered to a group after its terminal, a terminal is delivered at most once), the writer is
stopped exactly when the log ends with a terminal, and an expired group is stopped. -/
theorem group_log_wellformed (cfg : Cfg α κ β) (hrefl : ∀ k, cfg.keyEq k k = true) (evs : List (Ev α))
    (j : Nat) (r : Grp κ β) :
    let s := run cfg (init : St κ β) evs
    s.groups[j]? = some r →
      Grammar r.wlog ∧ (r.stopped = false → ∀ n ∈ r.wlog, n.isTerminal = false) ∧
      (r.stopped = true → ∃ pre n, r.wlog = pre ++ [n] ∧ n.isTerminal = true ∧ ∀ m ∈ pre, m.isTerminal = false) ∧
      (r.expired = true → r.stopped = true) := by
  intro s hr
  have hP : ∀ t ∈ trk s, LogOK t := by
    apply tev_pointwise (P := LogOK) ?_ ?_ ?_ ?_ (tev_run cfg (init : St κ β) evs) (by simp [trk, init])
    · intro t v h
      unfold pushT
      by_cases hs : t.stopped
      · simpa [hs] using h
      · simp only [hs, Bool.false_eq_true, if_false]
        refine ⟨fun _ n hn => ?_, fun h' => by simp [hs] at h'⟩
        rcases List.mem_append.mp hn with h1 | h1
        · exact h.1 (by simpa using hs) n h1
        · simp only [List.mem_singleton] at h1; subst h1; rfl
    · exact logOK_term
    · intro t h
      unfold expT
      apply logOK_term _ _ rfl
      exact h
    · intro k; exact ⟨fun _ n hn => (by simp at hn), fun h => (by simp at h)⟩
  have hmem : tg r ∈ trk s := List.mem_map.mpr ⟨r, mem_of_getElem? hr, rfl⟩
  obtain ⟨h1, h2⟩ := hP _ hmem
  have hes := (inv_reach hrefl (cfg := cfg) (β := β) evs).es (tg r) hmem
  refine ⟨?_, h1, h2, hes⟩
  cases hs : r.stopped with
  | false => exact grammar_of_nonterminal' _ (h1 hs)
  | true =>
    obtain ⟨pre, n, e, _, hpre⟩ := h2 hs
    have : r.wlog = pre ++ [n] := e
    rw [this]; exact grammar_of_nonterminal pre n hpre

/-- **group_log_monotone.** From *any* state and along any further events a group keeps its index and key, its
log only grows at the end (arrival order is never disturbed), an expired group stays expired, and once the writer
is stopped the log never changes again. -/
theorem group_log_monotone (cfg : Cfg α κ β) (s : St κ β) (evs : List (Ev α)) (j : Nat) (r : Grp κ β)
    (hr : s.groups[j]? = some r) :
    ∃ r', (run cfg s evs).groups[j]? = some r' ∧ r'.key = r.key ∧ (∃ suf, r'.wlog = r.wlog ++ suf) ∧
      (r.stopped = true → r'.stopped = true ∧ r'.wlog = r.wlog) ∧ (r.expired = true → r'.expired = true) := by
  have h := tev_rel (R := Evolves (κ := κ) (β := β)) ?_ ?_ ?_ ?_ ?_ (tev_run cfg s evs) j (tg r) (by rw [trk_getElem?, hr]; rfl)
  · obtain ⟨t', ht', hk, hsuf, hst, hex⟩ := h
    rw [trk_getElem?] at ht'
    cases hg : (run cfg s evs).groups[j]? with
    | none => simp [hg] at ht'
    | some r' =>
      simp only [hg, Option.map_some, Option.some.injEq] at ht'; subst ht'
      exact ⟨r', rfl, hk, hsuf, hst, hex⟩
  · intro t; exact ⟨rfl, ⟨[], by simp⟩, fun h => ⟨h, rfl⟩, id⟩
  · rintro a b c ⟨k1, ⟨s1, w1⟩, st1, e1⟩ ⟨k2, ⟨s2, w2⟩, st2, e2⟩
    refine ⟨k2.trans k1, ⟨s1 ++ s2, by rw [w2, w1, List.append_assoc]⟩, fun h => ?_, fun h => e2 (e1 h)⟩
    obtain ⟨h1, h1'⟩ := st1 h
    obtain ⟨h2, h2'⟩ := st2 h1
    exact ⟨h2, h2'.trans h1'⟩
  · intro t v; unfold pushT
    by_cases hs : t.stopped
    · simp only [hs, if_true]; exact ⟨rfl, ⟨[], by simp⟩, fun h => ⟨h, rfl⟩, id⟩
    · simp only [hs, Bool.false_eq_true, if_false]; exact ⟨rfl, ⟨_, rfl⟩, fun h => absurd h hs, id⟩
  · intro t n _; unfold termT
    by_cases hs : t.stopped
    · simp only [hs, if_true]; exact ⟨rfl, ⟨[], by simp⟩, fun h => ⟨h, rfl⟩, id⟩
    · simp only [hs, Bool.false_eq_true, if_false]; exact ⟨rfl, ⟨_, rfl⟩, fun h => absurd h hs, id⟩
  · intro t; unfold expT termT
    by_cases hs : t.stopped
    · simp only [hs, if_true]; exact ⟨rfl, ⟨[], by simp⟩, fun _ => ⟨rfl, rfl⟩, fun _ => rfl⟩
    · simp only [hs, Bool.false_eq_true, if_false]; exact ⟨rfl, ⟨_, rfl⟩, fun h => absurd h hs, fun _ => rfl⟩

/-- **duration_expires_group.** When the duration observable of group `g` fires (a value — `take(1)` — or its
completion) while its subscription is live and the source is subscribed, group `g` receives `completed` as the
last entry of its log exactly now, is marked expired (so the next element of that key creates a new group, by
`group_new_iff_unseen_or_expired`), and no other group's log changes. -/
theorem duration_expires_group (cfg : Cfg α κ β) (hrefl : ∀ k, cfg.keyEq k k = true) (evs : List (Ev α))
    (g : Nat) (r : Grp κ β) (n : Notif Unit) (hn : ∀ e, n ≠ .error e) :
    let s := run cfg (init : St κ β) evs
    let s' := step cfg s (.dur g n)
    s.groups[g]? = some r → r.dur = .live → s.srcStopped = false →
      wlogOf s' g = r.wlog ++ [.completed] ∧ (∀ j, j ≠ g → wlogOf s' j = wlogOf s j) ∧
      (∀ k, ¬ LiveFor cfg s' k g) := by
  intro s s' hg hl hs
  have hi := inv_reach hrefl (cfg := cfg) (β := β) evs
  have hexp : r.expired = false := hi.dl g r hg hl
  have hst : r.stopped = false := by
    cases h : r.stopped with
    | false => rfl
    | true =>
      have := hi.lo hs (tg r) (List.mem_map.mpr ⟨r, mem_of_getElem? hg, rfl⟩) h
      simp only [tg] at this; rw [hexp] at this; cases this
  have hfound := expire_never_keyerror cfg hrefl evs g r hg hl
  have hs' : s' = closeDur (expire cfg s g) g := by
    show step cfg s (.dur g n) = _
    simp only [step, durEvent, hg, hl, if_true]
    cases n with
    | error e => exact absurd rfl (hn e)
    | next v => rfl
    | completed => rfl
  have ht : trk s' = (trk s).modify g (expT .completed) := by
    rw [hs', trk_closeDur]; exact trk_expire_found cfg s g r hg hfound
  have hg0 : (trk s)[g]? = some (tg r) := by rw [trk_getElem?, hg]; rfl
  have hg1 : (trk s')[g]? = some ⟨r.key, true, true, r.wlog ++ [.completed]⟩ := by
    rw [ht, List.getElem?_modify, hg0]; simp [expT, termT, tg, hst]
  refine ⟨?_, ?_, ?_⟩
  · rw [wlogOf_trk, hg1]; rfl
  · intro j hj
    rw [wlogOf_trk, wlogOf_trk, ht, List.getElem?_modify]
    have : ¬ g = j := fun e => hj e.symm
    cases (trk s)[j]? <;> simp [this]
  · intro k hlive
    obtain ⟨t, ht', _, he⟩ := (liveFor_trk cfg s' k g).mp hlive
    rw [hg1] at ht'; cases ht'; cases he

/-! ### non-vacuity: concrete runs (key = parity, element ↦ 10·x) -/
def exCfg (dsync : Nat → Option (Notif Unit)) : Cfg Nat Nat Nat :=
  { keyEq := fun a b => a == b, keyMapper := fun x => .ok (x % 2), elemMapper := fun x => .ok (x * 10),
    subjMapper := fun _ => .ok (), durMapper := fun _ => .ok (), dsync := dsync, imm := fun _ => true }

def view (s : St Nat Nat) : List (Nat × List (Notif Nat) × Bool) := s.groups.map fun r => (r.key, r.wlog, r.expired)

/-- two keys, the group of key 1 expires (its duration fires) and is re-created by the next odd element; the
source's completion ends the two groups that are open (premises of all four group theorems are met on this run) -/
example : view (run (exCfg fun _ => none) init
    [.src (.next 1), .src (.next 2), .src (.next 3), .dur 0 (.next ()), .src (.next 5), .dur 0 (.next ()), .src .completed, .src (.next 7)]) =
    [(1, [.next 10, .next 30, .completed], true), (0, [.next 20, .completed], false), (1, [.next 50, .completed], false)] := by
  decide

/-- a source error reaches every open group, an expired group is left alone -/
example : view (run (exCfg fun _ => none) init
    [.src (.next 1), .src (.next 2), .dur 1 .completed, .src (.next 4), .src (.error "boom")]) =
    [(1, [.next 10, .error "boom"], false), (0, [.next 20, .completed], true), (0, [.next 40, .error "boom"], false)] := by
  decide

/-- the outer subscriber sees: group 0 (key 1), group 1 (key 0), completion — and the source is unsubscribed -/
example : ((run (exCfg fun _ => none) init [.src (.next 1), .src (.next 2), .src .completed]).out.filterMap fun e =>
    match e with | .outer n => some n | _ => none) = [.next (0, 1), .next (1, 0), .completed] := by decide

/-- **sync_duration_drops_element** (why `group_routes_to_key_partial` needs `dsync = none` for a new group): a duration
that fires inside its own subscribe call expires the group before the creating element is pushed — the element
reaches no group at all (replayed on the real code with `duration_mapper = lambda g: reactivex.empty()`). -/
theorem sync_duration_drops_element :
    view (run (exCfg fun _ => some .completed) init [.src (.next 1), .src (.next 3)]) =
      [(1, [.completed], true), (1, [.completed], true)] := by decide

/-- the hypotheses of `expire_never_keyerror` / `duration_expires_group` are satisfiable: a live duration -/
example : ((run (exCfg fun _ => none) init [.src (.next 1)]).groups.map fun r => decide (r.dur = .live)) = [true] := by decide

/-! ### when the source subscription is closed; subscribers that outlive the outer subscription -/

/-- **source_released_iff** (state form, every event list).  The source subscription is closed exactly when the source's
terminal reached the operator, or an operator failure (error-all: raising mapper, failing duration, source error)
happened, or the outer subscriber is stopped (terminated, or its subscription disposed) and no group subscriber holds a
reference of the RefCountDisposable (each group subscription made through the GroupedObservable holds one; a subscriber
whose group terminated or who unsubscribed has given it back; after disposal the getter hands out an empty Disposable). -/
theorem source_released_iff (cfg : Cfg α κ β) (hrefl : ∀ k, cfg.keyEq k k = true) (evs : List (Ev α)) :
    let s := run cfg (init : St κ β) evs
    s.srcOpen = false ↔
      (s.srcDone = true ∨ s.failed = true ∨ (s.outStopped = true ∧ ∀ r ∈ s.groups, r.holdsRef = false)) :=
  WinGrp.source_released_iff cfg hrefl evs

/-- **source_kept_while_holder** ("not earlier"): while the source has not terminated, no failure happened and some group
subscriber still holds its reference, the source stays subscribed — also after the outer subscription was disposed. -/
theorem source_kept_while_holder (cfg : Cfg α κ β) (hrefl : ∀ k, cfg.keyEq k k = true) (evs : List (Ev α)) (r : Grp κ β) :
    let s := run cfg (init : St κ β) evs
    s.srcDone = false → s.failed = false → r ∈ s.groups → r.holdsRef = true → s.srcOpen = true :=
  WinGrp.source_kept_while_holder cfg hrefl evs r

/-- **source_released_with_last_holder** ("not later"): whatever event leaves the outer subscriber stopped and no group
subscriber holding a reference (the last holder's group terminates, the last holder unsubscribes, or the outer dispose
itself when there is no holder), the source and every duration subscription are closed in the resulting state. -/
theorem source_released_with_last_holder (cfg : Cfg α κ β) (hrefl : ∀ k, cfg.keyEq k k = true) (evs : List (Ev α)) (e : Ev α) :
    let s' := step cfg (run cfg (init : St κ β) evs) e
    s'.outStopped = true → (∀ r ∈ s'.groups, r.holdsRef = false) → Released s' :=
  WinGrp.source_released_with_last_holder cfg hrefl evs e

/-- **live_subscriber_keeps_receiving.**  On every run `pre ++ [disposeOuter] ++ post`: the outer subscriber stays stopped,
and a group subscriber still attached to its group while the source is subscribed (i) receives every further element
whose key equals the group's key (mapped; appended to its record and to the writer log = arrival order) and stays
attached, (ii) receives the source's terminal as its last notification, after which the source subscription is closed. -/
theorem live_subscriber_keeps_receiving (cfg : Cfg α κ β) (hrefl : ∀ k, cfg.keyEq k k = true)
    (hsymm : ∀ a b, cfg.keyEq a b = true → cfg.keyEq b a = true)
    (htrans : ∀ a b c, cfg.keyEq a b = true → cfg.keyEq b c = true → cfg.keyEq a c = true)
    (pre post : List (Ev α)) (g : Nat) (r : Grp κ β) :
    let s := run cfg (init : St κ β) (pre ++ .disposeOuter :: post)
    s.groups[g]? = some r → r.sub = .active → s.srcStopped = false →
      s.outStopped = true ∧ s.primary = true ∧
      (∀ (x : α) (k : κ) (v : β), cfg.keyMapper x = .ok k → cfg.elemMapper x = .ok v → cfg.keyEq r.key k = true →
        ∃ r', (step cfg s (.src (.next x))).groups[g]? = some r' ∧ r'.seen = r.seen ++ [.next v] ∧
          r'.wlog = r.wlog ++ [.next v] ∧ r'.sub = .active ∧ r'.stopped = false) ∧
      (∀ n : Notif α, n.isTerminal = true →
        ∃ r', (step cfg s (.src n)).groups[g]? = some r' ∧
          r'.seen = r.seen ++ [match n with | .error e => .error e | _ => .completed] ∧ r'.sub = .ended ∧
          (step cfg s (.src n)).srcOpen = false) :=
  WinGrp.live_subscriber_keeps_receiving cfg hrefl hsymm htrans pre post g r

/-- non-vacuity (the demo shape: elements, outer disposed "@250" with the group of key 1 subscribed, more elements, source
terminal "@300"): after the dispose the source is still subscribed and the subscriber keeps receiving; the terminal ends
it and closes the source; with no subscriber the dispose closes the source at once -/
example : (let s := run (exCfg fun _ => none) init [.src (.next 1), .src (.next 3), .disposeOuter, .src (.next 5)]
    (s.srcOpen, s.primary, s.count, s.groups.map (·.seen))) = (true, true, 1, [[.next 10, .next 30, .next 50]]) := by decide
example : (let s := run (exCfg fun _ => none) init [.src (.next 1), .src (.next 3), .disposeOuter, .src (.next 5), .src .completed]
    (s.srcOpen, s.srcDone, s.groups.map (·.seen))) = (false, true, [[.next 10, .next 30, .next 50, .completed]]) := by decide
example : (let s := run { exCfg (fun _ => none) with imm := fun _ => false } init [.src (.next 1), .disposeOuter]
    (s.srcOpen, s.srcDone, s.failed, s.outStopped, s.groups.map (·.holdsRef))) = (false, false, false, true, [false]) := by decide
example : (let s := run (exCfg fun _ => none) init [.src (.next 1), .disposeOuter, .disposeGroup 0]
    (s.srcOpen, s.srcDone, s.failed)) = (false, false, false) := by decide

/-! ### durations derived from the group itself (`duration_mapper = lambda g: g.pipe(ops.skip(n))`): machine `stepD` -/

/-- **stepD_eq_step / runD_eq_run.** The general machine (`stepD`, used by the driver) is the machine `step` of the
theorems above whenever no duration is derived from its group: every theorem above transfers to `runD`. -/
theorem stepD_eq_step (cfg : Cfg α κ β) (hnod : ∀ g, cfg.dgrp g = none) (s : St κ β) (e : Ev α) :
    stepD cfg s e = step cfg s e := WinGrp.stepD_eq_step hnod s e
theorem runD_eq_run (cfg : Cfg α κ β) (hnod : ∀ g, cfg.dgrp g = none) (s : St κ β) (evs : List (Ev α)) :
    runD cfg s evs = run cfg s evs := WinGrp.runD_eq_run hnod s evs

/-- **group_announced_before_duration_before_element.** In the step that creates group `g` (any state with the source
and the outer subscriber live and the RefCountDisposable not disposed; mappers not raising; duration derived from the
group or at least not firing inside its own subscribe) the effects occur in this order: the outer subscriber is handed
the group, the duration is subscribed, the element is pushed to the writer (tap) and — if the subscriber attached
itself inside the outer `on_next` — delivered to it.  (So a group-derived duration sees the creating element, and the
early subscriber is in front of the duration observer: seeded change C19_1 swaps the first two and is refuted.) -/
theorem group_announced_before_duration_before_element (cfg : Cfg α κ β) (s : St κ β) (x : α) (k : κ) (v : β)
    (hs : s.srcStopped = false) (ho : s.outStopped = false) (hd : s.rcdDisposed = false)
    (hk : cfg.keyMapper x = .ok k) (hf : s.writers.find? (fun p => cfg.keyEq p.1 k) = none)
    (hsm : cfg.subjMapper s.groups.length = .ok ()) (hdm : cfg.durMapper s.groups.length = .ok ())
    (hv : cfg.elemMapper x = .ok v)
    (hdur : (cfg.dgrp s.groups.length).isSome = true ∨ cfg.dsync s.groups.length = none) :
    ∃ rest, (stepD cfg s (.src (.next x))).out =
      s.out ++ (.outer (.next (s.groups.length, k)) :: .subDur s.groups.length :: .tap s.groups.length (.next v) ::
        (if cfg.imm s.groups.length then [.grp s.groups.length (.next v)] else []) ++ rest) :=
  WinGrp.group_announced_before_duration_before_element cfg s x k v hs ho hd hk hf hsm hdm hv hdur

/-- **derived_duration_counts.** While `g.pipe(skip n)` still has elements to skip, an element of the group is delivered
(tap, subscriber), the counter decreases by one, nothing else happens. -/
theorem derived_duration_counts (cfg : Cfg α κ β) (s : St κ β) (g : Nat) (v : β) (r : Grp κ β) (m : Nat)
    (hg : s.groups[g]? = some r) (hst : r.stopped = false) (hl : r.dur = .live) (hdg : (cfg.dgrp g).isSome = true)
    (hc : r.dcnt = m + 1) (hsub : r.sub = .active) :
    (writerNextD cfg s g v).out = s.out ++ [.tap g (.next v), .grp g (.next v)] ∧
    (writerNextD cfg s g v).groups[g]? = some { r with dcnt := m, wlog := r.wlog ++ [.next v], seen := r.seen ++ [.next v] } :=
  WinGrp.derived_duration_counts cfg s g v r m hg hst hl hdg hc hsub

/-- **derived_duration_expires_with_element.** When the counter is exhausted (`announceD` sets it to `n`, so this is the
(n+1)-th element of the group), that element is delivered to the tap and to the early subscriber first and the group's
`completed` follows immediately, inside the same `writer.on_next`; after it only unsubscriptions happen. -/
theorem derived_duration_expires_with_element (cfg : Cfg α κ β) (s : St κ β) (g : Nat) (v : β) (r : Grp κ β)
    (hg : s.groups[g]? = some r) (hst : r.stopped = false) (hl : r.dur = .live) (hdg : (cfg.dgrp g).isSome = true)
    (hc : r.dcnt = 0) (hsub : r.sub = .active) (hearly : r.subLate = false)
    (hkey : (s.writers.find? (fun p => cfg.keyEq p.1 r.key)).isSome = true) :
    ∃ l, (writerNextD cfg s g v).out =
        s.out ++ [.tap g (.next v), .grp g (.next v), .tap g .completed, .grp g .completed] ++ l ∧
      ∀ e ∈ l, Eff.isUnsub e = true :=
  WinGrp.derived_duration_expires_with_element cfg s g v r hg hst hl hdg hc hsub hearly hkey

/-- non-vacuity: `skip(1)` durations — every group of key 1 ends right after its second element, which its subscriber
sees before the completion; a group-derived duration still pending at the source's completion (fixed behaviour,
`fixes/C19_completion_mutates_writers.patch`): every group completes, then the outer; a late subscriber (after the
duration observer) gets the completion without the expiring element -/
example : view (runD { exCfg (fun _ => none) with dgrp := fun _ => some 1 } init
    [.src (.next 1), .src (.next 3), .src (.next 5), .src (.next 7), .src .completed]) =
    [(1, [.next 10, .next 30, .completed], true), (1, [.next 50, .next 70, .completed], true)] := by decide
example : ((runD { exCfg (fun _ => none) with dgrp := fun _ => some 1 } init
    [.src (.next 1), .src (.next 3)]).groups.map (·.seen)) = [[.next 10, .next 30, .completed]] := by decide
example : view (runD { exCfg (fun _ => none) with dgrp := fun _ => some 5 } init
    [.src (.next 1), .src (.next 2), .src (.next 3), .src .completed]) =
    [(1, [.next 10, .next 30, .completed], true), (0, [.next 20, .completed], true)] := by decide
example : ((runD { exCfg (fun _ => none) with dgrp := fun _ => some 5 } init
    [.src (.next 1), .src (.next 2), .src (.next 3), .src .completed]).out.filterMap fun e =>
      match e with | .outer n => some n | .escaped _ => some (.error "escaped") | _ => none) =
    [.next (0, 1), .next (1, 0), .completed] := by decide
example : ((runD { exCfg (fun _ => none) with dgrp := fun _ => some 1, imm := fun _ => false } init
    [.src (.next 1), .subGroup 0, .src (.next 3)]).groups.map (·.seen)) = [[.completed]] := by decide

/-! ### re-entrancy: the outer subscriber feeds the source from inside `on_next(group)` (machine `stepN`) -/

/-- **stepN_eq_stepD / runN_eq_runD.** Without feedback (`cfg.nest = fun _ => []`) the machine the driver runs is `stepD`. -/
theorem stepN_eq_stepD (cfg : Cfg α κ β) (hn : ∀ g, cfg.nest g = []) (s : St κ β) (e : Ev α) :
    stepN cfg s e = stepD cfg s e := WinGrp.stepN_eq_stepD hn s e
theorem runN_eq_runD (cfg : Cfg α κ β) (hn : ∀ g, cfg.nest g = []) (s : St κ β) (evs : List (Ev α)) :
    runN cfg s evs = runD cfg s evs := WinGrp.runN_eq_runD hn s evs

/-- **nested_same_key_element_routed.** If, while handling the freshly emitted group `g` (created for element `x`, key `k`),
the outer subscriber synchronously pushes an element `y` with the same key into the source, then — because
`writers[key] = writer` is executed before `observer.on_next(group)` — `y` finds the registered writer: it is delivered to
group `g` (tap, and the subscriber if it attached itself first), no second group is created, the duration is subscribed
only afterwards, and the creating element follows: the group's log is exactly `[y', x']`.  (Any state with source and outer
subscriber live and the RefCountDisposable not disposed; mappers not raising; duration neither group-derived nor firing
inside its own subscribe.  Seeded change C19r2_1 registers the writer after `on_next(group)` and is refuted by this.) -/
theorem nested_same_key_element_routed (cfg : Cfg α κ β) (hrefl : ∀ k, cfg.keyEq k k = true) (s : St κ β)
    (x y : α) (k : κ) (v vy : β)
    (hs : s.srcStopped = false) (ho : s.outStopped = false) (hd : s.rcdDisposed = false)
    (hk : cfg.keyMapper x = .ok k) (hf : s.writers.find? (fun p => cfg.keyEq p.1 k) = none)
    (hsm : cfg.subjMapper s.groups.length = .ok ()) (hdm : cfg.durMapper s.groups.length = .ok ())
    (hv : cfg.elemMapper x = .ok v)
    (hnest : cfg.nest s.groups.length = [y]) (hky : cfg.keyMapper y = .ok k) (hvy : cfg.elemMapper y = .ok vy)
    (hplain : cfg.dgrp s.groups.length = none ∧ cfg.dsync s.groups.length = none) :
    (stepN cfg s (.src (.next x))).out =
      s.out ++ (.outer (.next (s.groups.length, k)) :: .tap s.groups.length (.next vy) ::
        (if cfg.imm s.groups.length then [.grp s.groups.length (.next vy)] else []) ++
        .subDur s.groups.length :: .tap s.groups.length (.next v) ::
        (if cfg.imm s.groups.length then [.grp s.groups.length (.next v)] else [])) ∧
    (stepN cfg s (.src (.next x))).groups.length = s.groups.length + 1 ∧
    ((stepN cfg s (.src (.next x))).groups[s.groups.length]?).map (·.wlog) = some [.next vy, .next v] :=
  WinGrp.nested_same_key_element_routed cfg hrefl s x y k v vy hs ho hd hk hf hsm hdm hv hnest hky hvy hplain

/-- non-vacuity (the demo of C19r2_1): the handler of group #0 (key 1) feeds back 3 (same key), that of group #1 (key 0) feeds
back 4: one group per key, follow-up first; everything ends with the source -/
example : view (runN { exCfg (fun _ => none) with nest := fun g => if g = 0 then [3] else if g = 1 then [4] else [] } init
    [.src (.next 1), .src (.next 2), .src (.next 5), .src .completed]) =
    [(1, [.next 30, .next 10, .next 50, .completed], false), (0, [.next 40, .next 20, .completed], false)] := by decide

/-! ### partition -/
/-- **partition_exactly_one.** `partition(pred)`: with both outputs subscribed, the first output receives exactly the
source elements satisfying the predicate, the second exactly those that do not — each in source order — and
both then receive the source's terminal (and are ended).  Hence every element reaches exactly one output:
the two outputs are sublists of the source whose concatenation is a permutation of it. -/
theorem partition_exactly_one (p : α → Bool) (xs : List α) (n : Notif α) (hn : n.isTerminal = true) :
    (Part.run false (fun v _ => .ok (p v)) partInit
        ([.sub 0, .sub 1] ++ xs.map (fun v => .src (.next v)) ++ [.src n])).slots.map (fun r => (r.st, r.seen)) =
      [(.ended, (xs.filter p).map .next ++ [n]), (.ended, (xs.filter fun v => !p v).map .next ++ [n])] ∧
    (xs.filter p ++ xs.filter fun v => !p v).Perm xs ∧ (xs.filter p).Sublist xs ∧ (xs.filter fun v => !p v).Sublist xs := by
  refine ⟨?_, List.filter_append_perm p xs, List.filter_sublist, List.filter_sublist⟩
  have := partition_core false (fun v _ => p v) xs n hn
  rw [Part.sel_filter, Part.sel_filter] at this
  simpa using this

/-- **partition_indexed_exactly_one.** Same for `partition_indexed`: the predicate gets the per-subscription index,
which (both outputs subscribed from the start, predicate not raising) is the element's position. -/
theorem partition_indexed_exactly_one (p : α → Nat → Bool) (xs : List α) (n : Notif α) (hn : n.isTerminal = true) :
    (Part.run true (fun v i => .ok (p v i)) partInit
        ([.sub 0, .sub 1] ++ xs.map (fun v => .src (.next v)) ++ [.src n])).slots.map (fun r => (r.st, r.seen)) =
      [(.ended, ((xs.zipIdx.filter fun q => p q.1 q.2).map (·.1)).map .next ++ [n]),
       (.ended, ((xs.zipIdx.filter fun q => !p q.1 q.2).map (·.1)).map .next ++ [n])] := by
  have := partition_core true p xs n hn
  rw [Part.sel_indexed, Part.sel_indexed] at this
  simpa using this

/-- non-vacuity: 1..6 partitioned by evenness, then an error; and a run where the second output subscribes late
and the first is disposed early (general machine, not covered by the theorem's scenario) -/
example : (Part.run false (fun v _ => .ok (v % 2 == 0)) (partInit : Part.St Nat)
      ([.sub 0, .sub 1] ++ [1, 2, 3, 4, 5, 6].map (fun v => .src (.next v)) ++ [.src (.error "e")])).slots.map (·.seen) =
    [[.next 2, .next 4, .next 6, .error "e"], [.next 1, .next 3, .next 5, .error "e"]] := by decide
example : (Part.run false (fun v _ => .ok (v % 2 == 0)) (partInit : Part.St Nat)
      [.sub 0, .src (.next 1), .src (.next 2), .sub 1, .src (.next 3), .disp 0, .src (.next 4), .src .completed]).slots.map (·.seen) =
    [[.next 2], [.next 3, .completed]] := by decide
example : (Part.run true (fun v i => .ok (i % 2 == 0 && v > 0)) (partInit : Part.St Nat)
      ([.sub 0, .sub 1] ++ [7, 8, 9].map (fun v => .src (.next v)) ++ [.src .completed])).slots.map (·.seen) =
    [[.next 7, .next 9, .completed], [.next 8, .completed]] := by decide
end C19

import RxProofs.Lemmas.CombHO
/-!
# C12 — switching forwards only the latest inner sequence

Trace machine `swM` of `switch_latest` (switch_map / switch_map_indexed / flat_map_latest = map ∘ switch_latest),
started with only the outer source (id 0) subscribed, fed an ARBITRARY event list.
-/
open Comb

namespace C12

/-- **switch_only_latest.** The values that go out are exactly the accepted inner elements whose inner is, at that
moment, the most recently arrived one (`swSpec` walks the accepted notifications keeping only "the latest arrival");
each is emitted by the step that delivers it. -/
theorem switch_only_latest {α} (es : List (Ev (HV α))) :
    outVals (run (swM (α := α)) (hoInit {}) es) = swSpec none (accepted (swM (α := α)) (hoInit {}) es) :=
  sw_run es _ (hoInit_WF _)

/-- **switch_unsub_prev_at_arrival.** In any state reachable or not (plumbing well-formed), the step that delivers a new
inner `j` unsubscribes the previous inner (if it is still open) and then subscribes the new one — exactly these
effects, in this order, in this step. -/
theorem switch_unsub_prev_at_arrival {α} (st : St SwSt) (h : st.p.WF) (j : Nat) (h0 : 0 ∈ st.p.live) :
    (step (swM (α := α)) st (.src 0 (.next (.obs j)))).2
      = (match st.s.cur with
         | some o => if o ∈ st.p.live then [Eff.unsub o] else []
         | none => []) ++ [Eff.sub (j + 1)] ∧
    (step (swM (α := α)) st (.src 0 (.next (.obs j)))).1.s.cur = some (j + 1) := by
  have hnd := not_done_of_live h h0
  cases hc : st.s.cur with
  | none => simp [step, h0, swM, swHandler, hc, Plumb.acts, Plumb.act, hnd, Notif.isTerminal]
  | some o =>
    by_cases ho : o ∈ st.p.live
    · simp [step, h0, swM, swHandler, hc, Plumb.acts, Plumb.act, hnd, ho, Notif.isTerminal]
    · simp [step, h0, swM, swHandler, hc, Plumb.acts, Plumb.act, hnd, ho, Notif.isTerminal]

/-- **switch_stale_error_ignored.** A notification of an inner that is not the latest one — an error included — changes
nothing: no effect at all besides closing that inner's own subscription if the notification is terminal, and the
operator state is untouched. -/
theorem switch_stale_error_ignored {α} (st : St SwSt) (k : Nat) (n : Notif (HV α)) (hk0 : k ≠ 0)
    (hstale : st.s.cur ≠ some k) :
    emits (step (swM (α := α)) st (.src k n)).2 = [] ∧ subsOf (step (swM (α := α)) st (.src k n)).2 = [] ∧
    (step (swM (α := α)) st (.src k n)).1.s = st.s := by
  by_cases hk : k ∈ st.p.live
  · cases n with
    | next x =>
      cases x <;> simp [step, hk, swM, swHandler, hk0, hstale, Plumb.acts, Notif.isTerminal]
    | error er =>
      simp only [step, hk, swM, swHandler, hk0, hstale, Plumb.acts, Notif.isTerminal, if_true, if_false, Plumb.act]
      simp [emits, subsOf]
    | completed =>
      simp only [step, hk, swM, swHandler, hk0, hstale, Plumb.acts, Notif.isTerminal, if_true, if_false, Plumb.act]
      simp [emits, subsOf]
  · simp [step_src_not_live _ _ _ _ hk]

/-- **switch_completes_iff.** Walk the delivered notifications remembering the latest arrived inner, whether it has completed
since it arrived, and whether the outer completed (`swTStep`). The output completes if and only if, at the end of the
delivered notifications, the outer has completed and there is no latest inner or the latest inner has completed
(`swRule`) — and then it completes in the very step that makes this true (the notifications delivered stop there). In
particular a completion of a stale inner, or of the latest inner while the outer is still running, does not complete. -/
theorem switch_completes_iff {α} (es : List (Ev (HV α))) :
    Notif.completed ∈ emits (run (swM (α := α)) (hoInit {}) es)
      ↔ swRule ((accepted (swM (α := α)) (hoInit {}) es).foldl swTStep {}) := by
  have h := rule_run (swM (α := α)) SwI swAbs swTStep swRule
    (fun st e h => sw_step_I st e h) (fun st h => h.wf) (fun st e h => sw_abs_step st e h)
    (fun st k n h _ hr => sw_rule_step st k n h hr)
    (fun st _ => by simp [step, swM, Plumb.acts])
    es (hoInit {}) ⟨hoInit_WF _, fun _ => rfl⟩ (by simp [swRule, swAbs, hoInit])
  simpa [swAbs, hoInit] using h

/-- non-vacuity: inner 1 is replaced by inner 2 while still open; a late element and a late error of inner 1 are ignored -/
example :
    run (swM (α := Nat) ) (hoInit {})
      [.src 0 (.next (.obs 0)), .src 1 (.next (.val 7)), .src 0 (.next (.obs 1)), .src 1 (.next (.val 8)), .src 1 (.error "stale"),
       .src 2 (.next (.val 9)), .src 0 .completed, .src 2 .completed]
      = [.sub 1, .emit (.next 7), .unsub 1, .sub 2, .emit (.next 9), .unsub 0, .emit .completed, .unsub 2] := by
  decide

end C12

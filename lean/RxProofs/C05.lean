import RxProofs.Lemmas.OpsElem
import RxModel.OpsVal
import RxProofs.Lemmas.OpsFbElem
/-!
# C05 — element-wise operators match their list semantics

Property theorems only.  For every operator `op` below:

    visible (op.run lag raw) = ref_op (elems raw) (fin raw)

for **every** raw input `raw` (conforming or not: emissions after a terminal, several terminals),
every user callback (`α → Except Err β`, raising wherever it likes), and both `lag = false` (the
subscriber's terminal disposes the source subscription at once) and `lag = true` (the disposal never
arrives: handlers keep being called after they emitted a terminal).  `elems raw` / `fin raw` are the
elements before the first terminal and how the sequence ended (the conforming view produced by the
upstream `AutoDetachObserver`).  `ref_op` is the list computation: `List.take`, `List.drop`,
`List.zip`, … directly, or for raising callbacks the reference loop of `RxModel/OpsRef.lean`, which
the `*_pure` theorems identify with `List.map`, `List.filter`, `List.takeWhile`, `List.dropWhile`,
`List.eraseDupsBy`, `List.eraseRepsBy`, `List.find?` for callbacks that do not raise.

Timing: `emitted_at` — what is delivered during the handler call of input `k` is the difference
between the semantics of the prefixes of length `k+1` and `k`; hence each output carries the time of
the input that determines it (`map_timed`, `skip_last_timed`, `take_last_timed`).
-/

open Ops

namespace C05
variable {α β κ : Type}

/-! ## Framework-level statements -/

/-- **run_eq_sem.** Subscriber-visible output = grammar cut of the handler outputs over the
conforming prefix, whatever the raw input and whether or not disposal lags. -/
theorem run_eq_sem (lag : Bool) (op : Op α β) (raw : List (Notif α)) :
    visible (op.run lag raw) = op.sem raw := run_sem lag op raw

/-- **lag_irrelevant.** Lagging disposal never changes what the subscriber sees. -/
theorem lag_irrelevant (op : Op α β) (raw : List (Notif α)) :
    visible (op.run true raw) = visible (op.run false raw) := by rw [run_sem, run_sem]

/-- **pipe_eq.** `source.pipe(a, b)` (with the real observer/disposal chain between the stages)
has the composed semantics. -/
theorem pipe_eq (lag : Bool) (a : Op α β) (b : Op β κ) (raw : List (Notif α)) :
    visible ((a.comp b).run lag raw) = b.sem (a.sem raw) := by rw [run_sem, sem_comp]

/-- what was delivered to the subscriber during the handler call of input `k` -/
def emittedAt (r : List (StepOut β)) (k : Nat) : List (Notif β) := (r[k + 1]?.map (·.vis)).getD []

/-- **timing.** After the handler call of the `k`-th input returned, the subscriber has seen exactly
the semantics of the first `k` inputs: later inputs cannot influence earlier outputs, and an output
cannot be late. -/
theorem timing (lag : Bool) (op : Op α β) (raw : List (Notif α)) (k : Nat) :
    visible ((op.run lag raw).take (k + 1)) = op.sem (raw.take k) := by
  rw [run_take, run_sem]

theorem visible_take_succ (r : List (StepOut β)) (k : Nat) :
    visible (r.take (k + 2)) = visible (r.take (k + 1)) ++ emittedAt r k := by
  unfold emittedAt visible
  by_cases h : k + 1 < r.length
  · have e : r.take (k + 1 + 1) = r.take (k + 1) ++ [r[k + 1]] := by
      rw [List.take_add_one]; simp [h]
    rw [show k + 2 = k + 1 + 1 from rfl, e]
    simp only [List.flatMap_append, List.flatMap_cons, List.flatMap_nil, List.append_nil,
      List.getElem?_eq_getElem h, Option.map_some, Option.getD_some]
  · have h1 : r.take (k + 2) = r := List.take_of_length_le (by omega)
    have h2 : r.take (k + 1) = r := List.take_of_length_le (by omega)
    rw [h1, h2]; simp [List.getElem?_eq_none (Nat.le_of_not_lt h)]

/-- **emitted_at.** The notifications delivered during the handler call of input `k` are exactly the
difference between the semantics of the prefixes of length `k+1` and `k`. -/
theorem emitted_at (lag : Bool) (op : Op α β) (raw : List (Notif α)) (k : Nat) :
    emittedAt (op.run lag raw) k = (op.sem (raw.take (k + 1))).drop (op.sem (raw.take k)).length := by
  have h := visible_take_succ (op.run lag raw) k
  rw [timing, timing] at h
  rw [h]; simp

/-! ## Operators -/

theorem map_eq (lag : Bool) (f : α → Except Err β) (raw : List (Notif α)) :
    visible ((mapOp f).run lag raw) = refMap f (elems raw) (fin raw) := by rw [run_sem, sem_map]
theorem map_pure (lag : Bool) (g : α → β) (raw : List (Notif α)) :
    visible ((mapOp (fun x => .ok (g x))).run lag raw) = outSeq ((elems raw).map g) (fin raw) := by
  rw [map_eq, refMap_pure]

theorem map_indexed_eq (lag : Bool) (f : α → Nat → Except Err β) (raw : List (Notif α)) :
    visible ((mapIndexedOp f).run lag raw) = refMapIdx f 0 (elems raw) (fin raw) := by
  rw [run_sem, sem_mapIndexed]
theorem map_indexed_pure (lag : Bool) (g : α → Nat → β) (raw : List (Notif α)) :
    visible ((mapIndexedOp (fun x i => .ok (g x i))).run lag raw)
      = outSeq (((elems raw).zipIdx 0).map (fun t => g t.1 t.2)) (fin raw) := by
  rw [map_indexed_eq, refMapIdx_pure]

theorem filter_eq (lag : Bool) (p : α → Except Err Bool) (raw : List (Notif α)) :
    visible ((filterOp p).run lag raw) = refFilter p (elems raw) (fin raw) := by rw [run_sem, sem_filter]
theorem filter_pure (lag : Bool) (q : α → Bool) (raw : List (Notif α)) :
    visible ((filterOp (fun x => .ok (q x))).run lag raw) = outSeq ((elems raw).filter q) (fin raw) := by
  rw [filter_eq, refFilter_pure]

theorem filter_indexed_eq (lag : Bool) (p : α → Nat → Except Err Bool) (raw : List (Notif α)) :
    visible ((filterIndexedOp (some p)).run lag raw) = refFilterIdx p 0 (elems raw) (fin raw) := by
  rw [run_sem, sem_filterIndexed]
theorem filter_indexed_pure (lag : Bool) (q : α → Nat → Bool) (raw : List (Notif α)) :
    visible ((filterIndexedOp (some fun x i => .ok (q x i))).run lag raw)
      = outSeq ((((elems raw).zipIdx 0).filter (fun t => q t.1 t.2)).map (·.1)) (fin raw) := by
  rw [filter_indexed_eq, refFilterIdx_pure]
theorem filter_indexed_none_eq (lag : Bool) (raw : List (Notif α)) :
    visible ((filterIndexedOp (α := α) none).run lag raw) = outSeq (elems raw) (fin raw) := by
  rw [run_sem, sem_filterIndexed_none]

theorem take_eq (lag : Bool) (n : Nat) (raw : List (Notif α)) :
    visible ((takeOp n).run lag raw)
      = outSeq ((elems raw).take n) (if n ≤ (elems raw).length then .completed else fin raw) := by
  rw [run_sem, sem_take]

theorem skip_eq (lag : Bool) (n : Nat) (raw : List (Notif α)) :
    visible ((skipOp n).run lag raw) = outSeq ((elems raw).drop n) (fin raw) := by rw [run_sem, sem_skip]

theorem take_while_eq (lag : Bool) (p : α → Except Err Bool) (incl : Bool) (raw : List (Notif α)) :
    visible ((takeWhileOp p incl).run lag raw) = refTakeWhile p incl (elems raw) (fin raw) := by
  rw [run_sem, sem_takeWhile]
theorem take_while_pure (lag : Bool) (q : α → Bool) (incl : Bool) (raw : List (Notif α)) :
    visible ((takeWhileOp (fun x => .ok (q x)) incl).run lag raw)
      = outSeq ((elems raw).takeWhile q ++ (if incl then ((elems raw).dropWhile q).take 1 else []))
          (if (elems raw).all q then fin raw else .completed) := by
  rw [take_while_eq, refTakeWhile_pure]

theorem take_while_indexed_eq (lag : Bool) (p : α → Nat → Except Err Bool) (incl : Bool) (raw : List (Notif α)) :
    visible ((takeWhileIndexedOp p incl).run lag raw) = refTakeWhileIdx p incl 0 (elems raw) (fin raw) := by
  rw [run_sem, sem_takeWhileIndexed]
theorem take_while_indexed_pure (lag : Bool) (q : α → Nat → Bool) (incl : Bool) (raw : List (Notif α)) :
    visible ((takeWhileIndexedOp (fun x i => .ok (q x i)) incl).run lag raw)
      = outSeq ((((elems raw).zipIdx 0).takeWhile (fun t => q t.1 t.2) ++
            (if incl then (((elems raw).zipIdx 0).dropWhile (fun t => q t.1 t.2)).take 1 else [])).map (·.1))
          (if ((elems raw).zipIdx 0).all (fun t => q t.1 t.2) then fin raw else .completed) := by
  rw [take_while_indexed_eq, refTakeWhileIdx_pure]

theorem skip_while_eq (lag : Bool) (p : α → Except Err Bool) (raw : List (Notif α)) :
    visible ((skipWhileOp p).run lag raw) = refSkipWhile p (elems raw) (fin raw) := by
  rw [run_sem, sem_skipWhile]
theorem skip_while_pure (lag : Bool) (q : α → Bool) (raw : List (Notif α)) :
    visible ((skipWhileOp (fun x => .ok (q x))).run lag raw) = outSeq ((elems raw).dropWhile q) (fin raw) := by
  rw [skip_while_eq, refSkipWhile_pure]

theorem skip_while_indexed_eq (lag : Bool) (p : α → Nat → Except Err Bool) (raw : List (Notif α)) :
    visible ((skipWhileIndexedOp p).run lag raw) = refSkipWhileIdx p 0 (elems raw) (fin raw) := by
  rw [run_sem, sem_skipWhileIndexed]
theorem skip_while_indexed_pure (lag : Bool) (q : α → Nat → Bool) (raw : List (Notif α)) :
    visible ((skipWhileIndexedOp (fun x i => .ok (q x i))).run lag raw)
      = outSeq ((((elems raw).zipIdx 0).dropWhile (fun t => q t.1 t.2)).map (·.1)) (fin raw) := by
  rw [skip_while_indexed_eq, refSkipWhileIdx_pure]

/-- `distinct` with key mapper and comparer that may raise (→ `on_error`, as the code does since the
`fix:` for the comparer). -/
theorem distinct_eq (lag : Bool) (key : α → Except Err κ) (cmp : κ → κ → Except Err Bool) (raw : List (Notif α)) :
    visible ((distinctOp key cmp).run lag raw) = refDistinct key cmp [] (elems raw) (fin raw) := by
  rw [run_sem, sem_distinct]
theorem distinct_pure (lag : Bool) (g : α → κ) (cmp : κ → κ → Bool) (raw : List (Notif α)) :
    visible ((distinctOp (fun x => .ok (g x)) (fun a b => .ok (cmp a b))).run lag raw)
      = outSeq ((elems raw).eraseDupsBy (fun new old => cmp (g old) (g new))) (fin raw) := by
  rw [distinct_eq, refDistinct_pure]

theorem distinct_until_changed_eq (lag : Bool) (key : α → Except Err κ) (cmp : κ → κ → Except Err Bool)
    (raw : List (Notif α)) :
    visible ((distinctUntilChangedOp key cmp).run lag raw) = refDUC key cmp none (elems raw) (fin raw) := by
  rw [run_sem, sem_duc]
theorem distinct_until_changed_pure (lag : Bool) (g : α → κ) (cmp : κ → κ → Bool) (raw : List (Notif α)) :
    visible ((distinctUntilChangedOp (fun x => .ok (g x)) (fun c k => .ok (cmp c k))).run lag raw)
      = outSeq ((elems raw).eraseRepsBy (fun x y => cmp (g x) (g y))) (fin raw) := by
  rw [distinct_until_changed_eq, refDUC_pure]

theorem pairwise_eq (lag : Bool) (raw : List (Notif α)) :
    visible ((pairwiseOp (α := α)).run lag raw) = outSeq ((elems raw).zip (elems raw).tail) (fin raw) := by
  rw [run_sem, sem_pairwise]

theorem start_with_eq (lag : Bool) (args : List α) (raw : List (Notif α)) :
    visible ((startWithOp args).run lag raw) = outSeq (args ++ elems raw) (fin raw) := by
  rw [run_sem, sem_startWith]

theorem default_if_empty_eq (lag : Bool) (d : α) (raw : List (Notif α)) :
    visible ((defaultIfEmptyOp d).run lag raw)
      = outSeq (if (elems raw).isEmpty = true ∧ fin raw = .completed then [d] else elems raw) (fin raw) := by
  rw [run_sem, sem_defaultIfEmpty]

theorem ignore_elements_eq (lag : Bool) (raw : List (Notif α)) :
    visible ((ignoreElementsOp (α := α)).run lag raw) = outSeq [] (fin raw) := by
  rw [run_sem, sem_ignoreElements]

/-- `take_last(count)`: nothing before completion; the last `count` elements at completion. -/
theorem take_last_eq (lag : Bool) (count : Int) (raw : List (Notif α)) :
    visible ((takeLastOp count).run lag raw)
      = outSeq (if fin raw = .completed then lastN count.toNat (elems raw) else []) (fin raw) := by
  rw [run_sem, sem_takeLast]

/-- `skip_last(count)` (**with the proposed fix**): all but the last `count` elements. -/
theorem skip_last_eq (lag : Bool) (count : Int) (raw : List (Notif α)) :
    visible ((skipLastOp count).run lag raw) = outSeq (butLastN count.toNat (elems raw)) (fin raw) := by
  rw [run_sem, sem_skipLast]

theorem take_last_buffer_eq (lag : Bool) (count : Int) (raw : List (Notif α)) :
    visible ((takeLastBufferOp count).run lag raw)
      = outSeq (if fin raw = .completed then [lastN count.toNat (elems raw)] else []) (fin raw) := by
  rw [run_sem, sem_takeLastBuffer]

/-- `element_at(i)` (`dflt = none`) and `element_at_or_default(i, d)` (`dflt = some d`). -/
theorem element_at_eq (lag : Bool) (index : Nat) (dflt : Option α) (raw : List (Notif α)) :
    visible ((elementAtOrDefaultOp index dflt).run lag raw) = refElementAt index dflt (elems raw) (fin raw) := by
  rw [run_sem, sem_elementAt]

theorem find_eq (lag : Bool) (p : α → Nat → Except Err Bool) (raw : List (Notif α)) :
    visible ((findOp p).run lag raw) = refFind p (fun x _ => some x) none 0 (elems raw) (fin raw) := by
  rw [run_sem, findOp, sem_find]
theorem find_index_eq (lag : Bool) (p : α → Nat → Except Err Bool) (raw : List (Notif α)) :
    visible ((findIndexOp p).run lag raw) = refFind p (fun _ i => (i : Int)) (-1) 0 (elems raw) (fin raw) := by
  rw [run_sem, findIndexOp, sem_find]
theorem find_pure (lag : Bool) (q : α → Nat → Bool) (raw : List (Notif α)) :
    visible ((findOp (fun x i => .ok (q x i))).run lag raw)
      = match ((elems raw).zipIdx 0).find? (fun t => q t.1 t.2) with
        | some t => [.next (some t.1), .completed]
        | none => notFound none (fin raw) := by
  rw [find_eq, refFind_pure]
  cases ((elems raw).zipIdx 0).find? (fun t => q t.1 t.2) <;> rfl
theorem find_index_pure (lag : Bool) (q : α → Nat → Bool) (raw : List (Notif α)) :
    visible ((findIndexOp (fun x i => .ok (q x i))).run lag raw)
      = match ((elems raw).zipIdx 0).find? (fun t => q t.1 t.2) with
        | some t => [.next (t.2 : Int), .completed]
        | none => notFound (-1) (fin raw) := by
  rw [find_index_eq, refFind_pure]
  cases ((elems raw).zipIdx 0).find? (fun t => q t.1 t.2) <;> rfl

/-! `starmap(mapper) = map(lambda values: mapper(*values))` and `pluck(key) = map(lambda x: x[key])` with the
argument adapters modelled on the value grammar (`RxModel/OpsVal.lean`). -/

theorem starmap_eq (lag : Bool) (mapper : Option (List Val → Except Err Val)) (raw : List (Notif Val)) :
    visible ((starmapOp mapper).run lag raw) = refMap (starred mapper) (elems raw) (fin raw) :=
  map_eq lag (starred mapper) raw

/-- on tuples `starmap(f)` is `[f(*t) for t in ts]` (stopping at the first raise) -/
theorem starmap_tuples (lag : Bool) (f : List Val → Except Err Val) (raw : List (Notif Val)) (tss : List (List Val))
    (h : elems raw = tss.map Val.tup) :
    visible ((starmapOp (some f)).run lag raw) = refMap f tss (fin raw) := by
  rw [starmap_eq, h]
  clear h
  generalize fin raw = e
  induction tss with
  | nil => rfl
  | cons ts tss ih => simp only [List.map_cons, refMap, starred, starArgs]; cases f ts <;> simp [ih]

/-- `starmap()` without a mapper passes every element through -/
theorem starmap_identity (lag : Bool) (raw : List (Notif Val)) :
    visible ((starmapOp none).run lag raw) = outSeq (elems raw) (fin raw) := by
  rw [starmap_eq]
  have : starred none = fun v => Except.ok (id v) := rfl
  rw [this, refMap_pure]; simp

/-- a value that cannot be unpacked (`None`, a number, a bool) ends the sequence with `TypeError` -/
theorem starmap_not_iterable (f : List Val → Except Err Val) (v : Val)
    (hv : v = .none ∨ (∃ i, v = .int i) ∨ (∃ b, v = .bool b) ∨ (∃ s, v = .flt s)) :
    starred (some f) v = .error "TypeError" := by
  rcases hv with h | ⟨i, h⟩ | ⟨b, h⟩ | ⟨s, h⟩ <;> subst h <;> rfl

theorem pluck_eq (lag : Bool) (key : Val) (raw : List (Notif Val)) :
    visible ((pluckOp key).run lag raw) = refMap (pluckGet key) (elems raw) (fin raw) :=
  map_eq lag (pluckGet key) raw

/-- a dict without the key ends the sequence with `KeyError` … -/
theorem pluck_missing_key (key : Val) (kvs : List (Val × Val)) (hk : key.hashable = true)
    (hm : kvs.find? (fun kv => Val.pyEq kv.1 key) = none) :
    pluckGet key (.dct kvs) = .error "KeyError" := by
  simp [pluckGet, hk, hm]

/-- … and one with the key yields its value, whatever it is (`None`, `0`, `''` … included) -/
theorem pluck_found (key : Val) (kvs : List (Val × Val)) (kv : Val × Val) (hk : key.hashable = true)
    (hm : kvs.find? (fun kv => Val.pyEq kv.1 key) = some kv) :
    pluckGet key (.dct kvs) = .ok kv.2 := by
  simp [pluckGet, hk, hm]

/-- `None` and numbers are not subscriptable -/
theorem pluck_not_subscriptable (key : Val) (v : Val)
    (hv : v = .none ∨ (∃ i, v = .int i) ∨ (∃ b, v = .bool b) ∨ (∃ s, v = .flt s)) :
    pluckGet key v = .error "TypeError" := by
  rcases hv with h | ⟨i, h⟩ | ⟨b, h⟩ | ⟨s, h⟩ <;> subst h <;> rfl

theorem materialize_eq (lag : Bool) (raw : List (Notif α)) :
    visible ((materializeOp (α := α)).run lag raw) = refMaterialize (elems raw) (fin raw) := by
  rw [run_sem, sem_materialize]

theorem dematerialize_eq (lag : Bool) (raw : List (Notif (Notif α))) :
    visible ((dematerializeOp (α := α)).run lag raw) = cut (elems raw ++ (fin raw).toNotifs) := by
  rw [run_sem, sem_dematerialize]

/-- **dematerialize_materialize.** `materialize` followed by `dematerialize` is the identity on what
the subscriber sees, for every raw input. -/
theorem dematerialize_materialize (lag : Bool) (raw : List (Notif α)) :
    visible (((materializeOp (α := α)).comp dematerializeOp).run lag raw) = cut raw := by
  rw [run_sem, sem_dematerialize_materialize]

theorem scan_seed_eq (lag : Bool) (f : β → α → Except Err β) (seed : β) (raw : List (Notif α)) :
    visible ((scanSeedOp f seed).run lag raw) = refScan f seed (elems raw) (fin raw) := by
  rw [run_sem, sem_scanSeed]

/-! ## Timing corollaries -/

theorem take_map_next_append (xs : List α) (rest : List (Notif α)) (k : Nat) (hk : k ≤ xs.length) :
    (xs.map Notif.next ++ rest).take k = (xs.take k).map Notif.next := by
  rw [List.take_append_of_le_length (by simpa using hk), List.map_take]

theorem drop_nexts (ys zs : List β) :
    ((ys ++ zs).map Notif.next).drop (ys.map Notif.next).length = zs.map Notif.next := by
  simp

theorem take_succ_getElem (xs : List α) (k : Nat) (hk : k < xs.length) :
    xs.take (k + 1) = xs.take k ++ [xs[k]] := by
  rw [List.take_add_one]; simp [hk]

/-- **map_timed.** The `k`-th element's image is delivered during the `k`-th input's handler call. -/
theorem map_timed (lag : Bool) (g : α → β) (xs : List α) (rest : List (Notif α)) (k : Nat) (hk : k < xs.length) :
    emittedAt ((mapOp (fun x => .ok (g x))).run lag (xs.map .next ++ rest)) k = [.next (g xs[k])] := by
  have e1 := take_map_next_append xs rest k (by omega)
  have e2 := take_map_next_append xs rest (k + 1) (by omega)
  rw [emitted_at, e1, e2, sem_map, sem_map, refMap_pure, refMap_pure]
  simp only [elems_map_next, fin_map_next, outSeq, End.toNotifs, List.append_nil]
  rw [take_succ_getElem xs k hk, List.map_append, drop_nexts]; rfl

theorem butLastN_take_succ (n : Nat) (xs : List α) (k : Nat) (hk : k < xs.length) :
    butLastN n (xs.take (k + 1))
      = butLastN n (xs.take k) ++ (if h : n ≤ k then [xs[k - n]'(by omega)] else []) := by
  unfold butLastN
  simp only [List.length_take, List.take_take]
  have h1 : min (k + 1) xs.length = k + 1 := by omega
  have h2 : min k xs.length = k := by omega
  rw [h1, h2]
  split
  · rename_i h
    have a1 : min (k + 1 - n) (k + 1) = (k - n) + 1 := by omega
    have a2 : min (k - n) k = k - n := by omega
    rw [a1, a2, take_succ_getElem xs (k - n) (by omega)]
  · rename_i h
    have a1 : min (k + 1 - n) (k + 1) = 0 := by omega
    have a2 : min (k - n) k = 0 := by omega
    rw [a1, a2]; simp

/-- **take_timed.** `take(n)` completes during the handler call of the `n`-th element (not later, not at
the source's own completion). -/
theorem take_timed (lag : Bool) (n : Nat) (xs : List α) (rest : List (Notif α)) (hn : n < xs.length) :
    emittedAt ((takeOp (n + 1)).run lag (xs.map .next ++ rest)) n = [.next xs[n], .completed] := by
  have e1 := take_map_next_append xs rest n (by omega)
  have e2 := take_map_next_append xs rest (n + 1) (by omega)
  rw [emitted_at, e1, e2, sem_take, sem_take]
  simp only [elems_map_next, fin_map_next, List.length_take]
  have h1 : ¬ (n + 1 ≤ min n xs.length) := by omega
  have h2 : n + 1 ≤ min (n + 1) xs.length := by omega
  rw [if_neg h1, if_pos h2, List.take_take, List.take_take]
  have h3 : min (n + 1) n = n := by omega
  have h4 : min (n + 1) (n + 1) = n + 1 := by omega
  rw [h3, h4]
  simp only [outSeq, End.toNotifs, List.append_nil]
  rw [take_succ_getElem xs n hn, List.map_append, List.append_assoc]
  simp

/-- **filter_timed.** An element that passes the predicate is delivered during its own handler call; one that
does not produces nothing. -/
theorem filter_timed (lag : Bool) (q : α → Bool) (xs : List α) (rest : List (Notif α)) (k : Nat) (hk : k < xs.length) :
    emittedAt ((filterOp (fun x => .ok (q x))).run lag (xs.map .next ++ rest)) k
      = if q xs[k] then [.next xs[k]] else [] := by
  have e1 := take_map_next_append xs rest k (by omega)
  have e2 := take_map_next_append xs rest (k + 1) (by omega)
  rw [emitted_at, e1, e2, sem_filter, sem_filter, refFilter_pure, refFilter_pure]
  simp only [elems_map_next, fin_map_next, outSeq, End.toNotifs, List.append_nil]
  rw [take_succ_getElem xs k hk, List.filter_append, drop_nexts]
  cases hq : q xs[k] <;> simp [hq]

/-- **skip_last_timed.** With `skip_last(n)`, the `i`-th output is delivered at the arrival of element
`i+n`: during the handler call of element `k` the element `k-n` is emitted (nothing while `k < n`). -/
theorem skip_last_timed (lag : Bool) (n : Nat) (xs : List α) (rest : List (Notif α)) (k : Nat) (hk : k < xs.length) :
    emittedAt ((skipLastOp (n : Int)).run lag (xs.map .next ++ rest)) k
      = if h : n ≤ k then [.next (xs[k - n]'(by omega))] else [] := by
  have e1 := take_map_next_append xs rest k (by omega)
  have e2 := take_map_next_append xs rest (k + 1) (by omega)
  rw [emitted_at, e1, e2, sem_skipLast, sem_skipLast]
  simp only [elems_map_next, fin_map_next, outSeq, End.toNotifs, List.append_nil, Int.toNat_natCast]
  rw [butLastN_take_succ n xs k hk, drop_nexts]
  split <;> rfl

/-- **take_last_timed.** `take_last(n)` delivers nothing while elements arrive and everything during
the handler call of the completion. -/
theorem take_last_timed (lag : Bool) (n : Nat) (xs : List α) (rest : List (Notif α)) :
    (∀ k, k < xs.length →
      emittedAt ((takeLastOp (n : Int)).run lag (xs.map .next ++ .completed :: rest)) k = []) ∧
    emittedAt ((takeLastOp (n : Int)).run lag (xs.map .next ++ .completed :: rest)) xs.length
      = outSeq (lastN n xs) .completed := by
  constructor
  · intro k hk
    have e1 := take_map_next_append xs (.completed :: rest) k (by omega)
    have e2 := take_map_next_append xs (.completed :: rest) (k + 1) (by omega)
    rw [emitted_at, e1, e2, sem_takeLast, sem_takeLast]
    simp only [elems_map_next, fin_map_next]
    simp [outSeq, End.toNotifs]
  · have e1 := take_map_next_append xs (.completed :: rest) xs.length (by omega)
    have e2 : (xs.map Notif.next ++ Notif.completed :: rest).take (xs.length + 1)
        = outSeq xs .completed := by
      rw [List.take_append]; simp [outSeq, End.toNotifs, List.take_of_length_le]
    rw [emitted_at, e1, e2, sem_takeLast, sem_takeLast]
    simp only [List.take_length, elems_map_next, fin_map_next, elems_outSeq, fin_outSeq]
    simp [outSeq, End.toNotifs]

/-! ## Re-entrant feedback sources

The consumer pushes the next pending element into the (Subject) source from inside its own `on_next`, so the
operator's handler is re-entered while it is still inside its downstream call (`ROp.runFb`, `RxModel/OpsFb.lean`:
handlers split at their downstream calls as the code has them; terminals are pushed from the top level).  For every
operator that commits its state before emitting (`ROp.Safe`), for **every input list and every nesting bound**, the
subscriber sees the list reference on the combined arrival sequence. -/

/-- **fb_eq_sequential.** state committed before the downstream call ⇒ re-entrant run = sequential run of the arrival order -/
theorem fb_eq_sequential (r : ROp α β) (sf : r.Safe) (bound : Nat) (raw : List (Notif α)) :
    r.runFb bound raw = visible (r.toOp.run false raw) := by
  rw [runFb_eq_sem r sf, run_sem]

theorem map_fb (bound : Nat) (f : α → Except Err β) (raw : List (Notif α)) :
    (mapR f).runFb bound raw = refMap f (elems raw) (fin raw) := by
  rw [runFb_eq_sem _ (mapR_safe f), mapR_toOp, sem_map]
theorem filter_fb (bound : Nat) (p : α → Except Err Bool) (raw : List (Notif α)) :
    (filterR p).runFb bound raw = refFilter p (elems raw) (fin raw) := by
  rw [runFb_eq_sem _ (filterR_safe p), filterR_toOp, sem_filter]
theorem filter_indexed_fb (bound : Nat) (p : α → Nat → Except Err Bool) (raw : List (Notif α)) :
    (filterIndexedR (some p)).runFb bound raw = refFilterIdx p 0 (elems raw) (fin raw) := by
  rw [runFb_eq_sem _ (filterIndexedR_safe _), filterIndexedR_toOp, sem_filterIndexed]
/-- `take(n)`: `remaining` is decremented before the element is emitted, so a re-entered handler sees the new count -/
theorem take_fb (bound : Nat) (n : Nat) (raw : List (Notif α)) :
    (takeR n).runFb bound raw
      = outSeq ((elems raw).take n) (if n ≤ (elems raw).length then .completed else fin raw) := by
  rw [runFb_eq_sem _ (takeR_safe n), takeR_toOp, sem_take]
theorem skip_fb (bound : Nat) (n : Nat) (raw : List (Notif α)) :
    (skipR n).runFb bound raw = outSeq ((elems raw).drop n) (fin raw) := by
  rw [runFb_eq_sem _ (skipR_safe n), skipR_toOp, sem_skip]
theorem take_while_fb (bound : Nat) (p : α → Except Err Bool) (incl : Bool) (raw : List (Notif α)) :
    (takeWhileR p incl).runFb bound raw = refTakeWhile p incl (elems raw) (fin raw) := by
  rw [runFb_eq_sem _ (takeWhileR_safe p incl), takeWhileR_toOp, sem_takeWhile]
theorem take_while_indexed_fb (bound : Nat) (p : α → Nat → Except Err Bool) (incl : Bool) (raw : List (Notif α)) :
    (takeWhileIndexedR p incl).runFb bound raw = refTakeWhileIdx p incl 0 (elems raw) (fin raw) := by
  rw [runFb_eq_sem _ (takeWhileIndexedR_safe p incl), takeWhileIndexedR_toOp, sem_takeWhileIndexed]
theorem skip_while_fb (bound : Nat) (p : α → Except Err Bool) (raw : List (Notif α)) :
    (skipWhileR p).runFb bound raw = refSkipWhile p (elems raw) (fin raw) := by
  rw [runFb_eq_sem _ (skipWhileR_safe p), skipWhileR_toOp, sem_skipWhile]
theorem distinct_fb (bound : Nat) (key : α → Except Err κ) (cmp : κ → κ → Except Err Bool) (raw : List (Notif α)) :
    (distinctR key cmp).runFb bound raw = refDistinct key cmp [] (elems raw) (fin raw) := by
  rw [runFb_eq_sem _ (distinctR_safe key cmp), distinctR_toOp, sem_distinct]
theorem distinct_until_changed_fb (bound : Nat) (key : α → Except Err κ) (cmp : κ → κ → Except Err Bool)
    (raw : List (Notif α)) :
    (distinctUntilChangedR key cmp).runFb bound raw = refDUC key cmp none (elems raw) (fin raw) := by
  rw [runFb_eq_sem _ (ducR_safe key cmp), ducR_toOp, sem_duc]
theorem pairwise_fb (bound : Nat) (raw : List (Notif α)) :
    (pairwiseR (α := α)).runFb bound raw = outSeq ((elems raw).zip (elems raw).tail) (fin raw) := by
  rw [runFb_eq_sem _ pairwiseR_safe, pairwiseR_toOp, sem_pairwise]
theorem start_with_fb (bound : Nat) (args : List α) (raw : List (Notif α)) :
    (startWithR args).runFb bound raw = outSeq (args ++ elems raw) (fin raw) := by
  rw [runFb_eq_sem _ (startWithR_safe args), startWithR_toOp, sem_startWith]
theorem default_if_empty_fb (bound : Nat) (d : α) (raw : List (Notif α)) :
    (defaultIfEmptyR d).runFb bound raw
      = outSeq (if (elems raw).isEmpty = true ∧ fin raw = .completed then [d] else elems raw) (fin raw) := by
  rw [runFb_eq_sem _ (defaultIfEmptyR_safe d), defaultIfEmptyR_toOp, sem_defaultIfEmpty]
theorem ignore_elements_fb (bound : Nat) (raw : List (Notif α)) :
    (ignoreElementsR (α := α)).runFb bound raw = outSeq [] (fin raw) := by
  rw [runFb_eq_sem _ ignoreElementsR_safe, ignoreElementsR_toOp, sem_ignoreElements]
theorem take_last_fb (bound : Nat) (count : Int) (raw : List (Notif α)) :
    (takeLastR count).runFb bound raw
      = outSeq (if fin raw = .completed then lastN count.toNat (elems raw) else []) (fin raw) := by
  rw [runFb_eq_sem _ (takeLastR_safe count), takeLastR_toOp, sem_takeLast]
theorem skip_last_fb (bound : Nat) (count : Int) (raw : List (Notif α)) :
    (skipLastR count).runFb bound raw = outSeq (butLastN count.toNat (elems raw)) (fin raw) := by
  rw [runFb_eq_sem _ (skipLastR_safe count), skipLastR_toOp, sem_skipLast]
theorem take_last_buffer_fb (bound : Nat) (count : Int) (raw : List (Notif α)) :
    (takeLastBufferR count).runFb bound raw
      = outSeq (if fin raw = .completed then [lastN count.toNat (elems raw)] else []) (fin raw) := by
  rw [runFb_eq_sem _ (takeLastBufferR_safe count), takeLastBufferR_toOp, sem_takeLastBuffer]
/-- `element_at` (after c373a15): "found" is committed before the element is emitted -/
theorem element_at_fb (bound : Nat) (index : Nat) (dflt : Option α) (raw : List (Notif α)) :
    (elementAtOrDefaultR index dflt).runFb bound raw = refElementAt index dflt (elems raw) (fin raw) := by
  rw [runFb_eq_sem _ (elementAtR_safe index dflt), elementAtR_toOp, sem_elementAt]
/-- `find` / `find_index` (after 8cbe136) -/
theorem find_fb (bound : Nat) (p : α → Nat → Except Err Bool) (yes : α → Nat → β) (no : β) (raw : List (Notif α)) :
    (findValueR p yes no).runFb bound raw = refFind p yes no 0 (elems raw) (fin raw) := by
  rw [runFb_eq_sem _ (findValueR_safe p yes no), findValueR_toOp, sem_find]
theorem materialize_fb (bound : Nat) (raw : List (Notif α)) :
    (materializeR (α := α)).runFb bound raw = refMaterialize (elems raw) (fin raw) := by
  rw [runFb_eq_sem _ materializeR_safe, materializeR_toOp, sem_materialize]
theorem dematerialize_fb (bound : Nat) (raw : List (Notif (Notif α))) :
    (dematerializeR (α := α)).runFb bound raw = cut (elems raw ++ (fin raw).toNotifs) := by
  rw [runFb_eq_sem _ dematerializeR_safe, dematerializeR_toOp, sem_dematerialize]
theorem scan_seed_fb (bound : Nat) (f : β → α → Except Err β) (seed : β) (raw : List (Notif α)) :
    (scanSeedR f seed).runFb bound raw = refScan f seed (elems raw) (fin raw) := by
  rw [runFb_eq_sem _ (scanSeedR_safe f seed), scanSeedR_toOp, sem_scanSeed]

/-! ### what goes wrong when the state is committed *after* the downstream call (seeded change C07r2_2, and the
`element_at` / `find` of the tree before c373a15 / 8cbe136) -/
section Unsafe

/-- `take` whose decrement is not committed before `observer.on_next(value)` (the shape of seeded change C07r2_2; the
late write itself is outside `HOutR`, which has no post-call state write — enough for one feedback chain): the
re-entered handler still sees the old count -/
def takeLateR (count : Nat) : ROp Nat Nat where
  σ := Nat
  init := count
  onNext := fun remaining v =>
    if remaining > 0 then ⟨remaining, [.next v], fun _ => if remaining - 1 = 0 then [.completed] else []⟩
    else remit remaining []
  onError := rpassErr
  onCompleted := rpassDone

/-- on a feedback source `take(1)` written that way lets every fed-back element through … -/
theorem take_late_counter :
    (takeLateR 1).runFb 40 [.next 0, .next 1, .next 2, .completed] = [.next 0, .next 1, .next 2, .completed] := by decide

/-- … whereas the real `take(1)` (decrement first) gives the list semantics -/
example : (takeR (α := Nat) 1).runFb 40 [.next 0, .next 1, .next 2, .completed] = [.next 0, .completed] := by decide

end Unsafe

/-! ## The pinned tree's `skip_last` (before the fix) violates the property

`front = None … if front is not None: observer.on_next(front)` drops every `None` element. -/
section AsIs

instance : PyVal (Option Nat) := ⟨fun o => o.isSome, fun o => o.isNone⟩

/-- as-is behaviour on `of(None, 1, None, 2, 3).pipe(skip_last(1))`: emits `1, 2` — the replay of
DESIGN.md §6 #3. -/
theorem skip_last_asis_drops_none :
    visible ((skipLastAsIsOp (α := Option Nat) 1).run false
      [.next none, .next (some 1), .next none, .next (some 2), .next (some 3), .completed])
      = [.next (some 1), .next (some 2), .completed] := by decide

/-- … whereas the list semantics (and the fixed operator, by `skip_last_eq`) give `None, 1, None, 2`. -/
theorem skip_last_asis_counter :
    visible ((skipLastAsIsOp (α := Option Nat) 1).run false
      [.next none, .next (some 1), .next none, .next (some 2), .next (some 3), .completed])
      ≠ outSeq (butLastN 1 [none, some 1, none, some 2, some 3]) .completed := by decide

end AsIs

/-! ## Non-vacuity: concrete adversarial instances -/

-- a non-conforming input (emission after completion, second terminal), lagging disposal, take(2)
example : visible ((takeOp 2).run true [Notif.next 1, .next 2, .next 3, .completed, .next 4, .error "x"])
    = [.next 1, .next 2, .completed] := by decide
-- a raising predicate: the error replaces the rest
example : visible ((filterOp (fun x : Nat => if x = 3 then .error "boom" else .ok (x % 2 == 0))).run false
      [Notif.next 1, .next 2, .next 3, .next 4, .completed])
    = [.next 2, .error "boom"] := by decide
-- skip_last(2): outputs lag two arrivals behind
example : (List.range 5).map (emittedAt ((skipLastOp (2 : Int)).run false
      [Notif.next 10, .next 11, .next 12, .next 13, .completed]))
    = [[], [], [.next 10], [.next 11], [.completed]] := by decide
-- falsy elements through the fixed skip_last
example : visible ((skipLastOp (α := Option Nat) 1).run false
      [.next none, .next (some 1), .next none, .next (some 2), .next (some 3), .completed])
    = [.next none, .next (some 1), .next none, .next (some 2), .completed] := by decide

end C05

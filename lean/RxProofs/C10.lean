import RxProofs.Lemmas.CombSeq
/-!
# C10 — sequential composition runs one source at a time, in order

Trace machine `seqM kind items` of `concat_with_iterable_` / `catch_with_iterable_` / `on_error_resume_next_`
(kinds `concat`, `catch`, `oern`) for an ARBITRARY source iterator `items` (position j yields a source / raises
StopIteration / raises), fed an ARBITRARY list of events (source notifications, `tick` = the operator's scheduled
action running, `dispose`).  rx.concat, ops.concat, start_with, for_in, repeat, while_do, do_while are the `concat`
kind with the corresponding `items`; rx.catch, ops.catch(obs), retry the `catch` kind.
-/
open Comb

namespace C10

/-- **seq_one_live.** In every reachable state at most one source subscription is live, and it is the one of the most
recently yielded source. -/
theorem seq_one_live {α} (kind : SeqKind) (items : Nat → Item) (es : List (Ev α)) :
    (final (seqM (α := α) kind items) seqInit es).p.live.length ≤ 1 ∧
    ∀ k, k ∈ (final (seqM (α := α) kind items) seqInit es).p.live →
      k + 1 = (final (seqM (α := α) kind items) seqInit es).s.idx := by
  have h := seq_final_inv (α := α) kind items es _ seq_init_inv
  rcases h.one with h1 | ⟨h1, h2, _⟩
  · simp [h1]
  · refine ⟨by simp [h1], ?_⟩
    intro k hk
    have : k = (final (seqM (α := α) kind items) seqInit es).s.idx - 1 := by simpa [h1] using hk
    omega

/-- `ops.catch(handler)` (catch_handler: no scheduler hop, the handler's result replaces the source inside the error
handler): at most one of the two subscriptions is live in every reachable state — the source before the switch, the
handler's result after it. -/
theorem seq_one_live_catch_handler {α} (res : Except Err Unit) (es : List (Ev α)) :
    let st := final (chM (α := α) res) chInit es
    st.p.live = [] ∨ (st.p.live = [0] ∧ st.s.switched = false) ∨ (st.p.live = [1] ∧ st.s.switched = true) :=
  (ch_final_inv res es _ ch_init_inv).one

/-- **seq_one_live_inline / seq_output_concat_inline.** The same two facts for the INLINE hand-over (`seqInlineM`: the subscription
was made with a scheduler that runs the operator's action re-entrantly inside the previous source's terminal handler, e.g.
ImmediateScheduler; sources may terminate synchronously inside subscribe): in every reachable state at most the most recently
yielded source is live — in particular the action's `subscription.disposable = d` never closes the source it has just
subscribed — and the output is exactly the delivered elements, in order, with non-decreasing source ids… -/
theorem seq_one_live_inline {α} (kind : SeqKind) (items : Nat → Item) (es : List (Ev α)) :
    (final (seqInlineM (α := α) kind items) seqInit es).p.live.length ≤ 1 ∧
    ∀ k, k ∈ (final (seqInlineM (α := α) kind items) seqInit es).p.live →
      k + 1 = (final (seqInlineM (α := α) kind items) seqInit es).s.idx := by
  have h := seq_inline_final_inv (α := α) kind items es _ seq_init_inv
  rcases h.one with h1 | ⟨h1, h2, _⟩
  · simp [h1]
  · refine ⟨by simp [h1], ?_⟩
    intro k hk
    have : k = (final (seqInlineM (α := α) kind items) seqInit es).s.idx - 1 := by simpa [h1] using hk
    omega

theorem seq_output_concat_inline {α} (kind : SeqKind) (items : Nat → Item) (es : List (Ev α)) :
    outVals (run (seqInlineM (α := α) kind items) seqInit es)
      = (accepted (seqInlineM (α := α) kind items) seqInit es).filterMap nextOf :=
  outVals_run_filterMap _ nextOf (fun st e h => seq_inline_step_out kind items st e h) es _ seq_init_inv.wf

/-- the source ids of the delivered notifications are non-decreasing for the inline hand-over too -/
theorem seq_output_sorted_inline {α} (kind : SeqKind) (items : Nat → Item) (es : List (Ev α)) :
    ((accepted (seqInlineM (α := α) kind items) seqInit es).map (·.1)).Pairwise (· ≤ ·) :=
  (gen_ids_sorted _ (fun st e h => seq_inline_step_inv kind items st e h) (fun st e _ => seq_inline_idx_mono kind items st e)
    es _ seq_init_inv).2

/-- **repeat_n_subscribes_n_inline.** repeat(n) under the inline hand-over: subscribe ids `0,1,…` without gaps, at most n,
exactly n when the output completes. -/
theorem repeat_n_subscribes_n_inline {α} (n : Nat) (es : List (Ev α)) :
    let m := seqInlineM (α := α) .concat (itemsCount (some n))
    (∃ c, c ≤ n ∧ subsOf (run m seqInit es) = List.range c) ∧
    (Notif.completed ∈ emits (run m seqInit es) → subsOf (run m seqInit es) = List.range n) := by
  intro m
  have hinv : ∀ st e, SInv st → SInv (step m st e).1 := fun st e h => seq_inline_step_inv .concat _ st e h
  have hsub := seq_inline_subs_step (α := α) .concat (itemsCount (some n)) (itemsCount_noFail _)
  have hcount := gen_run_count m _ hinv hsub es _ seq_init_inv
  have hle := gen_idx_le_count m n hinv hsub es _ seq_init_inv (Nat.zero_le _)
  have h0 : List.range seqInit.s.idx = [] := rfl
  rw [h0, List.nil_append] at hcount
  refine ⟨⟨_, hle, hcount⟩, ?_⟩
  intro hc
  obtain ⟨j, _, hj2, hj3⟩ := gen_completed_run m _ hinv hsub
    (fun st e h hc => concat_inline_completed_step _ st e h hc) es _ seq_init_inv hc
  have : n ≤ j := by
    simp only [itemsCount] at hj3
    split at hj3
    · cases hj3
    · omega
  have hfin : (final m seqInit es).s.idx = n := by omega
  rw [hcount]; exact congrArg List.range hfin

/-- **retry_at_most_n_inline / retry_stops_on_completion_inline.** -/
theorem retry_at_most_n_inline {α} (n : Nat) (es : List (Ev α)) :
    ∃ c, c ≤ n ∧ subsOf (run (seqInlineM (α := α) .catch (itemsCount (some n))) seqInit es) = List.range c := by
  have hinv : ∀ st e, SInv st → SInv (step (seqInlineM (α := α) .catch (itemsCount (some n))) st e).1 :=
    fun st e h => seq_inline_step_inv .catch _ st e h
  have hsub := seq_inline_subs_step (α := α) .catch (itemsCount (some n)) (itemsCount_noFail _)
  have hcount := gen_run_count _ _ hinv hsub es _ seq_init_inv
  have h0 : List.range seqInit.s.idx = [] := rfl
  rw [h0, List.nil_append] at hcount
  exact ⟨_, gen_idx_le_count _ n hinv hsub es _ seq_init_inv (Nat.zero_le _), hcount⟩

theorem retry_stops_on_completion_inline {α} (items : Nat → Item) (pre post : List (Ev α)) (k : Nat)
    (hk : k ∈ (final (seqInlineM (α := α) .catch items) seqInit pre).p.live) :
    let m := seqInlineM (α := α) .catch items
    subsOf (run m seqInit (pre ++ .src k .completed :: post)) = subsOf (run m seqInit pre) ∧
    emits (run m seqInit (pre ++ .src k .completed :: post)) = emits (run m seqInit pre) ++ [.completed] := by
  intro m
  have hI := seq_inline_final_inv (α := α) .catch items pre _ seq_init_inv
  have hwf := hI.wf
  have h3 : (final m seqInit pre).s.pending = false := by
    rcases hI.one with h1 | ⟨_, _, h3⟩
    · rw [h1] at hk; cases hk
    · exact h3
  have key : ∀ s : SeqSt, s.pending = false →
      actEmits (seqInlineHandler (α := α) .catch items s k .completed).2 = [Notif.completed] ∧
      actSubs (seqInlineHandler (α := α) .catch items s k .completed).2 = [] := by
    intro s hs; simp [seqInlineHandler, seqHandler, seqTick, hs, actEmits, actSubs]
  have hacts : actEmits (m.handler (final m seqInit pre).s k .completed).2 = [Notif.completed] := (key _ h3).1
  have hsubs : actSubs (m.handler (final m seqInit pre).s k .completed).2 = [] := (key _ h3).2
  have hd := step_src_done_of_terminal m (final m seqInit pre) k .completed hk (by rw [hacts]; rfl)
  constructor
  · rw [run_append, run_cons, subsOf_append, subsOf_append, subsOf_step_src _ _ _ _ hk,
      seq_inline_subs_done .catch items post _ (step_WF m _ _ hwf) hd, hsubs]
    simp
  · rw [run_append, run_cons, emits_append, emits_append, emits_step_src m _ k _ hwf hk, hacts,
      emits_run_done m post _ (step_WF m _ _ hwf) hd]
    simp [cut, Notif.isTerminal]

/-- non-vacuity (inline): source 0 completes inside its subscribe, the action runs inside that completion and subscribes
source 1, which stays subscribed and delivers later -/
example :
    run (seqInlineM (α := Nat) .concat (itemsCount (some 2))) seqInit
      [.tick, .src 0 (.next 1), .src 0 .completed, .src 1 (.next 2), .src 1 .completed]
      = [.sub 0, .emit (.next 1), .unsub 0, .sub 1, .emit (.next 2), .emit .completed, .unsub 1] := by decide

/-- **seq_next_after_terminal.** From any reachable state: (a) a subscribe effect is produced only by the scheduled action
(`tick`), while an action is pending and nothing is live, and it subscribes the next source of the iterator; (b) an
action becomes pending only in the step in which the live source delivers a terminal of the kind the operator continues
on (that step also closes that source). So source k+1 is subscribed only after source k delivered its continuing
terminal; the action is scheduled with zero delay, i.e. it runs in the same virtual instant. -/
theorem seq_next_after_terminal {α} (kind : SeqKind) (items : Nat → Item) (es : List (Ev α)) (e : Ev α) :
    let m := seqM (α := α) kind items
    let st := final m seqInit es
    (∀ j, Eff.sub j ∈ (step m st e).2 →
        e = .tick ∧ st.s.pending = true ∧ st.p.live = [] ∧ j = st.s.idx ∧ items j = .src) ∧
    (st.s.pending = false → (step m st e).1.s.pending = true →
        ∃ k n, e = .src k n ∧ st.p.live = [k] ∧ k + 1 = st.s.idx ∧ kind.continues n = true ∧ (step m st e).1.p.live = []) := by
  intro m st
  have h : SInv st := seq_final_inv (α := α) kind items es _ seq_init_inv
  constructor
  · intro j hj
    have hs := seq_step_subs1 (α := α) kind items st e
    rw [← mem_subsOf, hs] at hj
    cases e with
    | tick =>
      simp only at hj
      split at hj
      · rename_i hc
        have hl : st.p.live = [] := by
          rcases h.one with h1 | ⟨_, _, h3⟩
          · exact h1
          · rw [hc.1] at h3; cases h3
        simp at hj
        exact ⟨rfl, hc.1, hl, hj, by rw [hj]; exact hc.2.2⟩
      · simp at hj
    | src k n => simp at hj
    | dispose => simp at hj
  · intro hp hp'
    cases e with
    | dispose => simp [m, step, hp] at hp'
    | tick => simp [m, step, seqM, seqTick, hp] at hp'
    | src k n =>
      by_cases hk : k ∈ st.p.live
      · have hnd := not_done_of_live h.wf hk
        rcases h.one with h1 | ⟨h1, h2, _⟩
        · simp [h1] at hk
        · have hk' : k = st.s.idx - 1 := by simpa [h1] using hk
          refine ⟨k, n, rfl, by rw [h1, hk'], by omega, ?_⟩
          rw [step_src_state _ _ _ _ hk] at hp'
          cases n with
          | next v => simp [m, seqM, seqHandler, hp] at hp'
          | error er =>
            cases kind <;> simp [m, seqM, seqHandler, hp] at hp' <;>
              simp [SeqKind.continues, step, hk, m, seqM, seqHandler, Plumb.acts, Plumb.act, Notif.isTerminal, h1, ← hk']
          | completed =>
            cases kind <;> simp [m, seqM, seqHandler, hp] at hp' <;>
              simp [SeqKind.continues, step, hk, m, seqM, seqHandler, Plumb.acts, Plumb.act, Notif.isTerminal, h1, ← hk']
      · rw [step_src_not_live _ _ _ _ hk] at hp'; rw [hp] at hp'; cases hp'

/-- **seq_output_concat.** The values that go out are exactly the elements delivered by the sources while subscribed, in
order, each in the step that delivers it; the source ids of the delivered notifications are non-decreasing — so the output
is the concatenation, in source order, of the consumed sources' elements. -/
theorem seq_output_concat {α} (kind : SeqKind) (items : Nat → Item) (es : List (Ev α)) :
    let m := seqM (α := α) kind items
    outVals (run m seqInit es) = (accepted m seqInit es).filterMap nextOf ∧
    ((accepted m seqInit es).map (·.1)).Pairwise (· ≤ ·) := by
  intro m
  exact ⟨outVals_run_filterMap m nextOf (fun st e h => seq_step_out kind items st e h) es _ seq_init_inv.wf,
    (seq_ids_sorted kind items es _ seq_init_inv).2⟩

/-- **repeat_n_subscribes_n.** `repeat(n)` (= concat kind over n copies): the subscribe effects are always `0, 1, …` without
gaps, never more than `n`; and if the output completes they are exactly `0 … n-1`: n subscriptions. -/
theorem repeat_n_subscribes_n {α} (n : Nat) (es : List (Ev α)) :
    let m := seqM (α := α) .concat (itemsCount (some n))
    (∃ c, c ≤ n ∧ subsOf (run m seqInit es) = List.range c) ∧
    (Notif.completed ∈ emits (run m seqInit es) → subsOf (run m seqInit es) = List.range n) := by
  intro m
  have hcount := seq_run_count (α := α) .concat (itemsCount (some n)) (itemsCount_noFail _) es seqInit
  have hle := seq_idx_le_count (α := α) .concat n es seqInit (Nat.zero_le _)
  have h0 : List.range seqInit.s.idx = [] := rfl
  rw [h0, List.nil_append] at hcount
  refine ⟨⟨_, hle, hcount⟩, ?_⟩
  intro hc
  obtain ⟨j, _, hj2, hj3⟩ := concat_completed_run (itemsCount (some n)) es seqInit seq_init_inv.wf hc
  have : n ≤ j := by
    simp only [itemsCount] at hj3
    split at hj3
    · cases hj3
    · omega
  have hfin : (final m seqInit es).s.idx = n := by
    have : (final m seqInit es).s.idx ≤ n := hle
    have : j ≤ (final m seqInit es).s.idx := hj2
    omega
  rw [hcount]; exact congrArg List.range hfin

/-- **retry_at_most_n.** `retry(n)` (= catch kind over n copies) subscribes at most n times (ids `0, 1, …` without gaps). -/
theorem retry_at_most_n {α} (n : Nat) (es : List (Ev α)) :
    ∃ c, c ≤ n ∧ subsOf (run (seqM (α := α) .catch (itemsCount (some n))) seqInit es) = List.range c := by
  have hcount := seq_run_count (α := α) .catch (itemsCount (some n)) (itemsCount_noFail _) es seqInit
  have h0 : List.range seqInit.s.idx = [] := rfl
  rw [h0, List.nil_append] at hcount
  exact ⟨_, seq_idx_le_count (α := α) .catch n es seqInit (Nat.zero_le _), hcount⟩

/-- **retry_stops_on_completion.** Once a run of the source completes (its completion is delivered while it is subscribed)
the completion goes out in that step and no further subscription is ever made, whatever follows, for any retry count. -/
theorem retry_stops_on_completion {α} (items : Nat → Item) (pre post : List (Ev α)) (k : Nat)
    (hk : k ∈ (final (seqM (α := α) .catch items) seqInit pre).p.live) :
    let m := seqM (α := α) .catch items
    subsOf (run m seqInit (pre ++ .src k .completed :: post)) = subsOf (run m seqInit pre) ∧
    emits (run m seqInit (pre ++ .src k .completed :: post)) = emits (run m seqInit pre) ++ [.completed] := by
  intro m
  have hwf := final_WF m seqInit pre seq_init_inv.wf
  have hd := step_src_done_of_terminal m (final m seqInit pre) k .completed hk (by simp [m, seqM, seqHandler, actEmits, Notif.isTerminal])
  constructor
  · rw [run_append, run_cons, subsOf_append, subsOf_append, seq_step_subs1 .catch items _ _,
      seq_subs_done .catch items post _ (step_WF m _ _ hwf) hd]
    simp
  · rw [run_append, run_cons, emits_append, emits_append, emits_step_src m _ k _ hwf hk,
      emits_run_done m post _ (step_WF m _ _ hwf) hd]
    simp [m, seqM, seqHandler, actEmits, cut, Notif.isTerminal]

/-- non-vacuity: repeat(2) over a source that emits one element and completes; a third run never happens -/
example :
    run (seqM (α := Nat) .concat (itemsCount (some 2))) seqInit
      [.tick, .src 0 (.next 1), .src 0 .completed, .tick, .src 1 (.next 1), .src 0 (.next 9), .src 1 .completed, .tick, .tick]
      = [.sub 0, .emit (.next 1), .unsub 0, .sub 1, .emit (.next 1), .unsub 1, .emit .completed] := by decide

/-- non-vacuity: retry(3): two failing runs, the third completes -/
example :
    run (seqM (α := Nat) .catch (itemsCount (some 3))) seqInit
      [.tick, .src 0 (.error "a"), .tick, .src 1 (.next 5), .src 1 (.error "b"), .tick, .src 2 .completed, .tick]
      = [.sub 0, .unsub 0, .sub 1, .emit (.next 5), .unsub 1, .sub 2, .emit .completed, .unsub 2] := by decide

/-- **oern_factory_argument.** on_error_resume_next hands to a source FACTORY the error of the source that just failed, and None
when the previous source completed normally (or at the start) — never an older error. In the machine: (a) a delivered error
sets the argument of the next action to that error, a delivered completion resets it to none, an element leaves it alone;
(b) the action that consumes position `idx` (yielding a source or a raising factory) records exactly the current argument. -/
theorem oern_factory_argument {α} (items : Nat → Item) (st : St SeqSt) (k : Nat) (hk : k ∈ st.p.live) :
    (∀ e, (step (seqM (α := α) .oern items) st (.src k (.error e))).1.s.arg = some e) ∧
    (step (seqM (α := α) .oern items) st (.src k .completed)).1.s.arg = none ∧
    (∀ v, (step (seqM (α := α) .oern items) st (.src k (.next v))).1.s.arg = st.s.arg) ∧
    (st.s.pending = true → st.p.done = false → (items st.s.idx = .src ∨ ∃ e, items st.s.idx = .raise e) →
      (step (seqM (α := α) .oern items) st .tick).1.s.calls = st.s.calls ++ [(st.s.idx, st.s.arg)]) := by
  refine ⟨fun e => ?_, ?_, fun v => ?_, ?_⟩
  · rw [step_src_state _ _ _ _ hk]; rfl
  · rw [step_src_state _ _ _ _ hk]; rfl
  · rw [step_src_state _ _ _ _ hk]; rfl
  · intro hp hd hi
    rcases hi with hi | ⟨e, hi⟩ <;> simp [step, seqM, seqTick, hp, hd, hi]

/-- non-vacuity: source 0 fails, source 1 completes normally, the factory at position 2 gets None (not source 0's old error) -/
example :
    (final (seqM (α := Nat) .oern (itemsCount (some 3))) seqInit
      [.tick, .src 0 (.error "boom"), .tick, .src 1 .completed, .tick]).s.calls
      = [(0, none), (1, some "boom"), (2, none)] := by decide

/-- non-vacuity: an UNLOGGED failing source (`fail`, e.g. `rx.throw(ex)` in the list) under catch is continued over — it takes
position 1, nothing is subscribed for it in the trace, the next action subscribes source 2, whose completion ends the result -/
example :
    run (seqM (α := Nat) .catch (fun j => if j = 1 then .fail "x" else if j < 3 then .src else .stop)) seqInit
      [.tick, .src 0 (.next 1), .src 0 (.error "a"), .tick, .tick, .src 2 (.next 3), .src 2 .completed]
      = [.sub 0, .emit (.next 1), .unsub 0, .sub 2, .emit (.next 3), .emit .completed, .unsub 2] := by decide

/-- … and if nothing follows it, its error is the one catch reports (last_exception) -/
example :
    run (seqM (α := Nat) .catch (fun j => if j = 1 then .fail "x" else if j < 1 then .src else .stop)) seqInit
      [.tick, .src 0 (.error "a"), .tick, .tick]
      = [.sub 0, .unsub 0, .emit (.error "x")] := by decide

end C10

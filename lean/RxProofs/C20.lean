import RxProofs.Lemmas.SubjThm
import RxProofs.Lemmas.SubjNat
import RxProofs.Lemmas.SubjFlat
import RxProofs.Lemmas.SubjOrder
import RxProofs.Lemmas.SubjReact
/-!
# C20 — a Subject broadcasts to exactly the observers subscribed at the time

Model: `RxModel/Subj.lean` (`kind = .subject`).  All theorems are about *every* configuration reachable
from a fresh subject by *any* history of top-level calls `sub/unsub/next/error/completed/dispose`, under
*any* reaction scripts (`cfg.react`: what each observer's callbacks do at each of their invocations —
unsubscribe themselves or others, subscribe new observers, dispose the subject), with and without
`on_error` handlers, for any amount of fuel: `Reachable cfg v st ag` (no bound on anything).

The declarative vocabulary (`RxProofs/Lemmas/SubjInv.lean`, `SubjLog.lean`) is read off the ghost trace
of events `sub i | unsub i | emit n | recv i n | disp`:
* `members tr` — the observers *subscribed at the time*: subscribed, not unsubscribed since, the subject
  neither terminated nor disposed since (in subscription order);
* `detached i tr` — `i` has been unsubscribed or has already been handed a terminal notification;
* `recvs i tr` — what observer `i` was handed so far, oldest first; `terminated tr` — the terminal
  notification the subject accepted, if any.

Re-entrant *emission* from inside a callback is outside the property's quantifier and not modelled.
-/

namespace C20
open Subj
variable {α : Type}

/-- The list the delivery loop iterates over (the snapshot copy of `self.observers`) is, in every
reachable configuration — in particular in the middle of a delivery, after callbacks have unsubscribed
and subscribed observers — exactly the observers subscribed at that time. -/
theorem snapshot_is_members {cfg : Cfg} {v : Option α} {st : St α} {ag : List (Subj.Task α)}
    (h : Reachable cfg v st ag) : st.observers = members st.tr :=
  (reachable_inv h).1.mem

/-- An observer's AutoDetachObserver is stopped exactly when the observer has been unsubscribed or has
been handed a terminal notification. -/
theorem stopped_iff_detached {cfg : Cfg} {v : Option α} {st : St α} {ag : List (Subj.Task α)}
    (h : Reachable cfg v st ag) (i : Id) : st.adoStopped i = detached i st.tr :=
  (reachable_inv h).1.det i

/-- **subject_broadcast_exact.**  In every reachable configuration:
(1) a notification accepted by a live Subject is queued for delivery to exactly the observers
    subscribed when the call is made, in subscription order;
(2) when the delivery loop reaches observer `i`, `i` is handed the notification iff it has not been
    unsubscribed (by anyone, including an earlier observer's callback during this same delivery) nor
    already been handed a terminal; otherwise the call changes nothing at all;
(3) nobody else's log is touched by that step. -/
theorem subject_broadcast_exact {cfg : Cfg} {v : Option α} {st : St α} {ag : List (Subj.Task α)}
    (hk : cfg.kind = .subject) (h : Reachable cfg v st ag) :
    (∀ n, st.disposed = false → st.stopped = false →
        (emit cfg st n).2 = (members st.tr).map (Subj.Task.deliver · n)) ∧
    (∀ i n,
      (detached i st.tr = true → deliver cfg st i n = (st, [], false)) ∧
      (detached i st.tr = false →
        (deliver cfg st i n).1.tr = .recv i n :: st.tr ∧
        (deliver cfg st i n).1.log i = if userSees cfg i n then st.log i ++ [n] else st.log i) ∧
      (∀ k, k ≠ i → (deliver cfg st i n).1.log k = st.log k)) :=
  ⟨fun n hd hs => emit_audience h (by simp [hk]) n hd hs, fun i n => deliver_turn h i n⟩

/-- **received_in_call_order** (per-observer order = call order, nothing twice).  In every reachable
configuration what observer `i` has been handed is a *subsequence* of the notifications the subject
accepted, in the order they were accepted — or, for an observer that subscribed to an already disposed
subject, just the `DisposedException`.  Moreover a pending delivery always carries the *latest* accepted
notification, its observer has so far only been handed earlier ones, and pending deliveries are for
pairwise distinct observers: no observer is handed the same call twice. -/
theorem received_in_call_order {cfg : Cfg} {v : Option α} (hv : InitOK cfg v) (hk : cfg.kind = .subject)
    {st : St α} {ag : List (Subj.Task α)} (h : Reachable cfg v st ag) :
    (∀ i, List.Sublist (recvs i st.tr) (emits st.tr) ∨
        (recvs i st.tr = [.error disposedExn] ∧ st.disposed = true)) ∧
    (∀ i n, Subj.Task.deliver i n ∈ ag →
        (emits st.tr).getLast? = some n ∧ List.Sublist (recvs i st.tr) (emits st.tr).dropLast) ∧
    (ag.filterMap deliverId).Nodup :=
  let o := reachable_oinv hv hk h
  ⟨o.sub, o.pend, o.distinct⟩

/-- **flat_history_closed_form.**  When callbacks only record (no reactions; every observer has an
`on_error` handler) observers do not interact, and after *any* history — any length, any mix of
`sub/unsub/next/error/completed/dispose` — observer `i` has seen exactly what its own three-state reading
(`fresh → live → done`, `Subj.flatStep`) of that history says: every notification accepted while it is
subscribed-and-not-unsubscribed, in call order, each once; only the terminal if it subscribes after
termination; only `DisposedException` if it subscribes after `dispose()`.  (`fuel` only has to be large
enough to run the history: twice its length plus four.) -/
theorem flat_history_closed_form {cfg : Cfg} (hc : FlatCfg cfg) (i : Id) (calls : List (Call α)) (fuel : Nat)
    (hf : 2 * calls.length + 4 ≤ fuel) :
    (run cfg fuel (init cfg none) calls).1.log i = flatLog i {} calls :=
  run_flat hc i calls fuel hf

/-- What the user of observer `i` has seen is what its AutoDetachObserver was handed (minus errors
when it has no `on_error` handler: those are raised by `default_error`). -/
theorem log_is_received {cfg : Cfg} {v : Option α} (hv : InitOK cfg v) {st : St α} {ag : List (Subj.Task α)}
    (h : Reachable cfg v st ag) (i : Id) : st.log i = (recvs i st.tr).filter (userSees cfg i) :=
  (reachable_vinv hv h).log i

/-- A detached observer (unsubscribed, or handed a terminal) never sees anything again, whatever the rest
of the history and whatever the other observers' callbacks do. -/
theorem detached_observer_silent {cfg : Cfg} {v : Option α} {st st' : St α} {ag ag' : List (Subj.Task α)}
    (h : Reachable cfg v st ag) (h' : Reach cfg st ag st' ag') (j : Id) (hs : detached j st.tr = true) :
    st'.log j = st.log j :=
  detached_silent h h' j hs

/-- **late_gets_terminal_only.**  An observer subscribing (at top level or from inside a callback) to a
Subject that has terminated and is not disposed is handed exactly the terminal notification the subject
accepted — and, whatever happens afterwards, nothing else, ever. -/
theorem late_gets_terminal_only {cfg : Cfg} {v : Option α} (hv : InitOK cfg v) {st : St α} {rest : List (Subj.Task α)}
    (hk : cfg.kind = .subject) (who : Option Id) (j : Id)
    (h : Reachable cfg v st (.act who (.sub j) :: rest))
    (hs : st.stopped = true) (hd : st.disposed = false) (hj : st.seen j = false)
    (he : cfg.hasErr j = true ∨ st.exception = none) :
    let r1 := step1 cfg st (.act who (.sub j))
    let r2 := step1 cfg r1.1 (.deliver j (termOf st))
    terminated st.tr = some (termOf st) ∧
    r1.2.1 = [.deliver j (termOf st), .finish j (some .noop)] ∧ r1.2.2 = false ∧ r1.1.log j = [] ∧
    r2.1.log j = [termOf st] ∧
    ∀ st' ag', Reach cfg r2.1 (nextAgenda r2 (.finish j (some .noop) :: rest)) st' ag' → st'.log j = [termOf st] :=
  late_terminal hv (by simp [hk]) who j h hs hd hj he

/-- A late subscriber without an `on_error` handler to a Subject terminated by an error: `subscribe`
raises that error to its caller (`default_error`), and the observer never sees anything. -/
theorem late_handlerless_raises {cfg : Cfg} {v : Option α} {st : St α} {rest : List (Subj.Task α)}
    (who : Option Id) (j : Id) (e : Err)
    (h : Reachable cfg v st (.act who (.sub j) :: rest))
    (hs : st.stopped = true) (hd : st.disposed = false) (hj : st.seen j = false)
    (he : cfg.hasErr j = false) (hx : st.exception = some e) :
    let r1 := step1 cfg st (.act who (.sub j))
    r1.2.1 = [] ∧ r1.1.log j = [] ∧
    (who = none → r1.1.raisedNow = some e) ∧ (∀ i, who = some i → r1.1.xlog = st.xlog ++ [(i, e)]) ∧
    ∀ st' ag', Reach cfg r1.1 (nextAgenda r1 rest) st' ag' → st'.log j = [] :=
  late_handlerless who j e h hs hd hj he hx

/-- **after_dispose_raises.**  Once the subject is disposed (it stays disposed forever):
(1) `on_next` / `on_error` / `on_completed` raise `DisposedException` to their caller and do nothing else;
(2) subscribing an observer *with* an `on_error` handler does not raise: the `DisposedException` goes
    through `subscribe`'s fail path to that handler, and is all this observer ever sees;
(3) subscribing an observer *without* one raises `DisposedException` to the caller of `subscribe`
    (the top-level caller, or the reacting callback), and the observer never sees anything.
Exactly the behaviour of the real code; nothing stronger is claimed. -/
theorem after_dispose_raises {cfg : Cfg} {v : Option α} {st : St α} {rest : List (Subj.Task α)} (hd : st.disposed = true) :
    (∀ n, emit cfg st n = ({ st with raisedNow := some disposedExn }, [])) ∧
    (∀ st' ag' ag, Reach cfg st ag st' ag' → st'.disposed = true) ∧
    (∀ who j, Reachable cfg v st (.act who (.sub j) :: rest) → st.seen j = false → cfg.hasErr j = true →
      let r1 := step1 cfg st (.act who (.sub j))
      r1.1.log j = [.error disposedExn] ∧ r1.1.raisedNow = st.raisedNow ∧ r1.1.xlog = st.xlog ∧
      ∀ st' ag', Reach cfg r1.1 (nextAgenda r1 rest) st' ag' → st'.log j = [.error disposedExn]) ∧
    (∀ who j, Reachable cfg v st (.act who (.sub j) :: rest) → st.seen j = false → cfg.hasErr j = false →
      let r1 := step1 cfg st (.act who (.sub j))
      r1.2.1 = [] ∧ r1.1.log j = [] ∧
      (who = none → r1.1.raisedNow = some disposedExn) ∧ (∀ i, who = some i → r1.1.xlog = st.xlog ++ [(i, disposedExn)]) ∧
      ∀ st' ag', Reach cfg r1.1 (nextAgenda r1 rest) st' ag' → st'.log j = []) :=
  after_dispose hd

/-- **subject_natural** (C08 for this subject: no value is special).  Renaming every value of a history (and the
initial value) with an arbitrary function `g` renames the notifications every observer sees and changes nothing
else: same exceptions per call, same exceptions caught by reacting callbacks, same observers.  Subject. -/
theorem subject_natural {β : Type} (cfg : Cfg) (g : α → β) (fuel : Nat) (v : Option α) (calls : List (Call α)) (i : Id) :
    (run cfg fuel (init cfg (v.map g)) (calls.map (Call.map g))).1.log i =
      ((run cfg fuel (init cfg v) calls).1.log i).map (Notif.map g) ∧
    (run cfg fuel (init cfg (v.map g)) (calls.map (Call.map g))).2 = (run cfg fuel (init cfg v) calls).2 ∧
    (run cfg fuel (init cfg (v.map g)) (calls.map (Call.map g))).1.xlog = (run cfg fuel (init cfg v) calls).1.xlog ∧
    (run cfg fuel (init cfg (v.map g)) (calls.map (Call.map g))).1.observers = (run cfg fuel (init cfg v) calls).1.observers :=
  run_natural_log cfg g fuel v calls i

/-- **unsub_reactions_closed_form.**  Histories whose callbacks *unsubscribe* (themselves or any other
observer, at any of their invocations, any number of them; every observer has an `on_error`): whenever the
run did not exhaust its fuel — which the correspondence check requires of every case it compares — every
observer's final log, the subject's final observer list and the set of detached observers are what
`Subj.absRun` computes.  `absRun` (`RxProofs/Lemmas/SubjReact.lean`) is the property text as a plain
recursive function over the history: a broadcast walks the members *as they were when the call was made*,
skips those detached by then (so an observer unsubscribed by an earlier observer's callback in the same
delivery misses that very notification), appends the notification to the others' logs, and applies each
callback's unsubscriptions at once; a handle can only be disposed once `subscribe` has returned it.  No
AutoDetachObserver, SingleAssignmentDisposable, InnerSubscription, agenda or trace appears in it. -/
theorem unsub_reactions_closed_form {cfg : Cfg} (hc : UnsubCfg cfg) (calls : List (Call α)) (fuel : Nat)
    (hoof : (run cfg fuel (init cfg none) calls).1.oof = false) :
    (∀ i, (run cfg fuel (init cfg none) calls).1.log i = (absRun cfg ({} : AbsSt α) calls).log i) ∧
    (run cfg fuel (init cfg none) calls).1.observers = (absRun cfg ({} : AbsSt α) calls).members ∧
    (∀ i, (run cfg fuel (init cfg none) calls).1.adoStopped i = (absRun cfg ({} : AbsSt α) calls).detached i) :=
  run_unsub_closed_form' hc calls fuel hoof

/-- … and enough fuel always exists. -/
theorem unsub_reactions_enough_fuel {cfg : Cfg} (hc : UnsubCfg cfg) (calls : List (Call α)) :
    ∃ N, ∀ fuel, N ≤ fuel → (run cfg fuel (init cfg (none : Option α)) calls).1.oof = false := by
  obtain ⟨N, h⟩ := run_unsub_total hc calls
  exact ⟨N, h⟩

/-- What the correspondence check executes (`Subj.run`, any fuel, any history) stays inside the
reachable configurations all theorems above quantify over. -/
theorem run_reachable (cfg : Cfg) (v : Option α) (fuel : Nat) (calls : List (Call α)) :
    Reachable cfg v (run cfg fuel (init cfg v) calls).1 [] :=
  run_reach fuel calls Reach.init

/-! ### Non-vacuity: a concrete history with reactions.
Observer 0's first callback unsubscribes observer 1 (which is after it in the same delivery and therefore
misses that very notification) and subscribes observer 4 (which misses it too: not in the snapshot);
observer 2's second callback disposes the subject and then subscribes 3 (no `on_error`: raises into the
callback) and 5 (gets `DisposedException` through `on_error`). -/
def exCfg : Cfg :=
  { kind := .subject
    hasErr := fun i => i != 3
    react := fun i k =>
      if i = 0 ∧ k = 0 then [.unsub 1, .sub 4] else if i = 2 ∧ k = 1 then [.dispose, .sub 3, .sub 5] else [] }

def exRun := run exCfg 100 (init exCfg (none : Option Nat))
  [.sub 0, .sub 1, .sub 2, .next 7, .next 8, .next 9, .sub 6, .sub 3]

example : exRun.1.log 0 = [.next 7, .next 8] := by decide
example : exRun.1.log 1 = [] := by decide
example : exRun.1.log 2 = [.next 7, .next 8] := by decide
example : exRun.1.log 4 = [.next 8] := by decide          -- still in the snapshot when 2 disposed the subject
example : exRun.1.log 5 = [.error "DisposedException"] := by decide
example : exRun.1.log 6 = [.error "DisposedException"] := by decide
example : exRun.1.xlog = [(2, "DisposedException")] := by decide
example : exRun.2 = [none, none, none, none, none, some "DisposedException", none, none] := by decide
example : exRun.1.oof = false := by decide
example : emits exRun.1.tr = [.next 7, .next 8] ∧ recvs 4 exRun.1.tr = [.next 8] := by decide
/-- the closed form on a concrete flat history: 1 subscribes between `1` and `2`, is unsubscribed before `3` -/
example : flatLog 1 {} [Call.sub 0, .next 1, .sub 1, .next 2, .unsub 1, .next 3, .completed, .sub 2, .sub 1] =
    [Notif.next 2] := by decide
example : flatLog 2 {} [Call.sub 0, .next 1, .sub 1, .next 2, .unsub 1, .next 3, .completed, .sub 2, .sub 1] =
    [Notif.completed] := by decide
example : flatLog 0 {} [Call.sub 0, .next 1, .sub 1, .next 2, .unsub 1, .next (3 : Nat), .completed, .sub 2, .sub 1] =
    [.next 1, .next 2, .next 3, .completed] := by decide
/-- closed form with unsubscribing callbacks: 0's first callback unsubscribes 1 (after it in the same
delivery: misses `7`), 2's second callback unsubscribes itself and 0 -/
def unCfg : Cfg :=
  { kind := .subject, hasErr := fun _ => true
    react := fun i k => if i = 0 ∧ k = 0 then [.unsub 1] else if i = 2 ∧ k = 1 then [.unsub 2, .unsub 0] else [] }

theorem unCfg_ok : UnsubCfg unCfg where
  kind := rfl
  err := fun _ => rfl
  react := by
    intro i k a h
    simp only [unCfg] at h
    split at h
    · exact ⟨1, by simpa using h⟩
    · split at h
      · simp only [List.mem_cons, List.not_mem_nil, or_false] at h
        rcases h with h | h
        · exact ⟨2, h⟩
        · exact ⟨0, h⟩
      · simp at h

def unCalls : List (Call Nat) := [.sub 0, .sub 1, .sub 2, .next 7, .next 8, .next 9, .sub 3, .completed, .sub 4]
example : (absRun unCfg ({} : AbsSt Nat) unCalls).log 0 = [.next 7, .next 8] := by decide
example : (absRun unCfg ({} : AbsSt Nat) unCalls).log 1 = [] := by decide
example : (absRun unCfg ({} : AbsSt Nat) unCalls).log 2 = [.next 7, .next 8] := by decide
example : (absRun unCfg ({} : AbsSt Nat) unCalls).log 3 = [.completed] := by decide
example : (absRun unCfg ({} : AbsSt Nat) unCalls).log 4 = [.completed] := by decide
example : (run unCfg 100 (init unCfg none) unCalls).1.oof = false := by decide
example : (run unCfg 100 (init unCfg none) unCalls).1.log 2 = [.next 7, .next 8] := by decide

/-- the hypotheses of `late_gets_terminal_only` are satisfiable -/
example : (run { exCfg with react := fun _ _ => [] } 100 (init exCfg (none : Option Nat))
    [.sub 0, .next 1, .error "boom", .sub 1, .next 2]).1.log 1 = [.error "boom"] := by decide

end C20

import RxProofs.Lemmas.WinRel3
import RxProofs.Lemmas.WinSrcKept2
import RxProofs.Lemmas.C02WinGrp
import RxProofs.Lemmas.C02WinFin
/-!
# C02Win — termination / disposal releases every subscription of the window machines (support for C02 / C03)

For every window machine of C18 (`window_with_count_`, `window_(boundaries)`, `window_when_`, `window_toggle_`,
`window_with_time_`, `window_with_time_or_count_`), every tagged event trace (any interleaving, non-conforming
sources, dispose anywhere, timer firings anywhere):

* `terminal_releases_all_*` — in the reached state: once the outer subscriber is stopped (it got a terminal, or
  disposed) AND every window handed out has terminated or its subscriber has unsubscribed (`attachedCount = 0`),
  no source / boundary / closing / opening subscription is live (`live = []`), the `RefCountDisposable`'s
  underlying disposable was disposed, and (timed operators) no timer is armed.  This is exactly C02's proviso.
* `dispose_releases_all_*` — the outer `dispose` event stops the outer observer, and from then on the sources are
  released as soon as the last window subscriber is gone: right after the dispose step if none is attached
  (in particular when the subscriber disposes its window subscriptions too), otherwise in whichever later state
  `attachedCount` reaches 0 (by `terminal_releases_all_*`, whose hypothesis `outerStopped` the dispose establishes).
-/

namespace C02Win
open Win

variable {α : Type}

/-- what "everything released" means for a window machine's plumbing state. -/
def Released (b : Base α) : Prop := b.rcDisposed = true ∧ b.live = []

/-! ### window_with_count_ -/
theorem terminal_releases_all_count (count skip t0 : Nat) (evs : List (Nat × Ev α)) :
    let b := (Cnt.run count skip (Cnt.init t0) evs).b
    b.outerStopped = true → b.attachedCount = 0 → Released b := by
  intro b ho ha
  have h : Rel b := by
    show Rel (Cnt.run count skip (Cnt.init t0) evs).b
    rw [Cnt.run_eq_fold]
    exact Rel_fold (Cnt.mach count skip) (·.b) (fun s t e h => Cnt.Rel_step count skip s t e h) evs _ (Cnt.Rel_init t0)
  exact released h ho ha

theorem dispose_releases_all_count (count skip t0 : Nat) (evs : List (Nat × Ev α)) (t : Nat) (w : Bool) :
    let b := ((Cnt.mach count skip).step (Cnt.run count skip (Cnt.init t0) evs) t (.dispose w)).b
    b.outerStopped = true ∧ (b.attachedCount = 0 → Released b) := by
  intro b
  have h0 : Rel (Cnt.run count skip (Cnt.init t0) evs).b := by
    rw [Cnt.run_eq_fold]
    exact Rel_fold (Cnt.mach count skip) (·.b) (fun s t e h => Cnt.Rel_step count skip s t e h) evs _ (Cnt.Rel_init t0)
  have h : Rel b := Cnt.Rel_step count skip _ t (.dispose w) h0
  have ho : b.outerStopped = true := by simp only [b, Cnt.mach, Cnt.step]; exact Base.os_disposeEv _ _
  exact ⟨ho, fun ha => released h ho ha⟩

/-! ### window_(boundaries) -/
theorem terminal_releases_all_boundaries (t0 : Nat) (bsync : Option (Notif Unit)) (evs : List (Nat × Ev α)) :
    let b := (Bnd.run (Bnd.init t0 bsync) evs).b
    b.outerStopped = true → b.attachedCount = 0 → Released b := by
  intro b ho ha
  have h : Rel b := by
    show Rel (Bnd.run (Bnd.init t0 bsync) evs).b
    rw [Bnd.run_eq_fold]
    exact Rel_fold Bnd.mach (·.b) (fun s t e h => Bnd.Rel_step s t e h) evs _ (Bnd.Rel_init t0 bsync)
  exact released h ho ha

theorem dispose_releases_all_boundaries (t0 : Nat) (bsync : Option (Notif Unit)) (evs : List (Nat × Ev α)) (t : Nat) (w : Bool) :
    let b := (Bnd.mach.step (Bnd.run (Bnd.init t0 bsync) evs) t (.dispose w)).b
    b.outerStopped = true ∧ (b.attachedCount = 0 → Released b) := by
  intro b
  have h0 : Rel (Bnd.run (Bnd.init t0 bsync) evs).b := by
    rw [Bnd.run_eq_fold]
    exact Rel_fold Bnd.mach (·.b) (fun s t e h => Bnd.Rel_step s t e h) evs _ (Bnd.Rel_init t0 bsync)
  have h : Rel b := Bnd.Rel_step _ t (.dispose w) h0
  have ho : b.outerStopped = true := by simp only [b, Bnd.mach, Bnd.step]; exact Base.os_disposeEv _ _
  exact ⟨ho, fun ha => released h ho ha⟩

/-! ### window_when_ -/
theorem terminal_releases_all_when (raiseAt : Option Nat) (pool t0 : Nat) (sync : List (Option (Option Err))) (evs : List (Nat × Ev α)) :
    let b := (Whn.run raiseAt pool (Whn.init raiseAt pool t0 sync) evs).b
    b.outerStopped = true → b.attachedCount = 0 → Released b := by
  intro b ho ha
  have h : Rel b := by
    show Rel (Whn.run raiseAt pool (Whn.init raiseAt pool t0 sync) evs).b
    rw [Whn.run_eq_fold]
    exact Rel_fold (Whn.mach raiseAt pool) (·.b) (fun s t e h => Whn.Rel_step raiseAt pool s t e h) evs _
      (Whn.Rel_init raiseAt pool t0 sync)
  exact released h ho ha

theorem dispose_releases_all_when (raiseAt : Option Nat) (pool t0 : Nat) (sync : List (Option (Option Err))) (evs : List (Nat × Ev α)) (t : Nat) (w : Bool) :
    let b := ((Whn.mach raiseAt pool).step (Whn.run raiseAt pool (Whn.init raiseAt pool t0 sync) evs) t (.dispose w)).b
    b.outerStopped = true ∧ (b.attachedCount = 0 → Released b) := by
  intro b
  have h0 : Rel (Whn.run raiseAt pool (Whn.init raiseAt pool t0 sync) evs).b := by
    rw [Whn.run_eq_fold]
    exact Rel_fold (Whn.mach raiseAt pool) (·.b) (fun s t e h => Whn.Rel_step raiseAt pool s t e h) evs _
      (Whn.Rel_init raiseAt pool t0 sync)
  have h : Rel b := Whn.Rel_step raiseAt pool _ t (.dispose w) h0
  have ho : b.outerStopped = true := by simp only [b, Whn.mach, Whn.step]; exact Base.os_disposeEv _ _
  exact ⟨ho, fun ha => released h ho ha⟩

/-! ### window_toggle_ (= group_join_) -/
theorem terminal_releases_all_toggle (raiseAt : Option Nat) (pool t0 : Nat) (sync : List (Option (Option Err))) (evs : List (Nat × Ev α)) :
    let b := (Tgl.run raiseAt pool (Tgl.init t0 sync) evs).b
    b.outerStopped = true → b.attachedCount = 0 → Released b := by
  intro b ho ha
  have h : Rel b := by
    show Rel (Tgl.run raiseAt pool (Tgl.init t0 sync) evs).b
    rw [Tgl.run_eq_fold]
    exact Rel_fold (Tgl.mach raiseAt pool) (·.b) (fun s t e h => Tgl.Rel_step raiseAt pool s t e h) evs _ (Tgl.Rel_init t0 sync)
  exact released h ho ha

theorem dispose_releases_all_toggle (raiseAt : Option Nat) (pool t0 : Nat) (sync : List (Option (Option Err))) (evs : List (Nat × Ev α)) (t : Nat) (w : Bool) :
    let b := ((Tgl.mach raiseAt pool).step (Tgl.run raiseAt pool (Tgl.init t0 sync) evs) t (.dispose w)).b
    b.outerStopped = true ∧ (b.attachedCount = 0 → Released b) := by
  intro b
  have h0 : Rel (Tgl.run raiseAt pool (Tgl.init t0 sync) evs).b := by
    rw [Tgl.run_eq_fold]
    exact Rel_fold (Tgl.mach raiseAt pool) (·.b) (fun s t e h => Tgl.Rel_step raiseAt pool s t e h) evs _ (Tgl.Rel_init t0 sync)
  have h : Rel b := Tgl.Rel_step raiseAt pool _ t (.dispose w) h0
  have ho : b.outerStopped = true := by simp only [b, Tgl.mach, Tgl.step]; exact Base.os_disposeEv _ _
  exact ⟨ho, fun ha => released h ho ha⟩

/-! ### window_with_time_ (every event list with timer firings anywhere; `Mach.run` follows one of them) -/
theorem terminal_releases_all_time (span shift t0 : Nat) (evs : List (Nat × Ev α)) :
    let s := (Tim.mach shift).fold (Tim.init span shift t0) evs
    s.b.outerStopped = true → s.b.attachedCount = 0 → Released s.b ∧ s.timer = none := by
  intro s ho ha
  have h : Rel s.b :=
    Rel_fold (Tim.mach shift) (·.b) (fun s t e h => Tim.Rel_step shift s t e h) evs _ (Tim.Rel_init span shift t0)
  have hr := released h ho ha
  exact ⟨hr, Tim.tok_fold shift evs _ (Tim.tok_init span shift t0) hr.1⟩

theorem dispose_releases_all_time (span shift t0 : Nat) (evs : List (Nat × Ev α)) (t : Nat) (w : Bool) :
    let s := (Tim.mach shift).fold (Tim.init span shift t0) (evs ++ [(t, .dispose w)])
    s.b.outerStopped = true ∧ (s.b.attachedCount = 0 → Released s.b ∧ s.timer = none) := by
  intro s
  have ho : s.b.outerStopped = true := by
    simp only [s, Mach.fold, List.foldl_append, List.foldl_cons, List.foldl_nil, Tim.mach, Tim.step, Tim.sync_b]
    exact Base.os_disposeEv _ _
  exact ⟨ho, fun ha => terminal_releases_all_time span shift t0 _ ho ha⟩

/-! ### window_with_time_or_count_ -/
theorem terminal_releases_all_time_or_count (span count t0 : Nat) (evs : List (Nat × Ev α)) :
    let s := (Toc.mach span count).fold (Toc.init span t0) evs
    s.b.outerStopped = true → s.b.attachedCount = 0 → Released s.b ∧ s.timer = none := by
  intro s ho ha
  have h : Rel s.b :=
    Rel_fold (Toc.mach span count) (·.b) (fun s t e h => Toc.Rel_step span count s t e h) evs _ (Toc.Rel_init span t0)
  have hr := released h ho ha
  exact ⟨hr, Toc.tok_fold span count evs _ (Toc.tok_init span t0) hr.1⟩

theorem dispose_releases_all_time_or_count (span count t0 : Nat) (evs : List (Nat × Ev α)) (t : Nat) (w : Bool) :
    let s := (Toc.mach span count).fold (Toc.init span t0) (evs ++ [(t, .dispose w)])
    s.b.outerStopped = true ∧ (s.b.attachedCount = 0 → Released s.b ∧ s.timer = none) := by
  intro s
  have ho : s.b.outerStopped = true := by
    simp only [s, Mach.fold, List.foldl_append, List.foldl_cons, List.foldl_nil, Toc.mach, Toc.step, Toc.sync_b]
    exact Base.os_disposeEv _ _
  exact ⟨ho, fun ha => terminal_releases_all_time_or_count span count t0 _ ho ha⟩


/-! ### the release rule, both directions (window machines)

`release_iff_*`: in every state of every run, the underlying disposable (source / boundary / closing / opening
subscriptions, timers) has been disposed **iff** the outer observer is stopped (terminal or dispose) and no window
subscriber is attached.  `source_subscribed_iff_*`: along every trace that contains no terminal of the windowed source,
the source is still subscribed **iff** it is not the case that the outer observer is stopped and the last window
subscriber is gone — not earlier, not later.  Together with `window_partition_*` (routing holds for every trace, with
`dispose` anywhere, as long as the source is live) and `C18.buffer_eq_window_*` (an attached subscriber has received
exactly what was pushed) this gives: a window subscriber that stays after the outer `dispose` keeps receiving its
window's elements and its terminal. -/

/-- no event of the trace is a terminal of the windowed source. -/
def NoSrcTerminal (evs : List (Nat × Ev α)) : Prop := ∀ te ∈ evs, te.2.notSrcTerminal = true

theorem fold_kept {σ : Type} (m : Mach σ α) (base : σ → Base α)
    (hstep : ∀ s t e, e.notSrcTerminal = true → SrcKept (base s) → SrcKept (base (m.step s t e)))
    (evs : List (Nat × Ev α)) (hns : NoSrcTerminal evs) (s : σ) (h : SrcKept (base s)) : SrcKept (base (m.fold s evs)) := by
  induction evs generalizing s with
  | nil => exact h
  | cons te es ih =>
    exact ih (fun x hx => hns x (List.mem_cons_of_mem _ hx)) _ (hstep s te.1 te.2 (hns te List.mem_cons_self) h)

theorem release_iff_of_rel {b : Base α} (h : Rel b) :
    b.rcDisposed = true ↔ (b.outerStopped = true ∧ b.attachedCount = 0) :=
  ⟨fun hd => ⟨by rw [← h.prim_iff]; exact h.disp_prim hd, h.hold hd⟩, fun ⟨ho, ha⟩ => (released h ho ha).1⟩

theorem subscribed_iff_of {b : Base α} (h : Rel b) (hk : SrcKept b) :
    0 ∈ b.live ↔ ¬ (b.outerStopped = true ∧ b.attachedCount = 0) := by
  constructor
  · intro h0 ⟨ho, ha⟩
    have := (released h ho ha).2; rw [this] at h0; cases h0
  · intro hn
    apply hk
    cases hd : b.rcDisposed with
    | false => rfl
    | true => exact absurd ((release_iff_of_rel h).mp hd) hn

theorem release_iff_count (count skip t0 : Nat) (evs : List (Nat × Ev α)) :
    let b := (Cnt.run count skip (Cnt.init t0) evs).b
    b.rcDisposed = true ↔ (b.outerStopped = true ∧ b.attachedCount = 0) := by
  intro b
  have h : Rel b := by
    show Rel (Cnt.run count skip (Cnt.init t0) evs).b
    rw [Cnt.run_eq_fold]; exact Rel_fold (Cnt.mach count skip) (·.b) (fun s t e h => Cnt.Rel_step count skip s t e h) evs _ (Cnt.Rel_init t0)
  exact release_iff_of_rel h

theorem source_subscribed_iff_count (count skip t0 : Nat) (evs : List (Nat × Ev α)) (hns : NoSrcTerminal evs) :
    let b := (Cnt.run count skip (Cnt.init t0) evs).b
    0 ∈ b.live ↔ ¬ (b.outerStopped = true ∧ b.attachedCount = 0) := by
  intro b
  have h : Rel b := by
    show Rel (Cnt.run count skip (Cnt.init t0) evs).b
    rw [Cnt.run_eq_fold]; exact Rel_fold (Cnt.mach count skip) (·.b) (fun s t e h => Cnt.Rel_step count skip s t e h) evs _ (Cnt.Rel_init t0)
  have hk : SrcKept b := by
    show SrcKept (Cnt.run count skip (Cnt.init t0) evs).b
    rw [Cnt.run_eq_fold]; exact fold_kept (Cnt.mach count skip) (·.b) (fun s t e hns h => Cnt.SK_step count skip s t e hns h) evs hns _ (Cnt.SK_init t0)
  exact subscribed_iff_of h hk

theorem release_iff_boundaries (t0 : Nat) (bsync : Option (Notif Unit)) (evs : List (Nat × Ev α)) :
    let b := (Bnd.run (Bnd.init t0 bsync) evs).b
    b.rcDisposed = true ↔ (b.outerStopped = true ∧ b.attachedCount = 0) := by
  intro b
  have h : Rel b := by
    show Rel (Bnd.run (Bnd.init t0 bsync) evs).b
    rw [Bnd.run_eq_fold]; exact Rel_fold Bnd.mach (·.b) (fun s t e h => Bnd.Rel_step s t e h) evs _ (Bnd.Rel_init t0 bsync)
  exact release_iff_of_rel h

theorem source_subscribed_iff_boundaries (t0 : Nat) (bsync : Option (Notif Unit)) (evs : List (Nat × Ev α)) (hns : NoSrcTerminal evs) :
    let b := (Bnd.run (Bnd.init t0 bsync) evs).b
    0 ∈ b.live ↔ ¬ (b.outerStopped = true ∧ b.attachedCount = 0) := by
  intro b
  have h : Rel b := by
    show Rel (Bnd.run (Bnd.init t0 bsync) evs).b
    rw [Bnd.run_eq_fold]; exact Rel_fold Bnd.mach (·.b) (fun s t e h => Bnd.Rel_step s t e h) evs _ (Bnd.Rel_init t0 bsync)
  have hk : SrcKept b := by
    show SrcKept (Bnd.run (Bnd.init t0 bsync) evs).b
    rw [Bnd.run_eq_fold]; exact fold_kept Bnd.mach (·.b) (fun s t e hns h => Bnd.SK_step s t e hns h) evs hns _ (Bnd.SK_init t0 bsync)
  exact subscribed_iff_of h hk

theorem release_iff_when (raiseAt : Option Nat) (pool t0 : Nat) (sync : List (Option (Option Err))) (evs : List (Nat × Ev α)) :
    let b := (Whn.run raiseAt pool (Whn.init raiseAt pool t0 sync) evs).b
    b.rcDisposed = true ↔ (b.outerStopped = true ∧ b.attachedCount = 0) := by
  intro b
  have h : Rel b := by
    show Rel (Whn.run raiseAt pool (Whn.init raiseAt pool t0 sync) evs).b
    rw [Whn.run_eq_fold]; exact Rel_fold (Whn.mach raiseAt pool) (·.b) (fun s t e h => Whn.Rel_step raiseAt pool s t e h) evs _ (Whn.Rel_init raiseAt pool t0 sync)
  exact release_iff_of_rel h

theorem source_subscribed_iff_when (raiseAt : Option Nat) (pool t0 : Nat) (sync : List (Option (Option Err))) (evs : List (Nat × Ev α)) (hns : NoSrcTerminal evs) :
    let b := (Whn.run raiseAt pool (Whn.init raiseAt pool t0 sync) evs).b
    0 ∈ b.live ↔ ¬ (b.outerStopped = true ∧ b.attachedCount = 0) := by
  intro b
  have h : Rel b := by
    show Rel (Whn.run raiseAt pool (Whn.init raiseAt pool t0 sync) evs).b
    rw [Whn.run_eq_fold]; exact Rel_fold (Whn.mach raiseAt pool) (·.b) (fun s t e h => Whn.Rel_step raiseAt pool s t e h) evs _ (Whn.Rel_init raiseAt pool t0 sync)
  have hk : SrcKept b := by
    show SrcKept (Whn.run raiseAt pool (Whn.init raiseAt pool t0 sync) evs).b
    rw [Whn.run_eq_fold]; exact fold_kept (Whn.mach raiseAt pool) (·.b) (fun s t e hns h => Whn.SK_step raiseAt pool s t e hns h) evs hns _ (Whn.SK_init raiseAt pool t0 sync)
  exact subscribed_iff_of h hk

theorem release_iff_toggle (raiseAt : Option Nat) (pool t0 : Nat) (sync : List (Option (Option Err))) (evs : List (Nat × Ev α)) :
    let b := (Tgl.run raiseAt pool (Tgl.init t0 sync) evs).b
    b.rcDisposed = true ↔ (b.outerStopped = true ∧ b.attachedCount = 0) := by
  intro b
  have h : Rel b := by
    show Rel (Tgl.run raiseAt pool (Tgl.init t0 sync) evs).b
    rw [Tgl.run_eq_fold]; exact Rel_fold (Tgl.mach raiseAt pool) (·.b) (fun s t e h => Tgl.Rel_step raiseAt pool s t e h) evs _ (Tgl.Rel_init t0 sync)
  exact release_iff_of_rel h

theorem source_subscribed_iff_toggle (raiseAt : Option Nat) (pool t0 : Nat) (sync : List (Option (Option Err))) (evs : List (Nat × Ev α)) (hns : NoSrcTerminal evs) :
    let b := (Tgl.run raiseAt pool (Tgl.init t0 sync) evs).b
    0 ∈ b.live ↔ ¬ (b.outerStopped = true ∧ b.attachedCount = 0) := by
  intro b
  have h : Rel b := by
    show Rel (Tgl.run raiseAt pool (Tgl.init t0 sync) evs).b
    rw [Tgl.run_eq_fold]; exact Rel_fold (Tgl.mach raiseAt pool) (·.b) (fun s t e h => Tgl.Rel_step raiseAt pool s t e h) evs _ (Tgl.Rel_init t0 sync)
  have hk : SrcKept b := by
    show SrcKept (Tgl.run raiseAt pool (Tgl.init t0 sync) evs).b
    rw [Tgl.run_eq_fold]; exact fold_kept (Tgl.mach raiseAt pool) (·.b) (fun s t e hns h => Tgl.SK_step raiseAt pool s t e hns h) evs hns _ (Tgl.SK_init t0 sync)
  exact subscribed_iff_of h hk

theorem release_iff_time (span shift t0 : Nat) (evs : List (Nat × Ev α)) :
    let b := ((Tim.mach shift).fold (Tim.init span shift t0) evs).b
    b.rcDisposed = true ↔ (b.outerStopped = true ∧ b.attachedCount = 0) := by
  intro b
  have h : Rel b := by
    show Rel ((Tim.mach shift).fold (Tim.init span shift t0) evs).b
    exact Rel_fold (Tim.mach shift) (·.b) (fun s t e h => Tim.Rel_step shift s t e h) evs _ (Tim.Rel_init span shift t0)
  exact release_iff_of_rel h

theorem source_subscribed_iff_time (span shift t0 : Nat) (evs : List (Nat × Ev α)) (hns : NoSrcTerminal evs) :
    let b := ((Tim.mach shift).fold (Tim.init span shift t0) evs).b
    0 ∈ b.live ↔ ¬ (b.outerStopped = true ∧ b.attachedCount = 0) := by
  intro b
  have h : Rel b := by
    show Rel ((Tim.mach shift).fold (Tim.init span shift t0) evs).b
    exact Rel_fold (Tim.mach shift) (·.b) (fun s t e h => Tim.Rel_step shift s t e h) evs _ (Tim.Rel_init span shift t0)
  have hk : SrcKept b := by
    show SrcKept ((Tim.mach shift).fold (Tim.init span shift t0) evs).b
    exact fold_kept (Tim.mach shift) (·.b) (fun s t e hns h => Tim.SK_step shift s t e hns h) evs hns _ (Tim.SK_init span shift t0)
  exact subscribed_iff_of h hk

theorem release_iff_time_or_count (span count t0 : Nat) (evs : List (Nat × Ev α)) :
    let b := ((Toc.mach span count).fold (Toc.init span t0) evs).b
    b.rcDisposed = true ↔ (b.outerStopped = true ∧ b.attachedCount = 0) := by
  intro b
  have h : Rel b := by
    show Rel ((Toc.mach span count).fold (Toc.init span t0) evs).b
    exact Rel_fold (Toc.mach span count) (·.b) (fun s t e h => Toc.Rel_step span count s t e h) evs _ (Toc.Rel_init span t0)
  exact release_iff_of_rel h

theorem source_subscribed_iff_time_or_count (span count t0 : Nat) (evs : List (Nat × Ev α)) (hns : NoSrcTerminal evs) :
    let b := ((Toc.mach span count).fold (Toc.init span t0) evs).b
    0 ∈ b.live ↔ ¬ (b.outerStopped = true ∧ b.attachedCount = 0) := by
  intro b
  have h : Rel b := by
    show Rel ((Toc.mach span count).fold (Toc.init span t0) evs).b
    exact Rel_fold (Toc.mach span count) (·.b) (fun s t e h => Toc.Rel_step span count s t e h) evs _ (Toc.Rel_init span t0)
  have hk : SrcKept b := by
    show SrcKept ((Toc.mach span count).fold (Toc.init span t0) evs).b
    exact fold_kept (Toc.mach span count) (·.b) (fun s t e hns h => Toc.SK_step span count s t e hns h) evs hns _ (Toc.SK_init span t0)
  exact subscribed_iff_of h hk

/-! non-vacuity: an outer dispose with an attached open window keeps the source; the window's end releases it -/
example : (Cnt.run 2 2 (Cnt.init 200) [(210, .src 0 (.next (1 : Nat))), (220, .dispose false)]).b.live = [0] := by decide
example : let b := (Cnt.run 2 2 (Cnt.init 200) [(210, .src 0 (.next (1 : Nat))), (220, .dispose false), (230, .src 0 (.next 2))]).b
    b.outerStopped = true ∧ b.attachedCount = 0 ∧ b.live = [] ∧ b.rcDisposed = true := by decide
example : let b := (Cnt.run 2 2 (Cnt.init 200) [(210, .src 0 (.next (1 : Nat))), (220, .dispose true)]).b
    b.attachedCount = 0 ∧ b.live = [] := by decide

/-! ### group_by_until_ / group_by_ (machine `WinGrp`, C19)

`WinGrp.Released s`: the source subscription is closed and no duration subscription is live. -/

theorem terminal_releases_all_group {α κ β : Type} (cfg : WinGrp.Cfg α κ β) (hrefl : ∀ k, cfg.keyEq k k = true)
    (evs : List (WinGrp.Ev α)) :
    let s := WinGrp.run cfg (WinGrp.init : WinGrp.St κ β) evs
    s.outStopped = true → (∀ r ∈ s.groups, r.holdsRef = false) → WinGrp.Released s :=
  WinGrp.terminal_releases_all cfg hrefl evs

theorem dispose_releases_all_group {α κ β : Type} (cfg : WinGrp.Cfg α κ β) (hrefl : ∀ k, cfg.keyEq k k = true)
    (evs : List (WinGrp.Ev α)) :
    let s := WinGrp.run cfg (WinGrp.init : WinGrp.St κ β) evs
    s.primary = true → s.count = 0 → WinGrp.Released s :=
  WinGrp.dispose_releases_all cfg hrefl evs

/-- while a group subscriber still holds a reference, an outer dispose releases nothing (it only sets the primary flag). -/
theorem group_holder_blocks_release {α κ β : Type} (cfg : WinGrp.Cfg α κ β) (hrefl : ∀ k, cfg.keyEq k k = true)
    (evs : List (WinGrp.Ev α)) (r : WinGrp.Grp κ β) :
    let s := WinGrp.run cfg (WinGrp.init : WinGrp.St κ β) evs
    let s' := WinGrp.step cfg s .disposeOuter
    r ∈ s.groups → r.holdsRef = true →
      s.rcdDisposed = false ∧ 0 < s.count ∧ s'.rcdDisposed = false ∧ s'.primary = true ∧
      s'.srcOpen = s.srcOpen ∧ s'.srcStopped = s.srcStopped ∧ s'.groups = s.groups :=
  WinGrp.holder_blocks_release cfg hrefl evs r

/-! ### using / finally_action / do_finally / do_* (machine `WinFin`, C40)

`u.cur`: the operator still holds the source's subscription; `srcCount`: `dispose()` calls on it; `u.live`: the source's
subscribe body returned one. -/

theorem fin_source_disposed_at_most_once {α : Type} (c : WinFin.Cfg) (sp : WinFin.SyncPhase α) (evs : List (WinFin.Ev α)) :
    WinFin.srcCount (WinFin.run c sp evs).log ≤ 1 ∧
    (WinFin.srcCount (WinFin.run c sp evs).log = 1 ↔ ((WinFin.run c sp evs).u.live = true ∧ (WinFin.run c sp evs).u.cur = false)) ∧
    ((WinFin.run c sp evs).u.cur = true → (WinFin.run c sp evs).u.live = true ∧ (WinFin.run c sp evs).u.sad = false) :=
  WinFin.source_disposed_at_most_once c sp evs

/-- `_partial`: hypothesis `Quiet c` (no operator callback raises, factories succeed, the inner dispose does not raise)
comes from the proof method; its necessity is shown only for `dispose_releases_all_fin` (do_on_dispose / do_finally). -/
theorem terminal_releases_all_fin_partial {α : Type} (c : WinFin.Cfg) (q : WinFin.Quiet c) (sp : WinFin.SyncPhase α)
    (evs : List (WinFin.Ev α)) (ht : WinFin.hasTerm (WinFin.run c sp evs).log = true) :
    (WinFin.run c sp evs).u.cur = false ∧ WinFin.srcCount (WinFin.run c sp evs).log = (WinFin.run c sp evs).u.live.toNat :=
  WinFin.terminal_releases_all_partial c q sp evs ht

theorem dispose_releases_all_fin {α : Type} (c : WinFin.Cfg) (q : WinFin.Quiet c) (sp : WinFin.SyncPhase α)
    (evs : List (WinFin.Ev α)) (hh : (WinFin.subscribePhase c sp : WinFin.St α).d.handle = true)
    (hd : WinFin.hasDispose evs = true) :
    (WinFin.run c sp evs).u.cur = false ∧ WinFin.srcCount (WinFin.run c sp evs).log = (WinFin.run c sp evs).u.live.toNat :=
  WinFin.dispose_releases_all c q sp evs hh hd

theorem using_releases_all {α : Type} (c : WinFin.Cfg) (hc : c.oper = .using) (hsd : c.srcDisposeRaises = false)
    (sp : WinFin.SyncPhase α) (evs : List (WinFin.Ev α)) (hh : (WinFin.subscribePhase c sp : WinFin.St α).d.handle = true)
    (h : WinFin.hasTerm (WinFin.run c sp evs).log = true ∨ WinFin.hasDispose evs = true) :
    (WinFin.run c sp evs).u.cur = false ∧ WinFin.srcCount (WinFin.run c sp evs).log = (WinFin.run c sp evs).u.live.toNat ∧
    WinFin.resCount (WinFin.run c sp evs).log = c.hasRes.toNat :=
  WinFin.using_releases_all c hc hsd sp evs hh h

theorem finally_action_releases_all {α : Type} (c : WinFin.Cfg) (hc : c.oper = .finallyAction)
    (sp : WinFin.SyncPhase α) (evs : List (WinFin.Ev α))
    (h : WinFin.hasTerm (WinFin.run c sp evs).log = true ∨
         ((WinFin.subscribePhase c sp : WinFin.St α).d.handle = true ∧ WinFin.hasDispose evs = true)) :
    (WinFin.run c sp evs).u.cur = false ∧ WinFin.srcCount (WinFin.run c sp evs).log = (WinFin.run c sp evs).u.live.toNat :=
  WinFin.finally_action_releases_all c hc sp evs h

end C02Win

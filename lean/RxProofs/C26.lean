import RxProofs.Lemmas.DispC26A
import RxProofs.Lemmas.DispNest
/-!
# C26 — container disposables dispose each held item exactly once

Property theorems only.  Models: `Disp.cStep` (CompositeDisposable), `Disp.serStep` (SerialDisposable),
`Disp.madStep` (MultipleAssignmentDisposable), `Disp.sadStep` (SingleAssignmentDisposable **with the fix
`fixes/C26_sad_lock_and_none.patch`**; the as-written class violates the property — see
`RxProofs/Lemmas/DispSadAsIs.lean` for the machine-checked counter-examples).

Every theorem quantifies over: the number of threads, the program (list of calls) of every thread, and the
schedule (`sched : List Nat`, arbitrary).  A call history on one thread is the case `progs = [history]`.
`s.sh.cnt i` is the number of times `item_i.dispose()` was called; an item may be handed over several
times (then it is disposed once per hand-over).
-/

namespace C26
open Disp

/-! ## CompositeDisposable -/

/-- **composite_item_disposed_exactly_once.** When all threads have finished, every item has been disposed
exactly once per hand-over (constructor argument or `add`, before *or after* the disposal of the container)
except for the copies the container still holds; and a disposed container holds nothing. -/
theorem composite_item_disposed_exactly_once (init : List Nat) (progs : List (List COp)) (sched : List Nat)
    (i : Nat) (hq : cQuiet ((cInit init progs).run cStep sched)) :
    let s := (cInit init progs).run cStep sched
    s.sh.cnt i + s.sh.items.count i = init.count i + wsum (fun p => p.count (COp.add i)) progs ∧
    (s.sh.isDisposed = true → s.sh.cnt i = init.count i + wsum (fun p => p.count (COp.add i)) progs) := by
  intro s
  obtain ⟨h1, h2, h3, _⟩ : CInv1 s ∧ CInv2 s ∧ CInv3 (cTotalAdds init progs) (cTotalDisp progs) s := cInv_run init progs sched
  obtain ⟨z1, z2, _⟩ := cQuiet_zero s hq i
  have a := h1 i; have b := h3 i
  rw [z1] at a; rw [z2] at b
  have hmain : s.sh.cnt i + s.sh.items.count i = init.count i + wsum (fun p => p.count (COp.add i)) progs := by
    simp only [cTotalAdds] at b; omega
  refine ⟨hmain, fun hd => ?_⟩
  have : s.sh.items = [] := h2.1 hd
  rw [this] at hmain; simpa using hmain

/-- **composite_never_disposed_while_held.** In *every* reachable state (mid-call states of all threads
included) the disposals of an item never exceed the hand-overs that are no longer held: an item handed
over once and still in the container has not been disposed. -/
theorem composite_never_disposed_while_held (init : List Nat) (progs : List (List COp)) (sched : List Nat) (i : Nat) :
    let s := (cInit init progs).run cStep sched
    s.sh.cnt i + s.sh.items.count i ≤ s.sh.given i ∧
    s.sh.given i ≤ init.count i + wsum (fun p => p.count (COp.add i)) progs := by
  intro s
  obtain ⟨h1, _, h3, _⟩ : CInv1 s ∧ CInv2 s ∧ CInv3 (cTotalAdds init progs) (cTotalDisp progs) s := cInv_run init progs sched
  have a := h1 i; have b := h3 i
  simp only [cTotalAdds] at b
  exact ⟨by omega, by omega⟩

/-- **composite_dispose_takes_effect.** When all threads have finished and some thread called `dispose()`,
the container is disposed and empty. -/
theorem composite_dispose_takes_effect (init : List Nat) (progs : List (List COp)) (sched : List Nat)
    (hq : cQuiet ((cInit init progs).run cStep sched)) (hd : 0 < wsum (fun p => p.count COp.dispose) progs) :
    let s := (cInit init progs).run cStep sched
    s.sh.isDisposed = true ∧ s.sh.items = [] := by
  intro s
  obtain ⟨_, h2, _, h4⟩ : CInv1 s ∧ CInv2 s ∧ CInv3 (cTotalAdds init progs) (cTotalDisp progs) s := cInv_run init progs sched
  obtain ⟨_, _, z3⟩ := cQuiet_zero s hq 0
  rw [z3] at h4
  simp only [cTotalDisp] at h4
  have : s.sh.isDisposed = true := h2.2 (by omega)
  exact ⟨this, h2.1 this⟩

/-! ## Serial / SingleAssignment (fixed) / MultipleAssignment -/

/-- **assign_item_disposed_exactly_once.** For each of the three classes, when all threads have finished:
every assignment of item `i` either raised (`rej`, SingleAssignment only), or the item is still held, or it
was replaced without disposal (`dropped`, MultipleAssignment only — as documented), or it has been disposed
exactly once — whether it was assigned before or after the container's disposal. -/
theorem assign_item_disposed_exactly_once (f : ASh → ATh → ASh × ATh) (hf : IsAStep f)
    (progs : List (List AOp)) (sched : List Nat) (i : Nat) (hq : aQuiet ((aInit progs).run f sched)) :
    let s := (aInit progs).run f sched
    s.sh.cnt i + s.sh.current.toList.count i + s.sh.dropped i + s.sh.rej i
      = wsum (fun p => p.count (AOp.set i)) progs ∧
    (s.sh.isDisposed = true → s.sh.cnt i + s.sh.dropped i + s.sh.rej i = wsum (fun p => p.count (AOp.set i)) progs) := by
  intro s
  obtain ⟨h1, h2, h3, _⟩ : AInv progs s := aInv_run f hf progs sched
  obtain ⟨z1, z2, _⟩ := aQuiet_zero s hq i
  have a := h1 i; have b := h3 i
  rw [z1] at a; rw [z2] at b
  simp only [aTotalSets] at b
  have hmain : s.sh.cnt i + s.sh.current.toList.count i + s.sh.dropped i + s.sh.rej i
      = wsum (fun p => p.count (AOp.set i)) progs := by omega
  refine ⟨hmain, fun hd => ?_⟩
  have : s.sh.current = none := h2.1 hd
  rw [this] at hmain; simpa using hmain

/-- **serial_sad_never_drop / serial_mad_never_reject.** Serial and SingleAssignment never let go of an item
without disposing it; Serial and MultipleAssignment never reject an assignment.  Hence for Serial:
`cnt i + [held] = #assignments of i`. -/
theorem serial_sad_never_drop (f : ASh → ATh → ASh × ATh) (hf : f = serStep ∨ f = sadStep)
    (progs : List (List AOp)) (sched : List Nat) (i : Nat) : ((aInit progs).run f sched).sh.dropped i = 0 :=
  Sys.run_inv f NoDrop (noDrop_step f hf) _ sched (fun _ => rfl) i

theorem serial_mad_never_reject (f : ASh → ATh → ASh × ATh) (hf : f = serStep ∨ f = madStep)
    (progs : List (List AOp)) (sched : List Nat) (i : Nat) : ((aInit progs).run f sched).sh.rej i = 0 :=
  Sys.run_inv f NoRej (noRej_step f hf) _ sched (fun _ => rfl) i

/-- **assign_never_disposed_while_held.** In every reachable state of each of the three classes, the disposals
of an item never exceed its non-raising assignments that are no longer held. -/
theorem assign_never_disposed_while_held (f : ASh → ATh → ASh × ATh) (hf : IsAStep f)
    (progs : List (List AOp)) (sched : List Nat) (i : Nat) :
    let s := (aInit progs).run f sched
    s.sh.cnt i + s.sh.current.toList.count i ≤ s.sh.given i ∧
    s.sh.given i ≤ wsum (fun p => p.count (AOp.set i)) progs := by
  intro s
  obtain ⟨h1, _, h3, _⟩ : AInv progs s := aInv_run f hf progs sched
  have a := h1 i; have b := h3 i
  simp only [aTotalSets] at b
  exact ⟨by omega, by omega⟩

/-- **assign_dispose_takes_effect.** When all threads have finished and some thread called `dispose()`, the
container is disposed and holds nothing. -/
theorem assign_dispose_takes_effect (f : ASh → ATh → ASh × ATh) (hf : IsAStep f)
    (progs : List (List AOp)) (sched : List Nat)
    (hq : aQuiet ((aInit progs).run f sched)) (hd : 0 < wsum (fun p => p.count AOp.dispose) progs) :
    let s := (aInit progs).run f sched
    s.sh.isDisposed = true ∧ s.sh.current = none := by
  intro s
  obtain ⟨_, h2, _, h4⟩ : AInv progs s := aInv_run f hf progs sched
  obtain ⟨_, _, z3⟩ := aQuiet_zero s hq 0
  rw [z3] at h4
  simp only [aTotalDisp] at h4
  have : s.sh.isDisposed = true := h2.2.1 (by omega)
  exact ⟨this, h2.1 this⟩

/-- **sad_second_assignment_rejected.** (fixed SingleAssignmentDisposable) Whatever the threads and the schedule,
at most one assignment is ever stored: `accepted ≤ 1`, and more precisely the stored assignment is either
still current or was swapped out by `dispose()`.  Every other assignment raised (container not disposed) or
was made after the disposal and disposed on the spot. -/
theorem sad_second_assignment_rejected (progs : List (List AOp)) (sched : List Nat) :
    let s := (aInit progs).run sadStep sched
    s.sh.accepted ≤ 1 ∧ s.sh.accepted = s.sh.current.isSome.toNat + s.sh.tookSome.toNat := by
  intro s
  obtain ⟨h1, h2, h3⟩ : SadOnce s :=
    Sys.run_inv sadStep SadOnce sadOnce_step _ sched ⟨by simp [aInit], by simp [aInit], by simp [aInit]⟩
  refine ⟨?_, h1⟩
  cases hc : s.sh.current <;> cases ht : s.sh.tookSome <;> simp_all

/-- **sad_set_when_assigned_raises.** (fixed) One `set` step on a not-yet-disposed, already assigned container:
the call raises and changes neither the held item nor any dispose counter. -/
theorem sad_set_when_assigned_raises (s : ASh) (c v : Nat) (p : List AOp) (hc : s.current = some c) :
    let r := sadStep s (.idle, .set v :: p)
    r.2 = (.idle, p) ∧ r.1.current = some c ∧ r.1.cnt = s.cnt ∧ r.1.log = s.log ++ [.lock 0, .raised] := by
  simp [sadStep, hc]

/-! ## Nested containers under threads: CompositeDisposable ∋ SerialDisposable ∋ leaves (`Disp.nStep`) -/

/-- **nested_leaf_disposed_exactly_once.** Any number of threads calling `composite.dispose()`,
`composite.remove(serial)`, `serial.dispose()` and `serial.disposable = leaf` in any order and under any schedule
(the serial's own `dispose()` runs nested on whichever thread took it out of the composite, outside the composite's
lock).  When all threads have finished and some thread called `composite.dispose()`: the composite is disposed,
it called `serial.dispose()` exactly once, the serial is disposed, and every leaf ever assigned to the serial —
before or after — has been disposed exactly once per assignment. -/
theorem nested_leaf_disposed_exactly_once (progs : List (List NOp)) (sched : List Nat) (i : Nat)
    (hq : nQuiet ((nInit progs).run nStep sched)) (hd : 0 < wsum (fun p => p.count NOp.dispC) progs) :
    let s := (nInit progs).run nStep sched
    s.sh.cDisposed = true ∧ s.sh.viaC = 1 ∧ s.sh.sDisposed = true ∧
    s.sh.cnt i = wsum (fun p => p.count (NOp.setS i)) progs := by
  intro s
  have h : NInv (nTotalSets progs) (nTotalDispC progs) s := nInv_run progs sched
  obtain ⟨z1, z2, z3, z4⟩ := nQuiet_zero s hq i
  have hc := h.calls; rw [z4] at hc
  simp only [nTotalDispC] at hc
  have hcd : s.sh.cDisposed = true := h.ccall (by omega)
  have hhas := h.cdis hcd
  have ho := h.once; rw [z2, hhas] at ho
  have hv : s.sh.viaC = 1 := by simpa using ho
  have hsd := h.via (by omega)
  have hcur := h.sdis hsd
  have hl := h.leaf i; rw [z1, hcur] at hl
  have hs := h.sets i; rw [z3] at hs
  simp only [nTotalSets] at hs
  exact ⟨hcd, hv, hsd, by simp at hl; omega⟩

/-- **nested_never_twice.** In every reachable state of the nested system: the composite has called
`serial.dispose()` at most once, and the disposals of a leaf never exceed its assignments that are no longer held. -/
theorem nested_never_twice (progs : List (List NOp)) (sched : List Nat) (i : Nat) :
    let s := (nInit progs).run nStep sched
    s.sh.viaC ≤ 1 ∧ s.sh.cnt i + s.sh.sCurrent.toList.count i ≤ s.sh.given i ∧
    s.sh.given i ≤ wsum (fun p => p.count (NOp.setS i)) progs := by
  intro s
  have h : NInv (nTotalSets progs) (nTotalDispC progs) s := nInv_run progs sched
  have a := h.once; have b := h.leaf i; have c := h.sets i
  simp only [nTotalSets] at c
  exact ⟨by omega, by omega, by omega⟩

/-! ## Non-vacuity -/

/-- nested: thread 0 disposes the composite, thread 1 assigns leaf 1 over leaf 0, thread 2 disposes the serial
directly; thread 0's nested `serial.dispose()` arrives last and finds it already disposed -/
example : let s := (nInit [[.dispC], [.setS 0, .setS 1], [.dispS]]).run nStep [1, 0, 0, 1, 2, 1, 2, 0]
    nQuiet s ∧ s.sh.cnt 0 = 1 ∧ s.sh.cnt 1 = 1 ∧ s.sh.viaC = 1 ∧ s.sh.cDisposed = true := by decide


/-- Composite, three threads: `add 1` races with `dispose` (pre-check passed before the add, lock block after it)
and a `remove 0` that passed its pre-check before the disposal: everything is disposed exactly once. -/
example : let s := (cInit [0] [[.add 1], [.dispose], [.remove 0, .add 2]]).run cStep [2, 1, 0, 1, 2, 1, 1, 2, 2]
    cQuiet s ∧ s.sh.cnt 0 = 1 ∧ s.sh.cnt 1 = 1 ∧ s.sh.cnt 2 = 1 ∧ s.sh.isDisposed = true := by decide

/-- Serial, one thread (a history): replacement disposes the old item, assignment after dispose disposes the new one -/
example : let s := (aInit [[.set 0, .set 1, .dispose, .set 2]]).run serStep (List.replicate 8 0)
    aQuiet s ∧ s.sh.cnt 0 = 1 ∧ s.sh.cnt 1 = 1 ∧ s.sh.cnt 2 = 1 := by decide

/-- MultipleAssignment drops the replaced item (documented) -/
example : let s := (aInit [[.set 0, .set 1, .dispose]]).run madStep (List.replicate 4 0)
    aQuiet s ∧ s.sh.cnt 0 = 0 ∧ s.sh.dropped 0 = 1 ∧ s.sh.cnt 1 = 1 := by decide

/-- fixed SingleAssignment, two racing assigners and a disposer: exactly one assignment is stored, the other raises -/
example : let s := (aInit [[.set 0], [.set 1], [.dispose]]).run sadStep [1, 0, 2, 2]
    aQuiet s ∧ s.sh.cnt 1 = 1 ∧ s.sh.cnt 0 = 0 ∧ s.sh.rej 0 = 1 ∧ s.sh.accepted = 1 := by decide

end C26

import RxProofs.Lemmas.VtsC28
/-!
# C28 — virtual time runs actions in due order on a monotone clock

Property theorems only (helper lemmas and the invariants named in the statements are in
`RxProofs/Lemmas/VtsPQ.lean`, `Vts.lean`, `VtsC28.lean`).  Model: `RxModel/VtsPQ.lean` (`PriorityQueue`),
`RxModel/Vts.lean` (`VirtualTimeScheduler`/`TestScheduler`/`HistoricalScheduler`; actions are arbitrary
finite trees that schedule, cancel, stop, sleep and raise).

How the statements quantify.  `iter cfg tgt s` is ONE iteration of the `while True:` loop of `start`
(`tgt = none`) or `advance_to(T)` (`tgt = some T`) from an ARBITRARY state `s`; `loop` is that loop,
`runOps` an arbitrary script of top-level calls.  A statement about `iter` for all `s` therefore holds at
every iteration of every run.  Nothing is bounded.
-/

namespace C28
open Vts

theorem pq_dequeue_min_stable {α : Type} (due : α → Int) {q q' : PQ α} {x : α} (hwf : q.WF)
    (h : q.dequeue? due = some (x, q')) :
    ∃ pre post c, q.items = pre ++ (x, c) :: post ∧ q'.items = pre ++ post ∧
      (∀ y ∈ pre, due x < due y.1) ∧ (∀ y ∈ post, due x ≤ due y.1) := by
  obtain ⟨pre, post, c, h1, h2, h3, h4, _⟩ := PQ.dequeue_split due hwf h
  exact ⟨pre, post, c, h1, h2, h3, h4⟩

/-- The queue invariant `PQ.WF` (distinct, insertion-ordered counts) holds in every state reachable by
any script of calls from a state where it holds (in particular from a fresh scheduler). -/
theorem pq_wf_reachable (cfg : Cfg) (ops : List Op) (s : St) (h : s.queue.WF) :
    (runOps cfg s ops).1.queue.WF :=
  (runOps_inv (R := fun _ _ s => s.queue.WF) (fun tgt => wfInv cfg tgt)
    (fun _ _ _ h => h) (fun _ _ _ _ _ _ _ _ h => PQ.wf_enqueue h _) (fun _ id h => wf_cancel h id)
    (Or.inl (fun _ _ h => h)) ops s (fun op _ => all_any_op op) h (qall_any s)).1

/-- **run_picks_min.** Whatever one loop iteration of `start`/`advance_to` appends to the executed-action
log is the entry of an item that (a) was the stable minimum of the pending queue at that moment, (b) was
not cancelled, (c) was not beyond the target. -/
theorem run_picks_min (cfg : Cfg) (tgt : Option Int) (s : St) (hwf : s.queue.WF) :
    (iter cfg tgt s).st.log = s.log ∨
    ∃ x, StableMin x s.queue ∧ x.cancelled = false ∧ pastTarget tgt x = false ∧
      ∃ at_, (iter cfg tgt s).st.log = s.log ++ [{ id := x.id, at_ := at_, due := x.due, seq := x.seq }] := by
  rcases iter_log cfg tgt s with h | ⟨x, q', _, hd, hpt, hc, hl⟩
  · exact Or.inl h
  · right
    obtain ⟨pre, post, c, h1, _, h3, h4⟩ := pq_dequeue_min_stable Item.due hwf hd
    exact ⟨x, ⟨pre, post, c, h1, h3, h4⟩, hc, hpt, _, hl⟩

/-- **clock_at_run.** The clock stamped on an executed action is `tickClock`: its due time if that is
later than the current clock; otherwise the current clock — except on the spin branch of `start` (more
than `MAX_SPINNING` consecutive actions without the clock advancing), where it is the clock plus the bump. -/
theorem clock_at_run (cfg : Cfg) (tgt : Option Int) (s : St) :
    (iter cfg tgt s).st.log = s.log ∨
    ∃ x q', s.queue.dequeue? Item.due = some (x, q') ∧
      (iter cfg tgt s).st.log = s.log ++ [{ id := x.id, at_ := tickClock cfg tgt s x, due := x.due, seq := x.seq }] ∧
      tickClock cfg tgt s x =
        (if x.due > s.clock then x.due
         else if (tgt.isNone && decide (s.spin > cfg.maxSpin)) = true then s.clock + cfg.bump
         else s.clock) := by
  rcases iter_log cfg tgt s with h | ⟨x, q', _, hd, _, _, hl⟩
  · exact Or.inl h
  · exact Or.inr ⟨x, q', hd, hl, rfl⟩

/-- corollary in the property's words: the stamped clock is at least `max clock due`, equals the due time
when that is later than the clock, and equals `max clock due` whenever the spin branch is not taken
(always in `advance_to`; in `start` while at most `MAX_SPINNING` actions ran without the clock moving). -/
theorem clock_at_run_ge (cfg : Cfg) (hb : 0 ≤ cfg.bump) (tgt : Option Int) (s : St) (r : Ran)
    (h : (iter cfg tgt s).st.log = s.log ++ [r]) :
    max s.clock r.due ≤ r.at_ ∧ (s.clock < r.due → r.at_ = r.due) ∧
    ((tgt.isSome ∨ s.spin ≤ cfg.maxSpin) → r.at_ = max s.clock r.due) := by
  rcases clock_at_run cfg tgt s with h' | ⟨x, q', _, hl, htc⟩
  · rw [h'] at h; simp at h
  · rw [hl] at h
    have := List.append_cancel_left h
    simp at this
    subst this
    simp only [htc]
    refine ⟨?_, ?_, ?_⟩
    · split
      · omega
      · split <;> omega
    · intro hlt; simp [hlt]
    · intro hs
      split
      · omega
      · have : (tgt.isNone && decide (s.spin > cfg.maxSpin)) = false := by
          rcases hs with hs | hs
          · cases tgt <;> simp_all
          · simp; intro _; omega
        simp [this]; omega

/-- **clock_monotone (one loop).** `start` and the loop of `advance_to` never move the clock backwards,
whatever the actions do (schedule, cancel, stop, sleep, raise). -/
theorem clock_monotone_loop (cfg : Cfg) (hb : 0 ≤ cfg.bump) (tgt : Option Int) (s : St) :
    s.clock ≤ (loop cfg tgt s).1.clock := by
  have hI := clockInv_iter cfg hb tgt anyStep s.clock
  -- forget the log part: use the invariant on a copy of the state with an empty log
  have I : IterInv cfg tgt anyStep (fun s' => s.clock ≤ s'.clock) (fun _ s' => s.clock ≤ s'.clock) := {
    skip := by intro s' x q' sp h _ _ _ _ _; have := tickClock_ge cfg hb tgt s' x; simp only; omega
    begin := by intro s' x q' sp h _ _ _ _ _; have := tickClock_ge cfg hb tgt s' x; simp only; omega
    enq := by intro x s' via m t cid child _ _ h; simpa [St.enqueue] using h
    cancel := by intro x s' id h; simpa [St.cancel] using h
    link := by intro x s l h; exact h
    stop := by intro x s' _ h; simpa using h
    sleep := by intro x s' t _ ht h; simp only; omega
    handled := by intro x s' e _ _ h; simpa using h
    finish := by intro x s' sp h; simpa using h }
  exact (loop_inv2 I s (Int.le_refl _) (qall_any s)).1

theorem clock_monotone (cfg : Cfg) (hb : 0 ≤ cfg.bump) (ops : List Op) (c0 : Int)
    (hops : ∀ op ∈ ops, op.All noSleep) :
    c0 ≤ (runOps cfg { clock := c0 } ops).1.clock :=
  (clockInv_script cfg hb ops { clock := c0 } c0 hops (by intro e he; simp at he)
    ⟨Int.le_refl _, by simp, by simp⟩).1

theorem log_clock_sorted (cfg : Cfg) (hb : 0 ≤ cfg.bump) (ops : List Op) (c0 : Int)
    (hops : ∀ op ∈ ops, op.All noSleep) :
    ((runOps cfg { clock := c0 } ops).1.log.map (·.at_)).Pairwise (· ≤ ·) := by
  have := (clockInv_script cfg hb ops { clock := c0 } c0 hops (by intro e he; simp at he)
    ⟨Int.le_refl _, by simp, by simp⟩).2.1
  simpa [List.pairwise_map] using this

/-- **cancelled_never_run.** After `dispose()` of the handle of action `i` (here: `s.cancel i`), whatever
script of calls follows, `i` is never executed again — provided no later call or action schedules a new
action under the same id (ids name handles). -/
theorem cancelled_never_run (cfg : Cfg) (s : St) (i : Nat) (ops : List Op)
    (hops : ∀ op ∈ ops, op.AllT (fun id _ _ => id ≠ i) (notSched i)) (hq : QAll (notSched i) s) :
    ∀ r ∈ (runOps cfg (s.cancel i) ops).1.log, r.id = i → r ∈ s.log :=
  (runOps_inv (R := fun _ _ => CancInv i s.log) (fun tgt => cancInv_iter cfg tgt i s.log)
    (fun _ _ _ h => h)
    (fun s' id m t b w hid _ h => by
      refine ⟨?_, by simpa [St.enqueue] using h.2⟩
      intro e he hei
      simp only [St.enqueue, PQ.enqueue, List.mem_append, List.mem_singleton] at he
      rcases he with he | rfl
      · exact h.1 e he hei
      · exact absurd hei hid)
    (fun s'' id h => (cancInv_iter cfg none i s.log).cancel ⟨0, 0, .done, false, false, 0⟩ s'' id h)
    (Or.inl (fun _ _ h => h)) ops (s.cancel i) hops (cancInv_cancel s i) (qall_cancel hq i)).1.2

/-- **sorted_if_no_past_scheduling.** If no action schedules before the clock (inside actions only
`schedule` and `schedule_relative(t ≥ 0)`; they may also cancel, stop, sleep, raise), then from any state
satisfying `SortInv` — e.g. a scheduler on which nothing has run yet, with any set of top-level
`schedule_absolute/relative/schedule` calls (`sortInv_fresh`) — the whole executed log of `start` /
`advance_to` is strictly sorted by (due time, scheduling number): non-decreasing due times and
first-scheduled-first among equal due times. -/
theorem sorted_if_no_past_scheduling (cfg : Cfg) (hb : 0 ≤ cfg.bump) (tgt : Option Int) (s : St)
    (h : SortInv s) (hq : QAll nonPast s) :
    (loop cfg tgt s).1.log.Pairwise (fun a b => a.due < b.due ∨ (a.due = b.due ∧ a.seq < b.seq)) :=
  (loop_inv2 (sortInv_iter cfg hb tgt) s h hq).1.2.1

/-- **advance_to_runs_exactly_due (partial: target ≠ current clock).**  Full statement: `advance_to(T)` on a
scheduler that is not running, returning normally, runs exactly the pending actions due at or before `T`.
Proved here under the extra hypothesis `s.clock ≠ T` (and no action calls `stop()`): every action executed
by the call was due at or before `T`, and when it returns nothing due at or before `T` is left pending.
For `T = s.clock` the code returns immediately — see `advance_to_now_counter`. -/
theorem advance_to_runs_exactly_due_partial (cfg : Cfg) (T : Int) (s s' : St) (hwf : s.queue.WF)
    (hq : QAll noStop s) (hen : s.enabled = false) (hne : s.clock ≠ T)
    (h : advanceTo cfg T s = (s', .ok)) :
    (∀ e ∈ s'.queue.items, T < e.1.due) ∧ (∀ r ∈ s'.log, r ∈ s.log ∨ r.due ≤ T) := by
  obtain ⟨_, s'', hl, rfl⟩ := advanceTo_ok hen hne h
  let P : St → Prop := fun st => st.enabled = true ∧ st.queue.WF ∧ ∀ r ∈ st.log, r ∈ s.log ∨ r.due ≤ T
  have I : IterInv cfg (some T) noStop P (fun _ => P) := {
    skip := by
      intro st x q' sp ⟨h1, h2, h3⟩ _ _ hd _ _
      exact ⟨h1, PQ.wf_dequeue Item.due h2 hd, h3⟩
    begin := by
      intro st x q' sp ⟨h1, h2, h3⟩ _ _ hd hpt _
      refine ⟨h1, PQ.wf_dequeue Item.due h2 hd, ?_⟩
      intro r hr
      simp only [List.mem_append, List.mem_singleton] at hr
      rcases hr with hr | rfl
      · exact h3 r hr
      · right; simpa [pastTarget] using hpt
    enq := by intro x st via m t cid child _ _ ⟨h1, h2, h3⟩; exact ⟨h1, PQ.wf_enqueue h2 _, h3⟩
    cancel := by
      intro x st id ⟨h1, h2, h3⟩
      refine ⟨h1, ?_, h3⟩
      obtain ⟨a, b⟩ := h2
      have hsnd : ∀ e : Item × Int, (cancelEntry id e).2 = e.2 := by
        intro e; simp only [cancelEntry]; split <;> rfl
      refine ⟨by simp only [St.cancel, List.pairwise_map, hsnd]; exact a, ?_⟩
      intro e he
      simp only [St.cancel, List.mem_map] at he
      obtain ⟨e0, he0, rfl⟩ := he
      rw [hsnd]; exact b e0 he0
    link := by intro x s l h; exact h
    stop := by intro x st hs _; exact absurd hs (by simp [noStop])
    sleep := by intro x st t _ _ h; exact h
    handled := by intro x st e _ _ h; exact h
    finish := by intro x st sp h; exact h }
  have hP := (loop_inv2 I { s with enabled := true } ⟨rfl, hwf, fun r hr => Or.inl hr⟩ hq).1
  rw [hl] at hP
  obtain ⟨hen'', hwf'', hlog⟩ := hP
  refine ⟨?_, hlog⟩
  have hexit := loop_ok_exit _ _ hl
  rcases iter_cases cfg (some T) s'' with ⟨_, h1 | h1 | ⟨x, q', hd, hpt⟩⟩ | ⟨x, q', _, _, _, ⟨_, hst⟩ | ⟨s2, _, hf⟩⟩
  · rw [hen''] at h1; cases h1
  · intro e he; simp only at he; rw [h1] at he; simp at he
  · obtain ⟨pre, post, c, hl', _, hpre, hpost, _⟩ := PQ.dequeue_split Item.due hwf'' hd
    simp only [pastTarget, decide_eq_true_eq] at hpt
    intro e he
    simp only at he
    rw [hl'] at he
    simp only [List.mem_append, List.mem_cons] at he
    rcases he with he | rfl | he
    · have := hpre e he; omega
    · exact hpt
    · have := hpost e he; omega
  · rw [hst] at hexit; simp at hexit
  · rw [hf] at hexit
    rcases fin_cases cfg (some T) s2 x with ⟨_, h2⟩ | ⟨_, ⟨_, _, h2⟩ | ⟨_, _, _, h2⟩⟩ <;> rw [h2] at hexit <;> simp at hexit

/-- **advance_to_leaves_clock_at_target.** `advance_to(T)` on a scheduler that is not running, returning
normally, leaves the clock at exactly `T` (also when `T` is the current clock, and whatever the actions did). -/
theorem advance_to_leaves_clock_at_target (cfg : Cfg) (T : Int) (s s' : St) (hen : s.enabled = false)
    (h : advanceTo cfg T s = (s', .ok)) : s'.clock = T := by
  by_cases hne : s.clock = T
  · simp only [advanceTo] at h
    rw [if_neg (by omega), if_pos (Or.inl hne)] at h
    simp at h; subst h; exact hne
  · obtain ⟨_, s'', _, rfl⟩ := advanceTo_ok hen hne h
    rfl

/-- `advance_by(t)` is `advance_to(clock + t)` -/
theorem advance_by_leaves_clock_at_target (cfg : Cfg) (t : Int) (s s' : St) (hen : s.enabled = false)
    (h : advanceBy cfg t s = (s', .ok)) : s'.clock = s.clock + t :=
  advance_to_leaves_clock_at_target cfg _ s s' hen h

/-- **sleep_runs_nothing.** `sleep(t)` returning normally moves the clock by `t ≥ 0` and touches nothing else:
no action runs, nothing is dequeued or skipped. -/
theorem sleep_runs_nothing (t : Int) (s s' : St) (h : sleep t s = (s', .ok)) :
    0 ≤ t ∧ s'.clock = s.clock + t ∧ s'.log = s.log ∧ s'.queue = s.queue ∧ s'.skipped = s.skipped ∧
    s'.enabled = s.enabled := by
  simp only [sleep] at h
  split at h
  · simp at h
  · simp at h; subst h; exact ⟨by omega, rfl, rfl, rfl, rfl, rfl⟩

/-! ## AS-IS deviation (known finding C28-advance-to-now)

`advance_to(now)`: the code returns at `if self.now == dt or self._is_enabled: return` without looking at
the queue, so an action due exactly now stays pending.  (Repairing this breaks the repository's own
`test_historicalscheduler.py::test_advance_by`, which asserts that `advance_by(0)` runs nothing; it is
therefore recorded as a known finding and the model keeps the code as written.) -/

def counterState : St := ({ clock := 10 } : St).enqueue 1 10 .done false

/-- **advance_to_now_counter.** At clock 10 with action 1 due at 10, `advance_to(10)` returns normally,
runs nothing and leaves the due action pending — the conclusion of `advance_to_runs_exactly_due` fails. -/
theorem advance_to_now_counter :
    (advanceTo {} 10 counterState).2 = .ok ∧ (advanceTo {} 10 counterState).1.log = [] ∧
    ¬ (∀ e ∈ (advanceTo {} 10 counterState).1.queue.items, (10 : Int) < e.1.due) := by
  have : advanceTo {} 10 counterState = (counterState, .ok) := by
    simp [advanceTo, counterState, St.enqueue]
  rw [this]
  refine ⟨rfl, rfl, ?_⟩
  simp [counterState, St.enqueue, PQ.enqueue]

/-! ## AS-IS deviation (proposed known finding C28-sleep-past-target)

An action that calls `sleep()` past the target of the `advance_to` that runs it: the loop ends with the
clock beyond the target and the epilogue `self._clock = dt` moves it BACK.  This is why `clock_monotone` /
`log_clock_sorted` over scripts assume that no action sleeps (`clock_monotone_loop` needs no such
assumption: inside the loop the clock only grows). -/
def sleeper : St := ({ clock := 0 } : St).enqueue 1 1 (.sleep 10 .done) false

/-- **sleep_past_target_counter.** clock 0; action 1 (due 1) sleeps 10; `advance_to(5)`: the action runs at
clock 1, the loop ends with the clock at 11, and `advance_to` returns normally with the clock at 5. -/
theorem sleep_past_target_counter :
    (loop {} (some 5) { sleeper with enabled := true }).1.clock = 11 ∧
    (advanceTo {} 5 sleeper).2 = .ok ∧ (advanceTo {} 5 sleeper).1.clock = 5 ∧
    (advanceTo {} 5 sleeper).1.log.map (fun r => (r.id, r.at_)) = [(1, 1)] := by
  rw [advanceTo_eq_fuel {} 10 5 sleeper (by decide), loop_eq_loopFuel {} (some 5) 10 _ (by decide)]
  decide

/-! ## Non-vacuity -/

/-- three entries with due times 5,3,3 (enqueued in that order): the first of the two 3s comes out -/
example : (((((({} : PQ (Int × Nat)).enqueue (5, 0)).enqueue (3, 1)).enqueue (3, 2)).dequeue? (·.1)).map (·.1))
    = some (3, 1) := by decide

private def demo : St :=
  ((({ clock := 0 } : St).enqueue 1 5 (.sched .handed .imm 0 4 .done (.sleep 2 .done)) false).enqueue 2 5 .done false).enqueue 3 2
    (.cancel 2 (.sched .handed .rel 3 5 .done .done)) false

/-- equal due times (1, 2, 5 all due at 5), cancellation from inside an action (3 cancels 2), a child
scheduled at the current time (4) and an in-action sleep (1 sleeps 2, so 5 and 4 run late, at clock 7). -/
example : (start {} demo).1.log.map (fun r => (r.id, r.at_)) = [(3, 2), (1, 5), (5, 7), (4, 7)] ∧
    (start {} demo).1.skipped = [2] ∧ (start {} demo).1.clock = 7 := by
  rw [start_eq_fuel {} 20 demo (by decide)]
  decide

/-- the hypotheses of `sorted_if_no_past_scheduling` hold for `demo` -/
example : SortInv demo ∧ QAll nonPast demo := by
  refine ⟨sortInv_fresh 0 [(1, 5, _, false), (2, 5, _, false), (3, 2, _, false)], ?_⟩
  intro e he
  simp [demo, St.enqueue, PQ.enqueue] at he
  rcases he with rfl | rfl | rfl <;> simp [Act.All, nonPast]

/-- `advance_to(4)` from clock 0 runs exactly the actions due ≤ 4 and stops at 4 -/
example : (advanceTo {} 4 demo).1.log.map (fun r => (r.id, r.at_)) = [(3, 2)] ∧
    (advanceTo {} 4 demo).1.clock = 4 ∧ (advanceTo {} 4 demo).2 = .ok ∧
    (advanceTo {} 4 demo).1.queue.items.map (·.1.due) = [5, 5, 5] := by
  rw [advanceTo_eq_fuel {} 20 4 demo (by decide)]
  decide

end C28

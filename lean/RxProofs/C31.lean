import RxProofs.Lemmas.ThrELE
/-!
# C31 — EventLoopScheduler: serial on one thread, in order, cancellation, dispose, exit_if_empty

Model: `RxModel/ThrEL.lean` (atomic-step model).  Every theorem is about
`(Sys.init progs clock).run xie sched`: ANY number of client threads with ANY programs (finite trees of
schedule / schedule_relative / schedule_absolute / cancel / dispose / tick, also executed from inside
actions on the loop thread), both settings of `exit_if_empty` unless said otherwise, and EVERY schedule
`sched` (a list of (thread, µs elapsed before its step); unbounded).  Events are read off the global
log (`newest first`).

**Linearisation point of "an action starts"**: the loop thread's `is_cancelled()` read when it takes the
item from its batch (the `loop exec` step, which logs `start` or `skip`).  The gap between that read and
the action's first instruction cannot be closed by a lock-free implementation (DESIGN.md §8); "cancelled
before it starts" means: the `cancel` step precedes that read.
-/
namespace C31
open Thr Thr.EL

theorem reach (xie : Bool) (progs : List (List Op)) (clock : Int) (sched : List (Nat × Nat)) :
    EInv ((Sys.init progs clock).run xie sched) :=
  einv_run xie _ sched ⟨e1_init progs clock, e2_init progs clock⟩

/-- **All actions run on a single dedicated thread, never two at once.**  In every reachable state at
most one loop thread is alive (inside `run`), at most one action is executing, and actions execute only
on a loop thread (per thread: #executing actions ≤ #loop frames ≤ 1). -/
theorem loop_single_thread_serial (xie : Bool) (progs : List (List Op)) (clock : Int) (sched : List (Nat × Nat)) :
    let s := (Sys.init progs clock).run xie sched
    sumBy nLoopT s.ths ≤ 1 ∧ sumBy nRunT s.ths ≤ 1 ∧ ∀ th ∈ s.ths, nRun th.stack ≤ nLoop th.stack ∧ nLoop th.stack ≤ 1 := by
  have inv := (reach xie progs clock sched).e1
  have := nRun_le_nLoop_sum _ inv.shapes
  exact ⟨inv.mx.1, by have := inv.mx.1; omega, fun th hth => shape_counts (inv.shapes th hth)⟩

/-- without `exit_if_empty` the scheduler creates at most one thread in its whole life -/
theorem single_thread_ever (progs : List (List Op)) (clock : Int) (sched : List (Nat × Nat)) :
    nSpawn ((Sys.init progs clock).run false sched).sh.log ≤ 1 := by
  have := spawn_run (Sys.init progs clock) sched (by simp [Sys.init, nSpawn])
  rw [this]; exact Bool.toNat_le _

/-- **Immediately-due actions run in submission order.**  Conservation: the sequence of immediately-due
submissions (in the order of their locked `enq` sections) = those already taken by the loop (started or
found cancelled) ++ those in the loop's current batch ++ those still in `_ready_list` — so they are taken
strictly in submission order, none overtaken, none lost, none duplicated. -/
theorem ready_fifo (xie : Bool) (progs : List (List Op)) (clock : Int) (sched : List (Nat × Nat)) :
    let s := (Sys.init progs clock).run xie sched
    immEnq s.sh.log = immPop s.sh.log ++ ((readyAll s.ths).filter (·.imm)).map (·.seq) ++ s.sh.readyList.map (·.seq) ∧
    immPop s.sh.log <+: immEnq s.sh.log := by
  have := (reach xie progs clock sched).e2.fifo
  refine ⟨this, ?_⟩
  rw [this, List.append_assoc]; exact List.prefix_append _ _

/-- **Timed actions: no earlier than their due time, and in due-time order** (first-submitted-first among
equal due times).  Every `start` (timed or not) is logged at a clock ≥ the item's due time; the timed items
taken by the loop, in the order taken, are sorted by due time and, for equal due times, by submission. -/
theorem timed_not_early_in_order (xie : Bool) (progs : List (List Op)) (clock : Int) (sched : List (Nat × Nat)) :
    let s := (Sys.init progs clock).run xie sched
    (∀ t id due seq imm clk, Ev.start t id due seq imm clk ∈ s.sh.log → due ≤ clk) ∧
    (tPop s.sh.log).Pairwise (fun a b => a.1 ≤ b.1) ∧
    (tPop s.sh.log).Pairwise (fun a b => a.1 = b.1 → a.2 < b.2) := by
  have inv := (reach xie progs clock sched).e2
  have h1 := inv.lo; have h2 := inv.eo
  rw [List.pairwise_append] at h1 h2
  exact ⟨inv.nb, h1.1, h2.1⟩

/-- **Cross order of timed and immediately-due actions within one gathering** ("in due-time order"): whenever
the loop gathers (at any clock `c`, in any reachable state), no immediately-due item is placed before a timed
item with an earlier due time — a pending timed action that is due earlier is never overtaken by an
immediate one. -/
theorem gather_cross_due_order (xie : Bool) (progs : List (List Op)) (clock : Int) (sched : List (Nat × Nat)) (c : Int) :
    let s := (Sys.init progs clock).run xie sched
    (merge c s.sh.queue s.sh.readyList).1.Pairwise CrossOk := by
  have inv := (reach xie progs clock sched).e2
  exact merge_cross c _ _ inv.kinds.1 inv.kinds.2 inv.qs

/-- **An action cancelled before it starts never runs**: no `start id` is logged after a `cancel id` by
any thread — "starts" being the loop's `is_cancelled()` read (see the header). -/
theorem cancelled_before_check_never_runs (xie : Bool) (progs : List (List Op)) (clock : Int) (sched : List (Nat × Nat)) :
    okCancel ((Sys.init progs clock).run xie sched).sh.log :=
  (reach xie progs clock sched).e2.oc

/-- **After dispose() returned**: (1) the flag is set from the dispose step on; (2) no later `schedule*`
call passes the `_is_disposed` test — `okDisp`: no `passed` event after the dispose event, i.e. every such
call raises DisposedException and submits nothing; (3) the loop gathers nothing any more (no `collect`
after dispose), so nothing submitted afterwards — nor anything still waiting in `_ready_list`/`_queue` —
ever runs; only the batch the loop had already gathered is finished. -/
theorem after_dispose_raises_and_nothing_runs (xie : Bool) (progs : List (List Op)) (clock : Int) (sched : List (Nat × Nat)) :
    let s := (Sys.init progs clock).run xie sched
    (∀ t, Ev.dispose t true ∈ s.sh.log → s.sh.disposed = true) ∧ okDisp s.sh.log :=
  ⟨(reach xie progs clock sched).e2.dl, (reach xie progs clock sched).e2.od⟩

/-- the `_is_disposed` test of a `schedule*` call made once the flag is set: raises, submits nothing. -/
theorem disposed_schedule_raises (xie : Bool) (me nth : Nat) (sh : Sh) (id : Option Nat) (it : Item) (ops : List Op)
    (rest : List Frame) (hd : sh.disposed = true) :
    let r := thStep xie me nth sh { stack := .chk id it ops :: rest }
    r.1.log = Ev.raised me it.id :: sh.log ∧ r.1.readyList = sh.readyList ∧ r.1.queue = sh.queue ∧
      r.2.1.stack = .act id ops :: rest := by
  simp [thStep, hd]

/-- **exit_if_empty: the thread exits when idle and a later schedule starts a new one — nothing is
stranded.**  In every reachable state: (1) if anything is pending (`_ready_list` or `_queue` non-empty)
then `_thread` is set; (2) if `_thread` is set and the scheduler is not disposed, that thread exists and
is inside its loop (so pending work always has a live loop thread); (3) no lost wake-up: a loop thread
blocked in the untimed `wait()` that has not been notified sees both containers empty. -/
theorem exit_if_empty_restarts (xie : Bool) (progs : List (List Op)) (clock : Int) (sched : List (Nat × Nat)) :
    let s := (Sys.init progs clock).run xie sched
    (s.sh.readyList ≠ [] ∨ s.sh.queue ≠ [] → s.sh.thread ≠ none) ∧
    (∀ t, s.sh.thread = some t → s.sh.disposed = false → ∃ th, s.ths[t]? = some th ∧ nLoop th.stack = 1) ∧
    (s.sh.wstate = .waitingU → s.sh.readyList = [] ∧ s.sh.queue = []) := by
  have inv := (reach xie progs clock sched).e1
  exact ⟨inv.pt, inv.al, inv.w⟩

/-! ## Non-vacuity: a concrete run with exit_if_empty -/

/-- client 0: schedules A (which schedules a timed B, due +10, and an immediate C), then cancels A's
sibling D (scheduled and cancelled before the loop reaches it); later schedules E when the thread has
exited. -/
private def prog0 : List Op :=
  [.sched 1 [.schedRel 2 10 [], .sched 3 []], .sched 4 [], .cancel 4, .tick 50, .sched 5 []]

private def evName : Ev → Option (String × Nat)
  | .start _ id _ _ _ _ => some ("start", id)
  | .skip _ id _ _ _ => some ("skip", id)
  | .enq _ id _ _ (some t) => some ("spawn", t)
  | .exitEmpty t => some ("exit", t)
  | _ => none

-- client runs its first three ops (7 steps), loop thread 1 drains (A, skip D, C, timed wait, 10 µs pass, B, exit), client ticks
-- and schedules E: a second loop thread (2) is created and runs it.
private def sch0 : List (Nat × Nat) :=
  List.replicate 7 (0, 0) ++ List.replicate 16 (1, 0) ++ [(1, 10)] ++ List.replicate 8 (1, 0) ++ List.replicate 6 (0, 0) ++
    List.replicate 8 (2, 0)

set_option maxRecDepth 100000 in
example : ((Sys.init [prog0]).run true sch0).sh.log.reverse.filterMap evName =
    [("spawn", 1), ("start", 1), ("skip", 4), ("start", 3), ("start", 2), ("exit", 1), ("spawn", 2), ("start", 5), ("exit", 2)] := by
  decide
set_option maxRecDepth 100000 in
example : ((Sys.init [prog0]).run true sch0).sh.thread = none ∧ ((Sys.init [prog0]).run true sch0).ths.length = 3 := by decide

end C31

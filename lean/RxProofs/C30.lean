import RxProofs.Lemmas.ThrTrampMT
/-!
# C30 — trampoline / current-thread scheduling: same thread, FIFO, never nested

Model: `RxModel/ThrTramp.lean`.  Single thread: `runA fixed (init prog clock) acts` is the state after
`dts.length` atomic steps of a thread executing the program `prog` (an arbitrary finite tree of nested
`schedule / schedule_relative / schedule_absolute / cancel / tick` operations) on its trampoline, with
`dts[i]` µs passing before step `i` (ANY list: the clock is only assumed monotone).  All theorems hold
for both variants of the exit path (`fixed = false`: the code as it is; `true`: with the proposed fix).
Events are read off the thread's log (`newest first`).
-/
namespace C30
open Thr Thr.Tramp

theorem reach (fixed : Bool) (prog : List Op) (clock : Int) (acts : List Act) :
    TInv (runA fixed (init prog clock) acts) :=
  runA_inv fixed _ acts (init_inv prog clock)

/-- **One at a time, never nested.** In every reachable state the event log is well bracketed — every
`start a` is followed by `fin a` before any other `start` — and at most one scheduled action is on the
call stack; the drain loop itself is never re-entered. -/
theorem tramp_never_nested (fixed : Bool) (prog : List Op) (clock : Int) (acts : List Act) :
    let s := runA fixed (init prog clock) acts
    (∃ o, wb s.th.log = some o) ∧ nRunning s.th.stack ≤ 1 ∧ nDrain s.th.stack ≤ 1 := by
  obtain ⟨o, hs, hw⟩ := (reach fixed prog clock acts).i1
  have := shape_counts hs
  refine ⟨⟨o, hw⟩, this.1, ?_⟩
  rw [this.2]; exact Bool.toNat_le _

/-- **An action scheduled while another is running runs only after that action returns.**  If `b` was
scheduled (`sched b` logged) while `a` was open, and `b` later starts, then `fin a` (or `raised a`, if `a`
raised) lies between. -/
theorem nested_runs_after_return (fixed : Bool) (prog : List Op) (clock : Int) (acts : List Act)
    (post mid pre : List Ev) (a b : Nat) (d d' c c' : Int) (q : Nat) (k : Kind)
    (hlog : (runA fixed (init prog clock) acts).th.log = post ++ Ev.start b d q c :: (mid ++ Ev.sched b d' c' k :: pre))
    (ha : wb pre = some (some a)) : Ev.fin a ∈ mid ∨ Ev.raised a ∈ mid := by
  obtain ⟨o, _, hw⟩ := (reach fixed prog clock acts).i1
  rw [hlog] at hw
  obtain ⟨o1, h1⟩ := wb_suffix _ _ _ hw
  -- `start b` is accepted only when nothing is open
  have h2 : wb (mid ++ Ev.sched b d' c' k :: pre) = some none := by
    simp only [wb] at h1
    cases hm : wb (mid ++ Ev.sched b d' c' k :: pre) with
    | none => simp [hm] at h1
    | some o' => cases o' with
      | none => rfl
      | some y => simp [hm] at h1
  exact wb_open_closed mid (Ev.sched b d' c' k :: pre) a none h2 (by simpa [wb] using ha) (by simp)

/-- every started action was scheduled (same id, same due time) and enqueued (same id, same sequence
number) before; sequence numbers increase in enqueueing order — so "smaller `seq`" = "scheduled first". -/
theorem start_after_sched (fixed : Bool) (prog : List Op) (clock : Int) (acts : List Act) :
    okSched (runA fixed (init prog clock) acts).th.log ∧ okEnq (runA fixed (init prog clock) acts).th.log :=
  ⟨(reach fixed prog clock acts).i3.os, (reach fixed prog clock acts).i3.oe⟩

/-- **First-scheduled-first among equal due times** (unconditional): of two started actions with the same
due time, the one started earlier was enqueued earlier. `startsL` lists `(due, seq)` of the started
actions in start order. -/
theorem tramp_fifo_equal_due (fixed : Bool) (prog : List Op) (clock : Int) (acts : List Act) :
    (startsL (runA fixed (init prog clock) acts).th.log).Pairwise (fun a b => a.1 = b.1 → a.2 < b.2) := by
  have := (reach fixed prog clock acts).i2.eo
  rw [List.pairwise_append] at this
  exact this.1

/-- **Due-time order**: if no action was scheduled with a due time already in the past (always true for
`schedule` and `schedule_relative`, see `noPast_of_no_absolute`), actions start in due-time order. -/
theorem tramp_due_order (fixed : Bool) (prog : List Op) (clock : Int) (acts : List Act)
    (np : NoPast (runA fixed (init prog clock) acts).th.log) :
    (startsL (runA fixed (init prog clock) acts).th.log).Pairwise (fun a b => a.1 ≤ b.1) := by
  have := ((reach fixed prog clock acts).i2.so np).1
  rw [List.pairwise_append] at this
  exact this.1

/-- `schedule` and `schedule_relative` never schedule into the past: a log without `schedule_absolute`
events satisfies `NoPast`. -/
theorem noPast_of_no_absolute (fixed : Bool) (prog : List Op) (clock : Int) (acts : List Act)
    (h : ∀ id due clk, Ev.sched id due clk .abs ∉ (runA fixed (init prog clock) acts).th.log) :
    NoPast (runA fixed (init prog clock) acts).th.log := by
  intro id due clk kind hm
  apply (reach fixed prog clock acts).i3.sk id due clk kind hm
  intro hk; subst hk; exact h id due clk hm

/-- **Timed actions never run before their due time**: every `start` is logged at a clock ≥ its due time. -/
theorem tramp_not_before_due (fixed : Bool) (prog : List Op) (clock : Int) (acts : List Act) :
    ∀ id due seq clk, Ev.start id due seq clk ∈ (runA fixed (init prog clock) acts).th.log → due ≤ clk :=
  (reach fixed prog clock acts).i3.nb

/-- **A cancelled action never runs**: no `start id` is ever logged after a `cancel id` (the decision
point is the drain loop's `is_cancelled()` test when the item is popped from the ready batch). -/
theorem tramp_cancelled_never_run (fixed : Bool) (prog : List Op) (clock : Int) (acts : List Act) :
    okCancel (runA fixed (init prog clock) acts).th.log :=
  (reach fixed prog clock acts).i3.oc

/-- the deterministic executor used in the examples below (and by the driver) is an instance of `runA` -/
theorem exec_is_runA (fixed : Bool) (n : Nat) (s : St) : ∃ acts, exec fixed n s = runA fixed s acts := by
  induction n generalizing s with
  | zero => exact ⟨[], rfl⟩
  | succ n ih =>
    unfold exec
    split
    · exact ⟨[], rfl⟩
    · obtain ⟨acts, h⟩ := ih (step fixed s (dtFor s))
      exact ⟨.go (dtFor s) :: acts, by rw [h]; rfl⟩

/-- **An action that raises resets the trampoline.**  In any reachable state in which the running action's
next operation is `raise`, two steps later (the exception leaves the drain loop; the `except BaseException`
block runs) the trampoline is idle with an EMPTY queue, the loop's pending batch is gone, and only the
top-level program is left on the stack — so the next `schedule*` call starts a fresh drain loop.  (The
exception itself is re-raised to the `schedule*` caller.) -/
theorem raise_resets_trampoline (fixed : Bool) (prog : List Op) (clock : Int) (acts : List Act)
    (i : Nat) (ops : List Op) (rest : List Frame) (d1 d2 : Nat)
    (hst : (runA fixed (init prog clock) acts).th.stack = .act (some i) (.raise_ :: ops) :: rest) :
    let s2 := step fixed (step fixed (runA fixed (init prog clock) acts) d1) d2
    s2.tr.idle = true ∧ s2.tr.queue = [] ∧ s2.tr.raisedG = true ∧ nDrain s2.th.stack = 0 ∧ nRunning s2.th.stack = 0 ∧
      (∃ mops, s2.th.stack = [.act none mops]) := by
  obtain ⟨o, hs, _⟩ := (reach fixed prog clock acts).i1
  generalize runA fixed (init prog clock) acts = s at *
  rcases s with ⟨⟨idle, queue, rg⟩, g, ⟨stack, log⟩⟩
  simp only at hst hs
  subst hst
  cases hs with
  | inAct i ops ready mops => simp [step, thStep, nDrain, nRunning]
  | main m hm => simp [isMain] at hm

/-- after ANY reachable state, an idle trampoline has an empty queue and no drain frame: a raise (or a normal
exit) never leaves stale items behind for the next run. -/
theorem idle_means_fresh (fixed : Bool) (prog : List Op) (clock : Int) (acts : List Act)
    (hidle : (runA fixed (init prog clock) acts).tr.idle = true) :
    nDrain (runA fixed (init prog clock) acts).th.stack = 0 := by
  obtain ⟨o, hs, _⟩ := (reach fixed prog clock acts).i1
  have := (shape_counts hs).2
  rw [this, hidle]; rfl

/-! ## Non-vacuity and the past-due deviation (DESIGN §6 #15, first half) -/

/-- A schedules B (cancels it later), C, and a timed D; C schedules E; B is cancelled by A. -/
private def progA : List Op :=
  [.sched 1 [.sched 2 [.tick 5], .sched 3 [.sched 5 [], .tick 3], .schedRel 4 100 [], .cancel 2, .tick 7]]

private def evName : Ev → Option (String × Nat × Int)
  | .start id _ _ clk => some ("start", id, clk)
  | .raised id => some ("raised", id, 0)
  | .fin id => some ("fin", id, 0)
  | .skip id => some ("skip", id, 0)
  | _ => none

/-- the run: A, (B skipped), C, E, wait until 100, D — D not before its due time. -/
example : ((exec false 100 (init progA)).th.log.reverse.filterMap evName) =
    [("start", 1, 0), ("fin", 1, 0), ("skip", 2, 0), ("start", 3, 7), ("fin", 3, 0), ("start", 5, 10), ("fin", 5, 0),
     ("start", 4, 100), ("fin", 4, 0)] := by decide
example : (exec false 100 (init progA)).th.stack = [] ∧ (exec false 100 (init progA)).tr.idle = true := by decide

/-- a raising action: A schedules B and C; B raises — C (already in the loop's batch) and D (queued by B) are
discarded, the trampoline is idle and empty; the next top-level schedule (E) runs in a fresh drain loop. -/
private def progRaise : List Op := [.sched 1 [.sched 2 [.schedRel 4 5 [], .raise_], .sched 3 []], .sched 5 []]
example : ((exec true 100 (init progRaise)).th.log.reverse.filterMap evName) =
    [("start", 1, 0), ("fin", 1, 0), ("start", 2, 0), ("raised", 2, 0), ("start", 5, 0), ("fin", 5, 0)] := by decide
example : (exec true 100 (init progRaise)).tr.idle = true ∧ (exec true 100 (init progRaise)).tr.queue.length = 0 := by decide

/-- the past-due deviation: B (running from a ready batch [B, C]) schedules P with an absolute due time in
the past; P runs AFTER C although P is due earlier.  `NoPast` fails for this log, so `tramp_due_order`
does not apply; the property's quantifier (schedule / schedule_relative / cancel) excludes it. -/
private def progPast : List Op := [.sched 1 [.sched 2 [.schedAbs 9 (-5) []], .sched 3 []]]
example : ((exec false 100 (init progPast)).th.log.reverse.filterMap evName).filterMap
    (fun e => if e.1 = "start" then some e.2.1 else none) = [1, 2, 3, 9] := by decide
theorem past_due_runs_after_batch :
    ¬ (startsL (exec false 100 (init progPast)).th.log).Pairwise (fun a b => a.1 ≤ b.1) := by decide

/-! ## Several threads -/

theorem mreach (fixed : Bool) (ntr : Nat) (progs : List (Nat × List Op)) (clock : Int) (sched : List (Nat × Nat)) :
    MInv fixed ((Sys.init ntr progs clock).run fixed sched) :=
  minv_run fixed _ sched (minv_init fixed ntr progs clock)

/-- **Each thread's trampoline is independent** (CurrentThreadScheduler): in a system of any number of
threads and trampolines, a thread `i` that is the only user of its trampoline `k` evolves — under EVERY
interleaving `sched` with the other threads — exactly as the single-thread machine does under some
sequence of `go`/`env` actions.  Hence `tramp_never_nested`, `tramp_fifo_equal_due`, `tramp_due_order`,
`tramp_not_before_due`, `tramp_cancelled_never_run`, `nested_runs_after_return` hold for that thread
verbatim, whatever the other threads do. -/
theorem per_thread_independent (fixed : Bool) (ntr : Nat) (progs : List (Nat × List Op)) (clock : Int)
    (i k : Nat) (sched : List (Nat × Nat)) (ho : (Sys.init ntr progs clock).owns i k) :
    ∃ acts st, (Sys.init ntr progs clock).proj i k = some st ∧
      ((Sys.init ntr progs clock).run fixed sched).proj i k = some (runA fixed st acts) :=
  proj_run fixed _ i k sched ho

/-- the projection of the initial system on an owning thread is the single-thread initial state -/
theorem proj_init (ntr : Nat) (progs : List (Nat × List Op)) (clock : Int) (i k : Nat) (p : List Op)
    (hi : progs[i]? = some (k, p)) (hk : k < ntr) :
    (Sys.init ntr progs clock).proj i k = some (init p clock) := by
  simp [Sys.proj, Sys.init, hi, hk, init]

/-- **Shared TrampolineScheduler: mutual exclusion of the drain loop.**  For every trampoline, in every
reachable state of every interleaving of any number of threads, the number of active drain loops
(`Trampoline._run` activations, over all threads using it) is 1 if the trampoline is not idle and 0 if
it is — in particular never 2. -/
theorem shared_drain_mutex (fixed : Bool) (ntr : Nat) (progs : List (Nat × List Op)) (clock : Int)
    (sched : List (Nat × Nat)) (k : Nat) (tr : Tr)
    (hk : ((Sys.init ntr progs clock).run fixed sched).trs[k]? = some tr) :
    sumBy (drainsOn k) ((Sys.init ntr progs clock).run fixed sched).ths = (!tr.idle).toNat ∧
    sumBy (drainsOn k) ((Sys.init ntr progs clock).run fixed sched).ths ≤ 1 := by
  have := (mreach fixed ntr progs clock sched).mutex k tr hk
  exact ⟨this, by rw [this]; exact Bool.toNat_le _⟩

/-- an idle trampoline has an empty queue (both variants; the code as it is achieves this by CLEARING) -/
theorem idle_queue_empty (fixed : Bool) (ntr : Nat) (progs : List (Nat × List Op)) (clock : Int)
    (sched : List (Nat × Nat)) (k : Nat) (tr : Tr)
    (hk : ((Sys.init ntr progs clock).run fixed sched).trs[k]? = some tr) (hi : tr.idle = true) : tr.queue = [] :=
  (mreach fixed ntr progs clock sched).idleEmpty k tr hk hi

theorem out_of_done (k : Nat) (l : List (Nat × Th)) (hd : ∀ p ∈ l, p.2.stack.isEmpty = true) :
    sumBy (outOn k) l = sumBy (fun p => if p.1 = k then nOut p.2.log else 0) l := by
  induction l with
  | nil => rfl
  | cons p ps ih =>
    have h1 := hd p (by simp)
    rcases p with ⟨k', ⟨st, lg⟩⟩
    simp only [List.isEmpty_iff] at h1
    subst h1
    simp only [sumBy_cons, outOn, readyOf, List.length_nil, Nat.add_zero]
    rw [ih (fun q hq => hd q (by simp [hq]))]

theorem done_facts (s : Sys) (hd : s.done = true) (k : Nat) :
    sumBy (drainsOn k) s.ths = 0 ∧ sumBy (outOn k) s.ths = sumBy (fun p => if p.1 = k then nOut p.2.log else 0) s.ths := by
  simp only [Sys.done, List.all_eq_true] at hd
  constructor
  · apply sumBy_eq_zero_of_forall
    intro p hp
    have := hd p hp
    rcases p with ⟨k', ⟨st, lg⟩⟩
    simp only [List.isEmpty_iff] at this
    subst this
    simp [drainsOn, nDrain]
  · exact out_of_done k s.ths hd

/-- **With the fix, no action is lost on a shared trampoline**: when every thread has returned, on every
trampoline the number of enqueued items equals the number of items taken out of a ready batch (started,
or found cancelled) — under every interleaving of any number of threads — provided no action raised on that
trampoline (a raising action discards what is pending, by design: `raise_resets_trampoline`). -/
theorem shared_fixed_no_item_lost (ntr : Nat) (progs : List (Nat × List Op)) (clock : Int)
    (sched : List (Nat × Nat)) (k : Nat) (hk : k < ntr)
    (hd : ((Sys.init ntr progs clock).run true sched).done = true)
    (hnr : ∀ tr, ((Sys.init ntr progs clock).run true sched).trs[k]? = some tr → tr.raisedG = false) :
    sumBy (enqOn k) ((Sys.init ntr progs clock).run true sched).ths
      = sumBy (fun p => if p.1 = k then nOut p.2.log else 0) ((Sys.init ntr progs clock).run true sched).ths := by
  have inv := mreach true ntr progs clock sched
  have hlen : ∀ (sc : List (Nat × Nat)) (s : Sys), (s.run true sc).trs.length = s.trs.length := by
    intro sc
    induction sc with
    | nil => intro s; rfl
    | cons p ps ih =>
      intro s
      simp only [Sys.run, List.foldl_cons] at ih ⊢
      rw [ih]
      simp only [Sys.step]
      split
      · rfl
      · split
        · rfl
        · simp
  generalize hs : (Sys.init ntr progs clock).run true sched = s at *
  have hk' : k < s.trs.length := by
    rw [← hs, hlen]; simp [Sys.init, hk]
  obtain ⟨tr, htr⟩ : ∃ tr, s.trs[k]? = some tr := ⟨s.trs[k], List.getElem?_eq_getElem hk'⟩
  obtain ⟨d0, d1⟩ := done_facts s hd k
  have hm := inv.mutex k tr htr
  have hidle : tr.idle = true := by
    cases hi : tr.idle
    · simp [hi] at hm; omega
    · rfl
  have hq := inv.idleEmpty k tr htr hidle
  have hc := inv.cons rfl k tr htr (hnr tr htr)
  rw [hq, d1] at hc
  simpa using hc

/-- **The code as it is loses an action on a shared TrampolineScheduler** (DESIGN §6 #15, second half).
Threads 0 and 1 share trampoline 0 and each schedule one action.  Thread 0 drains: runs its action,
finds the queue empty (`check`), and is preempted before `finally: … queue.clear()`.  Thread 1 enqueues
its action (the trampoline is not idle, so it just returns).  Thread 0's `finally` clears the queue:
action 2 is dropped — enqueued, never cancelled, never started, and everything has returned. -/
private def sharedProgs : List (Nat × List Op) := [(0, [.sched 1 []]), (0, [.sched 2 []])]
private def dropSched : List (Nat × Nat) :=
  [(0,0),(0,0),(0,0),(0,0),(0,0),(0,0),(0,0),   -- t0: sched, enq(runner), collect, start 1, fin 1, exec[]->check, check->final pending
   (1,0),(1,0),(1,0),                            -- t1: sched, enq (not runner), return
   (0,0),(0,0)]                                  -- t0: finally (clears), return
theorem shared_clear_drops_item :
    let s := (Sys.init 1 sharedProgs).run false dropSched
    s.done = true ∧ sumBy (enqOn 0) s.ths = 2 ∧ sumBy (fun p => if p.1 = 0 then nOut p.2.log else 0) s.ths = 1 ∧
    (∃ th, s.ths[0]? = some (0, th) ∧ Ev.final [2] ∈ th.log) := by
  refine ⟨by decide, by decide, by decide, ?_⟩
  exact ⟨_, rfl, by decide⟩
/-- the same schedule with the fix: both actions run. -/
example : let s := (Sys.init 1 sharedProgs).run true (dropSched ++ List.replicate 8 (1, 0))
    s.done = true ∧ sumBy (enqOn 0) s.ths = 2 ∧ sumBy (fun p => if p.1 = 0 then nOut p.2.log else 0) s.ths = 2 := by decide

end C30

import RxProofs.Lemmas.TimedShift
import RxProofs.Lemmas.TimedDelay
import RxProofs.Lemmas.TimedMap
/-!
# C15 — time-shifting operators move notifications by the requested time

Property theorems only (helper lemmas: `RxProofs/Lemmas/TimedShift.lean`, `TimedDelay.lean`, `TimedMap.lean`; models:
`RxModel/TimedShift.lean`, `RxModel/TimedMap.lean`).  `delayRun` mirrors `observable_delay_timespan` (the
materialize+timestamp queue, `active`, `running`, `exception`, the recursive scheduled action) against the source
timeline with the virtual-time `(due, seq)` rule inlined: a source message due at the same instant as the action runs
first.  All theorems hold for every timeline with non-decreasing times (`Mono`) — bursts at one instant included —, every
delay `d ≥ 0` (an absolute due time `D` is `d = D - subscription time`), every element type.
-/

namespace C15
open Timed

/-- **delay_shift.**  Every element and the completion are delivered exactly `d` later, in order; an error is
delivered at its own time and everything not yet delivered by then (due `≥` the error's time) is dropped (`delaySpec`).
Full strength: no gap hypothesis. -/
theorem delay_shift {α} (d lo : Nat) (msgs : TL α) (h : Mono lo msgs) : delayRun d msgs = delaySpec d msgs :=
  delay_run_eq_spec d lo msgs h

/-- the completing case spelled out -/
theorem delay_shift_completed {α} (d lo tc : Nat) (msgs : TL α) (h : Mono lo msgs)
    (hf : firstTerminal msgs = some (tc, .completed)) :
    delayRun d msgs = (nexts msgs).map (shiftEl d) ++ [(tc + d, .completed)] := by
  rw [delay_shift d lo msgs h]; simp [delaySpec, hf]

/-- **delay_error_immediate.**  A source error at `te` reaches the subscriber at `te`; exactly the elements whose due
time `t + d` is earlier than `te` were delivered before it (each at `t + d`), the pending ones are dropped. -/
theorem delay_error_immediate {α} (d lo te : Nat) (e : Err) (msgs : TL α) (h : Mono lo msgs)
    (hf : firstTerminal msgs = some (te, .error e)) :
    delayRun d msgs = ((nexts msgs).filter (fun x => decide (x.1 + d < te))).map (shiftEl d) ++ [(te, .error e)] := by
  rw [delay_shift d lo msgs h]; simp [delaySpec, hf]

/-- the queue/flag invariant behind it: between handler calls `active` holds and an action is pending exactly when the
queue is non-empty, and that action is due at the head entry's due time -/
theorem delay_invariant {α} (d t lo : Nat) (s : DelaySt α) (n : Notif α) (hI : DInv s (lo + d)) (hlo : lo ≤ t) :
    DInv (delayEnqueue d t (delayAdvance (some t) s).1 n) (t + d) :=
  (enqueue_inv d t (lo + d) _ n (advance_spec (some t) (lo + d) s hI).2.2 (Nat.add_le_add_right hlo d)).2

/-- a burst at one instant, then a gap of exactly `d`, completion with elements pending -/
example : delayRun 10 [(201, Notif.next 1), (201, .next 2), (211, .next 3), (212, .completed)]
    = [(211, .next 1), (211, .next 2), (221, .next 3), (222, .completed)] := by
  rw [delay_shift 10 0 _ (by decide)]; decide
/-- an error exactly when an element is due: the source wins the tie, the element is dropped -/
example : delayRun 10 [(201, Notif.next 1), (205, .next 2), (215, .error "e")] = [(211, .next 1), (215, .error "e")] := by
  rw [delay_shift 10 0 _ (by decide)]; decide
/-- zero delay -/
example : delayRun 0 [(201, Notif.next 1), (201, .next 2), (201, .completed)]
    = [(201, .next 1), (201, .next 2), (201, .completed)] := by
  rw [delay_shift 0 0 _ (by decide)]; decide

/-- **delay_subscription_shift.**  `delay_subscription(d)` subscribes the source at `S = sub + d` (what is fed to `dsRun`
is the source as seen from `S`: `Timed.hot S` / `Timed.cold S`), and then relays it unchanged — except that elements
arriving at the very instant of a source error are dropped with it (their zero-length `empty()` delays are still queued
when the error disposes them). -/
theorem delay_subscription_shift {α} (lo : Nat) (msgs : TL α) (h : Mono lo msgs) : dsRun [] msgs = dsSpec msgs := by
  rw [ds_run_eq_G msgs [] lo h List.Pairwise.nil (by simp)]
  unfold dsG dsSpec
  cases hf : firstTerminal msgs with
  | none => simp [conform_eq, hf]
  | some Tn =>
    obtain ⟨T, n⟩ := Tn
    cases n with
    | next v => exact absurd hf (firstTerminal_not_next msgs T v)
    | error e => simp [conform_eq, hf]
    | completed => simp [conform_eq, hf]

/-- without an error the source is relayed exactly -/
theorem delay_subscription_relay {α} (lo : Nat) (msgs : TL α) (h : Mono lo msgs)
    (hne : ∀ te e, firstTerminal msgs ≠ some (te, .error e)) : dsRun [] msgs = conform msgs := by
  rw [delay_subscription_shift lo msgs h]
  unfold dsSpec
  cases hf : firstTerminal msgs with
  | none => rfl
  | some Tn =>
    obtain ⟨T, n⟩ := Tn
    cases n with
    | error e => exact absurd hf (hne T e)
    | next v => rfl
    | completed => rfl

example : dsRun [] (hot 230 [(210, Notif.next 1), (230, .next 2), (231, .next 3), (240, .completed)])
    = [(231, .next 3), (240, .completed)] := by decide

/-- **dwm_emit_on_first_signal.**  In any state of delay_with_mapper, a signal (`next` or `completed`) of the delay
observable of a waiting element `x` delivers `x` at once and stops waiting for it; signals of delay observables that are
not (or no longer) waited for do nothing. -/
theorem dwm_emit_on_first_signal {α} (raises : Nat → α → Option Err) (s : DwmSt α) (k : Nat) :
    (∀ k' x sig, s.delays.find? (fun p => p.1 == k) = some (k', x) → (∀ e, sig ≠ .error e) →
        (dwmStep raises s (.inner k sig)).out.head? = some (.next x)
        ∧ ∀ p ∈ (dwmStep raises s (.inner k sig)).st.delays, p.1 ≠ k)
    ∧ (s.delays.find? (fun p => p.1 == k) = none → ∀ sig,
        (dwmStep raises s (.inner k sig)).out = [] ∧ (dwmStep raises s (.inner k sig)).st = s) := by
  constructor
  · intro k' x sig hf hne
    cases sig with
    | error e => exact absurd rfl (hne e)
    | next =>
      simp only [dwmStep, hf, dwmFinish, List.cons_append, List.nil_append, List.head?_cons, true_and]
      intro p hp; have := (List.mem_filter.1 hp).2; simpa using this
    | completed =>
      simp only [dwmStep, hf, dwmFinish, List.cons_append, List.nil_append, List.head?_cons, true_and]
      intro p hp; have := (List.mem_filter.1 hp).2; simpa using this
  · intro hf sig
    simp [dwmStep, hf]

/-- **dwm_each_element_once.**  Once element `k` is no longer waited for it never is again, whatever happens next: so
only the *first* signal of its delay observable delivers it. -/
theorem dwm_each_element_once {α} (raises : Nat → α → Option Err) (s : DwmSt α) (k : Nat) (h : DwmFired s k)
    (evs : List (MEv α)) : DwmFired (evs.foldl (fun st ev => (dwmStep raises st ev).st) s) k := by
  induction evs generalizing s with
  | nil => exact h
  | cons ev evs ih => exact ih _ (dwm_fired_step raises s ev k h)

/-- **dwm_completes_when_drained.**  Completion goes downstream only from the step after which the source has
completed and no element is waiting. -/
theorem dwm_completes_when_drained {α} (raises : Nat → α → Option Err) (s : DwmSt α) (ev : MEv α)
    (h : Notif.completed ∈ (dwmStep raises s ev).out) :
    (dwmStep raises s ev).st.atEnd = true ∧ (dwmStep raises s ev).st.delays = [] := by
  have key : ∀ (s' : DwmSt α) (o : List (Notif α)), Notif.completed ∉ o → Notif.completed ∈ (dwmFinish s' o).out →
      (dwmFinish s' o).st.atEnd = true ∧ (dwmFinish s' o).st.delays = [] := by
    intro s' o ho hm
    simp only [dwmFinish, List.mem_append] at hm
    rcases hm with hm | hm
    · exact absurd hm ho
    · simp only [dwmDone] at hm
      split at hm
      · rename_i hc
        simp only [Bool.and_eq_true, List.isEmpty_iff] at hc
        exact ⟨hc.1, hc.2⟩
      · cases hm
  cases ev with
  | sub sg => cases hl : s.subLive <;> cases sg <;> simp [dwmStep, hl] at h
  | src n =>
    cases hl : s.srcLive
    · simp [dwmStep, hl] at h
    · cases n with
      | next x => cases hr : raises s.count x <;> simp [dwmStep, hl, hr] at h
      | error e => simp [dwmStep, hl] at h
      | completed =>
        simp only [dwmStep, hl, if_true] at h ⊢
        exact key _ [] (by simp) h
  | inner k sig =>
    cases hf : s.delays.find? (fun p => p.1 == k) with
    | none => simp [dwmStep, hf] at h
    | some kx =>
      obtain ⟨k', x⟩ := kx
      cases sig with
      | error e => simp [dwmStep, hf] at h
      | next =>
        simp only [dwmStep, hf] at h ⊢
        exact key _ [.next x] (by simp) h
      | completed =>
        simp only [dwmStep, hf] at h ⊢
        exact key _ [.next x] (by simp) h

/-- **dwm_run_eq_spec.**  For every event trace — any interleaving of source notifications, signals of the delay
observables (live, finished, stale, never subscribed) and of the subscription delay — the code (CompositeDisposable
`delays`, `at_end`, Serial `subscription`) behaves as the history rule `dwmSpec`: an element is delivered by the first
signal (element or completion) of its own delay observable and by nothing else; the completion goes out once the source
has completed and every element seen has been delivered; errors end the sequence. -/
theorem dwm_run_eq_spec {α} (raises : Nat → α → Option Err) (hasSubDelay : Bool) (tr : List (Nat × MEv α)) :
    dwmRun raises hasSubDelay tr = dwmSpec raises hasSubDelay tr :=
  Timed.dwm_run_eq_spec raises hasSubDelay tr

/-- the rule read off `dwmSpec`: (1) the first signal of the delay observable of a seen, not yet delivered element
delivers it and records it as fired; (2) a signal for a fired ordinal does nothing — so every element is delivered
exactly once —; (3) `fired` only grows. -/
theorem dwm_spec_exactly_once {α} (raises : Nat → α → Option Err) (a : DwmAbs α) (k : Nat) :
    (∀ k' x sig, a.fired.contains k = false → a.seen.find? (fun p => p.1 == k) = some (k', x) → (∀ e, sig ≠ Sig.error e) →
        (dwmAbsStep raises a (.inner k sig)).out.head? = some (.next x) ∧ k ∈ (dwmAbsStep raises a (.inner k sig)).st.fired)
    ∧ (a.fired.contains k = true → ∀ sig, (dwmAbsStep raises a (.inner k sig)).out = []
        ∧ (dwmAbsStep raises a (.inner k sig)).st.fired = a.fired)
    ∧ (∀ ev, k ∈ a.fired → k ∈ (dwmAbsStep raises a ev).st.fired) := by
  refine ⟨?_, ?_, ?_⟩
  · intro k' x sig hf hs hne
    cases sig with
    | error e => exact absurd rfl (hne e)
    | next => simp only [dwmAbsStep, hf, Bool.false_eq_true, if_false, hs, dwmAbsFinish]; simp
    | completed => simp only [dwmAbsStep, hf, Bool.false_eq_true, if_false, hs, dwmAbsFinish]; simp
  · intro hf sig
    simp only [dwmAbsStep, hf, if_true]; simp
  · intro ev hk
    cases ev with
    | sub sg => cases hl : a.subLive <;> cases sg <;> simp [dwmAbsStep, hl, hk]
    | src n =>
      cases hl : a.srcLive
      · simp [dwmAbsStep, hl, hk]
      · cases n with
        | next x => cases hr : raises a.count x <;> simp [dwmAbsStep, hl, hr, hk]
        | error e => simp [dwmAbsStep, hl, hk]
        | completed => simp [dwmAbsStep, hl, hk, dwmAbsFinish]
    | inner j sig =>
      cases hc : a.fired.contains j
      · cases hfind : a.seen.find? (fun p => p.1 == j) with
        | none => simp only [dwmAbsStep, hc, hfind, Bool.false_eq_true, if_false]; exact hk
        | some kx =>
          obtain ⟨k', x⟩ := kx
          cases sig <;> simp only [dwmAbsStep, hc, hfind, Bool.false_eq_true, if_false, dwmAbsFinish] <;> simp [hk]
      · simp only [dwmAbsStep, hc, if_true]; exact hk

/-- element 0 delivered at the first signal of its delay observable; the later signal and the stale one do nothing;
completion once the source completed and nothing waits -/
example : dwmRun (fun _ _ => none) false
    [(210, MEv.src (.next "a")), (215, .src (.next "b")), (220, .inner 0 .next), (222, .inner 0 .completed),
     (225, .src .completed), (230, .inner 1 .completed)]
    = [(220, .next "a"), (230, .next "b"), (230, .completed)] := by decide

/-- **timestamp_is_clock.**  Every element is paired with the clock reading at its delivery. -/
theorem timestamp_is_clock {α} (msgs : TL α) : tsRun msgs = tsSpec msgs := ts_run_eq_spec msgs

/-- **time_interval_diffs.**  Every element is paired with the time since the previous element (since the subscription
for the first one). -/
theorem time_interval_diffs {α} (sub : Nat) (msgs : TL α) : tiRun sub msgs = tiSpec sub msgs := ti_run_eq_spec msgs sub

example : tiRun 200 [(210, Notif.next "a"), (210, .next "b"), (225, .next "c"), (230, .completed)]
    = [(210, .next ("a", 10)), (210, .next ("b", 0)), (225, .next ("c", 15)), (230, .completed)] := by decide

end C15
